package main

import (
	"fmt"
	"go/constant"
	"go/token"
	"go/types"
	"sort"
	"strconv"
	"strings"

	"golang.org/x/tools/go/ssa"
)

func init() {
	props["C11"] = &propDef{extraPkgs: []string{jsonPatchPkg}, run: runC11, explanation: "C11 decided statically across the validator and the RFC 6902 library (loaded from source): (X1) K_lib = the operation-map members whose decoded string reaches the pointer argument of the library's findObject (extracted from the library's SSA: today {path, from}); for every member in K_lib and both protected prefixes, every iteration of the validator's per-operation loop crosses the rejecting test strings.HasPrefix(decoded member, prefix) unless the member is absent / null / not a string (cases in which the library substitutes the unusable pointer \"unknown\"); an accepting return inside the loop is a failure (for-all form); (K1) the two prefixes are \"/\"+document.ServiceProperty and \"/\"+document.PublicKeyProperty, the constants through which the composer and accessors address those members; validator and composer decode the patch with the same library function; (G1) in every applier path ApplyPatches(…, op.Delta.Patches) lies behind ValidateDelta(op.Delta) on the same delta, and ValidateDelta validates every patch. Argued, not checked: RFC 6901 escapes cannot spell the protected names; the root pointer cannot be added/replaced in library v4.1.0. (X3) the composer applies a validated ietf-json-patch through the library only (the same fold rule as C10.P1). Validator and composer decode json.Marshal of the patch's own value; 'does not start with the protected prefix' is recognised in every spelling. Patch application reads no package-level state that changes after initialisation (no result cache). The fold rule and the patch accessor rules run inside this check. C10.E1's ietf-json-patch rules and the fold rule's C19.G / C19.H obligations run here. Every operation of the patch's list is inspected. The decoded operation list is not rewritten while it is walked."}
}

func runC11(c *Ctx) {
	lib := c.SPkg[jsonPatchPkg]
	if lib == nil || lib.Func("DecodePatch") == nil || lib.Func("DecodePatch").Blocks == nil {
		c.Unresolved("C11.X1", jsonPatchPkg+" (library source not loaded)")
		return
	}
	findObject := lib.Func("findObject")
	if findObject == nil {
		c.Unresolved("C11.X1", "json-patch findObject")
		return
	}
	// ---- K_lib
	klib := map[string]bool{}
	nSites := 0
	for _, f := range allFuncs(lib) {
		for _, cl := range callsTo(f, findObject) {
			nSites++
			c.Analysed(f)
			arg := cl.Call.Args[1]
			src, ok := arg.(*ssa.Call)
			if !ok || src.Call.StaticCallee() == nil {
				klib["<unrecognised pointer source: "+c.Path(arg, nil)+">"] = true
				continue
			}
			m := src.Call.StaticCallee()
			c.Analysed(m)
			found := false
			forEachInstr(m, func(in ssa.Instruction) {
				lk, isL := in.(*ssa.Lookup)
				if !isL {
					return
				}
				if k, isK := lk.Index.(*ssa.Const); isK && c.Path(lk.X, nil) == "$0" {
					klib[unquote(c.Path(k, nil))] = true
					found = true
				}
			})
			if !found {
				klib["<no member lookup in "+m.Name()+">"] = true
			}
		}
	}
	var keys []string
	for k := range klib {
		keys = append(keys, k)
	}
	sort.Strings(keys)
	okLib := nSites >= 6 && len(keys) > 0
	for _, k := range keys {
		if strings.HasPrefix(k, "<") {
			okLib = false
		}
	}
	c.Check("C11.X1", "library:pointer-members", okLib, findObject.Pos(), fmt.Sprintf("json-patch: %d findObject call sites; operation members consumed as JSON pointers: %v", nSites, keys))
	if ver := c.TPkg[jsonPatchPkg]; ver != nil && ver.Module != nil {
		c.Note("json-patch module version %s", ver.Module.Version)
	}

	// ---- validator function V: iterates a jsonpatch.Patch
	patchT := c.NamedTypeIn(jsonPatchPkg, "Patch")
	var V *ssa.Function
	for _, f := range c.Funcs {
		if pkgPathOf(f) != modPkg+pPV {
			continue
		}
		forEachInstr(f, func(in ssa.Instruction) {
			if ia, ok := in.(*ssa.IndexAddr); ok && patchT != nil && types.Identical(ia.X.Type(), patchT) {
				V = f
			}
			if ia, ok := in.(*ssa.Index); ok && patchT != nil && types.Identical(ia.X.Type(), patchT) {
				V = f
			}
		})
	}
	if V == nil {
		c.Unresolved("C11.X1", "validator function iterating a jsonpatch.Patch in patchvalidator")
		return
	}
	c.Analysed(V)
	_ = c.ExtFn("strings", "HasPrefix")
	svc, _ := c.ConstVal("document", "ServiceProperty")
	pk, _ := c.ConstVal("document", "PublicKeyProperty")
	prefixes := []string{"/" + unquote(svc), "/" + unquote(pk)}
	c.Check("C11.K1", "prefix-constants", prefixes[0] == "/service" && prefixes[1] == "/publicKey", V.Pos(), fmt.Sprintf("protected prefixes derive from document.ServiceProperty / PublicKeyProperty: %v", prefixes))

	memberOf := func(path, K string) bool { return strings.Contains(path, `["`+K+`"]`) }
	// (a decoding helper of the validator — `decodeJSONPointer(msg, name) (string, error)`: one success exit handing back
	// the variable json.Unmarshal filled — reads as the decoded member it is handed)
	{
		jsonU := c.ExtFn("encoding/json", "Unmarshal")
		saved := c.inlineFns
		c.inlineFns = map[*ssa.Function]bool{}
		for k, v := range saved {
			c.inlineFns[k] = v
		}
		defer func() { c.inlineFns = saved }()
		for _, g := range c.helpersOf(V, 2) {
			srs := successReturns(g)
			if len(srs) != 1 || len(srs[0].Results) != 2 {
				continue
			}
			ld, isLd := returnedValue(srs[0], 0).(*ssa.UnOp)
			if !isLd || ld.Op != token.MUL {
				continue
			}
			al, isAl := ld.X.(*ssa.Alloc)
			if !isAl {
				continue
			}
			filled := false
			for _, cl := range callsTo(g, jsonU) {
				if mi, isMI := cl.Call.Args[1].(*ssa.MakeInterface); isMI && mi.X == ssa.Value(al) {
					filled = true
				}
			}
			if filled {
				c.inlineFns[g] = true
			}
		}
	}
	for _, K := range keys {
		if strings.HasPrefix(K, "<") {
			continue
		}
		for _, P := range prefixes {
			K, P := K, P
			chk := &GCheck{Name: fmt.Sprintf("HasPrefix(decoded %q member, %q) rejected — or member absent/null/undecodable", K, P),
				MatchCall: func(c *Ctx, call *ssa.Call, env Env) bool {
					// (a) undecodable member: json.Unmarshal(member, &s) failing is an accepted way out (library then uses "unknown")
					// handled below as the error edge; here: HasPrefix on the decoded member
					return false
				}}
			// success edges: any test whose outcome shows that the decoded member does not start with P — a prefix test
			// (HasPrefix, or the ok of CutPrefix) against P or a prefix of P answering false, or the member being empty
			isDecodedK := func(a string) bool { return strings.HasPrefix(a, "decoded(") && memberOf(a, K) }
			hp := anyOf(chk.Name,
				&GCheck{Name: "HasPrefix(member, P) false", BoolFalse: true, MatchCall: func(c *Ctx, call *ssa.Call, env Env) bool {
					a0, pre, ok := c.prefixTest(call, env)
					return ok && pre != "" && strings.HasPrefix(P, pre) && isDecodedK(a0)
				}},
				&GCheck{Name: "CutPrefix(member, P) not found", BoolFalse: true, MatchCall: func(c *Ctx, call *ssa.Call, env Env) bool {
					g := call.Call.StaticCallee()
					if g == nil || g.String() != "strings.CutPrefix" {
						return false
					}
					k, isK := call.Call.Args[1].(*ssa.Const)
					return isK && k.Value != nil && k.Value.Kind() == constant.String && constant.StringVal(k.Value) != "" && strings.HasPrefix(P, constant.StringVal(k.Value)) && isDecodedK(c.Path(call.Call.Args[0], env))
				}},
				cmpAccept(`member == ""`, token.EQL, isDecodedK, pathIs(`""`)))
			c.checkPointerMember("C11.X1", V, K, P, hp, memberOf)
		}
	}
	c.Min("C11.X1", 1+2*2)

	// ---- X2: pointer well-formedness. The library's findObject splits the pointer at "/" and ignores the
	// text before the first "/" — unless it checks that text to be empty, a pointer such as "x/service"
	// addresses the root member "service" while evading every "/service" prefix test. Either the library
	// enforces the leading "/", or the validator must (for every pointer member, for every operation).
	{
		libOK, _, nLib := c.Guard(findObject, nil, cmpReject(`text before the first "/" must be empty`, token.NEQ, pathIs(`strings.Split($1,"/")[0]`), pathIs(`""`)), func(in ssa.Instruction) bool {
			r, ok := in.(*ssa.Return)
			return ok && c.Path(r.Results[0], nil) != "nil"
		})
		libEnforces := libOK && nLib > 0
		c.Note("json-patch findObject enforces a leading '/': %v", libEnforces)
		if !libEnforces {
			for _, K := range keys {
				if strings.HasPrefix(K, "<") {
					continue
				}
				K := K
				isDecodedK := func(a string) bool { return strings.HasPrefix(a, "decoded(") && memberOf(a, K) }
				chk := anyOf(fmt.Sprintf("%q pointer is empty or starts with \"/\" (or member absent/null/undecodable)", K),
					&GCheck{Name: `HasPrefix(pointer, "/")`, MatchCall: func(c *Ctx, call *ssa.Call, env Env) bool {
						if g := call.Call.StaticCallee(); g != nil && g.String() == "strings.CutPrefix" {
							// rest, ok := strings.CutPrefix(pointer, "/"): ok is the same test
							return c.Path(call.Call.Args[1], env) == `"/"` && isDecodedK(c.Path(call.Call.Args[0], env))
						}
						a0, pre, ok := c.prefixTest(call, env)
						return ok && pre == "/" && isDecodedK(a0)
					}},
					// (the first byte compared with '/': the same test, written on the byte)
					cmpAccept(`pointer[0] == '/'`, token.EQL, func(a string) bool { return strings.HasSuffix(a, "[0]") && isDecodedK(strings.TrimSuffix(a, "[0]")) }, pathIs("47")),
					cmpAccept(`pointer == ""`, token.EQL, isDecodedK, pathIs(`""`)))
				c.checkPointerMember("C11.X2", V, K, "well-formed", chk, memberOf)
			}
		} else {
			c.Check("C11.X2", "library-enforces-leading-slash", true, findObject.Pos(), "the library itself rejects pointers whose first component is not empty")
		}
	}
	c.Min("C11.X2", 1)
	// the composer applies a validated ietf-json-patch through the library only: no other code path produces document
	// bytes from an operation (the pointer rules above are rules about what the *library* does with a pointer)
	c.jsonPatchFoldRule("C11.X3")
	// … and what a JSON patch produced is what the next patch sees: the fold over the list hands each result to the
	// next step and to nothing that may store into it (a "carry the keys over" step between two patches restores or
	// replaces keys and services outside the dedicated actions)
	c.applyPatchesFoldRule("C10.P1")
	// validator and composer read the operations of one patch through the same accessor: it hands back exactly the member
	// stored under the action's value key (a case-tolerant fallback that ranges over the map can hand each of them a
	// different member)
	_, cfgFn := c.actionValueKeys()
	c.patchAccessorRules(cfgFn)
	// the composer computes each result from the document and the patch it is given, and from nothing it remembered:
	// a result cache that hands out a remembered document lets a later key / service action rewrite what a JSON patch
	// "produces"
	if ap := c.Method(pComposer, "DocumentComposer", "ApplyPatches"); ap != nil {
		c.statelessRule("C11.X3", "patch application", []*ssa.Function{ap})
	}
	c.Min("C11.X3", 3)

	// validator and composer use the same decoder, on the patch's own value
	decode := lib.Func("DecodePatch")
	applyJSON := c.composerHandlers()["ietf-json-patch"]
	deepCalls := func(f *ssa.Function) int {
		n := 0
		if f == nil {
			return 0
		}
		for _, g := range c.reachableModuleFuncs([]*ssa.Function{f}) {
			n += len(callsTo(g, decode))
		}
		return n
	}
	// … and what each of them decodes is the JSON text of the patch's own value: not of a typed or filtered copy (a
	// copy decoded by encoding/json matches member names case-insensitively and drops unknown members, so the two
	// sides would read different operations out of one patch)
	for _, side := range []struct {
		name string
		f    *ssa.Function
	}{{"validator", pvJSONValidate(c, V)}, {"composer", applyJSON}} {
		if side.f == nil {
			continue
		}
		tcs := c.treeCalls(side.f, nil, 0, func(cl *ssa.Call, env Env) bool { return cl.Call.StaticCallee() == decode })
		okSrc := len(tcs) == 1
		src := ""
		if okSrc {
			src = c.Path(tcs[0].call.Call.Args[0], tcs[0].env)
			inner := strings.TrimSuffix(strings.TrimPrefix(src, "encoding/json.Marshal("), ")#0")
			okSrc = strings.HasPrefix(src, "encoding/json.Marshal(") && strings.HasSuffix(src, ")#0") && strings.Contains(inner, "$") && !strings.Contains(inner, "new<") && !strings.Contains(inner, "make") && !strings.Contains(inner, "decoded(")
		}
		c.Check("C11.K1", "decoder-input:"+side.name, okSrc, side.f.Pos(), fmt.Sprintf("%s decodes json.Marshal of the patch's own value (%s)", side.name, src))
	}
	c.Check("C11.K1", "same-decoder", deepCalls(V) == 1 && applyJSON != nil && deepCalls(applyJSON) == 1, V.Pos(), "validator and composer (the ietf-json-patch handler and its helpers) both decode the patch with jsonpatch.DecodePatch, once")
	// accessors address keys/services through the same constants
	c.documentAccessorRule()
	c.Min("C11.K1", 7)

	// the JSON validator requires V; dispatch maps ietf-json-patch to it
	pvValidate := c.Fn(pPV, "Validate")
	if pvValidate == nil {
		c.Unresolved("C11.G1", "patchvalidator.Validate")
	} else {
		dv := c.dispatch(pvValidate, func(p string) bool { return strings.Contains(p, "GetAction") })
		ok := false
		if a := dv.arms[`"ietf-json-patch"`]; a != nil {
			for _, ac := range c.armCalls(dv, a) {
				g := ac.callee
				if g != nil && inModule(g) && g.Name() == "Validate" {
					if okE, _ := c.Ensures(g, nil, callTo("pointer validator", V)); okE {
						ok = true
						if dv.table {
							// the table's function must hand the validator's verdict back, and Validate the table function's
							foundOnly, callReq := c.tableGuards(dv)
							ok = foundOnly && callReq
							if ac.call != nil && a.fn != nil {
								if okW, _ := c.Ensures(a.fn, nil, &GCheck{Name: "validator verdict", NoDescend: true, MatchCall: func(c *Ctx, call *ssa.Call, env Env) bool { return call == ac.call }}); !okW {
									ok = false
								}
							}
						}
					}
				}
			}
		}
		c.Check("C11.G1", "dispatch:ietf-json-patch->pointer-validator", ok, pvValidate.Pos(), "patchvalidator.Validate routes ietf-json-patch to a validator that succeeds only if "+short(V.String())+" succeeds")
	}
	// applier: ApplyPatches behind ValidateDelta on the same delta
	af := c.applyFuncs("C11.G1")
	for _, typ := range []string{"create", "update", "recover"} {
		f := af[typ]
		if f == nil {
			c.Unresolved("C11.G1", "apply function for "+typ)
			continue
		}
		pc := c.applierParseCall("C11.G1", typ, f)
		if pc == nil {
			continue
		}
		P := pc.P(c) + "#0"
		chk := invokeOf("ValidateDelta(op.Delta)", "ValidateDelta", pathIs(P+".Delta"))
		ok, w, n := c.Guard(f, nil, chk, func(in ssa.Instruction) bool {
			cl, isC := in.(*ssa.Call)
			return isC && cl.Call.IsInvoke() && cl.Call.Method.Name() == "ApplyPatches"
		})
		c.Check("C11.G1", "apply-"+typ+":validation-dominates-application", ok && n > 0, f.Pos(), "ApplyPatches is reachable only behind ValidateDelta(op.Delta) success", w...)
		for _, tc := range c.treeCalls(f, nil, 0, func(cl *ssa.Call, env Env) bool { return callNamed(cl, "ApplyPatches") }) {
			cl := tc.call
			a := declArgs(cl)
			c.Check("C11.G1", "apply-"+typ+":applies-validated-patches", c.Path(a[1], tc.env) == P+".Delta.Patches", cl.Pos(), "the applied patches are those of the validated delta: "+c.Path(a[1], tc.env))
		}
	}
	if vd := c.Method(pParser, "Parser", "ValidateDelta"); vd != nil && pvValidate != nil {
		c.CheckGuardLoop("C11.G1", "ValidateDelta:every-patch-validated", vd, nil, callTo("patchvalidator.Validate(patch)", pvValidate, pathIs("$1.Patches[ι]")))
	}
	c.Min("C11.G1", 8)
	c.Assume("json-patch v4.1.0 semantics: a member that is absent, null or not a JSON string yields the pointer \"unknown\", for which findObject fails; RFC 6901 escapes (~0, ~1) introduce only '~' and '/', neither of which occurs in the protected member names; findObject returns nil for the root pointer")
	// "and then applied": the handler that applies the validated operations hands them to the RFC 6902 library and
	// writes nothing into the document itself (C10.E1) — a path of its own reads the pointers its own way, not the
	// validator's
	c.only(runC10, "C10.E1::ietf-json-patch")
	c.Min("C10.E1", 2)
	// "a validated patch": the validator inspects every operation of the list the composer applies (C13.G1)
	c.only(runC13, "C13.G1::json-patch:every-operation-inspected")
	c.Min("C13.G1", 1)
}

// pvJSONValidate: the exported validator method that leads to the pointer validator V (its frame holds the patch).
func pvJSONValidate(c *Ctx, V *ssa.Function) *ssa.Function {
	for _, f := range c.Funcs {
		if pkgPathOf(f) == modPkg+pPV && f.Name() == "Validate" && f.Signature.Recv() != nil {
			for _, g := range c.reachableModuleFuncs([]*ssa.Function{f}) {
				if g == V {
					return f
				}
			}
		}
	}
	return nil
}

// prefixTest: call is a test "subject starts with prefix" whose true result says so: strings.HasPrefix(subject, prefix),
// also when it is applied to the remainder a dominating successful strings.CutPrefix(subject, p0) left (the prefix is
// then p0+prefix). Returns the subject's path and the (unquoted) prefix.
func (c *Ctx) prefixTest(call *ssa.Call, env Env) (string, string, bool) {
	g := call.Call.StaticCallee()
	if g == nil || g.String() != "strings.HasPrefix" || len(call.Call.Args) != 2 {
		return "", "", false
	}
	pre := ""
	if k, isK := call.Call.Args[1].(*ssa.Const); isK && k.Value != nil && k.Value.Kind() == constant.String {
		pre = constant.StringVal(k.Value)
	} else if p := c.Path(call.Call.Args[1], env); !isK && len(p) >= 2 && p[0] == '"' {
		// (the prefix of the table row under consideration: a constant text in that row's frame)
		u, err := strconv.Unquote(p)
		if err != nil {
			return "", "", false
		}
		pre = u
	} else {
		return "", "", false
	}
	if ex, isEx := call.Call.Args[0].(*ssa.Extract); isEx && ex.Index == 0 {
		if cut, isC := ex.Tuple.(*ssa.Call); isC && cut.Call.StaticCallee() != nil && cut.Call.StaticCallee().String() == "strings.CutPrefix" {
			if k0, isK0 := cut.Call.Args[1].(*ssa.Const); isK0 && k0.Value != nil && k0.Value.Kind() == constant.String {
				// only behind the edge on which the cut succeeded is the remainder "subject without p0"
				// (or on which the subject is empty: the remainder of an unsuccessful cut is the subject itself, "" has no
				// non-empty prefix, and neither has "" + anything the test looks for)
				subj := c.Path(cut.Call.Args[0], env)
				behind, _, n := c.Guard(call.Parent(), env, anyOf("CutPrefix found the prefix, or the subject is empty",
					&GCheck{Name: "CutPrefix found the prefix", NoDescend: true, MatchCall: func(c *Ctx, cl *ssa.Call, env Env) bool { return cl == cut }},
					cmpAccept(`subject == ""`, token.EQL, pathIs(subj), pathIs(`""`))), func(in ssa.Instruction) bool { return in == ssa.Instruction(call) })
				if pre == "" {
					behind = false
				}
				if behind && n > 0 {
					return c.Path(cut.Call.Args[0], env), constant.StringVal(k0.Value) + pre, true
				}
				return "", "", false
			}
		}
	}
	return c.Path(call.Call.Args[0], env), pre, true
}

// checkPointerMember: for-all loop obligation with the alternative success edges (absent / nil / undecodable).
func (c *Ctx) checkPointerMember(rule string, V *ssa.Function, K, P string, hp *GCheck, memberOf func(string, string) bool) {
	jsonU := c.ExtFn("encoding/json", "Unmarshal")
	cut := map[edge]bool{}
	var collect func(f *ssa.Function, env Env, d int) int
	var siteFns []*ssa.Function
	collect = func(f *ssa.Function, env Env, d int) int {
		n := 0
		for _, s := range c.sites(f, env, hp, 0) {
			if s.instr.Parent() == f {
				n++
			}
		}
		return n
	}
	_ = collect
	_ = siteFns
	// alternative success edges inside V itself
	forEachInstr(V, func(in ssa.Instruction) {
		switch x := in.(type) {
		case *ssa.Lookup:
			if k, isK := x.Index.(*ssa.Const); isK && unquote(c.Path(k, nil)) == K && x.CommaOk {
				if okv := extractOf2(x, 1); okv != nil {
					for _, e := range boolEdges(okv, false) {
						cut[e] = true // member absent
					}
				}
				if v := extractOf2(x, 0); v != nil {
					for _, e := range nilTestEdges(v, true) {
						cut[e] = true // member null
					}
				}
			}
		case *ssa.Call:
			if x.Call.StaticCallee() == jsonU && memberOf(c.Path(x.Call.Args[0], nil), K) {
				for _, e := range nilTestEdges(x, false) {
					cut[e] = true // member is not a JSON string
				}
			}
		}
	})
	// the same alternatives as checks of their own, so that a per-operation helper (`validateOperationFrom(op)`) which
	// lets an operation through only across one of them counts as a check site at its call
	isMemberLookup := func(c *Ctx, v ssa.Value, env Env) bool {
		lk, ok := v.(*ssa.Lookup)
		if !ok {
			return false
		}
		k, isK := lk.Index.(*ssa.Const)
		return isK && unquote(c.Path(k, nil)) == K
	}
	absent := &GCheck{Name: fmt.Sprintf("member %q absent", K), BoolFalse: true, NoDescend: true, MatchOK: isMemberLookup}
	null := &GCheck{Name: fmt.Sprintf("member %q null", K), NoDescend: true, MatchCmp: func(c *Ctx, b *ssa.BinOp, env Env) (bool, bool) {
		if b.Op != token.EQL && b.Op != token.NEQ {
			return false, false
		}
		for _, side := range [][2]ssa.Value{{b.X, b.Y}, {b.Y, b.X}} {
			k, isK := side[1].(*ssa.Const)
			ex, isEx := side[0].(*ssa.Extract)
			if !isK || !k.IsNil() || !isEx || ex.Index != 0 {
				continue
			}
			if isMemberLookup(c, ex.Tuple, env) {
				return true, b.Op == token.EQL
			}
		}
		return false, false
	}}
	ssOwn := c.sites(V, nil, hp, 0)
	ss := c.sites(V, nil, anyOf(hp.Name, hp, absent, null), 0)
	if len(ssOwn) == 0 {
		// the pointer test itself must exist somewhere: count the sites of the plain check in the helpers
		for _, h := range c.helpersOf(V, 2) {
			ssOwn = append(ssOwn, c.sites(h, nil, hp, 0)...)
		}
		if len(ssOwn) == 0 {
			ss = nil
		}
	}
	for _, s := range ss {
		for _, e := range s.cut {
			cut[e] = true
		}
	}
	for e := range c.pruned(V, nil) {
		cut[e] = true
	}
	key := fmt.Sprintf("member %q vs prefix %q", K, P)
	if P == "well-formed" {
		key = fmt.Sprintf("member %q is a well-formed pointer", K)
		if len(ss) == 0 {
			c.Check(rule, key, false, V.Pos(), fmt.Sprintf("the RFC 6902 library ignores the text before the first '/' of a pointer, and the validator never requires the %q member to start with '/': a pointer like \"x/service\" addresses the protected root member while evading the prefix tests", K))
			return
		}
	}
	if len(ss) == 0 {
		c.Check(rule, key, false, V.Pos(), fmt.Sprintf("the validator never tests the %q member of an operation against %q although the RFC 6902 library dereferences it as a JSON pointer", K, P))
		return
	}
	okAll := false
	var w []string
	for _, l := range naturalLoops(V) {
		in := false
		for _, s := range ss {
			if l.blocks[s.instr.Block()] || l.insideBody(s.instr.Block()) {
				in = true
			}
		}
		if !in {
			continue
		}
		okAll, w = c.loopForall(V, l, cut, hp.Name)
	}
	c.Check(rule, key, okAll, V.Pos(), fmt.Sprintf("every operation's %q member is tested against %q on a rejecting edge (for-all; %d check site(s))", K, P, len(ss)), w...)
}

// documentAccessorRule (C11.K1; also run by C10: what the composer's handlers read as "the keys" / "the services" of the
// document is the member the composer writes).
func (c *Ctx) documentAccessorRule() {
	svc, _ := c.ConstVal("document", "ServiceProperty")
	pk, _ := c.ConstVal("document", "PublicKeyProperty")
	for _, acc := range []struct{ typ, m, konst string }{{"Document", "PublicKeys", pk}, {"DIDDocument", "PublicKeys", pk}, {"DIDDocument", "Services", svc}} {
		f := c.Method("document", acc.typ, acc.m)
		ok := false
		var other []string
		if f != nil {
			// … and through nothing else: every read of the receiver is the lookup of that member (a fallback to another
			// member — one the validator does not protect — lets a validated JSON patch supply the keys)
			forEachInstr(f, func(in ssa.Instruction) {
				if lk, isL := in.(*ssa.Lookup); isL {
					if k, isK := lk.Index.(*ssa.Const); isK && c.Path(k, nil) == acc.konst && c.Path(lk.X, nil) == "$0" {
						ok = true
						return
					}
				}
				var ops []*ssa.Value
				for _, op := range in.Operands(ops) {
					if *op == ssa.Value(f.Params[0]) {
						if _, isDbg := in.(*ssa.DebugRef); !isDbg {
							other = append(other, in.String())
						}
					}
				}
			})
		}
		c.Check("C11.K1", "accessor:"+acc.typ+"."+acc.m, ok && len(other) == 0, 0, fmt.Sprintf("%s.%s reads member %s of the document and nothing else of it %v", acc.typ, acc.m, acc.konst, other))
	}
}
