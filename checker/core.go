package main

// Core of stcheck: loading /repo, obligation bookkeeping, evidence and violation output.

import (
	"bufio"
	"encoding/json"
	"fmt"
	"go/token"
	"go/types"
	"os"
	"path/filepath"
	"regexp"
	"sort"
	"strings"
	"time"

	"golang.org/x/tools/go/packages"
	"golang.org/x/tools/go/ssa"
	"golang.org/x/tools/go/ssa/ssautil"
)

const modPath = "github.com/trustbloc/sidetree-go"
const modPkg = modPath + "/pkg/"
const jsonPatchPkg = "github.com/evanphx/json-patch"
const joseJSONPkg = "github.com/go-jose/go-jose/v3/json"

// Obl is one proof obligation (one rule instance) and its verdict.
type Obl struct {
	Rule    string   `json:"rule"`
	Key     string   `json:"key"` // stable construct key (function / field / constant), never a line number
	OK      bool     `json:"ok"`
	Pos     string   `json:"pos,omitempty"`
	Detail  string   `json:"detail,omitempty"`
	Witness []string `json:"witness,omitempty"`
	Known   bool     `json:"known_finding,omitempty"`
}

type Ctx struct {
	Prop     string
	Tier     string
	RepoDir  string
	VerifDir string
	Tags     string

	Pkgs  []*packages.Package
	Prog  *ssa.Program
	SPkg  map[string]*ssa.Package
	TPkg  map[string]*packages.Package
	Fset  *token.FileSet
	Funcs []*ssa.Function // all source functions of non-mock repo packages (incl. anonymous)

	impls map[string][]*ssa.Function // method name -> concrete methods (non-mock)

	obls     []*Obl
	mins     map[string]int
	analysed map[*ssa.Function]bool
	notes    []string
	assume   []string
	extra    map[string]interface{}
	start    time.Time

	ginitCache    map[*ssa.Global]*ssa.Function
	identMemo     map[*ssa.Function]int
	inlineHelpers bool
	subseqMemo    map[*ssa.Function]int
	aliasMemo     map[*ssa.Global]*ssa.Global
	// names for the parameters of the function a thin wrapper forwards to (read in the wrapper's frame)
	baseEnv Env
	// while a helper is looked into: the caller's values its parameters stand for
	argOf map[*ssa.Parameter]ssa.Value
	// a boolean configuration field (path suffix) assumed true / false while pruning branches
	assumeSuffix string
	assumeValue  bool
	// parameters of unexported functions whose signature differs from the reference tree's: their reference names
	paramRef map[*ssa.Function]map[*ssa.Parameter]string
	// helpers through which an anchor call was found (call-tree search): their results read as what they return
	inlineFns     map[*ssa.Function]bool
	structLits    map[string]map[string]string // struct literals handed to a callee by value: token -> field -> path in the caller's frame
	ftMemo        map[*types.Named][]*ssa.Function
	faMemo        map[*ssa.Parameter][]*ssa.Function
	extraCut      map[edge]bool          // edges excluded for the current top-level guard query (a case split on a φ)
	mutGlobals    map[*ssa.Global]string // statelessRule: module globals that change after initialisation, with the reason
	condDepth     int
	ruleOnly      []string                      // only: the rule prefixes whose obligations are recorded
	apartDone     map[string]bool               // apart: the shared runs already made in this check, per filter
	inlining      map[*ssa.Call]bool            // inlinedResult: the helper calls being rendered (recursion guard)
	lockDepth     int                           // lockHeldAt: depth of the walk to the callers of a "…Locked" helper
	pairFields    map[string]string             // C08: field of getCommitment's result struct -> the commitment it holds
	lookupAccMemo map[*ssa.Function]*ssa.Lookup // lookupAccessorErr
	cstDepth      int
	running       map[string]bool             // only: the shared runs in progress
	fnArgs        map[string]fnArg            // calleeEnvV: functions handed to callees as arguments, by the name they carry in the callee env
	condEnv       Env                         // canonCond: the frame conditions are rendered in (nil: the function's own)
	fnSubst       map[ssa.Value]*ssa.Function // guardViaTable: function-valued fields of the current table element
	mcSubst       map[ssa.Value]*ssa.MakeClosure
	valSubst      map[ssa.Value]ssa.Value
	gsMemo        map[*ssa.Global]*ssa.Slice
	boolOrigins   map[string]boolOrigin          // calleeEnvV: test results handed to callees as boolean arguments, by path
	nameHandedOn  bool                           // calleeEnvV: a call result the callee hands on is named after the caller-side call value
	phiEdgeLive   func(phi *ssa.Phi, i int) bool // optional: restricts φ edges when rendering canonical forms
	gmemo         map[string]int
}

func isMockPath(p string) bool {
	return strings.HasSuffix(p, "/mocks") || strings.Contains(p, "/mocks/")
}

func (c *Ctx) isGenFile(pos token.Pos) bool {
	if !pos.IsValid() {
		return false
	}
	return strings.HasSuffix(c.Fset.Position(pos).Filename, ".gen.go")
}

// Load type-checks /repo from its current working tree and builds SSA. Any type error is fatal.
func Load(repo string, tags string, whole bool, extraPkgs ...string) (*Ctx, error) {
	mode := packages.LoadSyntax | packages.NeedModule
	if whole {
		mode = packages.LoadAllSyntax | packages.NeedModule
	}
	env := append(os.Environ(), "GOWORK=off", "GOFLAGS=-mod=mod", "GOPROXY=off", "GOSUMDB=off", "GOTOOLCHAIN=local")
	cfg := &packages.Config{Mode: mode, Dir: repo, Tests: false, Env: env}
	if tags != "" {
		cfg.BuildFlags = []string{"-tags=" + tags}
	}
	pats := append([]string{"./..."}, extraPkgs...)
	pkgs, err := packages.Load(cfg, pats...)
	if err != nil {
		return nil, fmt.Errorf("packages.Load: %w", err)
	}
	if len(pkgs) == 0 {
		return nil, fmt.Errorf("no packages loaded from %s", repo)
	}
	var terrs []string
	packages.Visit(pkgs, nil, func(p *packages.Package) {
		for _, e := range p.Errors {
			terrs = append(terrs, e.Error())
		}
	})
	if len(terrs) > 0 {
		sort.Strings(terrs)
		if len(terrs) > 10 {
			terrs = terrs[:10]
		}
		return nil, fmt.Errorf("type-check/load errors (the tree does not build): %s", strings.Join(terrs, "; "))
	}
	prog, _ := ssautil.AllPackages(pkgs, ssa.InstantiateGenerics)
	prog.Build()
	c := &Ctx{RepoDir: repo, Tags: tags, Pkgs: pkgs, Prog: prog, Fset: prog.Fset, SPkg: map[string]*ssa.Package{}, TPkg: map[string]*packages.Package{},
		impls: map[string][]*ssa.Function{}, mins: map[string]int{}, analysed: map[*ssa.Function]bool{}, extra: map[string]interface{}{},
		ginitCache: map[*ssa.Global]*ssa.Function{}, gmemo: map[string]int{}, start: time.Now()}
	n := 0
	packages.Visit(pkgs, nil, func(p *packages.Package) {
		c.TPkg[p.PkgPath] = p
		sp := prog.Package(p.Types)
		if sp == nil {
			return
		}
		c.SPkg[p.PkgPath] = sp
		if !strings.HasPrefix(p.PkgPath, modPath) {
			return
		}
		n++
		if isMockPath(p.PkgPath) {
			return
		}
		for _, f := range allFuncs(sp) {
			if c.isGenFile(f.Pos()) {
				continue
			}
			c.Funcs = append(c.Funcs, f)
			if f.Signature.Recv() != nil && f.Parent() == nil {
				c.impls[f.Name()] = append(c.impls[f.Name()], f)
			}
		}
	})
	// instances of the module's generic functions live outside any package in go/ssa
	for f := range ssautil.AllFunctions(prog) {
		if o := f.Origin(); o != nil && o != f && f.Blocks != nil && inModule(f) && !c.isGenFile(f.Pos()) {
			c.Funcs = append(c.Funcs, f)
		}
	}
	if n < 40 {
		return nil, fmt.Errorf("only %d module packages loaded (expected >= 40)", n)
	}
	sort.Slice(c.Funcs, func(i, j int) bool { return c.Funcs[i].String() < c.Funcs[j].String() })
	if os.Getenv("STCHECK_DUMPSIGS") != "" {
		for _, f := range c.Funcs {
			if k := sigKey(f); k != "" {
				fmt.Printf("SIG\t%q: %q,\n", k, sigOf(f))
			}
		}
		for _, tn := range c.moduleTypeNames() {
			fmt.Printf("TYP\t%q: {shape: %q, fields: []headField{", tn.Pkg().Path()+"."+tn.Name(), typeShape(tn.Type()))
			if st, ok := tn.Type().Underlying().(*types.Struct); ok {
				for i := 0; i < st.NumFields(); i++ {
					fmt.Printf("{%q, %q}, ", st.Field(i).Name(), blankUnexported(types.TypeString(st.Field(i).Type(), nil)))
				}
			}
			fmt.Printf("}},\n")
		}
	}
	c.computeRenames()
	return c, nil
}

type headField struct{ name, typ string }

type headType struct {
	shape  string
	fields []headField
}

// rename tables, computed once per load from the reference tables in anchortypes.go: rules are written with the names
// of the reference tree; a type or field that was merely renamed keeps its reference name in rendered paths.
var (
	typeAlias  = map[string]string{}            // current "pkgpath.Name" -> reference "pkgpath.Name"
	fieldAlias = map[string]map[string]string{} // reference type -> current field name -> reference field name
)

func blankUnexported(s string) string { return unexportedTypeRe.ReplaceAllString(s, "$1·") }

// typeShape: the underlying type with field names dropped and the module's unexported type names blanked.
func typeShape(t types.Type) string {
	if st, ok := t.Underlying().(*types.Struct); ok {
		var parts []string
		for i := 0; i < st.NumFields(); i++ {
			parts = append(parts, blankUnexported(types.TypeString(st.Field(i).Type(), nil)))
		}
		return "struct{" + strings.Join(parts, "; ") + "}"
	}
	return blankUnexported(types.TypeString(t.Underlying(), nil))
}

func (c *Ctx) moduleTypeNames() []*types.TypeName {
	var out []*types.TypeName
	var paths []string
	for path := range c.TPkg {
		if strings.HasPrefix(path, modPath) && !isMockPath(path) {
			paths = append(paths, path)
		}
	}
	sort.Strings(paths)
	for _, path := range paths {
		p := c.TPkg[path]
		if p.Types == nil {
			continue
		}
		sc := p.Types.Scope()
		for _, name := range sc.Names() {
			if tn, ok := sc.Lookup(name).(*types.TypeName); ok && !tn.IsAlias() {
				out = append(out, tn)
			}
		}
	}
	return out
}

// funcAlias: renamed unexported functions / methods -> their reference name (computed after the type tables)
var funcAlias = map[*ssa.Function]string{}

// fname renders a function the way the reference tree names it.
func fname(f *ssa.Function) string {
	s := f.String()
	for cur, ref := range typeAlias {
		if strings.Contains(s, cur) {
			s = strings.ReplaceAll(s, cur, ref)
		}
	}
	if old, ok := funcAlias[f]; ok && strings.HasSuffix(s, "."+f.Name()) {
		s = s[:len(s)-len(f.Name())] + old
	}
	return short(s)
}

func (c *Ctx) computeFuncRenames() {
	funcAlias = map[*ssa.Function]string{}
	have := map[string]bool{}
	for _, f := range c.Funcs {
		if k := sigKey(f); k != "" {
			have[k] = true
		}
	}
	for key := range anchorSigs {
		if have[key] {
			continue
		}
		if f := c.renamedAnchor(key); f != nil {
			funcAlias[f] = key[strings.LastIndex(key, ".")+1:]
		}
	}
}

func (c *Ctx) computeRenames() {
	defer c.computeFuncRenames()
	typeAlias = map[string]string{}
	fieldAlias = map[string]map[string]string{}
	cur := map[string]*types.TypeName{}
	byPkg := map[string][]*types.TypeName{}
	for _, tn := range c.moduleTypeNames() {
		cur[tn.Pkg().Path()+"."+tn.Name()] = tn
		byPkg[tn.Pkg().Path()] = append(byPkg[tn.Pkg().Path()], tn)
	}
	// renamed types: a reference type that is gone, and exactly one new unexported type of the same package and shape
	for ref, ht := range headTypes {
		if _, still := cur[ref]; still {
			continue
		}
		pkg := ref[:strings.LastIndex(ref, ".")]
		var cands []*types.TypeName
		for _, tn := range byPkg[pkg] {
			full := pkg + "." + tn.Name()
			if _, known := headTypes[full]; known || tn.Exported() {
				continue
			}
			if typeShape(tn.Type()) == ht.shape {
				cands = append(cands, tn)
			}
		}
		if len(cands) == 1 {
			typeAlias[pkg+"."+cands[0].Name()] = ref
			cur[ref] = cands[0]
		}
	}
	// renamed fields: within a type, a reference field that is gone and exactly one new field of the same type
	for ref, ht := range headTypes {
		tn := cur[ref]
		if tn == nil {
			continue
		}
		st, ok := tn.Type().Underlying().(*types.Struct)
		if !ok {
			continue
		}
		now := map[string]string{}
		for i := 0; i < st.NumFields(); i++ {
			now[st.Field(i).Name()] = blankUnexported(types.TypeString(st.Field(i).Type(), nil))
		}
		refNames := map[string]bool{}
		for _, hf := range ht.fields {
			refNames[hf.name] = true
		}
		for _, hf := range ht.fields {
			if _, still := now[hf.name]; still {
				continue
			}
			var cands []string
			for name, typ := range now {
				if !refNames[name] && typ == hf.typ {
					cands = append(cands, name)
				}
			}
			if len(cands) == 1 {
				if fieldAlias[ref] == nil {
					fieldAlias[ref] = map[string]string{}
				}
				fieldAlias[ref][cands[0]] = hf.name
			}
		}
	}
}

// refTypeName: the reference name of a named module type ("" if t is not one).
func refTypeName(t types.Type) string {
	if p, ok := t.(*types.Pointer); ok {
		t = p.Elem()
	}
	n, ok := t.(*types.Named)
	if !ok || n.Obj().Pkg() == nil {
		return ""
	}
	full := n.Obj().Pkg().Path() + "." + n.Obj().Name()
	if ref, renamed := typeAlias[full]; renamed {
		return ref
	}
	return full
}

// sigKey names an unexported top-level function or method of the module: "<package>.<name>" or
// "<package>.(<receiver type>).<name>"; "" for anything else.
func sigKey(f *ssa.Function) string {
	if f.Parent() != nil || f.Synthetic != "" || f.Object() == nil || f.Object().Exported() || f.Origin() != nil {
		return ""
	}
	rel := strings.TrimPrefix(pkgPathOf(f), modPkg)
	if recv := f.Signature.Recv(); recv != nil {
		t := recv.Type()
		if p, ok := t.(*types.Pointer); ok {
			t = p.Elem()
		}
		if n, ok := t.(*types.Named); ok {
			name := n.Obj().Name()
			if ref := refTypeName(n); ref != "" {
				name = ref[strings.LastIndex(ref, ".")+1:]
			}
			return rel + ".(" + name + ")." + f.Name()
		}
		return ""
	}
	return rel + "." + f.Name()
}

// sigOf renders a signature with the module's unexported type names blanked (a renamed helper type does not change
// what a function is).
func sigOf(f *ssa.Function) string {
	s := types.TypeString(f.Signature, func(p *types.Package) string { return p.Path() })
	return unexportedTypeRe.ReplaceAllString(s, "$1·")
}

var unexportedTypeRe = regexp.MustCompile(`(github\.com/trustbloc/sidetree-go/[A-Za-z0-9_/.-]*\.)[a-z][A-Za-z0-9_]*`)

// renamedAnchor: the function recorded under key on the reference tree is gone; if exactly one unexported function of
// the same package (and receiver type) has the recorded signature and a name the reference tree did not have, it is
// the same function under a new name.
func (c *Ctx) renamedAnchor(key string) *ssa.Function {
	want, ok := anchorSigs[key]
	if !ok {
		return c.roleAnchor(key)
	}
	prefix := key[:strings.LastIndex(key, ".")+1]
	var found []*ssa.Function
	for _, f := range c.Funcs {
		k := sigKey(f)
		if k == "" || !strings.HasPrefix(k, prefix) || strings.Contains(k[len(prefix):], ".") {
			continue
		}
		if _, existed := anchorSigs[k]; existed {
			continue
		}
		if sigOf(f) == want {
			found = append(found, f)
		}
	}
	if len(found) == 1 {
		return found[0]
	}
	return c.roleAnchor(key)
}

// roleAnchor: an unexported helper that was renamed and re-shaped at once is found by what it does — the one function
// of its package that plays the role (nil when none or several do).
func (c *Ctx) roleAnchor(key string) *ssa.Function {
	role, ok := anchorRoles[key]
	if !ok {
		return nil
	}
	prefix := key[:strings.LastIndex(key, ".")+1]
	pkg := modPkg + strings.SplitN(strings.TrimSuffix(prefix, "."), ".(", 2)[0]
	var found []*ssa.Function
	for _, f := range c.Funcs {
		if pkgPathOf(f) != pkg || f.Blocks == nil || f.Object() == nil || f.Object().Exported() || f.Synthetic != "" {
			continue
		}
		if k := sigKey(f); k != "" {
			if _, existed := anchorSigs[k]; existed {
				continue
			}
		}
		if role(c, f) {
			found = append(found, f)
		}
	}
	if len(found) == 1 {
		return found[0]
	}
	return nil
}

// appendsInLoop: f has a loop in which it appends to a slice of the given element type.
func appendsInLoop(f *ssa.Function, elem string) bool {
	hit := false
	for _, l := range naturalLoops(f) {
		for b := range l.blocks {
			for _, in := range b.Instrs {
				if cl, ok := in.(*ssa.Call); ok {
					if bi, isB := cl.Call.Value.(*ssa.Builtin); isB && bi.Name() == "append" && typeShort(cl.Type()) == elem {
						hit = true
					}
				}
			}
		}
	}
	return hit
}

// buildsInLoop: f has a loop in which it allocates a struct of the named type.
func buildsInLoop(f *ssa.Function, typeName string) bool {
	hit := false
	for _, l := range naturalLoops(f) {
		for b := range l.blocks {
			for _, in := range b.Instrs {
				if al, ok := in.(*ssa.Alloc); ok {
					if n, isN := derefT(al.Type()).(*types.Named); isN && n.Obj().Name() == typeName {
						hit = true
					}
				}
			}
		}
	}
	return hit
}

var anchorRoles = map[string]func(c *Ctx, f *ssa.Function) bool{
	"versions/1_0/doctransformer/didtransformer.(Transformer).processServices": func(c *Ctx, f *ssa.Function) bool {
		return appendsInLoop(f, "[]document.Service")
	},
	"versions/1_0/doctransformer/didtransformer.(Transformer).processKeys": func(c *Ctx, f *ssa.Function) bool {
		return appendsInLoop(f, "[]document.PublicKey")
	},
	"versions/1_0/doctransformer/metadata.getPublishedOperations": func(c *Ctx, f *ssa.Function) bool {
		return buildsInLoop(f, "PublishedOperation")
	},
	"versions/1_0/doctransformer/metadata.getUnpublishedOperations": func(c *Ctx, f *ssa.Function) bool {
		return buildsInLoop(f, "UnpublishedOperation")
	},
}

func allFuncs(p *ssa.Package) []*ssa.Function {
	var out []*ssa.Function
	seen := map[*ssa.Function]bool{}
	var add func(f *ssa.Function)
	add = func(f *ssa.Function) {
		if f == nil || seen[f] {
			return
		}
		seen[f] = true
		out = append(out, f)
		for _, an := range f.AnonFuncs {
			add(an)
		}
	}
	var names []string
	for n := range p.Members {
		names = append(names, n)
	}
	sort.Strings(names)
	for _, n := range names {
		if f, ok := p.Members[n].(*ssa.Function); ok {
			add(f)
		}
	}
	for _, n := range names {
		if t, ok := p.Members[n].(*ssa.Type); ok {
			for _, ty := range []types.Type{t.Type(), types.NewPointer(t.Type())} {
				ms := p.Prog.MethodSets.MethodSet(ty)
				for i := 0; i < ms.Len(); i++ {
					if f := p.Prog.MethodValue(ms.At(i)); f != nil && f.Pkg == p && f.Synthetic == "" {
						add(f)
					}
				}
			}
		}
	}
	return out
}

// ---- anchors -------------------------------------------------------------------------------

// Fn resolves a package-level function "pkg/sub.Name" (path relative to <module>/pkg/). nil if missing.
func (c *Ctx) Fn(rel, name string) *ssa.Function {
	sp := c.SPkg[modPkg+rel]
	if sp == nil {
		return nil
	}
	if f := sp.Func(name); f != nil {
		return f
	}
	// the same code written as a method (its first argument became the receiver): the only method of that name in
	// the package
	var found []*ssa.Function
	for _, m := range c.impls[name] {
		if pkgPathOf(m) == modPkg+rel && m.Synthetic == "" {
			found = append(found, m)
		}
	}
	if len(found) == 1 {
		return found[0]
	}
	return c.renamedAnchor(rel + "." + name)
}

func (c *Ctx) ExtFn(pkg, name string) *ssa.Function {
	sp := c.SPkg[pkg]
	if sp == nil {
		return nil
	}
	return sp.Func(name)
}

// Method resolves a method of named type T (value or pointer receiver) in a repo package.
func (c *Ctx) Method(rel, typ, name string) *ssa.Function {
	if f := c.MethodIn(modPkg+rel, typ, name); f != nil {
		return f
	}
	// the same code written as a function taking the former receiver first
	if sp := c.SPkg[modPkg+rel]; sp != nil {
		if f := sp.Func(name); f != nil && len(f.Params) > 0 && f.Signature.Recv() == nil {
			t := f.Params[0].Type()
			if p, ok := t.(*types.Pointer); ok {
				t = p.Elem()
			}
			if n, ok := t.(*types.Named); ok && n.Obj().Name() == typ && n.Obj().Pkg() != nil && n.Obj().Pkg().Path() == modPkg+rel {
				return f
			}
		}
	}
	return c.renamedAnchor(rel + ".(" + typ + ")." + name)
}

func (c *Ctx) MethodIn(pkg, typ, name string) *ssa.Function {
	sp := c.SPkg[pkg]
	if sp == nil {
		return nil
	}
	t := sp.Type(typ)
	if t == nil {
		if cn := renamedTypeName(pkg, typ); cn != "" {
			t = sp.Type(cn)
		}
	}
	if t == nil {
		return nil
	}
	for _, ty := range []types.Type{t.Type(), types.NewPointer(t.Type())} {
		ms := c.Prog.MethodSets.MethodSet(ty)
		for i := 0; i < ms.Len(); i++ {
			if ms.At(i).Obj().Name() == name {
				if f := c.Prog.MethodValue(ms.At(i)); f != nil && !strings.Contains(f.Synthetic, "wrapper") {
					return f
				}
			}
		}
	}
	return nil
}

func (c *Ctx) NamedType(rel, name string) *types.Named {
	return c.NamedTypeIn(modPkg+rel, name)
}

// renamedTypeName: the current name of the reference type pkg.name when it was renamed ("" otherwise).
func renamedTypeName(pkg, name string) string {
	for curFull, ref := range typeAlias {
		if ref == pkg+"."+name {
			return curFull[strings.LastIndex(curFull, ".")+1:]
		}
	}
	return ""
}

func (c *Ctx) NamedTypeIn(pkg, name string) *types.Named {
	if n := c.namedTypeIn(pkg, name); n != nil {
		return n
	}
	if cn := renamedTypeName(pkg, name); cn != "" {
		return c.namedTypeIn(pkg, cn)
	}
	return nil
}

func (c *Ctx) namedTypeIn(pkg, name string) *types.Named {
	p := c.TPkg[pkg]
	if p == nil || p.Types == nil {
		return nil
	}
	o := p.Types.Scope().Lookup(name)
	if o == nil {
		return nil
	}
	n, _ := o.Type().(*types.Named)
	return n
}

func (c *Ctx) ConstVal(rel, name string) (string, bool) {
	p := c.TPkg[modPkg+rel]
	if p == nil {
		return "", false
	}
	o, ok := p.Types.Scope().Lookup(name).(*types.Const)
	if !ok {
		return "", false
	}
	return o.Val().ExactString(), true
}

func (c *Ctx) Global(rel, name string) *ssa.Global {
	sp := c.SPkg[modPkg+rel]
	if sp == nil {
		return nil
	}
	g, _ := sp.Members[name].(*ssa.Global)
	return g
}

// ---- obligations ---------------------------------------------------------------------------

func short(s string) string {
	s = strings.ReplaceAll(s, modPkg, "")
	s = strings.ReplaceAll(s, modPath+"/", "")
	return s
}

func (c *Ctx) pos(p token.Pos) string {
	if !p.IsValid() {
		return ""
	}
	ps := c.Fset.Position(p)
	fn := ps.Filename
	if r, err := filepath.Rel(c.RepoDir, fn); err == nil && !strings.HasPrefix(r, "..") {
		fn = r
	}
	return fmt.Sprintf("%s:%d", fn, ps.Line)
}

// Check records one decided obligation.
func (c *Ctx) Check(rule, key string, ok bool, pos token.Pos, detail string, witness ...string) *Obl {
	o := &Obl{Rule: rule, Key: short(key), OK: ok, Pos: c.pos(pos), Detail: short(detail), Witness: witness}
	if !c.ruleWanted(rule + "::" + key) {
		return o
	}
	c.obls = append(c.obls, o)
	return o
}

// ruleWanted: while another property's rules run here in part (only), the obligations of its other rules are not
// this check's.
func (c *Ctx) ruleWanted(rule string) bool {
	if c.ruleOnly == nil {
		return true
	}
	// (prefixes name a rule, or a rule and the beginning of a key: "C07.K1::sink:MultihashAlgorithms")
	for _, p := range c.ruleOnly {
		if strings.HasPrefix(rule, p) {
			return true
		}
	}
	return false
}

// only runs the rules of another property whose names start with one of the prefixes inside this check (see apart);
// a property already running further up is not entered again.
func (c *Ctx) only(run func(*Ctx), prefixes ...string) {
	id := fmt.Sprintf("%p", run)
	if c.running[id] {
		return
	}
	if c.running == nil {
		c.running = map[string]bool{}
	}
	c.running[id] = true
	old := c.ruleOnly
	if old != nil {
		// (already filtered: keep to what both ask for)
		var both []string
		for _, p := range prefixes {
			if c.ruleWanted(p) {
				both = append(both, p)
			}
		}
		prefixes = both
		if prefixes == nil {
			// (nothing of it is wanted here)
			delete(c.running, id)
			return
		}
	}
	c.ruleOnly = prefixes
	c.apart(run)
	c.ruleOnly = old
	delete(c.running, id)
}

// Unresolved records a failed obligation for an anchor that could not be bound (never a silent pass).
func (c *Ctx) Unresolved(rule, what string) {
	c.Check(rule, "anchor:"+what, false, token.NoPos, "anchor not resolvable in the analysed tree: "+what+" (rule cannot be evaluated; undecided counts as failure)")
}

// Min declares the minimal number of instances a rule must have bound.
func (c *Ctx) Min(rule string, n int) {
	if c.ruleWanted(rule) {
		c.mins[rule] = n
	}
}

func (c *Ctx) Note(format string, a ...interface{}) {
	c.notes = append(c.notes, short(fmt.Sprintf(format, a...)))
}
func (c *Ctx) Assume(s string) { c.assume = append(c.assume, s) }
func (c *Ctx) Analysed(f *ssa.Function) {
	if f != nil {
		c.analysed[f] = true
	}
}

// ---- known findings ------------------------------------------------------------------------

type knownEntry struct{ prop, key, desc string }

func loadKnown(path string) ([]knownEntry, []string) {
	var ks []knownEntry
	var fixed []string
	f, err := os.Open(path)
	if err != nil {
		return nil, nil
	}
	defer f.Close()
	sc := bufio.NewScanner(f)
	for sc.Scan() {
		l := strings.TrimSpace(sc.Text())
		if strings.HasPrefix(l, "fixed:") {
			fixed = append(fixed, l)
			continue
		}
		if !strings.HasPrefix(l, "known:") {
			continue
		}
		rest := strings.TrimSpace(strings.TrimPrefix(l, "known:"))
		// known: property=C19 key=<rule>::<key> :: description
		parts := strings.SplitN(rest, " :: ", 2)
		desc := ""
		if len(parts) == 2 {
			desc = parts[1]
		}
		fs := strings.SplitN(parts[0], " ", 2)
		if len(fs) != 2 || !strings.HasPrefix(fs[0], "property=") || !strings.HasPrefix(fs[1], "key=") {
			continue
		}
		ks = append(ks, knownEntry{prop: strings.TrimPrefix(fs[0], "property="), key: strings.TrimPrefix(fs[1], "key="), desc: desc})
	}
	return ks, fixed
}

// ---- finishing: evidence + verdict ----------------------------------------------------------

type evidence struct {
	PropertyID  string                 `json:"property_id"`
	Tier        string                 `json:"tier"`
	Seed        int                    `json:"seed"`
	Level       string                 `json:"level"`
	Coverage    map[string]interface{} `json:"coverage"`
	Assumptions []string               `json:"assumptions"`
	WallS       float64                `json:"wall_s"`
	Violations  int                    `json:"violations"`
}

func (c *Ctx) Finish(explanation string) int {
	// vacuity: every rule with a declared minimum must have bound at least that many instances
	counts := map[string]int{}
	for _, o := range c.obls {
		counts[o.Rule]++
		if os.Getenv("STCHECK_OBLS") != "" {
			fmt.Printf("OBL %s::%s ok=%v\n", o.Rule, o.Key, o.OK)
		}
	}
	var rules []string
	for r := range c.mins {
		rules = append(rules, r)
	}
	sort.Strings(rules)
	for _, r := range rules {
		if counts[r] < c.mins[r] {
			c.Check(r, "instances", false, token.NoPos, fmt.Sprintf("rule bound %d instance(s), fewer than the %d confirmed by hand on the reference tree — the rule would pass vacuously; treated as failure", counts[r], c.mins[r]))
		}
	}
	known, fixed := loadKnown(filepath.Join(c.VerifDir, "known_findings.txt"))
	var viol []*Obl
	discharged := 0
	for _, o := range c.obls {
		if o.OK {
			discharged++
			continue
		}
		full := o.Rule + "::" + o.Key
		// (the same construct seen under another build configuration of the thorough tier is the same finding)
		plain := full
		if i := strings.Index(o.Key, "tags="); i == 0 {
			if j := strings.Index(o.Key, ":"); j > 0 {
				plain = o.Rule + "::" + o.Key[j+1:]
			}
		}
		for _, k := range known {
			if k.prop == c.Prop && (k.key == full || k.key == plain) {
				o.Known = true
				fmt.Printf("KNOWN-FINDING: property=%s %s %s — %s\n", c.Prop, full, o.Pos, k.desc)
			}
		}
		if !o.Known {
			viol = append(viol, o)
		}
	}
	// per-rule summary on stdout
	type rs struct{ n, ok int }
	sum := map[string]*rs{}
	var order []string
	for _, o := range c.obls {
		if sum[o.Rule] == nil {
			sum[o.Rule] = &rs{}
			order = append(order, o.Rule)
		}
		sum[o.Rule].n++
		if o.OK {
			sum[o.Rule].ok++
		}
	}
	sort.Strings(order)
	ruleInst := map[string]int{}
	for _, r := range order {
		fmt.Printf("rule %-14s instances=%-3d discharged=%-3d min=%d\n", r, sum[r].n, sum[r].ok, c.mins[r])
		ruleInst[r] = sum[r].n
	}
	// violations
	vdir := filepath.Join(c.VerifDir, "evidence", "violations")
	os.MkdirAll(vdir, 0o755)
	old, _ := filepath.Glob(filepath.Join(vdir, c.Prop+"-*.json"))
	for _, f := range old {
		os.Remove(f)
	}
	for i, o := range viol {
		p := filepath.Join(vdir, fmt.Sprintf("%s-%02d.json", c.Prop, i+1))
		b, _ := json.MarshalIndent(map[string]interface{}{"property": c.Prop, "tier": c.Tier, "obligation": o,
			"how_to_replay": fmt.Sprintf("cd /verif && bin/stcheck -property %s -tier %s   # re-analyses /repo's working tree; the obligation %s::%s is re-evaluated", c.Prop, c.Tier, o.Rule, o.Key)}, "", " ")
		os.WriteFile(p, b, 0o644)
		fmt.Printf("FAIL %s::%s %s\n     %s\n", o.Rule, o.Key, o.Pos, o.Detail)
		for _, w := range o.Witness {
			fmt.Printf("       %s\n", w)
		}
		fmt.Printf("VIOLATION property=%s replay=%s\n", c.Prop, p)
	}
	// evidence
	var samples []interface{}
	for i, o := range c.obls {
		if i%max(1, len(c.obls)/12) == 0 || !o.OK {
			samples = append(samples, o)
		}
		if len(samples) >= 40 {
			break
		}
	}
	var fns []string
	for f := range c.analysed {
		fns = append(fns, short(f.String()))
	}
	sort.Strings(fns)
	cov := map[string]interface{}{
		"explanation":        explanation,
		"obligations":        len(c.obls),
		"discharged":         discharged,
		"rule_instances":     ruleInst,
		"min_instances":      c.mins,
		"samples":            samples,
		"functions_analysed": len(fns),
		"functions":          fns,
		"packages_loaded":    len(c.SPkg),
		"repo_functions":     len(c.Funcs),
		"notes":              c.notes,
		"fixed_findings":     fixed,
		"checker_cmd":        fmt.Sprintf("bin/stcheck -property %s -tier %s", c.Prop, c.Tier),
		"exhaustive":         true,
		"build_tags":         c.Tags,
	}
	for k, v := range c.extra {
		cov[k] = v
	}
	ev := evidence{PropertyID: c.Prop, Tier: c.Tier, Seed: 0, Level: "other", Coverage: cov, Assumptions: c.assume, WallS: time.Since(c.start).Seconds(), Violations: len(viol)}
	if s := os.Getenv("VERIF_SEED"); s != "" {
		fmt.Sscanf(s, "%d", &ev.Seed)
	}
	if ev.Assumptions == nil {
		ev.Assumptions = []string{}
	}
	b, _ := json.MarshalIndent(ev, "", " ")
	os.MkdirAll(filepath.Join(c.VerifDir, "evidence"), 0o755)
	if err := os.WriteFile(filepath.Join(c.VerifDir, "evidence", c.Prop+".json"), b, 0o644); err != nil {
		fmt.Println("cannot write evidence:", err)
		return 2
	}
	fmt.Printf("property=%s tier=%s obligations=%d discharged=%d known=%d violations=%d functions=%d wall=%.1fs\n", c.Prop, c.Tier, len(c.obls), discharged, len(c.obls)-discharged-len(viol), len(viol), len(fns), ev.WallS)
	if len(viol) > 0 {
		return 1
	}
	return 0
}

// paramRefName: an unexported module function whose signature is not the one recorded on the reference tree (a
// parameter added, dropped or moved): a parameter whose type identifies it keeps its reference position; a parameter
// the reference signature does not have reads as what the function's only caller hands in.
func (c *Ctx) paramRefName(p *ssa.Parameter) (string, bool) {
	f := p.Parent()
	if f == nil {
		return "", false
	}
	m, done := c.paramRef[f]
	if !done {
		if c.paramRef == nil {
			c.paramRef = map[*ssa.Function]map[*ssa.Parameter]string{}
		}
		c.paramRef[f] = nil // (a recursive rendering falls back to positions)
		m = c.computeParamRef(f)
		c.paramRef[f] = m
	}
	s, ok := m[p]
	return s, ok
}

func (c *Ctx) computeParamRef(f *ssa.Function) map[*ssa.Parameter]string {
	key := sigKey(f)
	if key == "" {
		return nil
	}
	if old, renamed := funcAlias[f]; renamed {
		key = key[:strings.LastIndex(key, ".")+1] + old
	}
	want, ok := anchorSigs[key]
	if !ok || sigOf(f) == want {
		return nil
	}
	ref := sigParamTypes(want)
	off := 0
	if f.Signature.Recv() != nil {
		off = 1
	}
	cur := make([]string, 0, len(f.Params))
	for _, p := range f.Params[off:] {
		cur = append(cur, unexportedTypeRe.ReplaceAllString(types.TypeString(p.Type(), func(p *types.Package) string { return p.Path() }), "$1·"))
	}
	count := func(xs []string, t string) (n, at int) {
		for i, x := range xs {
			if x == t {
				n++
				at = i
			}
		}
		return
	}
	out := map[*ssa.Parameter]string{}
	for j, p := range f.Params[off:] {
		nr, at := count(ref, cur[j])
		nc, _ := count(cur, cur[j])
		if nr == 1 && nc == 1 {
			out[p] = fmt.Sprintf("$%d", at+off)
			continue
		}
		if nr > 0 {
			continue // ambiguous: positions as they are
		}
		// a parameter the reference signature does not have: the argument of the only call
		var calls []*ssa.Call
		for _, h := range c.Funcs {
			for _, cl := range callsTo(h, f) {
				calls = append(calls, cl)
			}
		}
		if len(calls) == 1 {
			if a := declArgs(calls[0]); j < len(a) {
				out[p] = c.path(a[j], nil, 4)
			}
		}
	}
	return out
}

// sigParamTypes: the parameter types of a signature rendered by sigOf ("func(a T, b ...U) R").
func sigParamTypes(sig string) []string {
	if !strings.HasPrefix(sig, "func(") {
		return nil
	}
	depth, end := 0, -1
	for i := 4; i < len(sig); i++ {
		switch sig[i] {
		case '(', '[', '{':
			depth++
		case ')', ']', '}':
			depth--
			if depth == 0 && end < 0 {
				end = i
			}
		}
		if end >= 0 {
			break
		}
	}
	if end < 0 {
		return nil
	}
	var out []string
	depth = 0
	start := 5
	flush := func(s string) {
		s = strings.TrimSpace(s)
		if s == "" {
			return
		}
		if i := strings.Index(s, " "); i >= 0 && !strings.HasPrefix(s, "func(") && !strings.HasPrefix(s, "map[") && !strings.HasPrefix(s, "[]") && !strings.HasPrefix(s, "*") {
			s = s[i+1:]
		}
		if strings.HasPrefix(s, "...") {
			s = "[]" + s[3:]
		}
		out = append(out, s)
	}
	for i := 5; i < end; i++ {
		switch sig[i] {
		case '(', '[', '{':
			depth++
		case ')', ']', '}':
			depth--
		case ',':
			if depth == 0 {
				flush(sig[start:i])
				start = i + 1
			}
		}
	}
	flush(sig[start:end])
	return out
}

// methodsOf: the source-declared methods of a named type (value and pointer receivers), sorted by name.
func (c *Ctx) methodsOf(nt *types.Named) []*ssa.Function {
	var out []*ssa.Function
	seen := map[*ssa.Function]bool{}
	for _, ty := range []types.Type{nt, types.NewPointer(nt)} {
		ms := c.Prog.MethodSets.MethodSet(ty)
		for i := 0; i < ms.Len(); i++ {
			if f := c.Prog.MethodValue(ms.At(i)); f != nil && f.Synthetic == "" && !seen[f] {
				seen[f] = true
				out = append(out, f)
			}
		}
	}
	sort.Slice(out, func(i, j int) bool { return out[i].Name() < out[j].Name() })
	return out
}

// apart runs another property's rules inside this check with the rendering switches of the running check put aside:
// the shared rules name values the way their own run does.
func (c *Ctx) apart(run func(*Ctx)) {
	// (once per check and filter: what a shared run records does not depend on where it is started from)
	memo := fmt.Sprintf("%p|%s", run, strings.Join(c.ruleOnly, ","))
	if c.ruleOnly == nil {
		memo = fmt.Sprintf("%p|*", run)
	}
	if c.apartDone[memo] {
		return
	}
	if c.apartDone == nil {
		c.apartDone = map[string]bool{}
	}
	c.apartDone[memo] = true
	oi, oh := c.inlineFns, c.inlineHelpers
	c.inlineFns, c.inlineHelpers = nil, false
	run(c)
	c.inlineFns, c.inlineHelpers = oi, oh
}
