package main

import (
	"fmt"
	"go/token"
	"strings"

	"golang.org/x/tools/go/ssa"
)

func init() {
	props["C02"] = &propDef{extraPkgs: []string{jsonPatchPkg}, run: runC02, explanation: "Structural clause of C02 decided by static analysis (engine G = exact must-pass-through on success edges of the CFG with interprocedural Ensures summaries; engine P = access-path provenance): every state-producing path of the update/recover/deactivate apply functions crosses the success edge of VerifyJWS on (op.SignedData, key parsed from that same signed data); VerifyJWS succeeds only across VerifySignature on the rebuilt signing input and both verifiers branch on the result of ecdsa/ed25519.Verify; the parser (batch and non-batch) accepts only across the reveal-value hash check on the signing key; signed-data parsing succeeds only across ParseJWS and the protected-header rules (alg present, non-empty, whitelist = {alg,kid}, alg in the configured list); document content / update commitment is installed only behind the delta-hash check on the same delta object; deactivate compares signed and request suffix. Not decided: unforgeability of the signature schemes and hash functions (trusted base). The header whitelist is a test against the constant set {alg,kid} in any spelling, in for-all form, and the loop cannot be bypassed. The JWS rules of C15 run inside this check. The applier's provenance table (C01.P1) runs inside this check."}
}

// tcall: a call found in the call tree of an entry function (in the function itself or in an unexported helper it
// calls), with the environment that renders the helper's values in the entry function's frame.
type tcall struct {
	call *ssa.Call
	env  Env
	fn   *ssa.Function
	top  *ssa.Call       // the call in the entry function through which the call is reached (the call itself when it is there)
	via  []*ssa.Function // the helpers descended through, outermost first
}

func (t *tcall) P(c *Ctx) string { return c.Path(t.call, t.env) }

// treeCalls lists the calls matching m in f and, through static calls, in the module helpers it calls (two levels).
func (c *Ctx) treeCalls(f *ssa.Function, env Env, depth int, m func(cl *ssa.Call, env Env) bool) []*tcall {
	return c.treeCallsT(f, env, depth, nil, m)
}

func (c *Ctx) treeCallsT(f *ssa.Function, env Env, depth int, top *ssa.Call, m func(cl *ssa.Call, env Env) bool) []*tcall {
	return c.treeCallsV(f, env, depth, top, nil, m)
}

// hostsInline: an anchor call found inside helpers — the results of those helpers are rendered as the expressions they
// return, so that `op, sd, err := s.parseVerified(req)` names op and sd after the calls that produced them.
func (c *Ctx) hostsInline(t *tcall) {
	for _, g := range t.via {
		if c.inlineFns == nil {
			c.inlineFns = map[*ssa.Function]bool{}
		}
		c.inlineFns[g] = true
	}
}

func (c *Ctx) treeCallsV(f *ssa.Function, env Env, depth int, top *ssa.Call, via []*ssa.Function, m func(cl *ssa.Call, env Env) bool) []*tcall {
	var out []*tcall
	if f == nil || f.Blocks == nil || depth > 2 {
		return nil
	}
	forEachInstr(f, func(in ssa.Instruction) {
		cl, ok := in.(*ssa.Call)
		if !ok {
			return
		}
		if m(cl, env) {
			t := top
			if t == nil {
				t = cl
			}
			out = append(out, &tcall{call: cl, env: env, fn: f, top: t, via: via})
			return
		}
		if g := cl.Call.StaticCallee(); g != nil && inModule(g) && g.Blocks != nil && g != f && pkgPathOf(g) == pkgPathOf(f) && (g.Object() == nil || !g.Object().Exported()) {
			t := top
			if t == nil {
				t = cl
			}
			out = append(out, c.treeCallsV(g, c.calleeEnv(&cl.Call, g, env), depth+1, t, append(append([]*ssa.Function{}, via...), g), m)...)
		}
	})
	return out
}

// callNamedDyn: the call is to the named function or method — directly, or through a function value the helper was
// handed (a method value such as s.ParseSignedDataForRecover passed to a generic parse-and-wrap helper).
func (c *Ctx) callNamedDyn(cl *ssa.Call, env Env, name string) bool {
	if callNamed(cl, name) {
		return true
	}
	if fn, _, ok := c.dynCallee(cl, env); ok && fn != nil {
		return strings.TrimSuffix(fn.Name(), "$bound") == name
	}
	return false
}

func callNamed(cl *ssa.Call, name string) bool {
	if cl.Call.IsInvoke() {
		return cl.Call.Method.Name() == name
	}
	if g := cl.Call.StaticCallee(); g != nil {
		return g.Name() == name
	}
	return false
}

// applierParseCall finds the applier's call to Parse<Type>Operation(op.OperationRequest, true).
func (c *Ctx) applierParseCall(rule, typ string, f *ssa.Function) *tcall {
	ok := c.treeCalls(f, nil, 0, func(cl *ssa.Call, env Env) bool {
		a := declArgs(cl)
		return c.callNamedDyn(cl, env, parseOpMethod[typ]) && len(a) == 2 && c.Path(a[0], env) == "$1.OperationRequest" && c.Path(a[1], env) == "true"
	})
	if len(ok) != 1 {
		c.Check(rule, "apply-"+typ+":parse-call", false, f.Pos(), fmt.Sprintf("expected exactly one call %s(anchoredOp.OperationRequest, true) in %s, found %d", parseOpMethod[typ], short(f.String()), len(ok)))
		return nil
	}
	c.hostsInline(ok[0])
	return ok[0]
}

func (c *Ctx) applierSDCall(rule, typ string, f *ssa.Function, opPath string) *tcall {
	ok := c.treeCalls(f, nil, 0, func(cl *ssa.Call, env Env) bool {
		a := declArgs(cl)
		return c.callNamedDyn(cl, env, parseSDMethod[typ]) && len(a) == 1 && c.Path(a[0], env) == opPath+"#0.SignedData"
	})
	if len(ok) != 1 {
		c.Check(rule, "apply-"+typ+":signed-data-call", false, f.Pos(), fmt.Sprintf("expected exactly one call %s(op.SignedData) on the parsed operation in %s, found %d", parseSDMethod[typ], short(f.String()), len(ok)))
		return nil
	}
	c.hostsInline(ok[0])
	return ok[0]
}

// revealValueRules (C02.G3, shared with C04: the reveal value the parser reports is the hash of the key the operation
// was signed with only because the parser checks it — in batch mode too): parser, both batch modes: success =>
// IsValidModelMultihash(sd.Key, schema.RevealValue). Returns the parse functions.
func (c *Ctx) revealValueRules() map[string]*ssa.Function {
	isValidMH := c.Fn("hashing", "IsValidModelMultihash")
	pf := c.parseFuncs()
	opModel := c.NamedType(pModel, "Operation")
	for _, typ := range []string{"update", "recover", "deactivate"} {
		f := pf[typ]
		if f == nil {
			c.Unresolved("C02.G3", "Parse"+typ+"Operation")
			continue
		}
		c.Analysed(f)
		// schema := what a decoding helper hands back for the request parameter, or the request struct decoded in place
		sr := c.requestSchema(f, "Request")
		if sr == nil {
			c.Check("C02.G3", "parse-"+typ+":schema", false, f.Pos(), "could not find the request-decoding call on the request parameter")
			continue
		}
		SC := sr.SC
		var sdCall *ssa.Call
		for _, cl := range callsNamed(f, parseSDMethod[typ]) {
			a := declArgs(cl)
			if len(a) == 1 && c.Path(a[0], nil) == SC+".SignedData" {
				sdCall = cl
			}
		}
		if sdCall == nil {
			c.Check("C02.G3", "parse-"+typ+":signed-data", false, f.Pos(), "no "+parseSDMethod[typ]+"(schema.SignedData) call")
			continue
		}
		SD := c.Path(sdCall, nil) + "#0"
		for _, batch := range []string{"true", "false"} {
			env := Env{f.Params[2]: batch}
			chk := callTo("IsValidModelMultihash(signedData."+sdKeyField[typ]+", schema.RevealValue)", isValidMH, pathIs(SD+"."+sdKeyField[typ]), pathIs(SC+".RevealValue"))
			c.CheckGuard("C02.G3", "parse-"+typ+":reveal-check|batch="+batch, f, env, chk)
		}
		// returned model fields come from the same schema
		if opModel != nil {
			for _, a := range allocsOf(f, opModel) {
				ft := c.fieldTable(a, nil)
				want := map[string]string{"SignedData": SC + ".SignedData", "RevealValue": SC + ".RevealValue", "UniqueSuffix": SC + ".DidSuffix", "OperationRequest": "$1"}
				if typ != "deactivate" {
					want["Delta"] = SC + ".Delta"
				}
				for fld, w := range want {
					got := ft[fld]
					c.Check("C02.G3", "parse-"+typ+":model."+fld, len(got) == 1 && got[0] == w, a.Pos(), fmt.Sprintf("returned operation model field %s = %v (expected %s)", fld, got, w))
				}
			}
		}
	}
	c.Min("C02.G3", 6+14)

	return pf
}

func runC02(c *Ctx) {
	af := c.applyFuncs("C02.G1")
	verifyJWS := c.Fn("jwsutil", "VerifyJWS")
	verifySig := c.Fn("jwsutil", "VerifySignature")
	parseJWS := c.Fn("jwsutil", "ParseJWS")
	isValidMH := c.Fn("hashing", "IsValidModelMultihash")
	if verifyJWS == nil || verifySig == nil || parseJWS == nil || isValidMH == nil {
		c.Unresolved("C02.G1", "jwsutil.VerifyJWS / VerifySignature / ParseJWS / hashing.IsValidModelMultihash")
		return
	}

	// ---- G1: applier: non-nil model => VerifyJWS(op.SignedData, sd.<Key>) success, same op in both
	for _, typ := range []string{"update", "recover", "deactivate"} {
		f := af[typ]
		if f == nil {
			c.Unresolved("C02.G1", "apply function for "+typ)
			continue
		}
		pc := c.applierParseCall("C02.G1", typ, f)
		if pc == nil {
			continue
		}
		P := pc.P(c)
		sc := c.applierSDCall("C02.G1", typ, f, P)
		if sc == nil {
			continue
		}
		S := sc.P(c)
		chk := callTo("VerifyJWS(op.SignedData, signedData."+sdKeyField[typ]+")", verifyJWS, pathIs(P+"#0.SignedData"), pathIs(S+"#0."+sdKeyField[typ]))
		c.CheckGuard("C02.G1", "apply-"+typ+":VerifyJWS", f, nil, chk)
	}
	c.Min("C02.G1", 3)

	// ---- G2: VerifyJWS => VerifySignature(jwk, parsed.signature, signingInput(parsed.ProtectedHeaders, parsed.Payload))
	{
		c.Analysed(verifyJWS)
		pj := callsTo(verifyJWS, parseJWS)
		if len(pj) != 1 {
			c.Check("C02.G2", "VerifyJWS:ParseJWS", false, verifyJWS.Pos(), fmt.Sprintf("expected one ParseJWS call, found %d", len(pj)))
		} else {
			J := c.Path(pj[0], nil) + "#0"
			ok0 := c.Path(pj[0].Call.Args[0], nil) == "$0"
			c.Check("C02.G2", "VerifyJWS:parses-its-argument", ok0, pj[0].Pos(), "ParseJWS is applied to VerifyJWS's first parameter: "+c.Path(pj[0].Call.Args[0], nil))
			si := c.Fn("jwsutil", "signingInput")
			chk := &GCheck{Name: "VerifySignature(jwk, parsed.signature, signingInput(parsed.ProtectedHeaders, parsed.Payload))", MatchCall: func(c *Ctx, call *ssa.Call, env Env) bool {
				if call.Call.StaticCallee() != verifySig {
					return false
				}
				a := call.Call.Args
				if c.Path(a[0], env) != "$1" || c.Path(a[1], env) != J+".signature" {
					return false
				}
				// third argument: result #0 of a call taking (parsed.ProtectedHeaders, parsed.Payload)
				ex, ok := a[2].(*ssa.Extract)
				if !ok || ex.Index != 0 {
					return false
				}
				sc, ok := ex.Tuple.(*ssa.Call)
				if !ok || len(sc.Call.Args) != 2 {
					return false
				}
				if si != nil && sc.Call.StaticCallee() != si {
					return false
				}
				return c.Path(sc.Call.Args[0], env) == J+".ProtectedHeaders" && c.Path(sc.Call.Args[1], env) == J+".Payload"
			}}
			c.CheckGuard("C02.G2", "VerifyJWS:VerifySignature", verifyJWS, nil, chk)
			// returned JWS is the parsed object
			good := true
			for _, r := range returnsOf(verifyJWS) {
				if maySucceed(r) && c.Path(r.Results[0], nil) != J {
					good = false
				}
			}
			c.Check("C02.G2", "VerifyJWS:returns-parsed", good, verifyJWS.Pos(), "every success return of VerifyJWS hands back the parsed JWS "+J)
		}
		// VerifySignature dispatch
		c.Analysed(verifySig)
		// (a switch over the key type, or a package-level table of verifier functions keyed by it)
		dvK := c.dispatch(verifySig, func(p string) bool { return p == "$0.Kty" })
		got := map[string]string{}
		verifiers := map[string]*ssa.Function{}
		for k, a := range dvK.arms {
			for _, ac := range c.armCalls(dvK, a) {
				if g := ac.callee; g != nil && inModule(g) {
					got[unquote(k)] = g.Name()
					verifiers[k] = g
					// arguments pass (jwk, signature, msg) through unchanged
					okArgs := len(ac.args) == 3 && ac.args[0] == "$0" && ac.args[1] == "$1" && ac.args[2] == "$2"
					c.Check("C02.G2", "VerifySignature:case-"+unquote(k)+":args", okArgs, verifySig.Pos(), "verifier receives (jwk, signature, msg) unchanged")
				}
			}
		}
		if dvK.table {
			foundOnly, callReq := c.tableGuards(dvK)
			c.Check("C02.G2", "VerifySignature:table:unknown-kty-refused", foundOnly && callReq, verifySig.Pos(), "a key type outside the table is refused and the table's verifier decides")
		}
		c.Check("C02.G2", "VerifySignature:kty-table", len(got) == 2 && got["EC"] != "" && got["OKP"] != "" && got["EC"] != got["OKP"], verifySig.Pos(), fmt.Sprintf("kty dispatch table %v (expected exactly EC and OKP to distinct verifiers)", got))
		ecV := c.ExtFn("crypto/ecdsa", "Verify")
		edV := c.ExtFn("crypto/ed25519", "Verify")
		if ecV == nil || edV == nil {
			c.Unresolved("C02.G2", "crypto/ecdsa.Verify / crypto/ed25519.Verify")
		} else {
			anyVerify := &GCheck{Name: "ecdsa.Verify / ed25519.Verify == true", MatchCall: func(c *Ctx, call *ssa.Call, env Env) bool {
				g := call.Call.StaticCallee()
				return g == ecV || g == edV
			}}
			c.CheckGuard("C02.G2", "VerifySignature:Verify-result-tested", verifySig, nil, anyVerify)
			// per verifier, and argument dependence: key from jwk param, message from msg param, sig from signature param
			for k, g := range verifiers {
				{
					c.CheckGuard("C02.G2", "verifier-"+unquote(k)+":Verify-result-tested", g, nil, anyVerify)
					for _, vc := range findCalls(g, func(x *ssa.Call) bool { s := x.Call.StaticCallee(); return s == ecV || s == edV }) {
						var roles []int // param index each Verify argument must depend on
						if vc.Call.StaticCallee() == ecV {
							roles = []int{0, 2, 1, 1} // pub<-jwk, hash<-msg, r<-signature, s<-signature
						} else {
							roles = []int{0, 2, 1} // pub<-jwk, msg, sig
						}
						okDep := true
						var bad []string
						for i, want := range roles {
							sl := backSlice(vc.Call.Args[i])
							if !sliceHas(sl, isParam(g, want)) {
								okDep = false
								bad = append(bad, fmt.Sprintf("arg%d does not depend on parameter %d", i, want))
							}
						}
						c.Check("C02.G2", "verifier-"+unquote(k)+":Verify-args", okDep, vc.Pos(), "Verify arguments derive from (jwk, msg, signature) respectively "+strings.Join(bad, "; "))
					}
				}
			}
		}
	}
	c.Min("C02.G2", 8)

	pf := c.revealValueRules()

	c.protectedHeaderRules()

	// ---- G5: delta binding in the applier
	for _, typ := range []string{"update", "recover", "create"} {
		f := af[typ]
		if f == nil {
			c.Unresolved("C02.G5", "apply function for "+typ)
			continue
		}
		pc := c.applierParseCall("C02.G5", typ, f)
		if pc == nil {
			continue
		}
		P := pc.P(c)
		var hashPath string
		if typ == "create" {
			hashPath = P + "#0.SuffixData.DeltaHash"
		} else {
			sc := c.applierSDCall("C02.G5", typ, f, P)
			if sc == nil {
				continue
			}
			hashPath = sc.P(c) + "#0.DeltaHash"
		}
		chk := callTo("IsValidModelMultihash(op.Delta, signed delta hash)", isValidMH, pathIs(P+"#0.Delta"), pathIs(hashPath))
		if typ == "update" {
			c.CheckGuard("C02.G5", "apply-update:delta-hash", f, nil, chk)
		} else {
			rmT := c.NamedType("api/protocol", "ResolutionModel")
			for _, fld := range []string{"UpdateCommitment", "Doc"} {
				ev := c.lateStoreEvent(f, rmT, fld)
				ok, w, n := c.Guard(f, nil, chk, ev)
				c.Check("C02.G5", "apply-"+typ+":install-"+fld+":delta-hash", ok, f.Pos(), fmt.Sprintf("installing %s after construction lies behind the delta-hash check (sites=%d)", fld, n), w...)
			}
		}
		// the patches applied are op.Delta.Patches of the same op
		for _, tc := range c.treeCalls(f, nil, 0, func(cl *ssa.Call, env Env) bool { return callNamed(cl, "ApplyPatches") }) {
			cl := tc.call
			a := declArgs(cl)
			c.Check("C02.G5", "apply-"+typ+":patches-source", len(a) == 2 && c.Path(a[1], tc.env) == P+"#0.Delta.Patches", cl.Pos(), "ApplyPatches receives "+c.Path(a[len(a)-1], tc.env)+" (expected the hash-checked op.Delta.Patches)")
		}
	}
	c.isValidModelMultihashContract("C02.G5")
	c.Min("C02.G5", 1+4+3+4)

	// ---- G6: deactivate suffix equality (applier and parser)
	if f := af["deactivate"]; f != nil {
		if pc := c.applierParseCall("C02.G6", "deactivate", f); pc != nil {
			P := pc.P(c)
			if sc := c.applierSDCall("C02.G6", "deactivate", f, P); sc != nil {
				S := sc.P(c)
				c.CheckGuard("C02.G6", "apply-deactivate:suffix-equality", f, nil, cmpReject("op.UniqueSuffix != signedData.DidSuffix rejected", token.NEQ, pathIs(P+"#0.UniqueSuffix"), pathIs(S+"#0.DidSuffix")))
			}
		}
	} else {
		c.Unresolved("C02.G6", "apply function for deactivate")
	}
	if f := pf["deactivate"]; f != nil {
		for _, batch := range []string{"true", "false"} {
			c.CheckGuard("C02.G6", "parse-deactivate:suffix-equality|batch="+batch, f, Env{f.Params[2]: batch}, cmpReject("signedData.DidSuffix != schema.DidSuffix rejected", token.NEQ,
				func(s string) bool {
					return strings.HasSuffix(s, "#0.DidSuffix") && strings.Contains(s, "ParseSignedDataForDeactivate")
				},
				func(s string) bool {
					return strings.HasSuffix(s, "#0.DidSuffix") && !strings.Contains(s, "ParseSignedDataForDeactivate")
				}))
		}
	}
	c.Min("C02.G6", 3)
	c.Assume("ECDSA / EdDSA / SHA-2 and go-jose key decoding are a trusted base; counterfeiter doubles (pkg/mocks, *.gen.go) are excluded from interface-call resolution")
	// "a compact JWS that verifies under the public key": what verification accepts (signature length and split, digest,
	// Verify result) is decided by the JWS rules of C15, which run inside this check
	c.apart(runC15)
	// the delta hash binds the delta only as far as the canonical form tells deltas apart: the JCS rules
	c.jcsRules()
	// … and only as far as what is hashed is what is applied: the request is decoded once, by encoding/json's Unmarshal,
	// into the model the checks and the composer both read (the parser's rules, C07)
	c.apart(runC07)
	// "content or commitments chosen by someone without the private key are never installed": every field of the state an
	// accepted operation installs comes from its signed content, its anchoring coordinates or the previous state — the
	// provenance table of the apply functions (C01.P1); a field filled from the unsigned envelope is someone else's choice
	c.only(runC01, "C01.P1")
}

// lateStoreEvent: stores to field `fld` of an allocation of struct `named` that are NOT part of the
// initial construction (i.e. value is not a constant zero / make(...) placeholder): the "install" events.
func (c *Ctx) lateStoreEvent(f *ssa.Function, named interface{ String() string }, fld string) func(in ssa.Instruction) bool {
	return func(in ssa.Instruction) bool {
		st, ok := in.(*ssa.Store)
		if !ok {
			return false
		}
		fa, ok := st.Addr.(*ssa.FieldAddr)
		if !ok {
			return false
		}
		if fieldName(fa.X.Type(), fa.Field) != fld {
			return false
		}
		if !strings.HasSuffix(typeShort(fa.X.Type()), named.String()[strings.LastIndex(named.String(), "/")+1:]) {
			return false
		}
		// placeholder values: fresh empty map / previous model's doc / empty constants
		switch v := st.Val.(type) {
		case *ssa.MakeMap:
			return false
		case *ssa.Const:
			_ = v
			return false
		}
		p := c.Path(st.Val, nil)
		if strings.HasPrefix(p, "$2.") { // copied from the previous resolution model
			return false
		}
		return true
	}
}

// checkHeaderWhitelist: inside f's call tree there is a loop over the protected headers in which each
// header name must be found in a literal set equal to {alg, kid}.
func (c *Ctx) checkHeaderWhitelist(rule, typ string, f *ssa.Function, isH func(string) bool) {
	found := false
	var wfn *ssa.Function
	var visit func(g *ssa.Function, env Env, d int)
	seen := map[*ssa.Function]bool{}
	visit = func(g *ssa.Function, env Env, d int) {
		if d > 4 || seen[g] || g.Blocks == nil {
			return
		}
		seen[g] = true
		// a test of the header name next(range(H)) against a constant set, in any spelling (map literal lookup,
		// switch / equality chain, membership function over a slice literal)
		isName := func(ip string) bool {
			i0 := strings.Index(ip, "range(")
			if i0 < 0 || !strings.HasSuffix(ip, "))#0") && !strings.HasSuffix(ip, "))#1") {
				return false
			}
			return isH(ip[i0+6 : len(ip)-4])
		}
		for _, t := range c.constSetTests(g, env, isName) {
			found = true
			wfn = g
			wantAlg, _ := c.ConstVal("jws", "HeaderAlgorithm")
			wantKid, _ := c.ConstVal("jws", "HeaderKeyID")
			want := sortedCopy([]string{unquote(wantAlg), unquote(wantKid)})
			c.Check(rule, typ+":header-whitelist-set", eqStrs(t.set, want) && eqStrs(want, []string{"alg", "kid"}), t.pos, fmt.Sprintf("allowed protected-header set %s (expected {alg,kid} = jws.HeaderAlgorithm, jws.HeaderKeyID)", fmtSet(t.set)))
			// loop form: each iteration crosses a member edge
			cut := map[edge]bool{}
			for _, e := range t.member {
				cut[e] = true
			}
			okLoop := false
			var w []string
			for _, l := range naturalLoops(g) {
				if !l.blocks[t.blk] {
					continue
				}
				okLoop, w = c.loopForall(g, l, cut, "header name ∈ allowed set")
			}
			c.Check(rule, typ+":header-whitelist-forall", okLoop, t.pos, "every protected header name must be in the allowed set (for-all loop, rejecting only)", w...)
			// ... and the loop itself cannot be bypassed: no successful exit of the function is reachable without
			// entering the loop (a length pre-test in front of it would let small header sets through unchecked)
			for _, l := range naturalLoops(g) {
				if !l.blocks[t.blk] {
					continue
				}
				cutIn := map[edge]bool{}
				for _, p := range l.header.Preds {
					if !l.blocks[p] {
						cutIn[edge{from: p, to: l.header}] = true
					}
				}
				bypass := false
				for b := range reach(g.Blocks[0], cutIn) {
					if r, isR := b.Instrs[len(b.Instrs)-1].(*ssa.Return); isR && maySucceed(r) && !l.blocks[b] {
						bypass = true
					}
				}
				if g.Blocks[0] == l.header {
					bypass = false
				}
				c.Check(rule, typ+":header-whitelist-not-bypassed", !bypass, t.pos, "the function cannot succeed without running the loop over the protected headers")
			}
		}
		// (the test found here: a predicate helper it asks has been read as part of it, not as a whitelist of its own)
		if found && wfn == g {
			return
		}
		for _, b := range g.Blocks {
			for _, in := range b.Instrs {
				if cl, ok := in.(*ssa.Call); ok {
					for _, h := range c.Callees(&cl.Call) {
						if inModule(h) {
							visit(h, c.calleeEnv(&cl.Call, h, env), d+1)
						}
					}
				}
			}
		}
	}
	visit(f, nil, 0)
	if !found {
		c.Check(rule, typ+":header-whitelist-set", false, f.Pos(), "no whitelist lookup keyed by the protected header names found in the call tree of "+short(f.String()))
	} else if wfn != f {
		// the whitelist function's success must be required by f
		c.CheckGuard(rule, typ+":header-whitelist-required", f, nil, &GCheck{Name: "header whitelist function succeeds on the parsed protected headers", MatchCall: func(c *Ctx, call *ssa.Call, env Env) bool {
			if call.Call.StaticCallee() != wfn {
				return false
			}
			for _, a := range call.Call.Args {
				if isH(c.Path(a, env)) {
					return true
				}
			}
			return false
		}})
	}
}

func extractOf2(v ssa.Value, idx int) ssa.Value {
	for _, r := range *v.Referrers() {
		if e, ok := r.(*ssa.Extract); ok && e.Index == idx {
			return e
		}
	}
	return nil
}

// protectedHeaderRules (C02.G4): signed data is a compact JWS parsed by ParseJWS; alg present, non-empty and in the
// protocol's list; every protected header name lies in the literal set {alg, kid}. Shared with C07, whose statement
// carries the same clause.
func (c *Ctx) protectedHeaderRules() {
	parseJWS := c.Fn("jwsutil", "ParseJWS")
	if parseJWS == nil {
		c.Unresolved("C02.G4", "jwsutil.ParseJWS")
		return
	}
	// ---- G4: signed-data parsing: ParseJWS + protected header rules
	sdf := c.signedDataFuncs()
	algM := c.Method("jws", "Headers", "Algorithm")
	for _, typ := range []string{"update", "recover", "deactivate"} {
		f := sdf[typ]
		if f == nil {
			c.Unresolved("C02.G4", parseSDMethod[typ])
			continue
		}
		c.CheckGuard("C02.G4", typ+":ParseJWS", f, nil, callTo("ParseJWS(compactJWS)", parseJWS, pathIs("$1")))
		isH := func(s string) bool {
			return strings.HasPrefix(s, "jwsutil.ParseJWS($1,") && strings.HasSuffix(s, ")#0.ProtectedHeaders") && strings.Count(s, "(") == 1
		}
		isAlg := func(s string) bool {
			if algM == nil {
				return false
			}
			pre := short(algM.String()) + "("
			return strings.HasPrefix(s, pre) && strings.HasSuffix(s, ")#0") && isH(s[len(pre):len(s)-3])
		}
		c.CheckGuard("C02.G4", typ+":alg-present", f, nil, &GCheck{Name: "headers.Algorithm() ok", MatchCall: func(c *Ctx, call *ssa.Call, env Env) bool {
			return algM != nil && call.Call.StaticCallee() == algM && isH(c.Path(call.Call.Args[0], env))
		}})
		c.CheckGuard("C02.G4", typ+":alg-non-empty", f, nil, cmpReject(`alg == "" rejected`, token.EQL, isAlg, pathIs(`""`)))
		// allowed algorithm list: membership call with (Protocol.SignatureAlgorithms, alg)
		c.CheckGuard("C02.G4", typ+":alg-in-SignatureAlgorithms", f, nil, &GCheck{Name: "alg ∈ Protocol.SignatureAlgorithms", MatchCall: func(c *Ctx, call *ssa.Call, env Env) bool {
			g := call.Call.StaticCallee()
			if g == nil || !(inModule(g) || isSlicesContains(g)) || !isBoolType(call.Type()) || len(call.Call.Args) != 2 {
				return false
			}
			mList, mWanted := memberArgs(call)
			if c.Path(mList, env) != "$0.Protocol.SignatureAlgorithms" || !isAlg(c.Path(mWanted, env)) {
				return false
			}
			ok, _ := c.isMembershipFn(g)
			return ok
		}})
		// header whitelist: every header name is looked up in a literal set equal to {alg, kid}
		c.checkHeaderWhitelist("C02.G4", typ, f, isH)
	}
	c.Min("C02.G4", 3*5)
}
