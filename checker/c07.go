package main

import (
	"fmt"
	"go/token"
	"go/types"
	"regexp"
	"sort"
	"strings"

	"golang.org/x/tools/go/ssa"
)

func init() {
	props["C07"] = &propDef{extraPkgs: []string{jsonPatchPkg}, run: runC07, explanation: "Partial (the 'only if' direction and result fidelity). Decided statically: (G1) outside batch mode, Parse succeeds only across the success edge of every protocol rule, per operation type — size gate before decoding, known type, suffix-data and delta presence, every hash rule (length ≤ MaxOperationHashLength, algorithm ∈ MultihashAlgorithms), non-empty patches each with a supported+enabled action and a passing patch validator (for-all loop form), delta size ≤ MaxDeltaSize, delta-hash binding, signing-key rules (present, valid, curve ∈ KeyAlgorithms, nonce empty or of NonceSize), protected-header rules (C02.G4), anchor-origin and time validators, reveal-value match, key-reuse and distinct-commitment rules, deactivate suffix equality; (K1) every one of the nine Protocol parameters the parser/applier read reaches exactly its own sink (comparison with the right length, membership loop, arithmetic with anchorFrom), with the documented operator; (P1) the returned operation carries type, suffix, namespaced id, the original bytes and the anchor origin of the parsed request. Not decided: the 'if' direction (no spurious rejections inside encoding/json, net/url, go-jose) and the semantic correctness of individual patch rules (C13). The protected-header rules of C02.G4 run inside this check as well. Each size limit is compared at exactly one place. The algorithm half of the hash test compares the code GetMultihashCode decodes from a well-formed multihash. All of C06 and the duplicate-refusing header decoder rule run inside this check; the decoded request is not modified. No parser function writes through a model / operation / JWK it is handed; C09.U1 runs here. parseSignedData refuses only missing signed data, what ParseJWS refuses and what the header check refuses."}
}

func lenOf(p string) string  { return "len(" + p + ")" }
func cfgInt(f string) string { return "conv<int>($0.Protocol." + f + ")" }

// hashRule returns the two checks of the "multihash rule" on the value with path X.
func (c *Ctx) hashRule(X string) []*GCheck {
	icu := c.Fn("hashing", "IsComputedUsingMultihashAlgorithms")
	return []*GCheck{
		cmpReject("len("+X+") > MaxOperationHashLength rejected", token.GTR, pathIs(lenOf(X)), pathIs(cfgInt("MaxOperationHashLength"))),
		callTo("IsComputedUsingMultihashAlgorithms("+X+", Protocol.MultihashAlgorithms)", icu, pathIs(X), pathIs("$0.Protocol.MultihashAlgorithms")),
	}
}

func (c *Ctx) guardAll(rule, key string, f *ssa.Function, env Env, chks ...*GCheck) {
	for _, ck := range chks {
		c.CheckGuard(rule, key+":"+ck.Name, f, env, ck)
	}
}

// emptinessTest: the spellings of "the list is empty / non-empty" as a comparison of its length.
var emptinessTest = map[string]bool{"cmp: 0 == cfg": true, "cmp: 0 != cfg": true, "cmp: 1 > cfg": true, "cmp: 0 >= cfg": true, "cmp: 0 < cfg": true, "cmp: 1 <= cfg": true}

func runC07(c *Ctx) {
	parse := c.Method(pParser, "Parser", "Parse")
	po := c.Method(pParser, "Parser", "ParseOperation")
	vd := c.Method(pParser, "Parser", "ValidateDelta")
	vs := c.Method(pParser, "Parser", "ValidateSuffixData")
	ivm := c.Fn("hashing", "IsValidModelMultihash")
	getC := c.Fn("commitment", "GetCommitment")
	// (a helper of the parser that computes "the commitment of this key with the algorithm of that commitment" and hands
	// back GetCommitment's result on its one success exit reads as that call)
	if getC != nil {
		saved := c.inlineFns
		c.inlineFns = map[*ssa.Function]bool{}
		for k, v := range saved {
			c.inlineFns[k] = v
		}
		defer func() { c.inlineFns = saved }()
		for _, g := range c.Funcs {
			if pkgPathOf(g) != modPkg+pParser || g.Blocks == nil || g.Object() == nil || g.Object().Exported() || g.Parent() != nil {
				continue
			}
			srs := successReturns(g)
			if len(srs) != 1 || len(srs[0].Results) != 2 {
				continue
			}
			if ex, isEx := returnedValue(srs[0], 0).(*ssa.Extract); isEx && ex.Index == 0 {
				if cl, isC := ex.Tuple.(*ssa.Call); isC && cl.Call.StaticCallee() == getC {
					c.inlineFns[g] = true
				}
			}
		}
	}
	pvValidate := c.Fn(pPV, "Validate")
	jwkValidate := c.Method("jws", "JWK", "Validate")
	getAction := c.Method("patch", "Patch", "GetAction")
	jsonU := c.ExtFn("encoding/json", "Unmarshal")
	pf := c.parseFuncs()
	sdf := c.signedDataFuncs()
	for n, f := range map[string]*ssa.Function{"Parse": parse, "ParseOperation": po, "ValidateDelta": vd, "ValidateSuffixData": vs, "IsValidModelMultihash": ivm, "commitment.GetCommitment": getC, "patchvalidator.Validate": pvValidate, "jws.JWK.Validate": jwkValidate, "patch.Patch.GetAction": getAction, "json.Unmarshal": jsonU} {
		if f == nil {
			c.Unresolved("C07.G1", n)
			return
		}
	}

	// ---------------- G1: all types — size gate, dispatch
	c.CheckGuard("C07.G1", "all:size-gate", po, nil, cmpReject("len(operationBuffer) > MaxOperationSize rejected", token.GTR, pathIs("len($2)"), pathIs(cfgInt("MaxOperationSize"))))
	{
		gate := cmpReject("size gate", token.GTR, pathIs("len($2)"), pathIs(cfgInt("MaxOperationSize")))
		// gateFirst(f, env): in f no call receives the buffer (caller-side path $2) before the size gate, where a call
		// to a module function that itself gates first is not such a use
		var gateFirst func(f *ssa.Function, env Env, d int) (bool, []string)
		gateFirst = func(f *ssa.Function, env Env, d int) (bool, []string) {
			ok, w, _ := c.Guard(f, env, gate, func(in ssa.Instruction) bool {
				cl, isC := in.(*ssa.Call)
				if !isC {
					return false
				}
				// any use of the buffer other than len(): decoding or handing it to a per-type parser
				for _, a := range cl.Call.Args {
					if c.Path(a, env) == "$2" {
						if _, isB := cl.Call.Value.(*ssa.Builtin); isB {
							continue
						}
						if g := cl.Call.StaticCallee(); g != nil && inModule(g) && g.Blocks != nil && d < 2 {
							if okG, _ := gateFirst(g, c.calleeEnv(&cl.Call, g, env), d+1); okG {
								if okE, _ := c.ensures(g, c.calleeEnv(&cl.Call, g, env), gate, 1); okE {
									continue
								}
							}
						}
						return true
					}
				}
				return false
			})
			return ok, w
		}
		ok, w := gateFirst(po, nil, 0)
		c.Check("C07.G1", "all:size-gate-before-decoding", ok, po.Pos(), "no decoding / parsing call receives the buffer before the size gate", w...)
	}
	c.checkParseDispatch("C07.G1")
	if parse != nil {
		ok := false
		for _, cl := range callsTo(parse, po) {
			a := declArgs(cl)
			if c.Path(a[0], nil) == "$1" && c.Path(a[1], nil) == "$2" && c.Path(a[2], nil) == "false" {
				ok = true
				c.CheckGuard("C07.G1", "Parse:requires-ParseOperation", parse, nil, &GCheck{Name: "ParseOperation(namespace, buffer, false)", MatchCall: func(c *Ctx, call *ssa.Call, env Env) bool { return call == cl }})
			}
		}
		c.Check("C07.G1", "Parse:non-batch", ok, parse.Pos(), "Parse delegates to ParseOperation(namespace, buffer, false)")
	}

	// ---------------- ValidateSuffixData / ValidateDelta (exported building blocks)
	c.CheckGuard("C07.G1", "ValidateSuffixData:nil-rejected", vs, nil, cmpReject("suffixData == nil rejected", token.EQL, pathIs("$1"), pathIs("nil")))
	c.guardAll("C07.G1", "ValidateSuffixData:recoveryCommitment", vs, nil, c.hashRule("$1.RecoveryCommitment")...)
	c.guardAll("C07.G1", "ValidateSuffixData:deltaHash", vs, nil, c.hashRule("$1.DeltaHash")...)
	// what the algorithm half of that test means: the code of a well-formed multihash is one of the configured ones
	c.isComputedUsingRule("C07.G1")

	c.CheckGuard("C07.G1", "ValidateDelta:nil-rejected", vd, nil, cmpReject("delta == nil rejected", token.EQL, pathIs("$1"), pathIs("nil")))
	c.CheckGuard("C07.G1", "ValidateDelta:empty-patches-rejected", vd, nil, cmpReject("len(delta.Patches) == 0 rejected", token.EQL, pathIs("len($1.Patches)"), pathIs("0")))
	elem := "$1.Patches[ι]"
	actionPath := short(getAction.String()) + "(" + elem + ")#0"
	c.CheckGuardLoop("C07.G1", "ValidateDelta:each-patch:GetAction", vd, nil, callTo("patch.GetAction()", getAction, pathIs(elem)))
	c.CheckGuardLoop("C07.G1", "ValidateDelta:each-patch:enabled", vd, nil, &GCheck{Name: "action ∈ Protocol.Patches", MatchCall: func(c *Ctx, call *ssa.Call, env Env) bool {
		g := call.Call.StaticCallee()
		if g == nil || !inModule(g) || (!isBoolType(call.Type()) && !isErrType(call.Type())) {
			return false
		}
		a := declArgs(call)
		// (a method of the parser handed the action, or a plain function handed the parser's list and the action)
		listArg := len(a) == 2 && g.Signature.Recv() == nil && c.Path(a[0], env) == "$0.Protocol.Patches" && c.Path(a[1], env) == actionPath
		if !listArg && (len(a) != 1 || c.Path(a[0], env) != actionPath) {
			return false
		}
		// g returns true only behind Protocol.Patches[i] == action
		isAct := func(s string) bool {
			return s == "$1" || (strings.HasPrefix(s, "conv<") && strings.HasSuffix(s, ">($1)"))
		}
		isEl := func(s string) bool {
			if listArg && (s == "$0[ι]" || (strings.HasPrefix(s, "conv<") && strings.HasSuffix(s, ">($0[ι])"))) {
				return true
			}
			return s == "$0.Protocol.Patches[ι]" || (strings.HasPrefix(s, "conv<") && strings.HasSuffix(s, ">($0.Protocol.Patches[ι])"))
		}
		ok, _, n := c.Guard(g, nil, anyOf("action is an element of Protocol.Patches",
			&GCheck{Name: "Protocol.Patches[i] == action", NoDescend: true, MatchCmp: func(c *Ctx, b *ssa.BinOp, env Env) (bool, bool) {
				if b.Op != token.EQL && b.Op != token.NEQ {
					return false, false
				}
				l, r := c.Path(b.X, env), c.Path(b.Y, env)
				if (isEl(l) && isAct(r)) || (isEl(r) && isAct(l)) {
					return true, b.Op == token.EQL
				}
				return false, false
			}},
			&GCheck{Name: "slices.Contains(Protocol.Patches, action)", NoDescend: true, MatchCall: func(c *Ctx, call *ssa.Call, env Env) bool {
				h := call.Call.StaticCallee()
				if h != nil && isSlicesContains(h) && len(call.Call.Args) == 2 && c.Path(call.Call.Args[0], env) == "$0.Protocol.Patches" && isAct(c.Path(call.Call.Args[1], env)) {
					return true
				}
				// slices.ContainsFunc(Protocol.Patches, func(a) bool { return conv(a) == action })
				if fn, other := equalityClosureSearch(call); fn != nil && isBoolType(call.Type()) {
					return c.Path(call.Call.Args[0], env) == "$0.Protocol.Patches" && isAct(strings.TrimPrefix(c.Path(other, nil), "up:"))
				}
				return false
			}},
			&GCheck{Name: "slices.IndexFunc(Protocol.Patches, a == action) >= 0", NoDescend: true, MatchCmp: func(c *Ctx, b *ssa.BinOp, env Env) (bool, bool) {
				call, isC := b.X.(*ssa.Call)
				if !isC {
					return false, false
				}
				fn, other := equalityClosureSearch(call)
				if fn == nil || isBoolType(call.Type()) || c.Path(call.Call.Args[0], env) != "$0.Protocol.Patches" || !isAct(strings.TrimPrefix(c.Path(other, nil), "up:")) {
					return false, false
				}
				switch k := c.Path(b.Y, env); {
				case (b.Op == token.GEQ && k == "0") || (b.Op == token.GTR && k == "-1") || (b.Op == token.NEQ && k == "-1"):
					return true, true
				case (b.Op == token.LSS && k == "0") || (b.Op == token.LEQ && k == "-1") || (b.Op == token.EQL && k == "-1"):
					return true, false
				}
				return false, false
			}}), nil)
		return ok && n > 0
	}})
	c.CheckGuardLoop("C07.G1", "ValidateDelta:each-patch:patchvalidator", vd, nil, callTo("patchvalidator.Validate(patch)", pvValidate, pathIs(elem)))
	c.guardAll("C07.G1", "ValidateDelta:updateCommitment", vd, nil, c.hashRule("$1.UpdateCommitment")...)
	c.CheckGuard("C07.G1", "ValidateDelta:delta-size", vd, nil, cmpReject("len(JCS(delta)) > MaxDeltaSize rejected", token.GTR, pathIs("len(canonicalizer.MarshalCanonical($1)#0)"), pathIs(cfgInt("MaxDeltaSize"))))

	// ---------------- signed data functions
	for _, typ := range []string{"update", "recover", "deactivate"} {
		f := sdf[typ]
		if f == nil {
			c.Unresolved("C07.G1", parseSDMethod[typ])
			continue
		}
		c.Analysed(f)
		mt := c.NamedType(pModel, map[string]string{"update": "UpdateSignedDataModel", "recover": "RecoverSignedDataModel", "deactivate": "DeactivateSignedDataModel"}[typ])
		// the model is the value every success exit returns (an allocation here, or what a decoding helper hands back)
		var model ssa.Value
		okRet := true
		for _, r := range successReturns(f) {
			v := returnedValue(r, 0)
			if model == nil {
				model = v
			} else if model != v {
				okRet = false
			}
		}
		if pt, isP := func() (*types.Pointer, bool) {
			if model == nil {
				return nil, false
			}
			p, ok := model.Type().Underlying().(*types.Pointer)
			return p, ok
		}(); !isP || !types.Identical(pt.Elem(), mt) {
			c.Check("C07.G1", "sd-"+typ+":model", false, f.Pos(), "expected the success exits to return one signed-data model")
			continue
		}
		A := c.Path(model, nil)
		c.Check("C07.G1", "sd-"+typ+":returns-decoded-model", okRet, f.Pos(), "the validated model is the one returned")
		// decoded from the JWS payload
		c.CheckGuard("C07.G1", "sd-"+typ+":payload-decoded", f, nil, &GCheck{Name: "json.Unmarshal(jws.Payload, model)", MatchCall: func(c *Ctx, call *ssa.Call, env Env) bool {
			return call.Call.StaticCallee() == jsonU && strings.HasSuffix(c.Path(call.Call.Args[0], env), "#0.Payload") && c.Path(call.Call.Args[1], env) == A
		}})
		K := A + "." + sdKeyField[typ]
		c.CheckGuard("C07.G1", "sd-"+typ+":key-present", f, nil, cmpReject("signing key == nil rejected", token.EQL, pathIs(K), pathIs("nil")))
		c.CheckGuard("C07.G1", "sd-"+typ+":key-valid", f, nil, callTo("jwk.Validate()", jwkValidate, pathIs(K)))
		c.CheckGuard("C07.G1", "sd-"+typ+":key-curve-allowed", f, nil, &GCheck{Name: "key.Crv ∈ Protocol.KeyAlgorithms", MatchCall: func(c *Ctx, call *ssa.Call, env Env) bool {
			g := call.Call.StaticCallee()
			if g == nil || !(inModule(g) || isSlicesContains(g)) || !isBoolType(call.Type()) || len(call.Call.Args) != 2 {
				return false
			}
			mList, mWanted := memberArgs(call)
			if c.Path(mList, env) != "$0.Protocol.KeyAlgorithms" || c.Path(mWanted, env) != K+".Crv" {
				return false
			}
			ok, _ := c.isMembershipFn(g)
			return ok
		}})
		N := K + ".Nonce"
		c.CheckGuard("C07.G1", "sd-"+typ+":nonce-rule", f, nil, anyOf("nonce empty, or decodable with len == Protocol.NonceSize",
			cmpAccept(`nonce == ""`, token.EQL, pathIs(N), pathIs(`""`)),
			cmpReject("len(decoded nonce) != NonceSize rejected", token.NEQ, pathIs("len(encoder.DecodeString("+N+")#0)"), pathIs(cfgInt("NonceSize")))))
		// a non-empty nonce must decode
		if typ != "deactivate" {
			c.guardAll("C07.G1", "sd-"+typ+":deltaHash", f, nil, c.hashRule(A+".DeltaHash")...)
		}
		if typ == "recover" {
			c.guardAll("C07.G1", "sd-recover:recoveryCommitment", f, nil, c.hashRule(A+".RecoveryCommitment")...)
			c.CheckGuard("C07.G1", "sd-recover:key-reuse", f, nil, c.keyReuse(getC, K, A+".RecoveryCommitment"))
		}
	}

	// protected-header rules (alg allowed, nothing but alg/kid): the same contract as C02.G4
	c.protectedHeaderRules()

	// ---------------- per type, non-batch
	for _, typ := range opTypes {
		f := pf[typ]
		if f == nil {
			c.Unresolved("C07.G1", "Parse"+typ+"Operation")
			continue
		}
		c.Analysed(f)
		env := Env{f.Params[2]: "false"}
		sr := c.requestSchema(f, "Request")
		if sr == nil {
			c.Check("C07.G1", typ+":schema", false, f.Pos(), "no request-decoding call")
			continue
		}
		schemaCall := sr.call
		SC := sr.SC
		// what is validated, compared with the signed data and reported is the request as it was sent
		c.decodedRequestUnmodifiedRule("C07.G1", typ, f, sr)
		k := typ + ":"
		vdChk := callOrInvoke("ValidateDelta(schema.Delta)", vd, "ValidateDelta", pathIs(SC+".Delta"))
		isOV := func(call *ssa.Call) bool {
			if !call.Call.IsInvoke() || call.Call.Method.Name() != "Validate" {
				return false
			}
			sig := call.Call.Signature()
			_, isI := sig.Params().At(0).Type().Underlying().(*types.Interface)
			return sig.Params().Len() == 1 && isI
		}
		if typ == "create" {
			S := SC + ".SuffixData"
			c.CheckGuard("C07.G1", k+"ValidateSuffixData", f, env, callOrInvoke("ValidateSuffixData(schema.SuffixData)", vs, "ValidateSuffixData", pathIs(S)))
			c.CheckGuard("C07.G1", k+"origin-validator", f, env, &GCheck{Name: "anchorOriginValidator.Validate(suffixData.AnchorOrigin)", MatchCall: func(c *Ctx, call *ssa.Call, env Env) bool {
				return isOV(call) && c.Path(call.Call.Args[0], env) == S+".AnchorOrigin"
			}})
			c.CheckGuard("C07.G1", k+"ValidateDelta", f, env, vdChk)
			c.CheckGuard("C07.G1", k+"delta-hash", f, env, callTo("IsValidModelMultihash(schema.Delta, suffixData.DeltaHash)", ivm, pathIs(SC+".Delta"), pathIs(S+".DeltaHash")))
			c.CheckGuard("C07.G1", k+"commitments-differ", f, env, cmpReject("delta.UpdateCommitment == suffixData.RecoveryCommitment rejected", token.EQL, pathIs(SC+".Delta.UpdateCommitment"), pathIs(S+".RecoveryCommitment")))
			continue
		}
		// request checks (wherever they sit: in the decoding helper, in the signed-data parser, or inline)
		c.CheckGuard("C07.G1", k+"didSuffix-present", f, env, cmpReject(`didSuffix == "" rejected`, token.EQL, pathIs(SC+".DidSuffix"), pathIs(`""`)))
		c.CheckGuard("C07.G1", k+"signedData-present", f, env, cmpReject(`signedData == "" rejected`, token.EQL, pathIs(SC+".SignedData"), pathIs(`""`)))
		c.guardAll("C07.G1", k+"revealValue", f, env, c.hashRule(SC+".RevealValue")...)
		if schemaCall == nil {
			// decoded in place: the decode error is this function's own, and there is no helper to require
			c.CheckGuard("C07.G1", k+"decode-error-propagated", f, env, callTo("json.Unmarshal(payload, request)", jsonU, pathIs("$1")))
			c.Check("C07.G1", k+"request-decoder-required", true, f.Pos(), "the request is decoded in the parse function itself")
		} else if dec := schemaCall.Call.StaticCallee(); dec != nil {
			c.CheckGuard("C07.G1", k+"decode-error-propagated", dec, nil, callTo("json.Unmarshal(payload, request)", jsonU, pathIs("$1")))
			c.CheckGuard("C07.G1", k+"request-decoder-required", f, env, &GCheck{Name: "request decoder succeeded", MatchCall: func(c *Ctx, call *ssa.Call, env Env) bool { return call == schemaCall }})
		}
		var sdCall *ssa.Call
		for _, cl := range callsNamed(f, parseSDMethod[typ]) {
			a := declArgs(cl)
			if len(a) == 1 && c.Path(a[0], nil) == SC+".SignedData" {
				sdCall = cl
			}
		}
		if sdCall == nil {
			c.Check("C07.G1", k+"signed-data", false, f.Pos(), "no "+parseSDMethod[typ]+"(schema.SignedData)")
			continue
		}
		SD := c.Path(sdCall, nil) + "#0"
		c.CheckGuard("C07.G1", k+"signed-data-parsed", f, env, &GCheck{Name: parseSDMethod[typ] + "(schema.SignedData)", MatchCall: func(c *Ctx, call *ssa.Call, env Env) bool { return call == sdCall }})
		c.CheckGuard("C07.G1", k+"reveal-match", f, env, callTo("IsValidModelMultihash(signing key, schema.RevealValue)", ivm, pathIs(SD+"."+sdKeyField[typ]), pathIs(SC+".RevealValue")))
		switch typ {
		case "update":
			c.CheckGuard("C07.G1", k+"ValidateDelta", f, env, vdChk)
			c.CheckGuard("C07.G1", k+"key-reuse", f, env, c.keyReuse(getC, SD+".UpdateKey", SC+".Delta.UpdateCommitment"))
		case "recover":
			c.CheckGuard("C07.G1", k+"origin-validator", f, env, &GCheck{Name: "anchorOriginValidator.Validate(signedData.AnchorOrigin)", MatchCall: func(c *Ctx, call *ssa.Call, env Env) bool {
				return isOV(call) && c.Path(call.Call.Args[0], env) == SD+".AnchorOrigin"
			}})
			c.CheckGuard("C07.G1", k+"ValidateDelta", f, env, vdChk)
			c.CheckGuard("C07.G1", k+"commitments-differ", f, env, cmpReject("delta.UpdateCommitment == signedData.RecoveryCommitment rejected", token.EQL, pathIs(SC+".Delta.UpdateCommitment"), pathIs(SD+".RecoveryCommitment")))
		case "deactivate":
			c.CheckGuard("C07.G1", k+"suffix-equality", f, env, cmpReject("signedData.DidSuffix != schema.DidSuffix rejected", token.NEQ, pathIs(SD+".DidSuffix"), pathIs(SC+".DidSuffix")))
		}
		// time validator: C09.G1 (same engine); restated here for the per-type rule count
		c.CheckGuard("C07.G1", k+"time-validator", f, env, &GCheck{Name: "TimeValidator.Validate(signedData.AnchorFrom, expiry)", MatchCall: func(c *Ctx, call *ssa.Call, env Env) bool {
			if !call.Call.IsInvoke() || call.Call.Method.Name() != "Validate" || len(call.Call.Args) != 2 {
				return false
			}
			return c.Path(call.Call.Args[0], env) == SD+".AnchorFrom"
		}})
	}
	c.jwkValidateRules("C07.G1", "jws.JWK.Validate", jwkValidate, func(m string) pathPred {
		return func(s string) bool { return s == "$0."+m }
	})
	c.Min("C07.G1", 80)

	// ---------------- K1: configuration sinks
	c.configSinks()

	// ---------------- P1: result fidelity
	opT := c.NamedType("api/operation", "Operation")
	if opT == nil {
		c.Unresolved("C07.P1", "operation.Operation")
	} else {
		as := allocsOf(parse, opT)
		if len(as) != 1 {
			c.Check("C07.P1", "Parse:result", false, parse.Pos(), "expected one operation.Operation allocation in Parse")
		} else {
			var X string
			for _, cl := range callsTo(parse, po) {
				X = c.Path(cl, nil) + "#0"
			}
			ft := c.fieldTable(as[0], nil)
			want := map[string]string{"Type": X + ".Type", "UniqueSuffix": X + ".UniqueSuffix", "ID": X + ".ID", "OperationRequest": "$2", "AnchorOrigin": X + ".AnchorOrigin"}
			var flds []string
			for fld := range want {
				flds = append(flds, fld)
			}
			sort.Strings(flds)
			for _, fld := range flds {
				got := ft[fld]
				c.Check("C07.P1", "Parse:result."+fld, len(got) == 1 && got[0] == want[fld], as[0].Pos(), fmt.Sprintf("returned Operation.%s = %v (expected %s)", fld, got, want[fld]))
			}
		}
		// internal model AnchorOrigin for recover = signedData.AnchorOrigin (create: C03.P1)
		if f := pf["recover"]; f != nil {
			opModel := c.NamedType(pModel, "Operation")
			for _, a := range allocsOf(f, opModel) {
				ft := c.fieldTable(a, nil)
				got := ft["AnchorOrigin"]
				ok := len(got) == 1 && strings.HasSuffix(got[0], "#0.AnchorOrigin") && strings.Contains(got[0], "ParseSignedDataForRecover")
				c.Check("C07.P1", "recover:model.AnchorOrigin", ok, a.Pos(), fmt.Sprintf("recover model AnchorOrigin = %v (expected signedData.AnchorOrigin)", got))
			}
		}
		if f := pf["create"]; f != nil {
			opModel := c.NamedType(pModel, "Operation")
			for _, a := range allocsOf(f, opModel) {
				ft := c.fieldTable(a, nil)
				got := ft["AnchorOrigin"]
				ok := len(got) == 1 && strings.HasSuffix(got[0], "#0.SuffixData.AnchorOrigin")
				c.Check("C07.P1", "create:model.AnchorOrigin", ok, a.Pos(), fmt.Sprintf("create model AnchorOrigin = %v (expected suffixData.AnchorOrigin)", got))
			}
		}
	}
	// what is checked is what is reported: the parser's functions write through no model or key pointer they are handed
	// (a validator that "normalises" the key it inspects changes the key the next check hashes: reveal values and
	// commitments are then computed from something the client did not sign)
	{
		var bad []string
		n := 0
		for _, f := range c.Funcs {
			// (the parser's functions, and the key type's own methods the parser calls on the signed key: Validate checks
			// the key, it does not tidy it)
			if (pkgPathOf(f) != modPkg+pParser && pkgPathOf(f) != modPkg+"jws") || f.Blocks == nil {
				continue
			}
			n++
			forEachInstr(f, func(in ssa.Instruction) {
				var addr ssa.Value
				switch x := in.(type) {
				case *ssa.Store:
					addr = x.Addr
				case *ssa.MapUpdate:
					addr = x.Map
				default:
					return
				}
				if _, isFA := addr.(*ssa.FieldAddr); !isFA {
					if _, isIA := addr.(*ssa.IndexAddr); !isIA {
						if _, isMU := in.(*ssa.MapUpdate); !isMU {
							return
						}
					}
				}
				// the root of the address, through loads of pointer members (sd.RecoveryKey.Nonce = …) and copies of the pointer
				root := rootOf(addr)
				for d := 0; d < 6; d++ {
					if ld, isLd := root.(*ssa.UnOp); isLd && ld.Op == token.MUL {
						root = rootOf(ld.X)
						continue
					}
					break
				}
				p, isP := root.(*ssa.Parameter)
				if !isP {
					return
				}
				tn := typeShort(derefT(p.Type()))
				if strings.HasPrefix(tn, "versions/1_0/model.") || strings.HasPrefix(tn, "jws.") || strings.HasPrefix(tn, "api/operation.") {
					bad = append(bad, fmt.Sprintf("%s: %s writes through its argument %s (%s)", c.pos(in.Pos()), short(f.String()), p.Name(), tn))
				}
			})
		}
		c.Check("C07.P1", "parser:handed-models-and-keys-not-written", len(bad) == 0 && n >= 30, 0, fmt.Sprintf("%d parser functions: none stores into a model, operation or JWK it was handed", n), bad...)
	}
	c.Min("C07.P1", 8)
	c.Assume("the 'if' direction (every conforming request is accepted) is not decided; encoding/json, net/url and go-jose are trusted not to reject conforming input")
	// "only well-formed hashes and commitments": what the multihash helpers accept and what IsValidModelMultihash
	// compares (whole digests, recomputed with the supplied code) is the subject of C06
	c.apart(runC06)
	// "only alg/kid protected headers, an allowed algorithm": decided on the decoded header map — the decoder must
	// refuse a header that spells a member twice
	c.strictHeaderDecoderRule()
	// "individually valid patches": ValidateDelta hands every patch to the patch validator, whose per-action rules are C13
	// (with the JSON-patch pointer rules of C11)
	c.apart(runC13)
	// "accepted if well-formed": the signed anchoring times are no acceptance condition of the parser — it hands them to
	// the configured time validator (non-batch) and compares them with nothing itself (C09.U1); a consistency test of its
	// own refuses, in batch mode too, operations the applier is documented to degrade
	// the signed data of an update / recover / deactivate is turned away only for what the statement names: no signed
	// data, a text that is not a compact JWS, or protected headers that are not allowed — a further demand of the parser's
	// own (a signature length per algorithm, say) refuses operations whose signature verifies
	if psd := c.Method(pParser, "Parser", "parseSignedData"); psd != nil {
		var extra []string
		n := 0
		fnRe := regexp.MustCompile(`^\(versions/1_0/operationparser\.([A-Za-z0-9_]+)\(`)
		methRe := regexp.MustCompile(`^\(\(\*?versions/1_0/operationparser\.([A-Za-z0-9_]+)\)\.([A-Za-z0-9_]+)\(`)
		var walk func(f *ssa.Function, d int)
		walk = func(f *ssa.Function, d int) {
			for _, r := range c.rejectionReasons(f, nil, false, 3) {
				n++
				switch {
				case d == 0 && (strings.HasPrefix(r, `($1 == "")=true`) || strings.HasPrefix(r, `(len($1) == 0)=true`)):
					continue
				case strings.HasPrefix(r, "(jwsutil.ParseJWS(") && strings.HasSuffix(r, "#1 != nil)=true"):
					continue
				case strings.HasPrefix(r, "((*versions/1_0/operationparser.Parser).validateProtectedHeaders("):
					continue
				}
				var h *ssa.Function
				if m := fnRe.FindStringSubmatch(r); m != nil {
					h = c.Fn(pParser, m[1])
				} else if m := methRe.FindStringSubmatch(r); m != nil {
					h = c.Method(pParser, m[1], m[2])
				}
				if h != nil && h.Object() != nil && !h.Object().Exported() && d < 2 && strings.HasSuffix(r, "!= nil)=true") {
					walk(h, d+1)
					continue
				}
				extra = append(extra, short(f.String())+": "+r)
			}
		}
		walk(psd, 0)
		c.Check("C07.G1", "parseSignedData:closed-set-of-refusals", n >= 3 && len(extra) == 0, psd.Pos(), fmt.Sprintf("parseSignedData refuses only missing signed data, what ParseJWS refuses and what the header check refuses; other reasons: %v", extra))
	} else {
		c.Unresolved("C07.G1", "(*Parser).parseSignedData")
	}
	c.only(runC09, "C09.U1")
	c.Min("C09.U1", 1)
}

// keyReuse: success implies the false edge of GetCommitment(key, code(next)) == next.
func (c *Ctx) keyReuse(getC *ssa.Function, K, NEXT string) *GCheck {
	cur := "commitment.GetCommitment(" + K + ",conv<uint>(hashing.GetMultihashCode(" + NEXT + ")#0))#0"
	return cmpReject("commitment(current key) == next commitment rejected", token.EQL, pathIs(cur), pathIs(NEXT))
}

// configSinks: for every Protocol field read in the parser and applier packages, the set of sinks its
// value reaches (comparison partner, arithmetic partner, membership loop, external callee parameter),
// following module callees' parameters; formatting/logging sinks are ignored.
func (c *Ctx) configSinks() {
	prot := c.NamedType("api/protocol", "Protocol")
	if prot == nil {
		c.Unresolved("C07.K1", "protocol.Protocol")
		return
	}
	sinks := map[string]map[string]bool{}
	cmpSites := map[string]map[*ssa.BinOp]bool{} // field -> the comparison instructions the whole value reaches
	add := func(f, s string) {
		if sinks[f] == nil {
			sinks[f] = map[string]bool{}
		}
		sinks[f][s] = true
	}
	// elements of a configured list: record what each element is compared with / handed to
	var followElem func(fld string, v ssa.Value, d int)
	followElem = func(fld string, v ssa.Value, d int) {
		if d > 5 || v.Referrers() == nil {
			return
		}
		for _, r := range *v.Referrers() {
			switch x := r.(type) {
			case *ssa.UnOp, *ssa.Convert, *ssa.ChangeType, *ssa.MakeInterface:
				followElem(fld, x.(ssa.Value), d+1)
			case *ssa.BinOp:
				if isCmp(x.Op) {
					add(fld, "element "+x.Op.String()+" value")
				} else {
					add(fld, "element arith")
				}
			case *ssa.Call:
				name := calleeName(&x.Call)
				if strings.HasPrefix(name, "fmt.") || strings.Contains(name, "errors.") || strings.Contains(name, "/log") || strings.Contains(name, "slog") {
					continue
				}
				for i, a := range x.Call.Args {
					if a == v {
						add(fld, fmt.Sprintf("element -> arg %d of %s", i, short(name)))
					}
				}
			case *ssa.Store:
				if x.Val == v {
					followElem(fld, x.Addr, d+1) // varargs formatting
				}
			case *ssa.Slice:
				followElem(fld, x, d+1)
			case *ssa.Return:
				// a helper of the module that picks the element and hands it back: followed at its call sites
				g := x.Parent()
				if g == nil || !inModule(g) || g.Object() == nil || g.Object().Exported() {
					continue
				}
				for idx, res := range x.Results {
					if res != v {
						continue
					}
					for _, h := range c.Funcs {
						forEachInstr(h, func(in ssa.Instruction) {
							cl, isC := in.(*ssa.Call)
							if !isC || cl.Call.StaticCallee() != g {
								return
							}
							if len(x.Results) == 1 {
								followElem(fld, cl, d+1)
							} else if ev := extractOf(cl, idx); ev != nil {
								followElem(fld, ev, d+1)
							}
						})
					}
				}
			}
		}
	}
	var follow func(fld string, v ssa.Value, d int, seen map[ssa.Value]bool)
	follow = func(fld string, v ssa.Value, d int, seen map[ssa.Value]bool) {
		if d > 8 || seen[v] || v.Referrers() == nil {
			return
		}
		seen[v] = true
		for _, r := range *v.Referrers() {
			switch x := r.(type) {
			case *ssa.UnOp:
				follow(fld, x, d, seen)
			case *ssa.Convert:
				follow(fld, x, d, seen)
			case *ssa.ChangeType:
				follow(fld, x, d, seen)
			case *ssa.MakeInterface:
				follow(fld, x, d, seen)
			case *ssa.Phi:
				follow(fld, x, d+1, seen)
			case *ssa.BinOp:
				other := x.Y
				op := x.Op
				if x.Y == v {
					other = x.X
					op = flipOp(op)
				}
				if isCmp(op) {
					// config is on the right after normalisation:  other op' cfg; and the relation written down is the one
					// under which the function refuses (`if x <= cfg { return nil }; return err` gates x > cfg)
					rel := flipOp(op)
					for _, rr := range *x.Referrers() {
						iff, isIf := rr.(*ssa.If)
						if !isIf || c.Path(other, nil) == "ι" {
							continue // (a loop bound is not a gate)
						}
						tb, fb := onlyFails(iff.Block().Succs[0]), onlyFails(iff.Block().Succs[1])
						if fb && !tb {
							rel = negOp(rel)
						}
					}
					add(fld, "cmp: "+c.Path(other, nil)+" "+rel.String()+" cfg")
					if cmpSites[fld] == nil {
						cmpSites[fld] = map[*ssa.BinOp]bool{}
					}
					cmpSites[fld][x] = true
				} else {
					add(fld, "arith: "+c.Path(other, nil)+" "+x.Op.String()+" cfg")
					follow(fld, x, d+1, seen)
				}
			case *ssa.Range:
				add(fld, "range")
			case *ssa.IndexAddr, *ssa.Index:
				followElem(fld, x.(ssa.Value), 0)
			case *ssa.MakeClosure:
				// captured by a function literal: followed inside it
				if fn, isF := x.Fn.(*ssa.Function); isF {
					for i, b := range x.Bindings {
						if b == v && i < len(fn.FreeVars) {
							follow(fld, fn.FreeVars[i], d+1, seen)
						}
					}
				}
			case *ssa.Store:
				// stored into varargs array for formatting, or elsewhere
				follow(fld, x.Addr, d+1, seen)
			case *ssa.Slice:
				follow(fld, x, d+1, seen)
			case *ssa.Call:
				if b, isB := x.Call.Value.(*ssa.Builtin); isB {
					if b.Name() == "len" {
						follow(fld, x, d+1, seen)
					}
					continue
				}
				g := x.Call.StaticCallee()
				idx := -1
				for i, a := range x.Call.Args {
					if a == v {
						idx = i
					}
				}
				if idx < 0 {
					continue
				}
				// (a module helper written like slices.ContainsFunc, asked with an equality predicate: a membership test)
				if g != nil && idx == 0 && containsFuncLike(g) {
					if fn, _ := equalityClosureSearch(x); fn != nil {
						add(fld, "element == value")
						continue
					}
				}
				if g != nil && inModule(g) && g.Blocks != nil && idx < len(g.Params) && !strings.Contains(pkgPathOf(g), "/internal/log") && !strings.HasSuffix(pkgPathOf(g), "/pkg/log") {
					follow(fld, g.Params[idx], d+1, seen)
					continue
				}
				name := calleeName(&x.Call)
				if strings.HasPrefix(name, "fmt.") || strings.Contains(name, "errors.") || strings.Contains(name, "/log") || strings.Contains(name, "slog") {
					continue // formatting / logging
				}
				if g != nil && isSlicesContains(g) && idx == 0 {
					add(fld, "element == value") // membership test by the standard library
					continue
				}
				if idx == 0 {
					if fn, _ := equalityClosureSearch(x); fn != nil {
						add(fld, "element == value") // membership by equality through slices.ContainsFunc / IndexFunc
						continue
					}
				}
				add(fld, fmt.Sprintf("arg %d of %s", idx, short(name)))
			}
		}
	}
	for _, f := range c.Funcs {
		pp := pkgPathOf(f)
		if pp != modPkg+pParser && pp != modPkg+pApplier {
			continue
		}
		forEachInstr(f, func(in ssa.Instruction) {
			fa, ok := in.(*ssa.FieldAddr)
			if !ok {
				return
			}
			t := fa.X.Type().Underlying().(*types.Pointer).Elem()
			if !types.Identical(t, prot) {
				return
			}
			follow(fieldName(t, fa.Field), fa, 0, map[ssa.Value]bool{})
		})
	}
	want := map[string][]string{
		"MaxOperationSize":       {"cmp: len($·) > cfg"},
		"MaxOperationHashLength": {"cmp: len($1) > cfg"},
		"MaxDeltaSize":           {"cmp: len(canonicalizer.MarshalCanonical($1)#0) > cfg"},
		"NonceSize":              {"cmp: len(encoder.DecodeString($1)#0) != cfg"},
		"MaxOperationTimeDelta":  {"arith: $1 + cfg"},
		"MultihashAlgorithms":    {"element -> arg 1 of hashing.CalculateModelMultihash", "element == value"},
		"Patches":                {"element == value"},
		"SignatureAlgorithms":    {"element == value"},
		"KeyAlgorithms":          {"element == value"},
	}
	// each size limit gates one thing, once: a second comparison of the same limit (with some other length) is a gate
	// the protocol does not have — e.g. the decoded-size limit applied to an encoded text
	for _, f := range []string{"MaxOperationSize", "MaxOperationHashLength", "MaxDeltaSize", "NonceSize"} {
		c.Check("C07.K1", "sink:"+f+":one-comparison", len(cmpSites[f]) == 1, token.NoPos, fmt.Sprintf("Protocol.%s is compared at %d place(s) (expected exactly one)", f, len(cmpSites[f])))
	}
	var flds []string
	for f := range sinks {
		flds = append(flds, f)
	}
	for f := range want {
		if sinks[f] == nil {
			flds = append(flds, f)
		}
	}
	sort.Strings(flds)
	for _, f := range flds {
		var got []string
		// parameter positions are not part of the rule (a helper may take its arguments in any order): $2 -> $·
		gotSet := map[string]bool{}
		for s := range sinks[f] {
			gotSet[paramPosRe.ReplaceAllString(s, "$$·")] = true
		}
		for s := range gotSet {
			got = append(got, s)
		}
		sort.Strings(got)
		w, known := want[f]
		for i := range w {
			w[i] = paramPosRe.ReplaceAllString(w[i], "$$·")
		}
		if !known {
			c.Check("C07.K1", "sink:"+f, false, token.NoPos, fmt.Sprintf("Protocol.%s is read by the parser/applier but has no documented rule; sinks %v", f, got))
			continue
		}
		// normalise: drop sinks that are pure pass-through of the whole value into comparisons after arithmetic (MaxOperationTimeDelta: from+Δ is then compared)
		var g2 []string
		for _, s := range got {
			if f == "MaxOperationTimeDelta" && (strings.HasPrefix(s, "cmp: ") || s == "arg 1 of invoke.Validate") {
				continue // the sum from+Δ is compared with the anchoring time / handed to the time validator as expiry: decided by C09.O1 and C09.G1
			}
			if _, isList := map[string]bool{"MultihashAlgorithms": true, "Patches": true, "SignatureAlgorithms": true, "KeyAlgorithms": true}[f]; isList && (s == "cmp: ι < cfg" || emptinessTest[s] || s == "range") {
				continue // iteration bound / emptiness test of the list itself
			}
			g2 = append(g2, s)
		}
		c.Check("C07.K1", "sink:"+f, eqStrs(g2, w), token.NoPos, fmt.Sprintf("Protocol.%s reaches exactly %v (documented rule: %v)", f, g2, w))
	}
	c.Min("C07.K1", 9)
}

var paramPosRe = regexp.MustCompile(`\$[0-9]+`)

// onlyFails: every return reachable from b is a refusal (and there is one).
func onlyFails(b *ssa.BasicBlock) bool {
	seen := reach(b, nil)
	seen[b] = nil
	n := 0
	for x := range seen {
		if r, ok := x.Instrs[len(x.Instrs)-1].(*ssa.Return); ok {
			n++
			if maySucceed(r) {
				return false
			}
		}
	}
	return n > 0
}
