package main

import (
	"fmt"
	"go/token"
	"go/types"
	"reflect"
	"regexp"
	"strings"

	"golang.org/x/tools/go/ssa"
)

func init() {
	props["C03"] = &propDef{run: runC03, explanation: "Structural clause of C03 decided statically: in ParseCreateOperation the returned unique suffix is GetUniqueSuffix applied to the very suffix-data object that was decoded from the request (json.Unmarshal target, hence independent of member order and whitespace), validated and stored in the model; the success term of GetUniqueSuffix is b64(mhEnc(H(algs[0],JCS(suffixData)),algs[0])) behind a non-empty-algorithm guard; ParseOperation stores ID = namespace + \":\" + suffix; outside batch mode acceptance lies behind IsValidModelMultihash(schema.Delta, schema.SuffixData.DeltaHash) on the same decoded request. Not decided: collision resistance; that Transform implements JCS (C05). (E1) ValidateSuffixData / ValidateDelta are read-only: nothing reachable from their inputs is written before hashing. (K2) the JSON member names and omitempty options of the create-side models are the wire format's (closed table). The parser and the applier never assign a protocol parameter (C03.K1). Nothing is stored into the decoded request after decoding. C07.K1's sink rule for MultihashAlgorithms runs here. The namespace of an id is the text before its last ':'."}
	props["C06"] = &propDef{run: runC06, explanation: "Structural clause of C06 decided statically: success terms of CalculateModelMultihash, CalculateID, GetMultihash, GetMultihashCode and the encoder equal the documented normal forms (b64 = base64.RawURLEncoding in both directions); IsValidModelMultihash recomputes with the code decoded from the supplied hash over the supplied model and accepts only on the false edge of computed != supplied, with decode errors propagated; IsComputedUsingMultihashAlgorithms returns true only behind a successful decode and an equality between the decoded code and one of the supplied codes; the hash leaf contracts (code table with error default, single Write, Sum(nil)). Not decided: 'equal iff JSON values equal' beyond this shape (needs JCS injectivity and collision resistance). GetMultihash / GetMultihashCode refuse only what the base64 / multihash decoders refuse."}
}

func runC06(c *Ctx) {
	cmm := c.Fn("hashing", "CalculateModelMultihash")
	ivm := c.Fn("hashing", "IsValidModelMultihash")
	gmc := c.Fn("hashing", "GetMultihashCode")
	gmh := c.Fn("hashing", "GetMultihash")
	icu := c.Fn("hashing", "IsComputedUsingMultihashAlgorithms")
	cid := c.Fn("docutil", "CalculateID")
	enc := c.Fn("encoder", "EncodeToString")
	dec := c.Fn("encoder", "DecodeString")
	for n, f := range map[string]*ssa.Function{"CalculateModelMultihash": cmm, "IsValidModelMultihash": ivm, "GetMultihashCode": gmc, "GetMultihash": gmh, "IsComputedUsingMultihashAlgorithms": icu, "docutil.CalculateID": cid, "encoder.EncodeToString": enc, "encoder.DecodeString": dec} {
		if f == nil {
			c.Unresolved("C06.P1", n)
			return
		}
	}
	// ---- P1 / P2 / K1 terms
	terms := []struct {
		rule, key string
		f         *ssa.Function
		want      string
	}{
		{"C06.P1", "CalculateModelMultihash:term", cmm, "b64(mhEnc(H($1,JCS($0)),$1))"},
		{"C06.P1", "CalculateID:term", cid, `+(+($0,":"),b64(mhEnc(H($2,JCS($1)),$2)))`},
		{"C06.P2", "GetMultihash:term", gmh, "mhDec(b64dec($0))"},
		{"C06.P2", "GetMultihashCode:term", gmc, ".Code(mhDec(b64dec($0)))"},
		{"C06.K1", "encoder.EncodeToString:term", enc, "b64($0)"},
		{"C06.K1", "encoder.DecodeString:term", dec, "b64dec($0)"},
	}
	for _, t := range terms {
		gt := normalize(c.SuccessTerm(t.f, 0, nil))
		got := gt.String()
		c.Check(t.rule, t.key, termIs(gt, t.want), t.f.Pos(), fmt.Sprintf("success term = %s (expected %s)", got, t.want))
	}
	// decode errors are propagated (success only across both decode steps)
	b64D := c.MethodIn("encoding/base64", "Encoding", "DecodeString")
	mhD := c.ExtFn("github.com/multiformats/go-multihash", "Decode")
	if b64D == nil || mhD == nil {
		c.Unresolved("C06.P2", "base64.(*Encoding).DecodeString / multihash.Decode")
	} else {
		c.CheckGuard("C06.P2", "GetMultihash:base64-error-propagated", gmh, nil, callTo("base64url decode of the supplied string", b64D, nil, pathIs("$0")))
		c.CheckGuard("C06.P2", "GetMultihash:multihash-error-propagated", gmh, nil, callTo("multihash.Decode of the decoded bytes", mhD))
		c.CheckGuard("C06.P2", "GetMultihashCode:decode-error-propagated", gmc, nil, callTo("GetMultihash(encoded)", gmh, pathIs("$0")))
	}
	// … and they refuse nothing else: a hash the library computes (any supported algorithm, any digest length) reads
	// back — GetMultihashCode says no only when GetMultihash does, GetMultihash only when one of the two decoders does
	for _, fr := range []struct {
		name string
		f    *ssa.Function
		ok   func(r string) bool
	}{
		{"GetMultihashCode", gmc, func(r string) bool {
			return strings.Contains(r, "DecodeString(") || strings.Contains(r, "go-multihash.Decode(")
		}},
		{"GetMultihash", gmh, func(r string) bool {
			return strings.Contains(r, "DecodeString(") || strings.Contains(r, "go-multihash.Decode(")
		}},
	} {
		if fr.f == nil {
			continue
		}
		var extra []string
		rs := c.rejectionReasons(fr.f, nil, false, 0)
		for _, r := range rs {
			if !fr.ok(r) {
				extra = append(extra, r)
			}
		}
		c.Check("C06.P2", fr.name+":no-refusal-of-its-own", len(extra) == 0 && len(rs) > 0, fr.f.Pos(), fmt.Sprintf("%s refuses only what the base64 / multihash decoders refuse (deciding conditions: %v)", fr.name, rs), extra...)
	}
	c.Min("C06.P1", 2)
	c.Min("C06.P2", 7)
	c.Min("C06.K1", 2)

	// ---- G1 IsValidModelMultihash
	c.isValidModelMultihashContract("C06.G1")

	// ---- U1 IsComputedUsingMultihashAlgorithms
	c.isComputedUsingRule("C06.U1")
	c.Min("C06.U1", 2)

	c.hashLeafContracts("C04.K1")
	// content addressing rests on the canonical form: the JCS constant/table rules are part of this check
	c.jcsRules()
	c.Assume("axioms: go-multihash Encode/Decode are inverse and Decode rejects malformed input; base64.RawURLEncoding is the unpadded URL alphabet; SHA-2 collision resistance; JCS∘json.Marshal injective on JSON values")
}

// wireNames: the JSON member names (and omitempty options) of the request models are the names of the Sidetree wire
// format. encoding/json matches names case-insensitively when decoding but writes the tag verbatim, so a model whose
// tag drifts still decodes every request while the bytes that are hashed (suffix data, delta, signed data) change.
var wireNameTable = map[string]map[string]string{
	"CreateRequest":             {"Operation": "type,omitempty", "SuffixData": "suffixData,omitempty", "Delta": "delta,omitempty"},
	"SuffixDataModel":           {"DeltaHash": "deltaHash,omitempty", "RecoveryCommitment": "recoveryCommitment,omitempty", "AnchorOrigin": "anchorOrigin,omitempty", "Type": "type,omitempty"},
	"DeltaModel":                {"UpdateCommitment": "updateCommitment,omitempty", "Patches": "patches,omitempty"},
	"UpdateRequest":             {"Operation": "type", "DidSuffix": "didSuffix", "RevealValue": "revealValue", "SignedData": "signedData", "Delta": "delta"},
	"DeactivateRequest":         {"Operation": "type", "DidSuffix": "didSuffix", "RevealValue": "revealValue", "SignedData": "signedData"},
	"RecoverRequest":            {"Operation": "type", "DidSuffix": "didSuffix", "RevealValue": "revealValue", "SignedData": "signedData", "Delta": "delta"},
	"UpdateSignedDataModel":     {"UpdateKey": "updateKey", "DeltaHash": "deltaHash", "AnchorFrom": "anchorFrom,omitempty", "AnchorUntil": "anchorUntil,omitempty"},
	"RecoverSignedDataModel":    {"DeltaHash": "deltaHash", "RecoveryKey": "recoveryKey", "RecoveryCommitment": "recoveryCommitment", "AnchorOrigin": "anchorOrigin,omitempty", "AnchorFrom": "anchorFrom,omitempty", "AnchorUntil": "anchorUntil,omitempty"},
	"DeactivateSignedDataModel": {"DidSuffix": "didSuffix", "RevealValue": "revealValue", "RecoveryKey": "recoveryKey", "AnchorFrom": "anchorFrom,omitempty", "AnchorUntil": "anchorUntil,omitempty"},
}

func (c *Ctx) wireNames(rule string, models ...string) {
	for _, m := range models {
		nt := c.NamedType(pModel, m)
		if nt == nil {
			c.Unresolved(rule, "model."+m)
			continue
		}
		st, ok := nt.Underlying().(*types.Struct)
		if !ok {
			c.Check(rule, "wire-names:"+m, false, nt.Obj().Pos(), "model."+m+" is not a struct")
			continue
		}
		want := wireNameTable[m]
		seen := 0
		for i := 0; i < st.NumFields(); i++ {
			f := st.Field(i)
			tag := reflect.StructTag(st.Tag(i)).Get("json")
			w, known := want[f.Name()]
			if known {
				seen++
			}
			c.Check(rule, "wire-names:"+m+"."+f.Name(), known && tag == w, f.Pos(), fmt.Sprintf("model.%s.%s is the wire member %q (json tag %q)", m, f.Name(), w, tag))
		}
		c.Check(rule, "wire-names:"+m+":complete", seen == len(want), nt.Obj().Pos(), fmt.Sprintf("model.%s carries all %d members of the wire format (%d found)", m, len(want), seen))
		// no custom (un)marshaller that could rename members
		custom := c.Method(pModel, m, "MarshalJSON") != nil || c.Method(pModel, m, "UnmarshalJSON") != nil
		c.Check(rule, "wire-names:"+m+":no-custom-codec", !custom, nt.Obj().Pos(), "model."+m+" is encoded and decoded by encoding/json from its tags")
	}
}

func runC03(c *Ctx) {
	// "the suffix is the multihash … with the first configured algorithm": what the parser does with the configured
	// algorithm list is part of this check — it is read element-wise and compared, never reordered (C07.K1)
	c.only(func(c *Ctx) { c.configSinks() }, "C07.K1::sink:MultihashAlgorithms")
	c.Min("C07.K1", 1)
	c.wireNames("C03.K2", "CreateRequest", "SuffixDataModel", "DeltaModel")
	c.Min("C03.K2", 3+4+2+6)
	pco := c.Method(pParser, "Parser", "ParseCreateOperation")
	po := c.Method(pParser, "Parser", "ParseOperation")
	gus := c.Fn(pModel, "GetUniqueSuffix")
	ivm := c.Fn("hashing", "IsValidModelMultihash")
	opModel := c.NamedType(pModel, "Operation")
	if pco == nil || po == nil || gus == nil || ivm == nil || opModel == nil {
		c.Unresolved("C03.P1", "ParseCreateOperation / ParseOperation / model.GetUniqueSuffix / IsValidModelMultihash / model.Operation")
		return
	}
	c.Analysed(pco)
	// schema: the decoded create request
	sr := c.requestSchema(pco, "CreateRequest")
	if sr == nil {
		c.Check("C03.P1", "ParseCreateOperation:schema", false, pco.Pos(), "no request-decoding call on the request parameter")
		return
	}
	SC := sr.SC
	// the decoder: success result is a struct allocation filled by json.Unmarshal(payload, &alloc)
	if sr.call == nil {
		jsonU := c.ExtFn("encoding/json", "Unmarshal")
		c.Check("C03.P1", "ParseCreateOperation:schema-is-decoded-struct", true, pco.Pos(), "the create request is the struct decoded in place by encoding/json from the request bytes")
		c.CheckGuard("C03.P1", "ParseCreateOperation:decode-error-propagated", pco, nil, callTo("json.Unmarshal(payload, schema)", jsonU, pathIs("$1")))
	} else if dec := sr.dec; dec != nil {
		c.Analysed(dec)
		okDec := false
		jsonU := c.ExtFn("encoding/json", "Unmarshal")
		for _, r := range successReturns(dec) {
			if a, isA := r.Results[0].(*ssa.Alloc); isA {
				for _, u := range callsTo(dec, jsonU) {
					if c.Path(u.Call.Args[0], nil) == "$1" && c.Path(u.Call.Args[1], nil) == c.Path(a, nil) {
						okDec = true
					}
				}
			}
		}
		c.Check("C03.P1", "ParseCreateOperation:schema-is-decoded-struct", okDec, dec.Pos(), "the create request is the struct decoded by encoding/json from the request bytes (member order / whitespace cannot matter downstream)")
		c.CheckGuard("C03.P1", "ParseCreateOperation:decode-error-propagated", dec, nil, callTo("json.Unmarshal(payload, schema)", jsonU, pathIs("$1")))
	}
	S := SC + ".SuffixData"
	for _, a := range allocsOf(pco, opModel) {
		ft := c.fieldTable(a, nil)
		want := map[string]string{
			"UniqueSuffix":     "versions/1_0/model.GetUniqueSuffix(" + S + ",$0.Protocol.MultihashAlgorithms)#0",
			"SuffixData":       S,
			"Delta":            SC + ".Delta",
			"OperationRequest": "$1",
			"Type":             `"create"`,
			"AnchorOrigin":     S + ".AnchorOrigin",
		}
		for fld, w := range want {
			got := ft[fld]
			c.Check("C03.P1", "ParseCreateOperation:model."+fld, len(got) == 1 && got[0] == w, a.Pos(), fmt.Sprintf("returned create model field %s = %v (expected %s)", fld, got, w))
		}
	}
	for _, batch := range []string{"true", "false"} {
		env := Env{pco.Params[2]: batch}
		c.CheckGuard("C03.P1", "ParseCreateOperation:ValidateSuffixData|batch="+batch, pco, env, callOrInvoke("ValidateSuffixData(schema.SuffixData)", c.Method(pParser, "Parser", "ValidateSuffixData"), "ValidateSuffixData", pathIs(S)))
		c.CheckGuard("C03.P1", "ParseCreateOperation:GetUniqueSuffix-ok|batch="+batch, pco, env, callTo("GetUniqueSuffix(schema.SuffixData, algorithms)", gus, pathIs(S), pathIs("$0.Protocol.MultihashAlgorithms")))
	}
	c.Min("C03.P1", 2+6+4)

	// ---- P2
	tt := normalize(c.SuccessTerm(gus, 0, nil))
	t := tt.String()
	wantT := "b64(mhEnc(H(index($1,0),JCS($0)),index($1,0)))"
	c.Check("C03.P2", "GetUniqueSuffix:term", termIs(tt, wantT), gus.Pos(), "suffix(suffixData, algs) = "+t+" (expected "+wantT+")")
	c.CheckGuard("C03.P2", "GetUniqueSuffix:non-empty-algorithms", gus, nil, cmpReject("len(algs) == 0 rejected", token.EQL, pathIs("len($1)"), pathIs("0")))
	// "namespace, colon, suffix": what GetNamespaceFromID hands back for a DID is the text before its LAST ':' — the
	// counterpart of CalculateID's namespace + ":" + suffix for a namespace of any number of segments
	if gn := c.Fn("docutil", "GetNamespaceFromID"); gn != nil {
		c.Analysed(gn)
		okN := len(successReturns(gn)) > 0
		var got []string
		for _, r := range successReturns(gn) {
			p := c.Path(returnedValue(r, 0), nil)
			got = append(got, p)
			if !beforeLastColon.MatchString(p) {
				okN = false
			}
		}
		c.Check("C03.P2", "GetNamespaceFromID:before-last-colon", okN, gn.Pos(), fmt.Sprintf("the namespace of an id is the text before its last ':' (returns %v)", got))
	} else {
		c.Unresolved("C03.P2", "docutil.GetNamespaceFromID")
	}
	c.Min("C03.P2", 3)

	// ---- E1 validation is read-only: the suffix and the hashes are computed from the decoded request after it was
	// validated — a validator that rewrites a member (normalises, trims, defaults) changes what is hashed, so two
	// different suffix-data objects could denote one DID
	if vsf, vdf := c.Method(pParser, "Parser", "ValidateSuffixData"), c.Method(pParser, "Parser", "ValidateDelta"); vsf != nil && vdf != nil {
		nonRecv := func(f *ssa.Function) []*ssa.Parameter {
			if f.Signature.Recv() != nil {
				return f.Params[1:]
			}
			return f.Params
		}
		c.runEffectQuiet("C03.E1", []*ssa.Function{vsf, vdf}, nonRecv, "ValidateSuffixData/ValidateDelta", 2)
	} else {
		c.Unresolved("C03.E1", "(*Parser).ValidateSuffixData / ValidateDelta")
	}
	c.Min("C03.E1", 2)

	// ---- P3
	c.Analysed(po)
	nd, _ := c.ConstVal("docutil", "NamespaceDelimiter")
	c.Check("C03.P3", "NamespaceDelimiter", nd == `":"`, po.Pos(), "docutil.NamespaceDelimiter = "+nd)
	n := 0
	forEachInstr(po, func(in ssa.Instruction) {
		st, ok := in.(*ssa.Store)
		if !ok {
			return
		}
		fa, ok := st.Addr.(*ssa.FieldAddr)
		if !ok || fieldName(fa.X.Type(), fa.Field) != "ID" || !strings.HasSuffix(typeShort(fa.X.Type()), "model.Operation") {
			return
		}
		n++
		base := c.Path(fa.X, nil)
		got := c.Path(st.Val, nil)
		want := `(($1 + ":") + ` + base + `.UniqueSuffix)`
		c.Check("C03.P3", "ParseOperation:ID", got == want, st.Pos(), "ID = "+got+" (expected namespace + \":\" + that operation's UniqueSuffix)")
	})
	if n == 0 {
		c.Check("C03.P3", "ParseOperation:ID", false, po.Pos(), "no store to model.Operation.ID in ParseOperation")
	}
	c.Min("C03.P3", 2)

	// ---- G1
	c.CheckGuard("C03.G1", "ParseCreateOperation:delta-hash|batch=false", pco, Env{pco.Params[2]: "false"}, callTo("IsValidModelMultihash(schema.Delta, schema.SuffixData.DeltaHash)", ivm, pathIs(SC+".Delta"), pathIs(S+".DeltaHash")))
	// Parse = ParseOperation(..., false)
	if parse := c.Method(pParser, "Parser", "Parse"); parse != nil {
		ok := false
		for _, cl := range callsTo(parse, po) {
			a := declArgs(cl)
			if c.Path(a[0], nil) == "$1" && c.Path(a[1], nil) == "$2" && c.Path(a[2], nil) == "false" {
				ok = true
			}
		}
		c.Check("C03.G1", "Parse:non-batch", ok, parse.Pos(), "Parse delegates to ParseOperation(namespace, buffer, false)")
	}
	c.checkParseDispatch("C03.G1")
	c.isValidModelMultihashContract("C03.G1")
	c.Min("C03.G1", 7)
	// what is hashed is what the client sent: between decoding and hashing nothing is stored into the decoded request (an
	// "empty means absent" normalisation of a member changes the suffix data that is canonicalised — two different
	// requests get one DID)
	c.decodedRequestUnmodifiedRule("C03.P1", "ParseCreateOperation", pco, sr)
	c.hashLeafContracts("C04.K1")
	// "the FIRST CONFIGURED algorithm": the list the suffix is computed from is the list the caller configured — the
	// parser does not keep a reordered or extended copy of its protocol parameters
	c.protocolReadOnlyRule("C03.K1")
	c.Min("C03.K1", 2)
	// the suffix is a hash of the canonical form: the JCS constant/table rules are part of this check
	c.jcsRules()
	c.Assume("collision resistance of SHA-2; Transform implements RFC 8785 (C05 decides only its constants)")
}

// checkParseDispatch: ParseOperation hands the same buffer and batch flag to the per-type parser selected
// by the decoded type and fails when that parser fails.
func (c *Ctx) checkParseDispatch(rule string) {
	po := c.Method(pParser, "Parser", "ParseOperation")
	if po == nil {
		c.Unresolved(rule, "ParseOperation")
		return
	}
	pf := c.parseFuncs()
	// the dispatcher written with a package-level table type -> parser instead of a switch
	if dv := c.dispatch(po, func(p string) bool { return strings.HasSuffix(p, ".Operation") }); dv.table {
		ok := len(dv.arms) == 4
		for _, t := range opTypes {
			a := dv.arms[`"`+t+`"`]
			found := false
			if a != nil {
				for _, ac := range c.armCalls(dv, a) {
					if ac.callee == pf[t] && pf[t] != nil && len(ac.args) == 2 && ac.args[0] == "$2" && ac.args[1] == "$3" {
						found = true
						// a literal wrapper must hand the parser's results straight back
						if ac.call != nil {
							for _, r := range returnsOf(a.fn) {
								for _, rv := range r.Results {
									if ex, isEx := rv.(*ssa.Extract); !isEx || ex.Tuple != ssa.Value(ac.call) {
										found = false
									}
								}
							}
						}
					}
				}
			}
			if !found {
				ok = false
			}
		}
		c.Check(rule, "ParseOperation:dispatch", ok, po.Pos(), "type constant -> Parse<Type>Operation(operationBuffer, batch) for exactly the four types (table form)")
		foundOnly, callReq := c.tableGuards(dv)
		c.Check(rule, "ParseOperation:parse-error-propagated", callReq, po.Pos(), "ParseOperation succeeds only when the selected per-type parser returned a nil error")
		c.Check(rule, "ParseOperation:unknown-type-rejected", foundOnly, po.Pos(), "an operation type outside the table is an error")
		return
	}
	tbl := c.caseTable(po, nil, func(p string) bool { return strings.HasSuffix(p, ".Operation") })
	// the parser picked per case into a function variable and called once after the switch
	{
		var site *ssa.Call
		picked := 0
		okArgs := true
		for _, t := range opTypes {
			blk := tbl[`"`+t+`"`]
			if blk == nil {
				continue
			}
			for _, pc := range phiPickedCalls(blk) {
				if fn := funcValueOf(pc.picked); fn != nil && fn == pf[t] {
					picked++
					site = pc.call
					a := pc.call.Call.Args
					// (a method expression takes the receiver first: the parser's own)
					if len(a) == 3 && c.Path(a[0], nil) == "$0" {
						a = a[1:]
					}
					if len(a) != 2 || c.Path(a[0], nil) != "$2" || c.Path(a[1], nil) != "$3" {
						okArgs = false
					}
				}
			}
		}
		if picked == 4 && len(tbl) == 4 && site != nil {
			c.Check(rule, "ParseOperation:dispatch", okArgs, po.Pos(), "type constant -> Parse<Type>Operation(operationBuffer, batch) for exactly the four types (parser picked per case, called once)")
			callReq, _, _ := c.Guard(po, nil, &GCheck{Name: "selected parser succeeded", NoDescend: true, MatchCall: func(c *Ctx, call *ssa.Call, env Env) bool { return call == site }}, nil)
			c.Check(rule, "ParseOperation:parse-error-propagated", callReq, po.Pos(), "ParseOperation succeeds only when the selected per-type parser returned a nil error")
			// every function the variable may hold is one of the four; "none picked" does not reach the call
			known := true
			hasNil := false
			if phi, isPhi := site.Call.Value.(*ssa.Phi); isPhi {
				for _, e := range phi.Edges {
					if k, isK := e.(*ssa.Const); isK && k.IsNil() {
						hasNil = true
						continue
					}
					fn := funcValueOf(e)
					hit := false
					for _, t := range opTypes {
						hit = hit || (fn != nil && fn == pf[t])
					}
					known = known && hit
				}
				if hasNil {
					nilRefused, _, _ := c.Guard(po, nil, cmpReject("no parser picked: refused", token.EQL, pathIs(c.Path(phi, nil)), pathIs("nil")), func(in ssa.Instruction) bool { return in == ssa.Instruction(site) })
					known = known && nilRefused
				}
			} else {
				known = false
			}
			c.Check(rule, "ParseOperation:unknown-type-rejected", known, po.Pos(), "the parser variable holds one of the four per-type parsers; an operation type outside the four does not reach the call")
			return
		}
	}
	ok := len(tbl) == 4
	var errVals []ssa.Value
	for _, t := range opTypes {
		blk := tbl[`"`+t+`"`]
		if blk == nil {
			ok = false
			continue
		}
		found := false
		for _, cl := range callsIn(blk) {
			if cl.Call.StaticCallee() == pf[t] && pf[t] != nil {
				a := declArgs(cl)
				if len(a) == 2 && c.Path(a[0], nil) == "$2" && c.Path(a[1], nil) == "$3" {
					found = true
					errVals = append(errVals, extractOf(cl, 1))
				}
			}
		}
		if !found {
			ok = false
		}
	}
	c.Check(rule, "ParseOperation:dispatch", ok, po.Pos(), "type constant -> Parse<Type>Operation(operationBuffer, batch) for exactly the four types")
	// success exits lie behind the nil edge of the phi merging the four error results
	okErr := false
	for _, b := range po.Blocks {
		for _, in := range b.Instrs {
			phi, isPhi := in.(*ssa.Phi)
			if !isPhi || !isErrType(phi.Type()) {
				continue
			}
			all := len(errVals) == 4
			for _, ev := range errVals {
				f := false
				for _, e := range phi.Edges {
					if e == ev {
						f = true
					}
				}
				if !f {
					all = false
				}
			}
			if !all {
				continue
			}
			cut := map[edge]bool{}
			for _, e := range nilTestEdges(phi, true) {
				cut[e] = true
			}
			seen := reach(phi.Block(), cut)
			okErr = true
			for bb := range seen {
				if r, isR := bb.Instrs[len(bb.Instrs)-1].(*ssa.Return); isR && maySucceed(r) {
					okErr = false
				}
			}
		}
	}
	c.Check(rule, "ParseOperation:parse-error-propagated", okErr, po.Pos(), "ParseOperation succeeds only when the selected per-type parser returned a nil error")
	// unknown type => error
	okDef := true
	for _, r := range successReturns(po) {
		dom := false
		for _, blk := range tbl {
			if blk.Dominates(r.Block()) {
				dom = true
			}
		}
		// success returns sit after the join; require that the default branch cannot reach them
		_ = dom
	}
	{
		cut := map[edge]bool{}
		for _, b := range po.Blocks {
			for _, in := range b.Instrs {
				if bo, isB := in.(*ssa.BinOp); isB && bo.Op == token.EQL && (strings.HasSuffix(c.Path(bo.X, nil), ".Operation") || strings.HasSuffix(c.InlPath(bo.X, nil), ".Operation")) {
					for _, e := range boolEdges(bo, true) {
						cut[e] = true
					}
				}
			}
		}
		seen := reach(po.Blocks[0], cut)
		for bb := range seen {
			if r, isR := bb.Instrs[len(bb.Instrs)-1].(*ssa.Return); isR && maySucceed(r) {
				okDef = false
			}
		}
	}
	c.Check(rule, "ParseOperation:unknown-type-rejected", okDef, po.Pos(), "a type outside the four constants cannot reach a success return")
}

// isValidModelMultihashContract: the hash validator recomputes with the code decoded from the supplied hash
// over the supplied model and accepts only on the false edge of computed != supplied (string comparison of
// the canonical encodings). Shared by the properties that rely on "X hashes to H" (C02, C03, C06).
func (c *Ctx) isValidModelMultihashContract(rule string) {
	cmm := c.Fn("hashing", "CalculateModelMultihash")
	ivm := c.Fn("hashing", "IsValidModelMultihash")
	gmc := c.Fn("hashing", "GetMultihashCode")
	if cmm == nil || ivm == nil || gmc == nil {
		c.Unresolved(rule, "hashing.IsValidModelMultihash / CalculateModelMultihash / GetMultihashCode")
		return
	}
	// (the code read through GetMultihashCode, or taken from the multihash GetMultihash decodes — which is what
	// GetMultihashCode itself does)
	codePaths := []string{"hashing.GetMultihashCode($1)#0"}
	decodeOK := callTo("GetMultihashCode(modelMultihash)", gmc, pathIs("$1"))
	if gm := c.Fn("hashing", "GetMultihash"); gm != nil {
		codePaths = append(codePaths, "hashing.GetMultihash($1)#0.Code")
		decodeOK = anyOf("GetMultihashCode(modelMultihash) / GetMultihash(modelMultihash)", decodeOK, callTo("GetMultihash(modelMultihash)", gm, pathIs("$1")))
	}
	c.CheckGuard(rule, "IsValidModelMultihash:code-from-supplied-hash", ivm, nil, decodeOK)
	recomputed := func(s string) bool {
		for _, codePath := range codePaths {
			if s == "hashing.CalculateModelMultihash($0,conv<uint>("+codePath+"))#0" {
				return true
			}
		}
		return false
	}
	c.CheckGuard(rule, "IsValidModelMultihash:recompute", ivm, nil, &GCheck{Name: "CalculateModelMultihash(model, code of supplied hash)", MatchCall: func(c *Ctx, call *ssa.Call, env Env) bool {
		return call.Call.StaticCallee() == cmm && recomputed(c.Path(call, env)+"#0")
	}})
	c.CheckGuard(rule, "IsValidModelMultihash:compare-and-reject", ivm, nil, cmpReject("computed != supplied rejected", token.NEQ, recomputed, pathIs("$1")))
	tt := normalize(c.SuccessTerm(cmm, 0, nil))
	t := tt.String()
	c.Check(rule, "CalculateModelMultihash:term", termIs(tt, "b64(mhEnc(H($1,JCS($0)),$1))"), cmm.Pos(), "CalculateModelMultihash(v,a) = "+t)
}

// isComputedUsingRule: "computed with a configured algorithm" is said only of a well-formed multihash — the code
// compared with the configured ones is the one GetMultihashCode decodes (which fails for a malformed multihash).
func (c *Ctx) isComputedUsingRule(rule string) {
	icu := c.Fn("hashing", "IsComputedUsingMultihashAlgorithms")
	gmc := c.Fn("hashing", "GetMultihashCode")
	if icu == nil || gmc == nil {
		c.Unresolved(rule, "hashing.IsComputedUsingMultihashAlgorithms / GetMultihashCode")
		return
	}
	// (the code read through GetMultihashCode, or taken from the multihash GetMultihash decodes — which is what
	// GetMultihashCode itself does)
	decodeOK := callTo("GetMultihashCode(encoded)", gmc, pathIs("$0"))
	if gm := c.Fn("hashing", "GetMultihash"); gm != nil {
		decodeOK = anyOf("GetMultihashCode(encoded) / GetMultihash(encoded)", decodeOK, callTo("GetMultihash(encoded)", gm, pathIs("$0")))
	}
	c.CheckGuard(rule, "IsComputedUsing:decode-ok", icu, nil, decodeOK)
	// the same test written as slices.ContainsFunc(codes, func(c) bool { return code == uint64(c) }): the function's
	// true result is that call's result
	eqSearch := false
	for _, r := range returnsOf(icu) {
		if cl, ok := r.Results[0].(*ssa.Call); ok {
			if fn, other := equalityClosureSearch(cl); fn != nil && c.Path(cl.Call.Args[0], nil) == "$1" {
				// the compared value: a captured variable (by value, or by reference: a cell written once)
				var fv *ssa.FreeVar
				byRef := false
				switch y := other.(type) {
				case *ssa.FreeVar:
					fv = y
				case *ssa.UnOp:
					if y.Op == token.MUL {
						fv, _ = y.X.(*ssa.FreeVar)
						byRef = true
					}
				}
				if mc, isMC := cl.Call.Args[1].(*ssa.MakeClosure); isMC && fv != nil {
					for k, b := range mc.Bindings {
						if fn.FreeVars[k] != fv {
							continue
						}
						const want = "hashing.GetMultihashCode($0)#0"
						const want2 = "hashing.GetMultihash($0)#0.Code"
						if !byRef && (c.Path(b, nil) == want || c.Path(b, nil) == want2) {
							eqSearch = true
						}
						if al, isAl := b.(*ssa.Alloc); isAl && byRef {
							n, good := 0, 0
							for _, rf := range *al.Referrers() {
								if st, isS := rf.(*ssa.Store); isS && st.Addr == ssa.Value(al) {
									n++
									if c.Path(st.Val, nil) == want {
										good++
									}
								}
							}
							if n > 0 && n == good {
								eqSearch = true
							}
						}
					}
				}
			}
		}
	}
	if eqSearch {
		c.Check(rule, "IsComputedUsing:code-equality", true, icu.Pos(), "the result is slices.ContainsFunc(codes, c => decoded code == uint64(c))")
	} else {
		// (the decoded code may come through a one-exit helper: it reads as what that helper hands back)
		for _, g := range c.helpersOf(icu, 1) {
			if len(successReturns(g)) == 1 {
				if c.inlineFns == nil {
					c.inlineFns = map[*ssa.Function]bool{}
				}
				c.inlineFns[g] = true
			}
		}
		c.CheckGuard(rule, "IsComputedUsing:code-equality", icu, nil, &GCheck{Name: "decoded code == uint64(one of the supplied codes)", MatchCmp: func(c *Ctx, b *ssa.BinOp, env Env) (bool, bool) {
			if b.Op != token.EQL && b.Op != token.NEQ {
				return false, false
			}
			l, r := c.Path(b.X, env), c.Path(b.Y, env)
			isCode := func(s string) bool {
				return s == "hashing.GetMultihashCode($0)#0" || s == "hashing.GetMultihash($0)#0.Code"
			}
			isElem := func(s string) bool { return strings.HasPrefix(s, "conv<uint64>($1[") }
			if (isCode(l) && isElem(r)) || (isCode(r) && isElem(l)) {
				return true, b.Op == token.EQL
			}
			return false, false
		}})
	}
}

// decodedRequestUnmodifiedRule: nothing is stored into the decoded request after decoding — neither in the parse
// function, nor in the decoding helper, nor in the unexported helpers of the package either of them hands the request to.
// What is validated, hashed, compared and reported is what the client sent.
func (c *Ctx) decodedRequestUnmodifiedRule(rule, key string, f *ssa.Function, sr *schemaRef) {
	var bad []string
	n := 0
	seen := map[string]bool{}
	var scan func(g *ssa.Function, env Env, prefix string, d int)
	scan = func(g *ssa.Function, env Env, prefix string, d int) {
		k := g.String() + "|" + prefix
		if g == nil || g.Blocks == nil || prefix == "" || d > 2 || seen[k] {
			return
		}
		seen[k] = true
		n++
		forEachInstr(g, func(in ssa.Instruction) {
			var addr ssa.Value
			switch x := in.(type) {
			case *ssa.Store:
				addr = x.Addr
			case *ssa.MapUpdate:
				addr = x.Map
			case *ssa.Call:
				h := x.Call.StaticCallee()
				if h == nil || !inModule(h) || h.Blocks == nil || pkgPathOf(h) != pkgPathOf(g) || (h.Object() != nil && h.Object().Exported()) {
					return
				}
				// handed the request (or a part of it)
				for _, a := range x.Call.Args {
					if p := c.Path(a, env); p == prefix || strings.HasPrefix(p, prefix+".") {
						scan(h, c.calleeEnv(&x.Call, h, env), prefix, d+1)
						break
					}
				}
				return
			default:
				return
			}
			if p := c.Path(addr, env); strings.HasPrefix(p, prefix+".") {
				bad = append(bad, short(g.String())+" at "+c.pos(in.Pos())+": stores into "+p)
			}
		})
	}
	scan(f, nil, sr.SC, 0)
	if sr.call != nil && sr.dec != nil {
		for _, r := range successReturns(sr.dec) {
			if al, isAl := returnedValue(r, 0).(*ssa.Alloc); isAl {
				scan(sr.dec, nil, c.Path(al, nil), 0)
			}
		}
	}
	c.Check(rule, key+":decoded-request-not-modified", len(bad) == 0 && n >= 1, f.Pos(), "nothing is stored into the decoded request after decoding", bad...)
}

var beforeLastColon = regexp.MustCompile(`^\$0\[(0)?:strings\.LastIndex(Byte)?\(\$0,(":"|58)\)\]$`)
