package main

import (
	"fmt"
	"go/token"
	"go/types"
	"regexp"
	"sort"
	"strings"

	"golang.org/x/tools/go/ssa"
)

func init() {
	props["C17"] = &propDef{extraPkgs: []string{jsonPatchPkg}, run: runC17, explanation: "Partial. Decided statically: (P1) ResolveDocument succeeds only across the true edge of strings.HasPrefix(did, namespace + \":\") with the handler's own namespace field — the delimiter is part of the gate; (D1) no function reachable from VDR.Create / Client.CreateDID / the request builders iterates a map with an order-sensitive effect (append/indexed store that survives the loop without a sort, string accumulation, first-match return): DID creation cannot depend on Go's map iteration order; (G1) parseInitialState accepts only on the false edge of b64(JCS(decoded create request)) != supplied initial state, where the request is decoded from the base64url-decoded parameter; ParseDID splits the long form at the last ':'; resolveRequestWithInitialState accepts only across Parse(namespace, initial bytes) (full non-batch validation, C07) and the false edge of suffix != parsed suffix; short-form DIDs (no create request) and DIDs with fewer than three parts are refused; (P2) unpublished transformation info and GetCreateResult wiring. Not decided: that the document read back equals the document created (did-go parsing, behavioural). ProcessOperation: the initial state of the returned DID is b64url(JCS(request bytes)) and its suffix the parsed operation's. (T1) creation maps each verification relationship to the key purpose of the same name (switch or table form). (D2) random key generation in the creation call tree runs only on the edge 'the key option is absent'. The parser's acceptance rules (C07) run inside this check; no equivalent id of an unpublished document carries the initial state. The requested suffix is the last segment verbatim; the raw-document builder rules of C08 and the published-ids rule run here too. (D3) dochandler.New receives did: + the configured method, read after the options; both transformer steps precede every accepting exit. All of C10 and the JCS rules run inside this check; GetCreateResult hands on the applier's model; relationship lists do not share storage. VDR.Read hands the DID on as given. C03.P2 runs here. C18.P1's service rules run here; equivalent ids carry the label."}
}

// mapRangeOrderEffects reports order-sensitive effects of map iterations in f.
func (c *Ctx) mapRangeOrderEffects(f *ssa.Function) []string {
	var out []string
	for _, l := range naturalLoops(f) {
		// is this a map range loop? header contains Next on a Range over a map
		var rng *ssa.Range
		for _, in := range l.header.Instrs {
			if nx, ok := in.(*ssa.Next); ok {
				if r, isR := nx.Iter.(*ssa.Range); isR {
					if _, isMap := r.X.Type().Underlying().(*types.Map); isMap {
						rng = r
					}
				}
			}
		}
		if rng == nil {
			continue
		}
		sortedAfter := func(v ssa.Value) bool {
			// v (or the phi it feeds) is handed to sort.* after the loop
			seen := map[ssa.Value]bool{}
			var walk func(x ssa.Value, d int) bool
			walk = func(x ssa.Value, d int) bool {
				if d > 6 || seen[x] || x.Referrers() == nil {
					return false
				}
				seen[x] = true
				for _, r := range *x.Referrers() {
					switch y := r.(type) {
					case *ssa.Call:
						if g := y.Call.StaticCallee(); g != nil && (strings.HasPrefix(g.String(), "sort.") || strings.HasPrefix(g.String(), "slices.Sort")) {
							return true
						}
					case *ssa.Phi:
						if walk(y, d+1) {
							return true
						}
					case *ssa.MakeInterface:
						if walk(y, d+1) {
							return true
						}
					case *ssa.Slice:
						if walk(y, d+1) {
							return true
						}
					}
				}
				return false
			}
			return walk(v, 0)
		}
		for b := range l.blocks {
			for _, in := range b.Instrs {
				switch x := in.(type) {
				case *ssa.Call:
					if bi, ok := x.Call.Value.(*ssa.Builtin); ok && bi.Name() == "append" {
						// accumulating append: result feeds a phi in the loop header
						acc := false
						for _, r := range *x.Referrers() {
							if phi, isPhi := r.(*ssa.Phi); isPhi && l.blocks[phi.Block()] {
								acc = true
							}
							if st, isSt := r.(*ssa.Store); isSt {
								if _, isAl := st.Addr.(*ssa.Alloc); isAl {
									acc = true
								}
							}
						}
						if acc && !sortedAfter(x) && !sortedAfter(x.Call.Args[0]) {
							out = append(out, fmt.Sprintf("%s: append inside `range` over map %s accumulates in map-iteration order (no sort before use)", c.pos(x.Pos()), c.Path(rng.X, nil)))
						}
					}
				case *ssa.Store:
					if ia, ok := x.Addr.(*ssa.IndexAddr); ok && isInduction(ia.Index) || ok && strings.Contains(c.Path(ia.Index, nil), "ι") {
						if !sortedAfter(ia.X) {
							out = append(out, fmt.Sprintf("%s: indexed store inside `range` over map %s fills a slice in map-iteration order (no sort before use)", c.pos(x.Pos()), c.Path(rng.X, nil)))
						}
					}
				case *ssa.BinOp:
					if x.Op == token.ADD {
						if bt, ok := x.Type().Underlying().(*types.Basic); ok && bt.Info()&types.IsString != 0 {
							for _, r := range *x.Referrers() {
								if phi, isPhi := r.(*ssa.Phi); isPhi && l.blocks[phi.Block()] {
									out = append(out, fmt.Sprintf("%s: string built inside `range` over map %s", c.pos(x.Pos()), c.Path(rng.X, nil)))
								}
							}
						}
					}
				}
			}
		}
		// first-match return of a per-element value
		for _, b := range f.Blocks {
			if !l.insideBody(b) {
				continue
			}
			if r, ok := b.Instrs[len(b.Instrs)-1].(*ssa.Return); ok {
				for _, res := range r.Results {
					if strings.Contains(c.Path(res, nil), "next(range(") {
						out = append(out, fmt.Sprintf("%s: return of a per-element value from inside `range` over map %s (first match in map order)", c.pos(r.Pos()), c.Path(rng.X, nil)))
					}
				}
			}
		}
	}
	sort.Strings(out)
	return out
}

func (c *Ctx) reachableModuleFuncs(entries []*ssa.Function) []*ssa.Function {
	seen := map[*ssa.Function]bool{}
	var order []*ssa.Function
	var dfs func(f *ssa.Function)
	dfs = func(f *ssa.Function) {
		if f == nil || seen[f] || f.Blocks == nil || !inModule(f) {
			return
		}
		seen[f] = true
		order = append(order, f)
		forEachInstr(f, func(in ssa.Instruction) {
			if ci, ok := in.(ssa.CallInstruction); ok {
				for _, g := range c.Callees(ci.Common()) {
					dfs(g)
				}
			}
			if mc, ok := in.(*ssa.MakeClosure); ok {
				dfs(mc.Fn.(*ssa.Function))
			}
			// function values passed around (sendRequest hooks)
			var ops []*ssa.Value
			for _, op := range in.Operands(ops) {
				if fn, ok := (*op).(*ssa.Function); ok {
					dfs(fn)
				}
			}
		})
	}
	for _, e := range entries {
		dfs(e)
	}
	return order
}

func runC17(c *Ctx) {
	const pDH = "vdr/sidetreelongform/dochandler"
	resolve := c.Method(pDH, "DocumentHandler", "ResolveDocument")
	nsM := c.Method(pDH, "DocumentHandler", "Namespace")
	hasPrefix := c.ExtFn("strings", "HasPrefix")
	if resolve == nil || nsM == nil || hasPrefix == nil {
		c.Unresolved("C17.P1", "(*DocumentHandler).ResolveDocument / Namespace / strings.HasPrefix")
		return
	}
	// ---- P1 namespace gate
	nsField := ""
	for _, r := range returnsOf(nsM) {
		nsField = c.Path(r.Results[0], nil)
	}
	c.Check("C17.P1", "Namespace()-field", strings.HasPrefix(nsField, "$0."), nsM.Pos(), "Namespace() returns the handler field "+nsField)
	gateWant := "(" + nsField + ` + ":")`
	c.CheckGuard("C17.P1", "ResolveDocument:namespace-gate", resolve, nil, callTo(`strings.HasPrefix(did, namespace + ":")`, hasPrefix, pathIs("$1"), pathIs(gateWant)))
	nd, _ := c.ConstVal("docutil", "NamespaceDelimiter")
	c.Check("C17.P1", "delimiter", nd == `":"`, 0, "docutil.NamespaceDelimiter = "+nd)
	c.Min("C17.P1", 3)

	// ---- D1 determinism of creation
	var entries []*ssa.Function
	for _, e := range []*ssa.Function{c.Method("vdr/sidetreelongform", "VDR", "Create"), c.Method("vdr/sidetreelongform/sidetree", "Client", "CreateDID"),
		c.Fn(pClient, "NewCreateRequest"), c.Fn(pClient, "NewUpdateRequest"), c.Fn(pClient, "NewRecoverRequest"), c.Fn(pClient, "NewDeactivateRequest")} {
		if e == nil {
			c.Unresolved("C17.D1", "creation entry point (VDR.Create / Client.CreateDID / client.New*Request)")
			continue
		}
		entries = append(entries, e)
	}
	fs := c.reachableModuleFuncs(entries)
	nRanges := 0
	for _, f := range fs {
		c.Analysed(f)
		forEachInstr(f, func(in ssa.Instruction) {
			if r, ok := in.(*ssa.Range); ok {
				if _, isMap := r.X.Type().Underlying().(*types.Map); isMap {
					nRanges++
				}
			}
		})
		for _, e := range c.mapRangeOrderEffects(f) {
			c.Check("C17.D1", "map-order:"+short(f.String()), false, f.Pos(), "creation depends on map iteration order: "+e)
		}
	}
	c.Check("C17.D1", "creation-call-tree", len(fs) > 30 && nRanges > 0, 0, fmt.Sprintf("%d functions reachable from the creation / request-building entry points; %d map iterations inspected for order-sensitive effects", len(fs), nRanges))
	if w, err := buildWitness(c.Fset); err == nil {
		c.alive("C17.D1", "append in map iteration order", len(c.mapRangeOrderEffects(w.fns["mapOrderWitness"])) > 0, len(c.mapRangeOrderEffects(w.fns["hashOK"])) == 0)
	} else {
		c.Check("C17.D1", "positive-example:build", false, 0, "built-in positive examples could not be built: "+err.Error())
	}
	c.Min("C17.D1", 2)

	// ---- D2 randomness enters creation only where the caller supplied no key: every source of random bytes in the
	// creation call tree (anything handed crypto/rand.Reader) runs only on the edge "the key option is absent" — not
	// "absent or of another type", which would swap the caller's key for a random one
	{
		n, okR := 0, true
		var detail []string
		absent := regexp.MustCompile(`^\(.*\.Values\[("updatePublicKey"|"recoveryPublicKey")\] == nil\)=true$|^.*\.Values\[("updatePublicKey"|"recoveryPublicKey")\]#1=false$`)
		for _, f := range fs {
			forEachInstr(f, func(in ssa.Instruction) {
				cl, ok := in.(*ssa.Call)
				if !ok {
					return
				}
				g := cl.Call.StaticCallee()
				usesRand := false
				for _, a := range cl.Call.Args {
					if strings.Contains(c.Path(a, nil), "crypto/rand.Reader") {
						usesRand = true
					}
				}
				// key generation (signing draws its own nonce from the same reader: that is not a key)
				if !usesRand || g == nil || !strings.Contains(g.Name(), "GenerateKey") {
					return
				}
				n++
				// the conditions at the generating call; when it sits in an unexported helper that is itself
				// unconditional about the option, those at the helper's call sites
				var check func(conds []string, where string, g *ssa.Function, d int)
				check = func(conds []string, where string, host *ssa.Function, d int) {
					nAbs, key := 0, ""
					for _, cnd := range conds {
						if m := absent.FindStringSubmatch(cnd); m != nil {
							nAbs++
							key = m[1] + m[2]
						}
					}
					isLit := host.Object() == nil && host.Parent() != nil
					if nAbs == 0 && d < 2 && (isLit || (host.Object() != nil && !host.Object().Exported())) {
						// the helper's own conditions, rendered with each call's arguments (the option name may be one of
						// them), together with the conditions under which it is called
						sites := 0
						for _, hf := range fs {
							hcs := callsTo(hf, host)
							if isLit && hf == host.Parent() {
								// a function literal called where it is declared (through the local it is assigned to)
								forEachInstr(hf, func(in ssa.Instruction) {
									if lc, isC := in.(*ssa.Call); isC && localLiteral(lc) == host {
										hcs = append(hcs, lc)
									}
								})
							}
							for _, hc := range hcs {
								sites++
								old := c.condEnv
								c.condEnv = c.calleeEnv(&hc.Call, host, nil)
								inHelper := c.condsOf(cl.Block())
								c.condEnv = old
								check(append(inHelper, c.condsOf(hc.Block())...), short(hf.String())+" at "+c.pos(hc.Pos()), hf, d+1)
							}
						}
						if sites > 0 {
							return
						}
					}
					if nAbs != 1 {
						okR = false
						detail = append(detail, fmt.Sprintf("%s: %d absence conditions in %v", where, nAbs, conds))
						return
					}
					for _, cnd := range conds {
						if !absent.MatchString(cnd) && strings.Contains(cnd, key) {
							okR = false
							detail = append(detail, where+": also conditional on "+cnd)
						}
					}
				}
				check(c.condsOf(cl.Block()), short(f.String())+" at "+c.pos(cl.Pos()), f, 0)
			})
		}
		c.Check("C17.D2", "random-keys-only-for-absent-options", okR && n >= 1, 0, fmt.Sprintf("%d uses of crypto/rand.Reader in the creation call tree, each under exactly the condition that its key option is absent %v", n, detail))
	}
	c.Min("C17.D2", 1)

	// ---- D3 the namespace the document handler serves is the configured method: vdr.New hands dochandler.New
	// "did:" + the field that WithDIDMethod sets, read after the options were applied (a namespace computed before —
	// in the literal, from the default — stays the default's whatever the caller configured)
	{
		const pVDR = "vdr/sidetreelongform"
		nw := c.Fn(pVDR, "New")
		dhNew := c.Fn(pVDR+"/dochandler", "New")
		methodField := ""
		if wm := c.Fn(pVDR, "WithDIDMethod"); wm != nil {
			for _, an := range wm.AnonFuncs {
				forEachInstr(an, func(in ssa.Instruction) {
					if st, ok := in.(*ssa.Store); ok {
						if fa, isFA := st.Addr.(*ssa.FieldAddr); isFA && isStringType(st.Val.Type()) {
							methodField = fieldName(fa.X.Type(), fa.Field)
						}
					}
				})
			}
		}
		if nw == nil || dhNew == nil || methodField == "" {
			c.Unresolved("C17.D3", "sidetreelongform.New / dochandler.New / WithDIDMethod")
		} else {
			c.Analysed(nw)
			okNS, detail := false, ""
			for _, cl := range callsTo(nw, dhNew) {
				cf := c.concatForm(cl.Call.Args[0], nil)
				detail = cf
				parts := strings.Split(cf, " ++ ")
				if len(parts) != 2 || parts[0] != `"did:"` || !strings.HasSuffix(parts[1], "."+methodField) {
					continue
				}
				// the field is read after the option loop
				after := false
				loops := naturalLoops(nw)
				for v := range backSlice(cl.Call.Args[0]) {
					ld, isLd := v.(*ssa.UnOp)
					if !isLd || ld.Op != token.MUL {
						continue
					}
					fa, isFA := ld.X.(*ssa.FieldAddr)
					if !isFA || fieldName(fa.X.Type(), fa.Field) != methodField {
						continue
					}
					after = len(loops) > 0
					for _, l := range loops {
						if l.blocks[ld.Block()] || !l.header.Dominates(ld.Block()) {
							after = false
						}
					}
				}
				okNS = after
			}
			c.Check("C17.D3", "New:namespace-is-did:configured-method", okNS, nw.Pos(), fmt.Sprintf("dochandler.New receives \"did:\" + the %s field, read after the options were applied (receives %s)", methodField, detail))
		}
	}
	c.Min("C17.D3", 1)

	// ---- G1 initial state / suffix / short form
	pis := c.Fn(pParser, "parseInitialState")
	parseDID := c.Method(pParser, "Parser", "ParseDID")
	if pis == nil || parseDID == nil {
		c.Unresolved("C17.G1", "operationparser.parseInitialState / (*Parser).ParseDID")
	} else {
		c.Analysed(pis)
		jsonU := c.ExtFn("encoding/json", "Unmarshal")
		dec := c.Fn("encoder", "DecodeString")
		c.CheckGuard("C17.G1", "parseInitialState:base64url-decode", pis, nil, callTo("encoder.DecodeString(initialState)", dec, pathIs("$0")))
		crT := c.NamedType(pModel, "CreateRequest")
		var A *ssa.Alloc
		for _, a := range allocsOf(pis, crT) {
			A = a
		}
		if A == nil {
			c.Check("C17.G1", "parseInitialState:decoded-request", false, pis.Pos(), "no model.CreateRequest variable in parseInitialState")
		} else {
			ap := c.Path(A, nil)
			c.CheckGuard("C17.G1", "parseInitialState:json-decode", pis, nil, callTo("json.Unmarshal(decoded, &createRequest)", jsonU, pathIs("encoder.DecodeString($0)#0"), pathIs(ap)))
			canon := "encoder.EncodeToString(canonicalizer.MarshalCanonical(" + ap + ")#0)"
			c.CheckGuard("C17.G1", "parseInitialState:canonical-form-compare", pis, nil, cmpReject("b64(JCS(request)) != initialState rejected", token.NEQ, pathIs(canon), pathIs("$0")))
			okRet := true
			for _, r := range successReturns(pis) {
				if r.Results[0] != ssa.Value(A) {
					okRet = false
				}
			}
			c.Check("C17.G1", "parseInitialState:returns-decoded-request", okRet, pis.Pos(), "the request returned is the one that was compared")
		}
		// ParseDID: split at the last ':'
		c.Analysed(parseDID)
		li := `strings.LastIndex($2,":")`
		okSplit := false
		for _, cl := range callsTo(parseDID, pis) {
			if c.Path(cl.Call.Args[0], nil) == "$2[("+li+" + 1):]" || c.InlPath(cl.Call.Args[0], nil) == "$2[("+li+" + 1):]" {
				okSplit = true
			}
		}
		c.Check("C17.G1", "ParseDID:initial-state-after-last-colon", okSplit, parseDID.Pos(), "the initial state handed to parseInitialState is did[LastIndex(did, \":\")+1:]")
		okDid := false
		for _, r := range successReturns(parseDID) {
			p0 := c.Path(r.Results[0], nil)
			if p0 == "$2[:"+li+"]" || c.InlPath(r.Results[0], nil) == "$2[:"+li+"]" {
				okDid = true
			}
		}
		c.Check("C17.G1", "ParseDID:did-before-last-colon", okDid, parseDID.Pos(), "the long-form branch returns did[0:LastIndex(did, \":\")] as the short form")
		c.CheckGuard("C17.G1", "ParseDID:long-form-requires-valid-initial-state", parseDID, nil, anyOf("short form (no ':' after the namespace) or parseInitialState ok",
			callTo("parseInitialState(...)", pis),
			cmpAccept("no long-form separator", token.EQL, func(s string) bool { return strings.HasPrefix(s, "strings.Index(") }, pathIs("-1")),
			cmpAccept("no long-form separator", token.LSS, func(s string) bool { return strings.HasPrefix(s, "strings.Index(") }, pathIs("0")),
			&GCheck{Name: "no long-form separator", BoolFalse: true, MatchCall: func(c *Ctx, call *ssa.Call, env Env) bool {
				g := call.Call.StaticCallee()
				return g != nil && g.String() == "strings.Contains" && c.Path(call.Call.Args[1], env) == `":"`
			}}))
	}
	rr := c.Method(pDH, "DocumentHandler", "resolveRequestWithInitialState")
	if rr == nil {
		// discover: the method of DocumentHandler called from ResolveDocument with (suffix, did, createReq, pv)
		for _, cl := range findCalls(resolve, func(cl *ssa.Call) bool {
			g := cl.Call.StaticCallee()
			return g != nil && inModule(g) && len(declArgs(cl)) == 4
		}) {
			rr = cl.Call.StaticCallee()
		}
	}
	if rr == nil {
		c.Unresolved("C17.G1", "resolveRequestWithInitialState")
	} else {
		c.Analysed(rr)
		var parseCall *ssa.Call
		for _, cl := range callsNamed(rr, "Parse") {
			a := declArgs(cl)
			if len(a) == 2 && c.Path(a[0], nil) == nsField && c.Path(a[1], nil) == "$3" {
				parseCall = cl
			}
		}
		c.Check("C17.G1", "resolve:Parse(namespace, initialBytes)", parseCall != nil, rr.Pos(), "the embedded create request is validated by the protocol parser in non-batch mode with the handler's namespace")
		if parseCall != nil {
			pc := parseCall
			c.CheckGuard("C17.G1", "resolve:parse-required", rr, nil, &GCheck{Name: "Parse(namespace, initialBytes) ok", MatchCall: func(c *Ctx, call *ssa.Call, env Env) bool { return call == pc }})
			// evaluated from ResolveDocument with the helper's parameters renamed to caller-side paths, so the suffix
			// extraction may sit in the caller or in the helper
			isSuffix := func(s string) bool {
				return strings.HasPrefix(s, "vdr/sidetreelongform/dochandler.getSuffix(") && strings.HasSuffix(s, "#0") && strings.Contains(s, ".ParseDID[")
			}
			c.CheckGuard("C17.G1", "resolve:suffix-equality", resolve, nil, cmpReject("suffix of the requested DID != parsed op.UniqueSuffix rejected", token.NEQ, isSuffix, func(s string) bool {
				return strings.HasSuffix(s, "#0.UniqueSuffix") && strings.Contains(s, ".Parse[")
			}))
		}
		// ResolveDocument: createReq == nil refused; suffix from >= 3 parts; same did string handed down
		c.CheckGuard("C17.G1", "ResolveDocument:short-form-refused", resolve, nil, cmpReject("createReq == nil rejected", token.EQL, func(s string) bool { return strings.Contains(s, ".ParseDID[") && strings.HasSuffix(s, "#1") }, pathIs("nil")))
		c.CheckGuard("C17.G1", "ResolveDocument:at-least-3-parts", resolve, nil, cmpReject("len(parts) < 3 rejected", token.LSS, func(s string) bool { return strings.HasPrefix(s, "len(strings.Split(") }, pathIs("3")))
		okArgs := false
		for _, cl := range callsTo(resolve, rr) {
			a := declArgs(cl)
			if len(a) == 4 && strings.Contains(c.Path(a[0], nil), ".ParseDID[") && strings.Contains(c.Path(a[1], nil), "$1") && strings.HasSuffix(c.Path(a[2], nil), "#1") {
				okArgs = true
			}
		}
		// the suffix that is compared is the text of the DID's last segment itself: a normalised (decoded and re-encoded,
		// trimmed, case-folded) segment makes several spellings of a DID resolve — the suffix would no longer be
		// tamper-evident character by character
		if gs := c.Fn("vdr/sidetreelongform/dochandler", "getSuffix"); gs != nil {
			c.Analysed(gs)
			okS := len(successReturns(gs)) > 0
			var got []string
			for _, r := range successReturns(gs) {
				p := c.Path(returnedValue(r, 0), nil)
				got = append(got, p)
				if !afterLastColon.MatchString(p) {
					okS = false
				}
			}
			c.Check("C17.G1", "getSuffix:last-segment-verbatim", okS, gs.Pos(), fmt.Sprintf("the suffix is the text after the last ':' of the short-form DID, unchanged (returns %v)", got))
		}
		c.Check("C17.G1", "ResolveDocument:hands-suffix-did-and-initial-state", okArgs, resolve.Pos(), "the suffix (from the parsed short form), the DID and the decoded create request flow into the resolution step")
		c.CheckGuard("C17.G1", "ResolveDocument:requires-resolution-step", resolve, nil, callTo("resolveRequestWithInitialState", rr))
	}
	c.Min("C17.G1", 12)

	// ---- P2
	if f := c.Fn("docutil", "GetTransformationInfoForUnpublished"); f != nil {
		c.Analysed(f)
		pub := false
		forEachInstr(f, func(in ssa.Instruction) {
			if mu, ok := in.(*ssa.MapUpdate); ok && c.Path(mu.Key, nil) == `"published"` && c.Path(mu.Value, nil) == "false" {
				pub = true
			}
		})
		c.Check("C17.P2", "unpublished:published=false", pub, f.Pos(), "transformation info for an unpublished (long-form) DID carries published=false")
	} else {
		c.Unresolved("C17.P2", "docutil.GetTransformationInfoForUnpublished")
	}
	// id composition for long-form resolution: id = ns:suffix:initial-state, equivalent id = ns:suffix
	if f := c.Fn("docutil", "GetTransformationInfoForUnpublished"); f != nil && rr != nil {
		okCall := false
		for _, rc := range callsTo(resolve, rr) {
			env0 := c.calleeEnv(&rc.Call, rr, nil)
			for _, tc := range c.treeCalls(rr, env0, 0, func(cl *ssa.Call, env Env) bool { return cl.Call.StaticCallee() == f }) {
				cl, env := tc.call, tc.env
				a := cl.Call.Args
				if len(a) != 5 {
					continue
				}
				sfx, init := c.Path(a[3], env), c.Path(a[4], env)
				// the suffix of the requested DID — or the parsed operation's, which the function has compared with it (C17.G1)
				okSfx := (strings.HasPrefix(sfx, "vdr/sidetreelongform/dochandler.getSuffix(") && strings.HasSuffix(sfx, "#0") && strings.Contains(sfx, ".ParseDID[")) ||
					(strings.HasSuffix(sfx, "#0.UniqueSuffix") && strings.Contains(sfx, ".Parse["))
				if c.Path(a[0], env) == nsField && c.Path(a[1], env) == `""` && c.Path(a[2], env) == `""` && okSfx && init == `$1[(strings.LastIndex($1,":") + 1):]` {
					okCall = true
				}
			}
		}
		c.Check("C17.P2", "resolve:transformation-info-arguments", okCall, rr.Pos(), "transformation info is built from (namespace, suffix, the initial-state segment of the requested DID)")
		env := Env{f.Params[1]: `""`, f.Params[2]: `""`}
		pr := c.pruned(f, env)
		live := reach(f.Blocks[0], pr)
		// values are read in canonical concatenation form (+ chains and Sprintf("%s:%s", …) alike), φs restricted to
		// the edges that are live when label and domain are empty (the long-form resolution case)
		c.phiEdgeLive = func(phi *ssa.Phi, i int) bool { _, l := live[phi.Block().Preds[i]]; return l }
		const short, long = `$0 ++ ":" ++ $3`, `$0 ++ ":" ++ $3 ++ ":" ++ $4`
		okID, okEq := false, false
		forEachInstr(f, func(in ssa.Instruction) {
			if _, isLive := live[in.Block()]; !isLive {
				return
			}
			mu, ok := in.(*ssa.MapUpdate)
			if !ok {
				return
			}
			switch c.Path(mu.Key, nil) {
			case `"id"`:
				// the stored id: the long form on the paths where the initial state is non-empty, the short form otherwise
				var v ssa.Value = mu.Value
				if mi, isMI := v.(*ssa.MakeInterface); isMI {
					v = mi.X
				}
				if phi, isPhi := v.(*ssa.Phi); isPhi {
					nLong, bad := 0, false
					for i, e := range phi.Edges {
						if !c.phiEdgeLive(phi, i) {
							continue
						}
						switch c.concatForm(e, env) {
						case long:
							guarded := false
							for _, ce := range c.condsOf(phi.Block().Preds[i]) {
								if ce == `($4 != "")=true` {
									guarded = true
								}
							}
							if guarded {
								nLong++
							} else {
								bad = true
							}
						case short:
						default:
							bad = true
						}
					}
					okID = nLong > 0 && !bad
				}
			case `"equivalentId"`:
				// the list is built by appends in this function or in an unexported helper that hands the list back
				var scan func(fn *ssa.Function, v ssa.Value, fenv, penv Env, liveB map[*ssa.BasicBlock]*ssa.BasicBlock, d int)
				scan = func(fn *ssa.Function, v ssa.Value, fenv, penv Env, liveB map[*ssa.BasicBlock]*ssa.BasicBlock, d int) {
					for bv := range backSlice(v) {
						ap, isC := bv.(*ssa.Call)
						if !isC || ap.Parent() != fn {
							continue
						}
						if _, l := liveB[ap.Block()]; !l {
							continue
						}
						if g := ap.Call.StaticCallee(); g != nil && inModule(g) && g.Blocks != nil && g.Object() != nil && !g.Object().Exported() && d < 2 {
							genv := c.concatEnv(&ap.Call, g, fenv)
							gl := reach(g.Blocks[0], c.pruned(g, genv))
							gp := c.calleeEnv(&ap.Call, g, penv)
							for _, r := range returnsOf(g) {
								if _, l := gl[r.Block()]; l && len(r.Results) > 0 {
									old := c.phiEdgeLive
									c.phiEdgeLive = func(phi *ssa.Phi, i int) bool { _, l := gl[phi.Block().Preds[i]]; return l }
									scan(g, r.Results[0], genv, gp, gl, d+1)
									c.phiEdgeLive = old
								}
							}
							continue
						}
						if bi, isB := ap.Call.Value.(*ssa.Builtin); !isB || bi.Name() != "append" {
							continue
						}
						els, okV := c.varargValues(ap.Call.Args[1])
						if okV && len(els) == 1 && c.concatForm(els[0], fenv) == short {
							c.condEnv = penv
							for _, ce := range c.condsOf(ap.Block()) {
								if ce == `($4 != "")=true` {
									okEq = true
								}
							}
							c.condEnv = nil
						}
					}
				}
				scan(f, mu.Value, env, nil, live, 0)
			}
		})
		c.phiEdgeLive = nil
		shortID := true
		c.equivalentIDsShortForm("C17.P2")
		c.publishedIDsRule("C17.P2")
		c.Check("C17.P2", "unpublished:id=ns:suffix:initial-state", okID, f.Pos(), "with an initial state the document id is \"<ns>:<suffix>:<initial state>\"")
		c.Check("C17.P2", "unpublished:equivalentId=ns:suffix", okEq && shortID, f.Pos(), "the short form \"<ns>:<suffix>\" is listed as equivalent id")
	}
	// ---- T1 creation maps each verification relationship of the supplied document to the key purpose of the same name
	// (a crossed pair would bring a key back under another relationship than it was supplied with)
	if gk := c.Fn("vdr/sidetreelongform", "getSidetreePublicKeys"); gk != nil {
		c.Analysed(gk)
		pairs := map[string]string{} // relationship constant (number) -> purpose string
		isRel := func(p string) bool { return strings.HasSuffix(p, ".Relationship") }
		for k, blk := range c.caseTable(gk, nil, isRel) {
			pairs[k] = unquote(c.phiConstFrom(gk, blk))
		}
		if len(pairs) == 0 {
			if g, lk := c.globalTableLookup(gk, isRel); g != nil && lk.CommaOk {
				// every verification method of the document crosses the found edge (for-all form: the lookup sits in the loop)
				if found, _, n := c.GuardLoop(gk, nil, &GCheck{Name: "relationship found in the table", NoDescend: true, MatchOK: func(c *Ctx, v ssa.Value, env Env) bool { return v == ssa.Value(lk) }}); found && n > 0 {
					for _, mu := range c.globalMapUpdates(g) {
						pairs[c.Path(mu.Key, nil)] = unquote(c.Path(mu.Value, nil))
					}
				}
			}
		}
		// names of the relationship constants, from the type-checked did-go package
		names := map[string]string{}
		for path, tp := range c.TPkg {
			if !strings.HasSuffix(path, "did-go/doc/did") || tp.Types == nil {
				continue
			}
			sc := tp.Types.Scope()
			for _, n := range sc.Names() {
				if k, ok := sc.Lookup(n).(*types.Const); ok && strings.HasSuffix(k.Type().String(), ".VerificationRelationship") {
					names[k.Val().ExactString()] = n
				}
			}
		}
		ok := len(pairs) == 5
		var show []string
		for num, purpose := range pairs {
			name := names[num]
			show = append(show, name+"->"+purpose)
			if name == "" || !strings.EqualFold(name, purpose) {
				ok = false
			}
		}
		sort.Strings(show)
		c.Check("C17.T1", "create:relationship-to-purpose", ok, gk.Pos(), fmt.Sprintf("verification relationship -> key purpose: %v (each purpose carries the name of its relationship; five relationships)", show))
	} else {
		c.Unresolved("C17.T1", "sidetreelongform.getSidetreePublicKeys")
	}
	c.Min("C17.T1", 1)

	// ProcessOperation: the long-form DID handed back embeds b64url(JCS(create request)) — what ResolveDocument
	// requires of an initial state (C17.G1) — and the suffix of the parsed operation
	if po, tiF := c.Method("vdr/sidetreelongform/dochandler", "DocumentHandler", "ProcessOperation"), c.Fn("docutil", "GetTransformationInfoForUnpublished"); po != nil && tiF != nil {
		c.Analysed(po)
		okInit, okSfx := false, false
		got := ""
		for _, tc := range c.treeCalls(po, nil, 0, func(cl *ssa.Call, env Env) bool { return cl.Call.StaticCallee() == tiF }) {
			cl := tc.call
			a := cl.Call.Args
			if len(a) != 5 {
				continue
			}
			// the initial-state argument as a value of ProcessOperation's own frame (the call may sit in a helper that is
			// handed the value)
			init := a[4]
			if tc.fn != po {
				p, isP := init.(*ssa.Parameter)
				if !isP || tc.top.Call.StaticCallee() != tc.fn || paramIndex(p) >= len(tc.top.Call.Args) {
					continue
				}
				init = tc.top.Call.Args[paramIndex(p)]
			}
			t := normalize(c.ValueTerm(po, init))
			got = t.String()
			// the request bytes: the parameter, or the bytes the parser hands back unchanged (C07.P1 OperationRequest)
			for alt := range altSet(t) {
				if alt == "b64(JCS($1))" || (strings.HasPrefix(alt, "b64(JCS(.OperationRequest(") && strings.Contains(alt, "Parse")) {
					okInit = true
				} else {
					okInit = false
					break
				}
			}
			sp := c.Path(a[3], tc.env)
			okSfx = strings.HasSuffix(sp, "#0.UniqueSuffix") && strings.Contains(sp, ".Parse[")
		}
		c.Check("C17.P2", "process:initial-state=b64(JCS(request))", okInit, po.Pos(), "the initial state of the returned long-form DID is "+got+" (expected b64(JCS(request bytes)): ResolveDocument accepts only the canonical encoding)")
		c.Check("C17.P2", "process:suffix-of-parsed-operation", okSfx, po.Pos(), "the suffix of the returned DID is the parsed operation's unique suffix")
		if mc := c.Fn("canonicalizer", "MarshalCanonical"); mc != nil {
			c.CheckGuard("C17.P2", "process:canonicalization-error-propagated", po, nil, callTo("MarshalCanonical(request)", mc))
		}
	} else {
		c.Unresolved("C17.P2", "(*DocumentHandler).ProcessOperation / docutil.GetTransformationInfoForUnpublished")
	}
	if f := c.Fn("docutil", "GetCreateResult"); f != nil {
		c.Analysed(f)
		var ap *ssa.Call
		for _, cl := range callsNamed(f, "Apply") {
			ap = cl
		}
		c.Check("C17.P2", "GetCreateResult:applies-through-applier", ap != nil, f.Pos(), "the create request is applied through the protocol version's operation applier")
		if ap != nil {
			c.CheckGuard("C17.P2", "GetCreateResult:apply-required", f, nil, &GCheck{Name: "Apply ok", MatchCall: func(c *Ctx, call *ssa.Call, env Env) bool { return call == ap }})
			c.CheckGuard("C17.P2", "GetCreateResult:empty-document-refused", f, nil, cmpReject("len(doc) == 0 rejected", token.EQL, func(s string) bool { return strings.HasPrefix(s, "len(") && strings.Contains(s, ".Doc") }, pathIs("0")))
			// what it hands on is the applier's model: the model itself, or a copy whose members are the same-named members
			// of the applier's model (a member taken from the model handed TO the applier is empty)
			{
				A := c.Path(ap, nil) + "#0"
				okRes := true
				var bad []string
				nRet := 0
				rmT := c.NamedType("api/protocol", "ResolutionModel")
				for _, r := range successReturns(f) {
					nRet++
					rv := returnedValue(r, 0)
					if c.Path(rv, nil) == A {
						continue
					}
					al, isAl := rv.(*ssa.Alloc)
					if !isAl || rmT == nil || !types.Identical(derefT(al.Type()), rmT) {
						okRes = false
						bad = append(bad, c.pos(r.Pos())+": returns "+c.Path(rv, nil))
						continue
					}
					for _, fs := range c.storesIntoObj(&builtObj{v: al}) {
						if got := c.fsPath(fs); got != A+"."+fs.Field {
							okRes = false
							bad = append(bad, fmt.Sprintf("%s: %s = %s", c.pos(fs.Instr.Pos()), fs.Field, got))
						}
					}
				}
				c.Check("C17.P2", "GetCreateResult:hands-on-the-applier's-model", okRes && nRet > 0, f.Pos(), "the result is the model the applier returned (or a copy of it, member for member)", bad...)
			}
			// the anchored operation is built from the parsed operation
			anT := c.NamedType("api/operation", "AnchoredOperation")
			for _, a := range allocsOf(f, anT) {
				ft := c.fieldTable(a, nil)
				ok := len(ft["OperationRequest"]) == 1 && ft["OperationRequest"][0] == "$0.OperationRequest" && len(ft["UniqueSuffix"]) == 1 && ft["UniqueSuffix"][0] == "$0.UniqueSuffix" && len(ft["Type"]) == 1 && ft["Type"][0] == "$0.Type" && len(ft["AnchorOrigin"]) == 1 && ft["AnchorOrigin"][0] == "$0.AnchorOrigin"
				c.Check("C17.P2", "GetCreateResult:anchored-from-parsed", ok, a.Pos(), fmt.Sprintf("anchored operation fields %v", ft))
			}
		}
	} else {
		c.Unresolved("C17.P2", "docutil.GetCreateResult")
	}
	c.Min("C17.P2", 7)
	// an option that Create applies once per element of the supplied document (one call per URI, service, key, inside a
	// loop) has to accumulate: its closure extends the options' list (opts.F = append(opts.F, …)) — an option that sets
	// the list keeps the last element only
	if create := c.Method("vdr/sidetreelongform", "VDR", "Create"); create != nil {
		n := 0
		var bad []string
		seenOpt := map[*ssa.Function]bool{}
		for _, h := range append([]*ssa.Function{create}, c.helpersOf(create, 1)...) {
			for _, l := range naturalLoops(h) {
				for b := range l.blocks {
					for _, in := range b.Instrs {
						cl, ok := in.(*ssa.Call)
						if !ok {
							continue
						}
						g := cl.Call.StaticCallee()
						if g == nil || !strings.HasPrefix(pkgPathOf(g), modPkg+"vdr/sidetreelongform/sidetree/option/") || !strings.HasPrefix(g.Name(), "With") || seenOpt[g] {
							continue
						}
						seenOpt[g] = true
						n++
						for _, lit := range g.AnonFuncs {
							if len(lit.Params) != 1 {
								continue
							}
							accumulates := false
							forEachInstr(lit, func(i2 ssa.Instruction) {
								st, isS := i2.(*ssa.Store)
								if !isS {
									return
								}
								fa, isFA := st.Addr.(*ssa.FieldAddr)
								if !isFA || fa.X != ssa.Value(lit.Params[0]) {
									return
								}
								if ap, isC := st.Val.(*ssa.Call); isC {
									if bi, isB := ap.Call.Value.(*ssa.Builtin); isB && bi.Name() == "append" {
										if ld, isLd := ap.Call.Args[0].(*ssa.UnOp); isLd && ld.Op == token.MUL {
											if fa0, isFA0 := ld.X.(*ssa.FieldAddr); isFA0 && fa0.X == fa.X && fa0.Field == fa.Field {
												accumulates = true
											}
										}
									}
								}
							})
							if !accumulates {
								bad = append(bad, c.pos(cl.Pos())+": "+short(g.String())+" is applied once per element but does not extend the options' list")
							}
						}
					}
				}
			}
		}
		c.Check("C17.P2", "per-element-options-accumulate", n >= 2 && len(bad) == 0, create.Pos(), fmt.Sprintf("%d option(s) applied per element of the supplied document; each extends its list", n), bad...)
	} else {
		c.Unresolved("C17.P2", "(*VDR).Create")
	}
	// the VDR's Read is the handler's ResolveDocument on the DID as it was given: the wrapper judges nothing and repairs
	// nothing (a DID "tidied" on the way in resolves although the handler refuses that very string, and comes back under
	// an id the caller did not ask for)
	if rd := c.Method("vdr/sidetreelongform", "VDR", "Read"); rd != nil {
		c.Analysed(rd)
		n, okArg := 0, true
		forEachInstr(rd, func(in ssa.Instruction) {
			cl, ok := in.(*ssa.Call)
			if !ok || !callNamed(cl, "ResolveDocument") {
				return
			}
			n++
			a := declArgs(cl)
			if len(a) < 1 || c.Path(a[0], nil) != "$1" {
				okArg = false
			}
		})
		c.Check("C17.P2", "Read:hands-the-DID-on-as-given", n == 1 && okArg, rd.Pos(), fmt.Sprintf("VDR.Read calls ResolveDocument %d time(s), with the DID parameter itself", n))
	} else {
		c.Unresolved("C17.P2", "(*VDR).Read")
	}
	// the suffix a long-form DID carries is the hash of the whole suffix data: GetUniqueSuffix hands the model it is given
	// to the model hash (C03.P2) — a hash over a copy without one of its members gives several initial states one suffix
	c.only(runC03, "C03.P2")
	c.Min("C03.P2", 1)
	// "resolves to a document equivalent to the one supplied": the transformer copies every further member of a service,
	// whatever its value (C18.P1's service rules)
	c.only(runC18, "C18.P1::service")
	c.Min("C18.P1", 3)
	c.Assume("default update/recovery key generation (crypto/rand) happens only when the caller supplies no key; did-go document parsing and serialisation are outside the claim")
	// a long-form DID is resolved by handing its initial state to the operation parser: what the parser accepts (and
	// the limits it applies, each to the thing it is defined on) is part of "every DID Create hands out resolves"
	c.apart(runC07)
	// "resolves to a document equivalent to the one supplied": the document Create encodes into the initial state carries
	// every member of the supplied one (the raw-document builders of C08)
	c.docBytesRule("C08.P3")
	c.rawServiceRule("C08.P3")
	// … and the resolved document carries keys and services alike: both transformer steps run on every accepting path
	c.transformStepsRule("C18.P1")
	c.relationshipListsSeparateRule("C18.T1")
	// the initial state's patches are applied by the composer (all of C10: a handler that rewrites what it stores — a
	// URI re-serialised, a key merged — resolves to a document that is not the one supplied), and the suffix is a hash of
	// the canonical form (the JCS rules)
	c.apart(runC10)
	c.jcsRules()
}

// condsOf: branch conditions (path=truth) on the single-predecessor dominator chain of b.
func (c *Ctx) condsOf(b *ssa.BasicBlock) []string {
	var out []string
	for x := b; x != nil; x = x.Idom() {
		id := x.Idom()
		if id == nil || len(x.Preds) != 1 {
			continue
		}
		if iff, ok := id.Instrs[len(id.Instrs)-1].(*ssa.If); ok {
			out = append(out, c.canonCond(iff.Cond, id.Succs[0] == x))
		}
	}
	return out
}

// equivalentIDsShortForm: whatever the label / domain configuration, no equivalent id of an unpublished document carries
// the initial state (the equivalent ids are short-form or hinted short-form ids; only the document id is long-form).
func (c *Ctx) equivalentIDsShortForm(rule string) {
	f := c.Fn("docutil", "GetTransformationInfoForUnpublished")
	if f == nil || len(f.Params) != 5 {
		c.Unresolved(rule, "docutil.GetTransformationInfoForUnpublished")
		return
	}
	n := 0
	var bad, unlabelled []string
	var scan func(fn *ssa.Function, env Env, d int)
	scan = func(fn *ssa.Function, env Env, d int) {
		forEachInstr(fn, func(in ssa.Instruction) {
			cl, ok := in.(*ssa.Call)
			if !ok {
				return
			}
			if bi, isB := cl.Call.Value.(*ssa.Builtin); isB && bi.Name() == "append" && typeShort(cl.Type()) == "[]string" {
				els, okV := c.varargValues(cl.Call.Args[1])
				if !okV {
					return
				}
				for _, e := range els {
					n++
					cf := c.concatForm(e, env)
					if strings.Contains(cf, "$4") {
						bad = append(bad, cf)
					}
					// … and every one of them is (where a label is configured) the labelled id: the value appended can be the
					// id with the label — an id taken before the label is applied names another, unlabelled DID
					if !strings.Contains(cf, "$2") {
						unlabelled = append(unlabelled, cf)
					}
				}
				return
			}
			if g := cl.Call.StaticCallee(); g != nil && inModule(g) && g.Blocks != nil && d < 2 && pkgPathOf(g) == pkgPathOf(f) && g.Object() != nil && !g.Object().Exported() {
				scan(g, c.concatEnv(&cl.Call, g, env), d+1)
			}
		})
	}
	scan(f, nil, 0)
	c.Check(rule, "unpublished:equivalent-ids-carry-no-initial-state", len(bad) == 0 && n > 0, f.Pos(), fmt.Sprintf("%d equivalent id(s) appended; containing the initial state: %v", n, bad))
	c.Check(rule, "unpublished:equivalent-ids-carry-the-label", len(unlabelled) == 0 && n > 0, f.Pos(), fmt.Sprintf("%d equivalent id(s) appended; that can never carry the configured label: %v", n, unlabelled))
}

// canonCond renders a branch condition with its truth value in a canonical spelling: negations are folded into the
// truth value; strings.Index(h,n) compared with -1 / 0 and strings.Contains(h,n) are both "contains(h,n)".
func (c *Ctx) canonCond(cond ssa.Value, truth bool) string {
	for d := 0; d < 4; d++ {
		u, ok := cond.(*ssa.UnOp)
		if !ok || u.Op != token.NOT {
			break
		}
		cond, truth = u.X, !truth
	}
	// a predicate helper with one exit stands for the condition it returns, rendered in the caller's frame
	if cl, ok := cond.(*ssa.Call); ok {
		if g := cl.Call.StaticCallee(); g != nil && inModule(g) && g.Blocks != nil && g.Object() != nil && !g.Object().Exported() && isBoolType(cl.Type()) {
			if rs := returnsOf(g); len(rs) == 1 && len(rs[0].Results) == 1 && c.condDepth < 3 {
				old := c.condEnv
				c.condEnv = c.calleeEnv(&cl.Call, g, old)
				c.condDepth++
				out := c.canonCond(returnedValue(rs[0], 0), truth)
				c.condDepth--
				c.condEnv = old
				return out
			}
		}
	}
	isIdx := func(v ssa.Value) (string, bool) {
		cl, ok := v.(*ssa.Call)
		if !ok || cl.Call.StaticCallee() == nil || len(cl.Call.Args) != 2 {
			return "", false
		}
		switch cl.Call.StaticCallee().String() {
		case "strings.Index", "strings.IndexByte", "bytes.Index", "bytes.IndexByte":
			return "contains(" + c.Path(cl.Call.Args[0], c.condEnv) + "," + c.Path(cl.Call.Args[1], c.condEnv) + ")", true
		}
		return "", false
	}
	switch x := cond.(type) {
	case *ssa.Call:
		if g := x.Call.StaticCallee(); g != nil && len(x.Call.Args) == 2 {
			switch g.String() {
			case "strings.Contains", "bytes.Contains", "strings.ContainsRune":
				return fmt.Sprintf("contains(%s,%s)=%v", c.Path(x.Call.Args[0], c.condEnv), c.Path(x.Call.Args[1], c.condEnv), truth)
			}
		}
	case *ssa.BinOp:
		l, r, op := x.X, x.Y, x.Op
		if _, isK := l.(*ssa.Const); isK {
			l, r, op = r, l, flipOp(op)
		}
		if cs, ok := isIdx(l); ok {
			switch rp := c.Path(r, c.condEnv); {
			case rp == "-1" && op == token.EQL, rp == "0" && op == token.LSS:
				return fmt.Sprintf("%s=%v", cs, !truth)
			case rp == "-1" && (op == token.NEQ || op == token.GTR), rp == "0" && op == token.GEQ:
				return fmt.Sprintf("%s=%v", cs, truth)
			}
		}
	}
	// comparisons: one spelling per relation — negation folded into the operator, > and >= flipped into < and <=,
	// constants of == / != on the right; the rendered condition is then always "=true"
	if bo, ok := cond.(*ssa.BinOp); ok && isCmp(bo.Op) {
		l, r, op := c.Path(bo.X, c.condEnv), c.Path(bo.Y, c.condEnv), bo.Op
		if !truth {
			op = negOp(op)
		}
		switch op {
		case token.GTR, token.GEQ:
			l, r, op = r, l, flipOp(op)
		case token.EQL, token.NEQ:
			_, lk := bo.X.(*ssa.Const)
			_, rk := bo.Y.(*ssa.Const)
			if (lk && !rk) || (lk == rk && r < l) {
				l, r = r, l
			}
		}
		return fmt.Sprintf("(%s %s %s)=true", l, op.String(), r)
	}
	return fmt.Sprintf("%s=%v", c.Path(cond, c.condEnv), truth)
}

// publishedIDsRule: for a published document the canonical id is reported always, and it is always one of the equivalent
// ids (the first): both members are stored unconditionally, and the canonical id enters the equivalent-id list
// unconditionally — whatever the canonical reference is.
func (c *Ctx) publishedIDsRule(rule string) {
	f := c.Fn("docutil", "GetTransformationInfoForPublished")
	if f == nil {
		c.Unresolved(rule, "docutil.GetTransformationInfoForPublished")
		return
	}
	c.Analysed(f)
	strip := func(v ssa.Value) ssa.Value {
		if mi, ok := v.(*ssa.MakeInterface); ok {
			return mi.X
		}
		return v
	}
	var canon, eq ssa.Value
	var bad []string
	forEachInstr(f, func(in ssa.Instruction) {
		mu, ok := in.(*ssa.MapUpdate)
		if !ok {
			return
		}
		k := c.Path(mu.Key, nil)
		if k != `"canonicalId"` && k != `"equivalentId"` {
			return
		}
		if conds := dropLoopExits(c.condsOf(mu.Block())); len(conds) > 0 {
			bad = append(bad, fmt.Sprintf("%s stored only under %v", k, conds))
		}
		if k == `"canonicalId"` {
			canon = strip(mu.Value)
		} else {
			eq = strip(mu.Value)
		}
	})
	if canon == nil || eq == nil {
		c.Check(rule, "published:canonical-id-is-an-equivalent-id", false, f.Pos(), "canonicalId / equivalentId members not found")
		return
	}
	// where the canonical id enters a []string that flows into the equivalent ids
	entered := false
	cp := c.Path(canon, nil)
	for v := range backSlice(eq) {
		st, isSt := v.(ssa.Instruction)
		_ = st
		_ = isSt
		al, isAl := v.(*ssa.Alloc)
		if !isAl {
			continue
		}
		if _, isArr := al.Type().Underlying().(*types.Pointer).Elem().Underlying().(*types.Array); !isArr {
			continue
		}
		for _, r := range *al.Referrers() {
			ia, isIA := r.(*ssa.IndexAddr)
			if !isIA {
				continue
			}
			for _, rr := range *ia.Referrers() {
				if s2, isS := rr.(*ssa.Store); isS && c.Path(s2.Val, nil) == cp {
					if conds := dropLoopExits(c.condsOf(s2.Block())); len(conds) == 0 {
						entered = true
					} else {
						bad = append(bad, fmt.Sprintf("the canonical id enters the equivalent ids only under %v", conds))
					}
				}
			}
		}
	}
	if !entered && len(bad) == 0 {
		bad = append(bad, "the canonical id does not enter the equivalent ids")
	}
	c.Check(rule, "published:canonical-id-is-an-equivalent-id", entered && len(bad) == 0, f.Pos(), "for a published document canonicalId and equivalentId are always reported and the canonical id is always an equivalent id", bad...)
}

var loopExitCond = regexp.MustCompile(`^(\(len\(.*\) <= ι\)=true|\(ι < len\(.*\)\)=false|\(ι >= len\(.*\)\)=true|next\(range\(.*\)\)#0=false)$`)

// dropLoopExits removes the conditions that only say "an earlier loop has run to its end".
func dropLoopExits(conds []string) []string {
	var out []string
	for _, cnd := range conds {
		if !loopExitCond.MatchString(cnd) {
			out = append(out, cnd)
		}
	}
	return out
}
