package main

import (
	"flag"
	"fmt"
	"os"
	"runtime/debug"
	"sort"
	"strconv"
)

type propDef struct {
	run         func(c *Ctx)
	explanation string
	extraPkgs   []string
}

var props = map[string]*propDef{}

func strconvUnquote(s string) (string, error) { return strconv.Unquote(s) }

func main() {
	prop := flag.String("property", "", "property id (C01..C20) or 'all'")
	tier := flag.String("tier", "quick", "quick|thorough")
	repo := flag.String("repo", "/repo", "repository working tree to analyse")
	verif := flag.String("verif", "/verif", "verification directory (evidence, known findings)")
	tags := flag.String("tags", "", "build tags for the analysed build")
	list := flag.Bool("list", false, "list properties")
	dump := flag.String("dump", "", "debug: print success terms / paths for a function pattern")
	flag.Parse()
	if t := os.Getenv("VERIF_TIER"); t != "" && *tier == "" {
		*tier = t
	}
	if *list {
		var ids []string
		for id := range props {
			ids = append(ids, id)
		}
		sort.Strings(ids)
		for _, id := range ids {
			fmt.Println(id)
		}
		return
	}
	ids := []string{*prop}
	if *prop == "all" {
		ids = nil
		for id := range props {
			ids = append(ids, id)
		}
		sort.Strings(ids)
	}
	rc := 0
	for _, id := range ids {
		pd := props[id]
		if pd == nil {
			fmt.Printf("unknown property %q\n", id)
			os.Exit(2)
		}
		r := runOne(id, pd, *tier, *repo, *verif, *tags, *dump)
		if r > rc {
			rc = r
		}
	}
	os.Exit(rc)
}

func runOne(id string, pd *propDef, tier, repo, verif, tags, dump string) (rc int) {
	c, err := Load(repo, tags, false, pd.extraPkgs...)
	if err != nil {
		// a tree that does not load/type-check cannot be analysed: undecided counts as failure
		fmt.Printf("LOAD FAILED: %v\n", err)
		c = &Ctx{mins: map[string]int{}, extra: map[string]interface{}{}}
		c.Prop, c.Tier, c.RepoDir, c.VerifDir = id, tier, repo, verif
		c.start = timeNow()
		c.Check("LOAD", "repo", false, 0, "the analysed tree could not be loaded and type-checked: "+err.Error())
		return c.Finish(pd.explanation)
	}
	c.Prop, c.Tier, c.VerifDir = id, tier, verif
	defer func() {
		if r := recover(); r != nil {
			fmt.Printf("ANALYSER PANIC: %v\n%s\n", r, debug.Stack())
			c.Check("ANALYSER", "panic", false, 0, fmt.Sprintf("analyser panic (undecided counts as failure): %v", r))
			rc = c.Finish(pd.explanation)
		}
	}()
	if dump != "" {
		c.debugDump(dump)
		return 0
	}
	// (the property's own rules are all being recorded: a shared rule that asks for part of them again finds them there)
	c.running = map[string]bool{fmt.Sprintf("%p", pd.run): true}
	pd.run(c)
	if tier == "thorough" {
		c.thorough(pd)
	}
	return c.Finish(pd.explanation)
}
