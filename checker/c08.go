package main

import (
	"fmt"
	"go/constant"
	"go/token"
	"go/types"
	"regexp"
	"sort"
	"strings"

	"golang.org/x/tools/go/ssa"
)

func init() {
	props["C08"] = &propDef{extraPkgs: []string{jsonPatchPkg}, run: runC08, explanation: "Partial: end-to-end acceptance of client-built requests and 'yields the requested document' are behavioural and NOT decided. Decided statically (necessary conditions): (X1) each builder signs / serialises values of exactly the named types the parser decodes into, so member names agree by construction; (X2) the client's signer-header whitelist equals the parser's ({alg,kid}); (P1) in every builder the delta hash is CalculateModelMultihash of the very delta object placed in the request, with the caller's multihash code, and that value is what is signed / put in the suffix data; all four builders return the canonical encoding of the request object; (G1) builders refuse unacceptable inputs — create: document xor patches, valid multihash code, both commitments computed with that code, distinct commitments; update/recover: key present and valid, key-reuse check against the next commitment, signer checks; deactivate: signer checks; (P2) GetAnchoredOperation rebuilds the per-type request from the parsed model field by field and returns its canonical encoding with type, suffix and anchor origin; (P3) the Sidetree client derives the reveal value from the signer's public key with the code of the operation commitment, uses the signer's key as update/recovery key, derives next commitments from the next keys with the configured algorithm and passes the signer through; (O1) createUpdatePatches never emits a remove-* patch after an add-* patch. (E1) the request-document builders (PopulateRaw*, Doc.JSONBytes) do not write through their inputs. (K3) member names of all request and signed-data models are the wire format's; the did suffix is the text after the last ':'; the raw key carries exactly one key representation on every accepting path; builder options are found by type. An unnamed anchor origin stays absent; every accepting exit of Doc.JSONBytes depends on every field of Doc; each service member is copied under conditions on itself only. All of C16 runs inside this check; With… options store their argument unconditionally; update-patch builders hand values on as they are. Fresh request body per HTTP attempt; a named anchor origin reaches the request info. One raw entry per supplied key / service / URI. C09.G1 runs here. The composer's rules (C10) run inside this check: what the builders put into a request is applied patch after patch."}
}

func (c *Ctx) unmarshalTargetType(f *ssa.Function) types.Type {
	return c.unmarshalTargetTypeD(f, 0)
}

// unmarshalTargetTypeD: the type json.Unmarshal decodes into in f; when f does not decode itself, in the module
// helpers it calls (a decoding helper, possibly an instance of a generic one).
func (c *Ctx) unmarshalTargetTypeD(f *ssa.Function, depth int) types.Type {
	return c.unmarshalTargetTypeA(f, depth, nil)
}

// unmarshalTargetTypeA: args gives the types handed over for f's interface-typed parameters at the call under
// consideration (a decoding helper that takes its target as `interface{}`).
func (c *Ctx) unmarshalTargetTypeA(f *ssa.Function, depth int, args map[*ssa.Parameter]types.Type) types.Type {
	var out types.Type
	if f == nil || depth > 3 {
		return nil
	}
	type hcall struct {
		g  *ssa.Function
		cl *ssa.Call
	}
	var callees []hcall
	forEachInstr(f, func(in ssa.Instruction) {
		cl, ok := in.(*ssa.Call)
		if !ok || cl.Call.StaticCallee() == nil {
			return
		}
		if cl.Call.StaticCallee().String() != "encoding/json.Unmarshal" {
			if g := cl.Call.StaticCallee(); inModule(g) && g.Blocks != nil {
				callees = append(callees, hcall{g, cl})
			}
			return
		}
		var tt types.Type
		switch x := cl.Call.Args[1].(type) {
		case *ssa.MakeInterface:
			tt = x.X.Type()
		case *ssa.Parameter:
			tt = args[x]
		}
		if tt != nil {
			if p, isP := tt.Underlying().(*types.Pointer); isP {
				out = p.Elem()
			}
		}
	})
	if out == nil {
		var res types.Type
		if f.Signature.Results().Len() > 0 {
			res = derefT(f.Signature.Results().At(0).Type())
		}
		for _, hc := range callees {
			sub := map[*ssa.Parameter]types.Type{}
			for i, a := range hc.cl.Call.Args {
				if i >= len(hc.g.Params) {
					break
				}
				switch x := a.(type) {
				case *ssa.MakeInterface:
					sub[hc.g.Params[i]] = x.X.Type()
				case *ssa.Parameter:
					if t, ok := args[x]; ok {
						sub[hc.g.Params[i]] = t
					}
				}
			}
			if t := c.unmarshalTargetTypeA(hc.g, depth+1, sub); t != nil && (out == nil || (res != nil && types.Identical(t, res))) {
				out = t
			}
		}
	}
	return out
}

// caseTableTree: the case table over the scrutinee in f, or (when f has none) in an unexported helper of the same
// package that f calls; returns the table, the function holding the switch, the environment rendering that function's
// values in f's frame, and f's call of the helper (nil when the switch is in f).
func (c *Ctx) caseTableTree(f *ssa.Function, scrut func(path string) bool) (map[string]*ssa.BasicBlock, *ssa.Function, Env, *ssa.Call) {
	if tbl := c.caseTable(f, nil, scrut); len(tbl) > 0 {
		return tbl, f, nil, nil
	}
	var rt map[string]*ssa.BasicBlock
	var rf *ssa.Function
	var renv Env
	var rc *ssa.Call
	forEachInstr(f, func(in ssa.Instruction) {
		cl, ok := in.(*ssa.Call)
		if !ok || rt != nil {
			return
		}
		g := cl.Call.StaticCallee()
		if g == nil || !inModule(g) || g.Blocks == nil || pkgPathOf(g) != pkgPathOf(f) || (g.Object() != nil && g.Object().Exported()) {
			return
		}
		env := c.calleeEnv(&cl.Call, g, nil)
		if tbl := c.caseTable(g, env, scrut); len(tbl) > 0 {
			rt, rf, renv, rc = tbl, g, env, cl
		}
	})
	if rt == nil {
		return map[string]*ssa.BasicBlock{}, f, nil, nil
	}
	return rt, rf, renv, rc
}

func derefT(t types.Type) types.Type {
	if p, ok := t.Underlying().(*types.Pointer); ok {
		return p.Elem()
	}
	return t
}

// the spellings of "the text after the last ':'" and of the position it is cut at
var afterLastColon = regexp.MustCompile(`^(\$0\[\(strings\.LastIndex(Byte)?\(\$0,(":"|58)\) \+ 1\):\]|strings\.Split\(\$0,":"\)\[\(len\(strings\.Split\(\$0,":"\)\) - 1\)\])$`)
var afterLastColonOfParam = regexp.MustCompile(`^\$\d\[\(strings\.LastIndex(Byte)?\(\$\d,(":"|58)\) \+ 1\):\]$`)
var lastColon = regexp.MustCompile(`^strings\.LastIndex(Byte)?\(\$0,(":"|58)\)$`)

func runC08(c *Ctx) {
	// values are named after the expression that produced them, also when an unexported helper with one success exit
	// stands between the producer and the use
	c.inlineHelpers = true
	defer func() { c.inlineHelpers = false }()
	// builders marshal and parsers decode the same models: their member names are the wire format's
	c.wireNames("C08.K3", "CreateRequest", "SuffixDataModel", "DeltaModel", "UpdateRequest", "DeactivateRequest", "RecoverRequest", "UpdateSignedDataModel", "RecoverSignedDataModel", "DeactivateSignedDataModel")
	c.Min("C08.K3", 40)
	builders := map[string]*ssa.Function{"create": c.Fn(pClient, "NewCreateRequest"), "update": c.Fn(pClient, "NewUpdateRequest"), "recover": c.Fn(pClient, "NewRecoverRequest"), "deactivate": c.Fn(pClient, "NewDeactivateRequest")}
	mc := c.Fn("canonicalizer", "MarshalCanonical")
	signModel := c.Fn("util/signutil", "SignModel")
	cmm := c.Fn("hashing", "CalculateModelMultihash")
	if mc == nil || signModel == nil || cmm == nil {
		c.Unresolved("C08.X1", "canonicalizer.MarshalCanonical / signutil.SignModel / hashing.CalculateModelMultihash")
		return
	}
	parserReq := map[string]*ssa.Function{"create": c.Method(pParser, "Parser", "parseCreateRequest"), "update": c.Method(pParser, "Parser", "parseUpdateRequest"), "recover": c.Method(pParser, "Parser", "parseRecoverRequest"), "deactivate": c.Method(pParser, "Parser", "parseDeactivateRequest")}
	sdf := c.signedDataFuncs()
	for _, typ := range opTypes {
		b := builders[typ]
		if b == nil {
			c.Unresolved("C08.X1", "client builder for "+typ)
			continue
		}
		c.Analysed(b)
		// ---- final serialisation
		var reqVal ssa.Value
		okFinal := true
		for _, r := range successReturns(b) {
			ex, isEx := r.Results[0].(*ssa.Extract)
			if !isEx {
				okFinal = false
				continue
			}
			cl, isC := ex.Tuple.(*ssa.Call)
			if !isC || cl.Call.StaticCallee() != mc {
				okFinal = false
				continue
			}
			reqVal = cl.Call.Args[0]
		}
		c.Check("C08.P1", typ+":returns-canonical-request", okFinal && reqVal != nil, b.Pos(), "the builder returns canonicalizer.MarshalCanonical(request)")
		if reqVal == nil {
			continue
		}
		var reqT types.Type
		if mi, ok := reqVal.(*ssa.MakeInterface); ok {
			reqT = derefT(mi.X.Type())
			reqVal = mi.X
		}
		// ---- X1 request type
		pt := c.unmarshalTargetType(parserReq[typ])
		if parserReq[typ] == nil {
			// no decoding helper: the per-type parse function decodes the request itself
			if sr := c.requestSchema(c.parseFuncs()[typ], "Request"); sr != nil {
				pt = sr.typ
			}
		}
		c.Check("C08.X1", typ+":request-type", reqT != nil && pt != nil && types.Identical(reqT, pt), b.Pos(), fmt.Sprintf("builder serialises %v, parser decodes into %v", reqT, pt))
		reqAlloc, _ := reqVal.(*ssa.Alloc)
		var rf map[string][]string
		if reqAlloc != nil {
			rf = c.fieldTable(reqAlloc, nil)
		}
		wantOp := map[string]string{"create": `"create"`, "update": `"update"`, "recover": `"recover"`, "deactivate": `"deactivate"`}[typ]
		c.Check("C08.P1", typ+":type-member", rf != nil && len(rf["Operation"]) == 1 && rf["Operation"][0] == wantOp, b.Pos(), fmt.Sprintf("request type member = %v", rf["Operation"]))
		// ---- delta + hash
		var deltaPath, hashPath string
		if typ != "deactivate" {
			dT := c.NamedType(pModel, "DeltaModel")
			// the delta object is the one that is hashed: found from the CalculateModelMultihash call, in the builder
			// or in an unexported helper it calls (values rendered in the builder's frame, one-exit helpers inlined)
			hts := c.treeCalls(b, nil, 0, func(cl *ssa.Call, env Env) bool { return cl.Call.StaticCallee() == cmm })
			var das []*ssa.Alloc
			var denv Env
			if len(hts) == 1 {
				denv = hts[0].env
				das = allocsOf(hts[0].fn, dT)
			}
			// several literals are tolerated when they are field-by-field identical (same serialisation)
			same := len(das) >= 1
			for _, a := range das {
				if fmt.Sprint(c.fieldTable(a, denv)) != fmt.Sprint(c.fieldTable(das[0], denv)) {
					same = false
				}
			}
			if !same {
				c.Check("C08.P1", typ+":delta", false, b.Pos(), "expected one DeltaModel (or field-identical copies)")
				continue
			}
			isDelta := func(p string) bool {
				for _, a := range das {
					if c.Path(a, denv) == p {
						return true
					}
				}
				return false
			}
			deltaPath = c.Path(das[0], denv)
			if reqAlloc != nil {
				rf = c.fieldTable(reqAlloc, nil)
			}
			c.Check("C08.P1", typ+":request-carries-hashed-delta", len(rf["Delta"]) == 1 && isDelta(rf["Delta"][0]), b.Pos(), fmt.Sprintf("request.Delta = %v (the hashed delta object %s)", rf["Delta"], deltaPath))
			h0 := hts[0].call
			okH := isDelta(c.Path(h0.Call.Args[0], denv)) && c.Path(h0.Call.Args[1], denv) == "$0.MultihashCode"
			c.Check("C08.P1", typ+":delta-hash", okH, b.Pos(), "deltaHash = CalculateModelMultihash(delta, info.MultihashCode)")
			hashPath = c.Path(h0, denv) + "#0"
			c.CheckGuard("C08.P1", typ+":delta-hash-error-propagated", b, nil, &GCheck{Name: "CalculateModelMultihash ok", MatchCall: func(c *Ctx, call *ssa.Call, env Env) bool { return call == h0 }})
			df := c.fieldTable(das[0], denv)
			c.Check("C08.P1", typ+":delta.UpdateCommitment", len(df["UpdateCommitment"]) == 1 && df["UpdateCommitment"][0] == "$0.UpdateCommitment", b.Pos(), fmt.Sprintf("delta.UpdateCommitment = %v", df["UpdateCommitment"]))
		}
		if typ == "create" {
			sT := c.NamedType(pModel, "SuffixDataModel")
			for _, a := range allocsOf(b, sT) {
				sf := c.fieldTable(a, nil)
				c.Check("C08.P1", "create:suffixData.DeltaHash", len(sf["DeltaHash"]) == 1 && sf["DeltaHash"][0] == hashPath, a.Pos(), fmt.Sprintf("suffixData.DeltaHash = %v", sf["DeltaHash"]))
				c.Check("C08.P1", "create:suffixData.RecoveryCommitment", len(sf["RecoveryCommitment"]) == 1 && sf["RecoveryCommitment"][0] == "$0.RecoveryCommitment", a.Pos(), fmt.Sprintf("suffixData.RecoveryCommitment = %v", sf["RecoveryCommitment"]))
				c.Check("C08.P1", "create:suffixData.AnchorOrigin", len(sf["AnchorOrigin"]) == 1 && sf["AnchorOrigin"][0] == "$0.AnchorOrigin", a.Pos(), fmt.Sprintf("suffixData.AnchorOrigin = %v", sf["AnchorOrigin"]))
				c.Check("C08.P1", "create:request.SuffixData", len(rf["SuffixData"]) == 1 && rf["SuffixData"][0] == c.Path(a, nil), a.Pos(), "request carries that suffix data")
			}
		} else {
			// ---- signed data
			sms := callsTo(b, signModel)
			if len(sms) != 1 {
				c.Check("C08.X1", typ+":signed-data", false, b.Pos(), "expected one SignModel call")
				continue
			}
			sm := sms[0]
			var sdT types.Type
			var sdAlloc *ssa.Alloc
			if mi, ok := sm.Call.Args[0].(*ssa.MakeInterface); ok {
				sdT = derefT(mi.X.Type())
				switch x := mi.X.(type) {
				case *ssa.Alloc:
					sdAlloc = x
				case *ssa.UnOp:
					sdAlloc, _ = x.X.(*ssa.Alloc)
				}
			}
			pst := c.unmarshalTargetType(sdf[typ])
			c.Check("C08.X1", typ+":signed-data-type", sdT != nil && pst != nil && types.Identical(sdT, pst), b.Pos(), fmt.Sprintf("builder signs %v, parser decodes the JWS payload into %v", sdT, pst))
			c.Check("C08.P1", typ+":signer-passed-through", c.Path(sm.Call.Args[1], nil) == "$0.Signer", sm.Pos(), "SignModel receives info.Signer")
			c.Check("C08.P1", typ+":request.SignedData", len(rf["SignedData"]) == 1 && rf["SignedData"][0] == c.Path(sm, nil)+"#0", b.Pos(), fmt.Sprintf("request.SignedData = %v", rf["SignedData"]))
			c.CheckGuard("C08.P1", typ+":sign-error-propagated", b, nil, &GCheck{Name: "SignModel ok", MatchCall: func(c *Ctx, call *ssa.Call, env Env) bool { return call == sm }})
			c.Check("C08.P1", typ+":request.DidSuffix/RevealValue", len(rf["DidSuffix"]) == 1 && rf["DidSuffix"][0] == "$0.DidSuffix" && len(rf["RevealValue"]) == 1 && rf["RevealValue"][0] == "$0.RevealValue", b.Pos(), fmt.Sprintf("request.DidSuffix = %v, RevealValue = %v", rf["DidSuffix"], rf["RevealValue"]))
			if sdAlloc != nil {
				sf := c.fieldTable(sdAlloc, nil)
				kf := sdKeyField[typ]
				c.Check("C08.P1", typ+":signed."+kf, len(sf[kf]) == 1 && sf[kf][0] == "$0."+kf, b.Pos(), fmt.Sprintf("signed %s = %v", kf, sf[kf]))
				c.Check("C08.P1", typ+":signed.AnchorFrom/Until", len(sf["AnchorFrom"]) == 1 && sf["AnchorFrom"][0] == "$0.AnchorFrom" && len(sf["AnchorUntil"]) == 1 && sf["AnchorUntil"][0] == "$0.AnchorUntil", b.Pos(), "anchoring window copied from the request info")
				if typ != "deactivate" {
					c.Check("C08.P1", typ+":signed.DeltaHash", len(sf["DeltaHash"]) == 1 && sf["DeltaHash"][0] == hashPath, b.Pos(), fmt.Sprintf("signed DeltaHash = %v", sf["DeltaHash"]))
				} else {
					c.Check("C08.P1", "deactivate:signed.DidSuffix", len(sf["DidSuffix"]) == 1 && sf["DidSuffix"][0] == "$0.DidSuffix", b.Pos(), fmt.Sprintf("signed DidSuffix = %v", sf["DidSuffix"]))
				}
				if typ == "recover" {
					c.Check("C08.P1", "recover:signed.RecoveryCommitment/AnchorOrigin", len(sf["RecoveryCommitment"]) == 1 && sf["RecoveryCommitment"][0] == "$0.RecoveryCommitment" && len(sf["AnchorOrigin"]) == 1 && sf["AnchorOrigin"][0] == "$0.AnchorOrigin", b.Pos(), "signed recovery commitment and anchor origin copied from the request info")
				}
			} else {
				c.Check("C08.P1", typ+":signed-model", false, b.Pos(), "cannot locate the signed data model literal")
			}
		}
	}
	c.Min("C08.X1", 7)
	c.Min("C08.P1", 35)

	// ---- X2 header whitelist agreement
	vs := c.Fn(pClient, "validateSigner")
	if vs == nil {
		c.Unresolved("C08.X2", "client.validateSigner")
	} else {
		c.Analysed(vs)
		var keys []string
		forEachInstr(vs, func(in ssa.Instruction) {
			if mm, ok := in.(*ssa.MakeMap); ok {
				if ks, lit := c.mapLiteralKeys(mm); lit && len(ks) > 0 {
					keys = ks
				}
			}
		})
		// or the set is made by a helper without parameters that hands back the map it fills with constants
		if len(keys) == 0 {
			for _, g := range c.helpersOf(vs, 1) {
				if len(g.Params) != 0 || len(returnsOf(g)) != 1 {
					continue
				}
				if mm, isMM := stripConv(returnsOf(g)[0].Results[0]).(*ssa.MakeMap); isMM && len(returnsOf(g)[0].Results) == 1 {
					if ks, lit := c.mapLiteralKeys(mm); lit && len(ks) > 0 {
						keys = ks
					}
				}
			}
		}
		// or a slice literal searched with a membership function
		if len(keys) == 0 {
			forEachInstr(vs, func(in ssa.Instruction) {
				cl, ok := in.(*ssa.Call)
				if !ok || cl.Call.StaticCallee() == nil || len(cl.Call.Args) != 2 {
					return
				}
				if isM, _ := c.isMembershipFn(cl.Call.StaticCallee()); !isM {
					return
				}
				mList, _ := memberArgs(cl)
				if sl, isSl := mList.(*ssa.Slice); isSl {
					if al, isAl := sl.X.(*ssa.Alloc); isAl {
						keys = constStringsOfAlloc(c, al)
					}
				}
			})
		}
		// or any other spelling of "header name ∈ constant set" (package-level literal, switch, equality chain)
		if len(keys) == 0 {
			for _, t := range c.constSetTests(vs, nil, func(p string) bool { return strings.Contains(p, "range(") }) {
				keys = t.set
			}
		}
		// or a predicate helper that is handed the header name
		if len(keys) == 0 {
			for _, g := range c.helpersOf(vs, 1) {
				if len(g.Params) != 1 || !boolResult(g) {
					continue
				}
				for _, t := range c.constSetTests(g, nil, func(p string) bool { return p == "$0" }) {
					keys = t.set
				}
			}
		}
		// or the whole loop over the header names sits in a helper that is handed the headers
		if len(keys) == 0 {
			for _, g := range c.helpersOf(vs, 1) {
				for _, t := range c.constSetTests(g, nil, func(p string) bool { return strings.Contains(p, "range(") }) {
					keys = t.set
				}
			}
		}
		c.Check("C08.X2", "client-whitelist", eqStrs(keys, []string{"alg", "kid"}), vs.Pos(), fmt.Sprintf("client signer-header whitelist %v (parser's is checked to be {alg,kid} by C02.G4)", keys))
	}
	c.Min("C08.X2", 1)

	// ---- G1 refusal guards
	if b := builders["create"]; b != nil {
		icu := c.Fn("hashing", "IsComputedUsingMultihashAlgorithms")
		vc := c.ExtFn("github.com/multiformats/go-multihash", "ValidCode")
		c.CheckGuard("C08.G1", "create:document-or-patches", b, nil, anyOf("opaque document or patches supplied",
			cmpReject(`OpaqueDocument == "" rejected`, token.EQL, pathIs("$0.OpaqueDocument"), pathIs(`""`)),
			cmpReject("len(Patches) == 0 rejected", token.EQL, pathIs("len($0.Patches)"), pathIs("0"))))
		c.CheckGuard("C08.G1", "create:not-both", b, nil, anyOf("not both supplied",
			cmpReject(`OpaqueDocument != "" rejected`, token.NEQ, pathIs("$0.OpaqueDocument"), pathIs(`""`)),
			cmpReject("len(Patches) > 0 rejected", token.GTR, pathIs("len($0.Patches)"), pathIs("0"))))
		c.CheckGuard("C08.G1", "create:valid-code", b, nil, callTo("multihash.ValidCode(code)", vc, pathIs("conv<uint64>($0.MultihashCode)")))
		for _, cm := range []string{"RecoveryCommitment", "UpdateCommitment"} {
			c.CheckGuard("C08.G1", "create:"+cm+"-computed-with-code", b, nil, &GCheck{Name: cm + " computed with the code", MatchCall: func(c *Ctx, call *ssa.Call, env Env) bool {
				return call.Call.StaticCallee() == icu && c.Path(call.Call.Args[0], env) == "$0."+cm && strings.Contains(c.Path(call.Call.Args[1], env), "[:]")
			}})
		}
		c.CheckGuard("C08.G1", "create:commitments-differ", b, nil, cmpReject("RecoveryCommitment == UpdateCommitment rejected", token.EQL, pathIs("$0.RecoveryCommitment"), pathIs("$0.UpdateCommitment")))
	}
	jwkValidate := c.Method("jws", "JWK", "Validate")
	getC := c.Fn("commitment", "GetCommitment")
	for typ, kf := range map[string]string{"update": "UpdateKey", "recover": "RecoveryKey"} {
		b := builders[typ]
		if b == nil {
			continue
		}
		next := map[string]string{"update": "UpdateCommitment", "recover": "RecoveryCommitment"}[typ]
		c.CheckGuard("C08.G1", typ+":key-present", b, nil, cmpReject("key == nil rejected", token.EQL, pathIs("$0."+kf), pathIs("nil")))
		c.CheckGuard("C08.G1", typ+":key-valid", b, nil, callTo("key.Validate()", jwkValidate, pathIs("$0."+kf)))
		c.CheckGuard("C08.G1", typ+":key-reuse-refused", b, nil, cmpReject("commitment(current key) == next commitment rejected", token.EQL, pathIs("commitment.GetCommitment($0."+kf+",$0.MultihashCode)#0"), pathIs("$0."+next)))
		_ = getC
		c.CheckGuard("C08.G1", typ+":did-suffix-present", b, nil, cmpReject(`DidSuffix == "" rejected`, token.EQL, pathIs("$0.DidSuffix"), pathIs(`""`)))
		c.CheckGuard("C08.G1", typ+":reveal-value-present", b, nil, cmpReject(`RevealValue == "" rejected`, token.EQL, pathIs("$0.RevealValue"), pathIs(`""`)))
	}
	for _, typ := range []string{"update", "recover", "deactivate"} {
		b := builders[typ]
		if b == nil || vs == nil {
			continue
		}
		c.CheckGuard("C08.G1", typ+":signer-checked", b, nil, callTo("validateSigner(info.Signer)", vs, pathIs("$0.Signer")))
	}
	if vs != nil {
		c.CheckGuard("C08.G1", "validateSigner:non-nil", vs, nil, cmpReject("signer == nil rejected", token.EQL, pathIs("$0"), pathIs("nil")))
		c.CheckGuard("C08.G1", "validateSigner:alg-present", vs, nil, &GCheck{Name: "Headers().Algorithm() ok", MatchCall: func(c *Ctx, call *ssa.Call, env Env) bool {
			g := call.Call.StaticCallee()
			return g != nil && g.String() == "("+modPkg+"jws.Headers).Algorithm"
		}})
		c.CheckGuard("C08.G1", "validateSigner:alg-non-empty", vs, nil, cmpReject(`alg == "" rejected`, token.EQL, func(s string) bool { return strings.Contains(s, ".Algorithm(") && strings.HasSuffix(s, "#0") }, pathIs(`""`)))
	}
	c.Min("C08.G1", 6+10+3+3)

	// ---- P2 GetAnchoredOperation
	gao := c.Fn(pModel, "GetAnchoredOperation")
	if gao == nil {
		c.Unresolved("C08.P2", "model.GetAnchoredOperation")
	} else {
		c.Analysed(gao)
		// the switch over the operation type: in GetAnchoredOperation itself or in an unexported helper it calls
		tbl, swF, swEnv, swCall := c.caseTableTree(gao, func(p string) bool { return p == "$0.Type" })
		wantF := map[string]map[string]string{
			"create":     {"Operation": "$0.Type", "SuffixData": "$0.SuffixData", "Delta": "$0.Delta"},
			"update":     {"Operation": "$0.Type", "DidSuffix": "$0.UniqueSuffix", "Delta": "$0.Delta", "SignedData": "$0.SignedData", "RevealValue": "$0.RevealValue"},
			"recover":    {"Operation": "$0.Type", "DidSuffix": "$0.UniqueSuffix", "Delta": "$0.Delta", "SignedData": "$0.SignedData", "RevealValue": "$0.RevealValue"},
			"deactivate": {"Operation": "$0.Type", "DidSuffix": "$0.UniqueSuffix", "SignedData": "$0.SignedData", "RevealValue": "$0.RevealValue"},
		}
		wantT := map[string]string{"create": "CreateRequest", "update": "UpdateRequest", "recover": "RecoverRequest", "deactivate": "DeactivateRequest"}
		// table form: the type is looked up in a package-level map of builder functions, each of which builds its
		// request from the operation it is handed
		var tdv *dispatchView
		if len(tbl) == 0 {
			if dv := c.dispatch(gao, func(p string) bool { return p == "$0.Type" }); dv != nil && dv.table && dv.site != nil {
				tdv = dv
				tbl = map[string]*ssa.BasicBlock{}
				swF, swCall = gao, nil
			}
		}
		for _, typ := range opTypes {
			if tdv != nil {
				a := tdv.arms[`"`+typ+`"`]
				ok, detail := false, ""
				if a != nil && a.fn != nil && a.fn.Blocks != nil {
					c.Analysed(a.fn)
					genv := c.calleeEnv(&tdv.site.Call, a.fn, nil)
					for _, al := range allocsOf(a.fn, c.NamedType(pModel, wantT[typ])) {
						ft := c.fieldTable(al, genv)
						ok = len(ft) == len(wantF[typ])
						for k, v := range wantF[typ] {
							if len(ft[k]) != 1 || ft[k][0] != v {
								ok = false
							}
						}
						detail = fmt.Sprintf("%v", ft)
					}
				}
				c.Check("C08.P2", "anchored:"+typ+":request-literal", ok, gao.Pos(), fmt.Sprintf("%s rebuilt from the parsed model: %s", wantT[typ], detail))
				continue
			}
			blk := tbl[`"`+typ+`"`]
			if blk == nil {
				c.Check("C08.P2", "anchored:"+typ, false, gao.Pos(), "no case for "+typ)
				continue
			}
			ok := false
			detail := ""
			for _, in := range blk.Instrs {
				a, isA := in.(*ssa.Alloc)
				if !isA {
					continue
				}
				et := derefT(a.Type())
				if n, isN := et.(*types.Named); !isN || n.Obj().Name() != wantT[typ] {
					continue
				}
				ft := c.fieldTable(a, swEnv)
				ok = len(ft) == len(wantF[typ])
				for k, v := range wantF[typ] {
					if len(ft[k]) != 1 || ft[k][0] != v {
						ok = false
					}
				}
				detail = fmt.Sprintf("%v", ft)
			}
			c.Check("C08.P2", "anchored:"+typ+":request-literal", ok, firstPos(blk), fmt.Sprintf("%s rebuilt from the parsed model: %s", wantT[typ], detail))
		}
		aoT := c.NamedType("api/operation", "AnchoredOperation")
		for _, a := range allocsOf(gao, aoT) {
			ft := c.fieldTable(a, nil)
			ok := len(ft["Type"]) == 1 && ft["Type"][0] == "$0.Type" && len(ft["UniqueSuffix"]) == 1 && ft["UniqueSuffix"][0] == "$0.UniqueSuffix" && len(ft["AnchorOrigin"]) == 1 && ft["AnchorOrigin"][0] == "$0.AnchorOrigin" && len(ft["OperationRequest"]) == 1 && strings.HasPrefix(ft["OperationRequest"][0], "canonicalizer.MarshalCanonical(")
			c.Check("C08.P2", "anchored:result", ok, a.Pos(), fmt.Sprintf("anchored operation fields %v", ft))
		}
		// unknown type -> error
		okDef := true
		for _, r := range successReturns(gao) {
			_ = r
		}
		cut := map[edge]bool{}
		forEachInstr(swF, func(in ssa.Instruction) {
			if bo, ok := in.(*ssa.BinOp); ok && bo.Op == token.EQL && c.Path(bo.X, swEnv) == "$0.Type" {
				for _, e := range boolEdges(bo, true) {
					cut[e] = true
				}
			}
		})
		seen := reach(swF.Blocks[0], cut)
		nilRefusal := false
		for b := range seen {
			if r, isR := b.Instrs[len(b.Instrs)-1].(*ssa.Return); isR && maySucceed(r) {
				// a helper that reports refusal through a comma-ok result: (…, false); the caller's handling of it is
				// decided below on the helper call
				if n := len(r.Results); swCall != nil && n > 0 && isBoolType(r.Results[n-1].Type()) && c.Path(r.Results[n-1], nil) == "false" {
					continue
				}
				// … or through "no request model": a nil result, which the caller must refuse
				if swCall != nil && len(r.Results) == 1 && isNilConst(r.Results[0]) {
					nilRefusal = true
					continue
				}
				okDef = false
			}
		}
		if tdv != nil {
			// a type outside the table: the lookup's found edge guards every accepting exit
			okDef, _ = c.tableGuards(tdv)
		}
		if swCall != nil {
			// the helper's refusal is GetAnchoredOperation's refusal
			req, _, _ := c.Guard(gao, nil, &GCheck{Name: "request model built", NoDescend: true, MatchCall: func(c *Ctx, call *ssa.Call, env Env) bool { return call == swCall }}, nil)
			if nilRefusal {
				req, _, _ = c.Guard(gao, nil, cmpReject("no request model: refused", token.EQL, pathIs(c.Path(swCall, nil)), pathIs("nil")), nil)
			}
			okDef = okDef && req
		}
		c.Check("C08.P2", "anchored:unknown-type-error", okDef, gao.Pos(), "an unknown operation type yields an error")
	}
	c.Min("C08.P2", 6)

	// ---- P3 sidetree client builders
	const pST = "vdr/sidetreelongform/sidetree"
	grv := c.Fn("commitment", "GetRevealValue")
	// the options parameter is found by its type (…/option/<kind>.Opts), the multihash code is the options' own
	// MultiHashAlgorithm — read in the builder, or handed to it by every caller as a separate argument
	var optsOfD func(f *ssa.Function, d int) (string, map[string]bool)
	optsOf := func(f *ssa.Function) (string, map[string]bool) { return optsOfD(f, 0) }
	optsOfD = func(f *ssa.Function, d int) (string, map[string]bool) {
		k := -1
		for i, p := range f.Params {
			if n, ok := derefT(p.Type()).(*types.Named); ok && n.Obj().Name() == "Opts" {
				k = i
			}
		}
		if k < 0 {
			return "", nil
		}
		opts := c.Path(f.Params[k], nil)
		mh := map[string]bool{opts + ".MultiHashAlgorithm": true}
		for j, p := range f.Params {
			if !isIntType(p.Type()) {
				continue
			}
			n, all := 0, true
			for _, g := range c.Funcs {
				for _, cl := range callsTo(g, f) {
					n++
					if j >= len(cl.Call.Args) || k >= len(cl.Call.Args) {
						all = false
						continue
					}
					aj, ak := c.Path(cl.Call.Args[j], nil), c.Path(cl.Call.Args[k], nil)
					if aj == ak+".MultiHashAlgorithm" {
						continue
					}
					// the caller hands on its own options and the code it was given for them
					if d < 3 {
						if gopts, gmh := optsOfD(g, d+1); gopts != "" && gopts == ak && gmh[aj] {
							continue
						}
					}
					all = false
				}
			}
			if n > 0 && all {
				mh[c.Path(f.Params[j], nil)] = true
			}
		}
		return opts, mh
	}
	// commitmentOf: path is GetCommitment(GetPublicKeyJWK(<opts>.<keyField>)#0, <mh>)#0
	commitmentOf := func(path, opts, keyField string, mh map[string]bool) bool {
		pre := "commitment.GetCommitment(util/pubkey.GetPublicKeyJWK(" + opts + "." + keyField + ")#0,"
		if !strings.HasPrefix(path, pre) || !strings.HasSuffix(path, ")#0") {
			return false
		}
		return mh[path[len(pre):len(path)-len(")#0")]]
	}
	for _, bd := range []struct{ name, typ, info, keyField string }{
		{"buildUpdateRequest", "update", "UpdateRequestInfo", "UpdateKey"},
		{"buildRecoverRequest", "recover", "RecoverRequestInfo", "RecoveryKey"},
		{"buildDeactivateRequest", "deactivate", "DeactivateRequestInfo", "RecoveryKey"},
	} {
		f := c.Fn(pST, bd.name)
		if f == nil {
			f = c.Method(pST, "Client", bd.name)
		}
		if f == nil {
			c.Unresolved("C08.P3", "sidetree."+bd.name)
			continue
		}
		c.Analysed(f)
		opts, mh := optsOf(f)
		if opts == "" {
			c.Check("C08.P3", bd.typ+":options-parameter", false, f.Pos(), "the builder has no options parameter (…/option/<kind>.Opts)")
			continue
		}
		signerKey := "invoke<vdr/sidetreelongform/sidetree/api.Signer>.PublicKeyJWK[" + opts + ".Signer]()"
		okRV := false
		var rvPath string
		// (the call may sit in an unexported helper shared by the builders: values are rendered in the builder's frame,
		// one-exit helpers inlined)
		for _, tc := range c.treeCalls(f, nil, 0, func(cl *ssa.Call, env Env) bool { return cl.Call.StaticCallee() == grv }) {
			a0, a1 := c.Path(tc.call.Call.Args[0], tc.env), c.Path(tc.call.Call.Args[1], tc.env)
			if strings.HasSuffix(a0, ".PublicKeyJWK["+opts+".Signer]()") && a1 == "conv<uint>(hashing.GetMultihashCode("+opts+".OperationCommitment)#0)" {
				okRV = true
				rvPath = c.Path(tc.call, tc.env) + "#0"
				signerKey = a0
			}
		}
		c.Check("C08.P3", bd.typ+":reveal-value", okRV, f.Pos(), "reveal value = GetRevealValue(signer public key, code of the operation commitment)")
		it := c.NamedType(pClient, bd.info)
		for _, a := range allocsOf(f, it) {
			ft := c.fieldTable(a, nil)
			ok := len(ft["RevealValue"]) == 1 && ft["RevealValue"][0] == rvPath && len(ft[bd.keyField]) == 1 && ft[bd.keyField][0] == signerKey && len(ft["Signer"]) == 1 && ft["Signer"][0] == opts+".Signer" && len(ft["DidSuffix"]) == 1 && (strings.Contains(ft["DidSuffix"][0], "getUniqueSuffix(") || afterLastColonOfParam.MatchString(ft["DidSuffix"][0]))
			c.Check("C08.P3", bd.typ+":request-info", ok, a.Pos(), fmt.Sprintf("request info %v", ft))
			if bd.typ == "update" {
				okN := len(ft["UpdateCommitment"]) == 1 && commitmentOf(ft["UpdateCommitment"][0], opts, "NextUpdatePublicKey", mh)
				c.Check("C08.P3", "update:next-commitment", okN, a.Pos(), fmt.Sprintf("next update commitment = %v", ft["UpdateCommitment"]))
			}
			if bd.typ == "recover" {
				// the two next commitments, each from its own next key (computed here or in a helper that was rendered inline)
				okN := len(ft["RecoveryCommitment"]) == 1 && len(ft["UpdateCommitment"]) == 1 &&
					((commitmentOf(ft["RecoveryCommitment"][0], opts, "NextRecoveryPublicKey", mh) && commitmentOf(ft["UpdateCommitment"][0], opts, "NextUpdatePublicKey", mh)) ||
						(strings.HasSuffix(ft["RecoveryCommitment"][0], "#0") && strings.HasSuffix(ft["UpdateCommitment"][0], "#1") && c.Fn(pST, "getCommitment") != nil) ||
						// (the helper hands the pair back as a small struct: each field read where its commitment goes; which field
						// holds which commitment is decided on the helper, below)
						(c.Fn(pST, "getCommitment") != nil && strings.Contains(ft["RecoveryCommitment"][0], "getCommitment(") && strings.Contains(ft["UpdateCommitment"][0], "getCommitment(") &&
							c.commitmentPairField(ft["RecoveryCommitment"][0]) == "recovery" && c.commitmentPairField(ft["UpdateCommitment"][0]) == "update"))
				c.Check("C08.P3", "recover:next-commitments", okN, a.Pos(), fmt.Sprintf("next commitments = %v / %v", ft["RecoveryCommitment"], ft["UpdateCommitment"]))
			}
		}
	}
	if gc := c.Fn(pST, "getCommitment"); gc != nil {
		var rets [][]string
		opts, mh := optsOf(gc)
		c.pairFields = map[string]string{}
		for _, r := range successReturns(gc) {
			// the pair as a result struct: the field that holds each commitment
			if ld, isLd := r.Results[0].(*ssa.UnOp); isLd && len(r.Results) == 2 {
				if al, isAl := ld.X.(*ssa.Alloc); isAl {
					ft := c.fieldTable(al, nil)
					rec, upd := "", ""
					for fld, vs := range ft {
						if len(vs) != 1 {
							continue
						}
						if commitmentOf(vs[0], opts, "NextRecoveryPublicKey", mh) {
							rec = vs[0]
							c.pairFields[fld] = "recovery"
						}
						if commitmentOf(vs[0], opts, "NextUpdatePublicKey", mh) {
							upd = vs[0]
							c.pairFields[fld] = "update"
						}
					}
					if len(ft) == 2 {
						rets = append(rets, []string{rec, upd})
						continue
					}
				}
			}
			rets = append(rets, []string{c.Path(r.Results[0], nil), c.Path(r.Results[1], nil)})
		}
		ok := len(rets) == 1 && opts != "" && commitmentOf(rets[0][0], opts, "NextRecoveryPublicKey", mh) && commitmentOf(rets[0][1], opts, "NextUpdatePublicKey", mh)
		c.Check("C08.P3", "recover:getCommitment", ok, gc.Pos(), fmt.Sprintf("next (recovery, update) commitments = %v", rets))
	}
	if bc := c.Fn(pST, "buildCreateRequest"); bc != nil {
		c.Analysed(bc)
		it := c.NamedType(pClient, "CreateRequestInfo")
		opts, mh := optsOf(bc)
		for _, a := range allocsOf(bc, it) {
			ft := c.fieldTable(a, nil)
			ok := opts != "" && len(ft["RecoveryCommitment"]) == 1 && commitmentOf(ft["RecoveryCommitment"][0], opts, "RecoveryPublicKey", mh) &&
				len(ft["UpdateCommitment"]) == 1 && commitmentOf(ft["UpdateCommitment"][0], opts, "UpdatePublicKey", mh) &&
				len(ft["MultihashCode"]) == 1 && mh[ft["MultihashCode"][0]]
			c.Check("C08.P3", "create:request-info", ok, a.Pos(), fmt.Sprintf("create request info %v", ft))
		}
	}
	// the did suffix a request carries is the text after the LAST ':' of the DID — what the parser's ParseDID and the
	// resolver take as the suffix (C17); a namespace may hold any number of ':' segments
	if gus := c.Fn(pST, "getUniqueSuffix"); gus != nil {
		c.Analysed(gus)
		okS := len(successReturns(gus)) > 0
		var got []string
		for _, r := range successReturns(gus) {
			p := c.Path(returnedValue(r, 0), nil)
			got = append(got, p)
			if !afterLastColon.MatchString(p) {
				okS = false
			}
		}
		c.Check("C08.P3", "getUniqueSuffix:after-last-colon", okS, gus.Pos(), fmt.Sprintf("the unique suffix is the segment after the last ':' of the id (returns %v)", got))
		c.CheckGuard("C08.P3", "getUniqueSuffix:no-colon-refused", gus, nil, anyOf("an id without ':' is refused",
			cmpReject(`LastIndex(id, ":") == -1 rejected`, token.EQL, lastColon.MatchString, pathIs("-1")),
			cmpReject(`LastIndex(id, ":") < 0 rejected`, token.LSS, lastColon.MatchString, pathIs("0")),
			cmpReject(`len(Split(id, ":")) < 2 rejected`, token.LSS, pathIs(`len(strings.Split($0,":"))`), pathIs("2"))))
	} else {
		c.Unresolved("C08.P3", "sidetree.getUniqueSuffix")
	}
	// a raw key carries exactly one key representation — the patch validator accepts exactly one of publicKeyJwk /
	// publicKeyBase58 (C13.T2): no path of the builder writes both members, every accepting path writes one
	// (the builder is found by what it does: the function of the doc package that writes the two members)
	var prk *ssa.Function
	var jwkW, b58W []*ssa.MapUpdate
	for _, f := range c.Funcs {
		if pkgPathOf(f) != modPkg+pST+"/doc" {
			continue
		}
		var jw, bw []*ssa.MapUpdate
		forEachInstr(f, func(in ssa.Instruction) {
			if mu, ok := in.(*ssa.MapUpdate); ok {
				switch unquote(c.Path(mu.Key, nil)) {
				case "publicKeyJwk":
					jw = append(jw, mu)
				case "publicKeyBase58":
					bw = append(bw, mu)
				}
			}
		})
		if len(jw)+len(bw) > 0 && (prk == nil || len(jw)+len(bw) > len(jwkW)+len(b58W)) {
			prk, jwkW, b58W = f, jw, bw
		}
	}
	if prk != nil {
		c.Analysed(prk)
		both := false
		// (one entry's map: a path that makes the map anew on the way is the next entry's)
		mapOf := func(mu *ssa.MapUpdate) *ssa.MakeMap { mm, _ := mu.Map.(*ssa.MakeMap); return mm }
		anew := func(mm *ssa.MakeMap) map[edge]bool {
			cut := map[edge]bool{}
			if mm != nil {
				for _, p := range mm.Block().Preds {
					cut[edge{from: p, to: mm.Block()}] = true
				}
			}
			return cut
		}
		for _, a := range jwkW {
			for _, b := range b58W {
				if mapOf(a) != nil && mapOf(b) != nil && mapOf(a) != mapOf(b) {
					continue
				}
				if _, r := reach(a.Block(), anew(mapOf(a)))[b.Block()]; r {
					both = true
				}
				if _, r := reach(b.Block(), anew(mapOf(a)))[a.Block()]; r {
					both = true
				}
			}
		}
		c.Check("C08.P3", "raw-key:one-representation", len(jwkW) > 0 && len(b58W) > 0 && !both, prk.Pos(), fmt.Sprintf("publicKeyJwk is written at %d site(s), publicKeyBase58 at %d; a path writing both: %v", len(jwkW), len(b58W), both))
		cut := map[edge]bool{}
		for _, mu := range append(append([]*ssa.MapUpdate{}, jwkW...), b58W...) {
			for _, sc := range mu.Block().Succs {
				cut[edge{from: mu.Block(), to: sc}] = true
			}
		}
		none := false
		var theMap *ssa.MakeMap
		oneMap := true
		for _, mu := range append(append([]*ssa.MapUpdate{}, jwkW...), b58W...) {
			if mm := mapOf(mu); mm == nil || (theMap != nil && mm != theMap) {
				oneMap = false
			} else {
				theMap = mm
			}
		}
		if oneMap && theMap != nil {
			// wherever the entry's map goes on (returned, put in the list), a representation was written on the way
			for b := range reach(theMap.Block(), cut) {
				for _, in := range b.Instrs {
					if _, isMU := in.(*ssa.MapUpdate); isMU {
						continue
					}
					if _, isD := in.(*ssa.DebugRef); isD {
						continue
					}
					if in == ssa.Instruction(theMap) || !usesValue(in, theMap) {
						continue
					}
					written := false
					for _, mu := range append(append([]*ssa.MapUpdate{}, jwkW...), b58W...) {
						if mu.Block() == b {
							written = true
						}
					}
					if !written {
						none = true
					}
				}
			}
		}
		for b := range reach(prk.Blocks[0], cut) {
			if oneMap && theMap != nil {
				break
			}
			if r, isR := b.Instrs[len(b.Instrs)-1].(*ssa.Return); isR && maySucceed(r) {
				written := false
				for _, mu := range append(append([]*ssa.MapUpdate{}, jwkW...), b58W...) {
					if mu.Block() == b {
						written = true
					}
				}
				if !written {
					none = true
				}
			}
		}
		c.Check("C08.P3", "raw-key:some-representation", !none, prk.Pos(), "every accepting exit of populateRawPublicKey has written a key representation")
	} else {
		c.Unresolved("C08.P3", "doc.populateRawPublicKey")
	}
	// an anchor origin the caller did not name stays absent: the request-info field is an interface (omitted from the
	// signed data only when nil), the option is a string — stored unconditionally, "" becomes the anchor origin ""
	for _, f := range c.Funcs {
		if pkgPathOf(f) != modPkg+pST {
			continue
		}
		for _, infoT := range []string{"CreateRequestInfo", "RecoverRequestInfo"} {
			it := c.NamedType(pClient, infoT)
			if it == nil {
				continue
			}
			for _, a := range allocsOf(f, it) {
				// … and one the caller did name reaches it: the field receives the options' own AnchorOrigin
				named := 0
				for _, fs := range storesInto(a) {
					if fs.Field != "AnchorOrigin" {
						continue
					}
					for v := range backSlice(fs.Val) {
						if fa, isFA := v.(*ssa.FieldAddr); isFA && fieldName(fa.X.Type(), fa.Field) == "AnchorOrigin" && strings.HasSuffix(typeShort(derefT(fa.X.Type())), ".Opts") {
							named++
						}
					}
				}
				c.Check("C08.P3", strings.TrimSuffix(strings.ToLower(infoT[:1])+infoT[1:], "RequestInfo")+":anchor-origin-named-reaches-the-request", named >= 1, a.Pos(), fmt.Sprintf("%s.AnchorOrigin is filled from the options' AnchorOrigin (%d store(s) that read it)", infoT, named))
				for _, fs := range storesInto(a) {
					if fs.Field != "AnchorOrigin" {
						continue
					}
					mi, isMI := fs.Val.(*ssa.MakeInterface)
					if !isMI || !isStringType(mi.X.Type()) {
						continue
					}
					src := c.Path(mi.X, nil)
					guarded := false
					for _, cnd := range c.condsOf(fs.Instr.Block()) {
						if nonEmptyCond(cnd, src) {
							guarded = true
						}
					}
					c.Check("C08.P3", strings.TrimSuffix(strings.ToLower(infoT[:1])+infoT[1:], "RequestInfo")+":anchor-origin-absent-stays-absent", guarded, fs.Instr.Pos(), fmt.Sprintf("%s.AnchorOrigin (an interface, omitted only when nil) receives the string %s only when it is non-empty", infoT, src))
				}
			}
		}
	}
	// every attempt sends the request: the body of each HTTP request the client builds is a reader made there, over the
	// request bytes — a reader handed in from outside has been read by the attempt before (the retry posts nothing)
	{
		n := 0
		var bad []string
		for _, f := range c.Funcs {
			if pkgPathOf(f) != modPkg+pST {
				continue
			}
			forEachInstr(f, func(in ssa.Instruction) {
				cl, ok := in.(*ssa.Call)
				if !ok || cl.Call.StaticCallee() == nil {
					return
				}
				nm := cl.Call.StaticCallee().String()
				if nm != "net/http.NewRequestWithContext" && nm != "net/http.NewRequest" {
					return
				}
				n++
				body := cl.Call.Args[len(cl.Call.Args)-1]
				fresh := false
				for v := range backSlice(body) {
					if mk, isC := v.(*ssa.Call); isC && mk.Call.StaticCallee() != nil && mk.Parent() == f {
						switch mk.Call.StaticCallee().String() {
						case "bytes.NewReader", "bytes.NewBuffer", "strings.NewReader", "bytes.NewBufferString":
							if _, isP := rootOf(stripConv(mk.Call.Args[0])).(*ssa.Parameter); isP {
								fresh = true
							}
						}
					}
				}
				if !fresh {
					bad = append(bad, fmt.Sprintf("%s: the request body %s is not a reader made in %s over the request bytes", c.pos(cl.Pos()), c.Path(body, nil), short(f.String())))
				}
			})
		}
		c.Check("C08.P3", "send:fresh-body-per-attempt", n >= 1 && len(bad) == 0, 0, fmt.Sprintf("%d HTTP request(s) built by the client; each reads the request bytes through a reader of its own", n), bad...)
	}
	c.docBytesRule("C08.P3")
	c.rawServiceRule("C08.P3")
	// every key, service and also-known-as URI the caller supplies reaches the raw document: the three PopulateRaw…
	// functions produce one raw entry per entry of their list, on every iteration (a list "tidied" on the way — repeated
	// or similar entries dropped — builds a request for another document than the one supplied)
	for _, pn := range []string{"PopulateRawPublicKeys", "PopulateRawServices", "PopulateRawAlsoKnownAs"} {
		pf := c.Fn(pST+"/doc", pn)
		if pf == nil {
			c.Unresolved("C08.P3", "doc."+pn)
			continue
		}
		c.Analysed(pf)
		n := 0
		var bad []string
		for _, h := range append([]*ssa.Function{pf}, c.helpersOf(pf, 1)...) {
			for _, l := range naturalLoops(h) {
				// the loop over the list parameter: its index addresses the parameter
				overParam := false
				for b := range l.blocks {
					for _, in := range b.Instrs {
						switch x := in.(type) {
						case *ssa.IndexAddr:
							if _, isP := rootOf(x.X).(*ssa.Parameter); isP && c.Path(x.Index, nil) == "ι" {
								overParam = true
							}
						case *ssa.Index:
							if _, isP := rootOf(x.X).(*ssa.Parameter); isP && c.Path(x.Index, nil) == "ι" {
								overParam = true
							}
						}
					}
				}
				if !overParam {
					continue
				}
				produced := 0
				for b := range l.blocks {
					for _, in := range b.Instrs {
						isOut := false
						switch x := in.(type) {
						case *ssa.Call:
							if bi, isB := x.Call.Value.(*ssa.Builtin); isB && bi.Name() == "append" {
								isOut = true
							}
						case *ssa.Store:
							if ia, isIA := x.Addr.(*ssa.IndexAddr); isIA && c.Path(ia.Index, nil) == "ι" {
								if _, isMS := rootOf(ia.X).(*ssa.MakeSlice); isMS {
									isOut = true
								}
							}
						}
						if !isOut {
							continue
						}
						produced++
						if !everyIterationOf(l, b) {
							bad = append(bad, fmt.Sprintf("%s: %s produces a raw entry only under a condition", c.pos(in.Pos()), short(h.String())))
						}
					}
				}
				if produced > 0 {
					n++
				}
			}
		}
		c.Check("C08.P3", pn+":one-raw-entry-per-entry", n >= 1 && len(bad) == 0, pf.Pos(), fmt.Sprintf("%s: %d loop(s) over the supplied list, each producing an entry on every iteration", pn, n), bad...)
	}
	// the document the caller supplies reaches the request as it is: member values never take the place of a format
	// string (a '%' in a custom member), and the update-patch builders hand the caller's strings on as they are — the
	// libraries their call tree reaches are the JSON codec, fmt, errors and module code (a URI re-serialised by net/url
	// is not the URI the document holds)
	c.patchFormatConstRule("C08.P3")
	if cup := c.Fn(pST, "createUpdatePatches"); cup != nil {
		ext := map[string]bool{}
		for _, g := range c.reachableModuleFuncs([]*ssa.Function{cup}) {
			if !strings.HasPrefix(pkgPathOf(g), modPkg+pST) && !strings.HasSuffix(pkgPathOf(g), "/patch") {
				continue
			}
			forEachInstr(g, func(in ssa.Instruction) {
				cl, isC := in.(*ssa.Call)
				if !isC {
					return
				}
				h := cl.Call.StaticCallee()
				if h == nil || inModule(h) {
					return
				}
				if o := h.Origin(); o != nil {
					h = o
				}
				ext[pkgPathOf(h)] = true
			})
		}
		var foreign []string
		for p := range ext {
			switch {
			case p == "encoding/json", p == "fmt", p == "errors", p == "sort", p == "slices", p == "maps", p == "strconv", p == "strings", p == "bytes":
			case strings.HasPrefix(p, "github.com/trustbloc/did-go/"), strings.HasPrefix(p, "github.com/trustbloc/kms-go/"):
				// (the model types' own JSON encoders)
			default:
				foreign = append(foreign, p)
			}
		}
		sort.Strings(foreign)
		c.Check("C08.P3", "update-patches:values-handed-on-as-they-are", len(foreign) == 0, cup.Pos(), fmt.Sprintf("libraries reached while building update patches besides the JSON codec / fmt / errors / strings: %v", foreign))
	}
	// the options the client is configured with reach the builders: every With… option stores what it is given (or
	// appends it) whatever the options hold already — an option that yields to a value set before it is dropped,
	// because the client presets its defaults before it applies the caller's options
	{
		n := 0
		var bad []string
		for _, f := range c.Funcs {
			pp := pkgPathOf(f)
			if !strings.HasPrefix(pp, modPkg+pST+"/option/") || f.Parent() != nil || f.Object() == nil || !f.Object().Exported() || !strings.HasPrefix(f.Name(), "With") || f.Blocks == nil {
				continue
			}
			for _, lit := range f.AnonFuncs {
				if len(lit.Params) != 1 {
					continue
				}
				n++
				stores := 0
				forEachInstr(lit, func(in ssa.Instruction) {
					switch x := in.(type) {
					case *ssa.Store:
						if fa, isFA := x.Addr.(*ssa.FieldAddr); isFA && fa.X == ssa.Value(lit.Params[0]) {
							stores++
							// a list option extends its own list: opts.F = append(opts.F, …)
							if ap, isC := x.Val.(*ssa.Call); isC {
								if b, isB := ap.Call.Value.(*ssa.Builtin); isB && b.Name() == "append" {
									okSelf := false
									if ld, isLd := ap.Call.Args[0].(*ssa.UnOp); isLd && ld.Op == token.MUL {
										if fa0, isFA0 := ld.X.(*ssa.FieldAddr); isFA0 && fa0.X == fa.X && fa0.Field == fa.Field {
											okSelf = true
										}
									}
									if !okSelf {
										bad = append(bad, c.pos(x.Pos())+": "+short(f.String())+" stores into "+fieldName(fa.X.Type(), fa.Field)+" a list built on "+c.Path(ap.Call.Args[0], nil))
									}
								}
							}
						}
					case *ssa.If:
						for v := range backSlice(x.Cond) {
							if fa, isFA := v.(*ssa.FieldAddr); isFA && fa.X == ssa.Value(lit.Params[0]) {
								bad = append(bad, c.pos(x.Pos())+": "+short(f.String())+" decides on the options' own "+fieldName(fa.X.Type(), fa.Field))
							}
						}
					}
				})
				if stores == 0 {
					bad = append(bad, c.pos(lit.Pos())+": "+short(f.String())+" stores nothing into the options")
				}
			}
		}
		c.Check("C08.P3", "options:store-what-they-are-given", n >= 20 && len(bad) == 0, 0, fmt.Sprintf("%d With… options of the request builders; each stores its argument without consulting the options' current content", n), bad...)
	}
	c.Min("C08.P3", 9+3+2+3+7+2+1+2+1+3)

	// ---- O1 remove-before-add
	cup := c.Fn(pST, "createUpdatePatches")
	if cup == nil {
		c.Unresolved("C08.O1", "sidetree.createUpdatePatches")
	} else {
		c.Analysed(cup)
		type site struct {
			kind string
			in   *ssa.Call
		}
		var sites []site
		forEachInstr(cup, func(in ssa.Instruction) {
			cl, ok := in.(*ssa.Call)
			if !ok {
				return
			}
			bi, isB := cl.Call.Value.(*ssa.Builtin)
			if !isB || bi.Name() != "append" {
				return
			}
			// classify the appended element by the patch constructor reached from the producing helper
			kind := "?"
			sl := backSlice(cl.Call.Args[1])
			for v := range sl {
				if pc, isC := v.(*ssa.Call); isC {
					if g := pc.Call.StaticCallee(); g != nil && inModule(g) {
						kind = c.patchKindOf(g, 0)
					}
				}
			}
			sites = append(sites, site{kind, cl})
		})
		var ks []string
		bad := []string{}
		for _, a := range sites {
			ks = append(ks, a.kind)
			if !strings.HasPrefix(a.kind, "add") {
				continue
			}
			// no remove-* append reachable after an add-* append
			seen := reach(a.in.Block(), map[edge]bool{})
			for _, r := range sites {
				if strings.HasPrefix(r.kind, "remove") {
					if _, reachable := seen[r.in.Block()]; reachable && r.in.Block() != a.in.Block() {
						bad = append(bad, a.kind+" before "+r.kind)
					}
				}
			}
		}
		sort.Strings(ks)
		okKinds := true
		for _, k := range ks {
			if k == "?" {
				okKinds = false
			}
		}
		okOrder := len(sites) == 6 && okKinds && len(bad) == 0
		if !okOrder {
			// table form: the builders are listed in a slice literal that one loop walks in index order, appending the
			// patch each listed builder returns — the patch order is the order of the literal
			if kinds, ok := c.builderTableOrder(cup); ok {
				ks = kinds
				bad = nil
				seenAdd := false
				for _, k := range kinds {
					if strings.HasPrefix(k, "add") {
						seenAdd = true
					}
					if strings.HasPrefix(k, "remove") && seenAdd {
						bad = append(bad, "an add builder is listed before "+k)
					}
					if k == "?" {
						bad = append(bad, "unclassified builder in the table")
					}
				}
				okOrder = len(kinds) == 6 && len(bad) == 0
			}
		}
		if !okOrder {
			// collector form: the builders are handed, one call after the other, to a collecting helper that appends what
			// the builder it is given returns — the patch order is the order of those calls
			if kinds, ok := c.builderCallSequence(cup); ok {
				ks = kinds
				bad = nil
				seenAdd := false
				for _, k := range kinds {
					if strings.HasPrefix(k, "add") {
						seenAdd = true
					}
					if strings.HasPrefix(k, "remove") && seenAdd {
						bad = append(bad, "an add builder is handed over before "+k)
					}
					if k == "?" {
						bad = append(bad, "unclassified builder handed to the collector")
					}
				}
				okOrder = len(kinds) == 6 && len(bad) == 0
			}
		}
		c.Check("C08.O1", "createUpdatePatches:remove-before-add", okOrder, cup.Pos(), fmt.Sprintf("patch builders in emission order %v; order violations %v", ks, bad))
	}
	c.Min("C08.O1", 1)

	// ---- E1 the request builders do not write through what the caller hands them (keys, services, their property
	// maps): two services sharing one properties map, or a document reused for a second request, must still build
	// the request the caller asked for
	{
		var entries []*ssa.Function
		for _, n := range []string{"PopulateRawServices", "PopulateRawPublicKeys", "PopulateRawAlsoKnownAs"} {
			if f := c.Fn(pST+"/doc", n); f != nil {
				entries = append(entries, f)
			}
		}
		if f := c.Method(pST+"/doc", "Doc", "JSONBytes"); f != nil {
			entries = append(entries, f)
		}
		if len(entries) == 4 {
			c.runEffectQuiet("C08.E1", entries, func(f *ssa.Function) []*ssa.Parameter { return f.Params }, "request document builders", 4)
		} else {
			c.Unresolved("C08.E1", "sidetree/doc.PopulateRaw* / (*Doc).JSONBytes")
		}
	}
	c.Min("C08.E1", 2)

	// ---- X3: the signers the builders use and the verifier the parser/applier use agree per curve
	c.signerVerifierTables("C08.X3")
	c.Min("C08.X3", 12)
	c.Assume("acceptance of the built request by the parser and the resulting document are not decided (behavioural); did-go document serialisation is outside the claim")
	// the keys a built request carries are the JWKs pubkey.GetPublicKeyJWK produces: an update signed with a key whose
	// JWK was written at the wrong width is refused by the applier — the encoding rules of C16 are part of "accepted"
	{
		// (with the rendering switches of this check put aside: C16's rules name values the way its own run does)
		oi, oh := c.inlineFns, c.inlineHelpers
		c.inlineFns, c.inlineHelpers = nil, false
		runC16(c)
		c.inlineFns, c.inlineHelpers = oi, oh
	}
	// "accepted by the parser": a request built with an anchoring window is judged on that window — outside batch mode the
	// three parsers hand (from, expiry(from, until)) of the signed data to the time validator, in that order (C09.G1)
	c.only(runC09, "C09.G1")
	c.Min("C09.G1", 3)
	// "applying the requests in order yields the document asked for": what the builders put into a request is applied by
	// the composer patch after patch, each operation of an ietf-json-patch on the result of the one before (C10.P1 fold,
	// C10.E1 write sets)
	c.apart(runC10)
	c.Min("C10.P1", 3)
}

// patchKindOf: which patch constructor a helper (transitively) calls: add-* / remove-*.
func (c *Ctx) patchKindOf(g *ssa.Function, d int) string {
	kind := "?"
	if d > 3 || g.Blocks == nil {
		return kind
	}
	forEachInstr(g, func(in ssa.Instruction) {
		cl, ok := in.(*ssa.Call)
		if !ok || cl.Call.StaticCallee() == nil {
			return
		}
		h := cl.Call.StaticCallee()
		if h.Pkg != nil && h.Pkg.Pkg.Path() == modPkg+"patch" {
			switch {
			case strings.HasPrefix(h.Name(), "NewAdd"):
				kind = "add:" + h.Name()
			case strings.HasPrefix(h.Name(), "NewRemove"):
				kind = "remove:" + h.Name()
			}
		} else if inModule(h) && kind == "?" {
			if k := c.patchKindOf(h, d+1); k != "?" {
				kind = k
			}
		}
	})
	return kind
}

// builderTableOrder: f lists patch builder functions in a local slice literal (a field of each element), ranges over
// it in ascending index order and appends, inside that loop, the value returned by calling the element's function.
// Returns the builders' patch kinds in literal order.
func (c *Ctx) builderTableOrder(f *ssa.Function) ([]string, bool) {
	var kinds []string
	found := false
	// the table: an array literal of f sliced in f, or a package-level slice written once, by the package initialiser,
	// with such a literal; walkers are the values through which f indexes it
	type cand struct {
		al      *ssa.Alloc
		walkers []ssa.Value
	}
	var cands []cand
	forEachInstr(f, func(in ssa.Instruction) {
		switch x := in.(type) {
		case *ssa.Slice:
			if al, ok := x.X.(*ssa.Alloc); ok {
				cands = append(cands, cand{al, []ssa.Value{x}})
			}
		case *ssa.UnOp:
			g, ok := x.X.(*ssa.Global)
			if !ok || x.Op != token.MUL || g.Pkg == nil {
				return
			}
			var val ssa.Value
			n := 0
			init := g.Pkg.Func("init")
			for _, fn := range allFuncs(g.Pkg) {
				forEachInstr(fn, func(i2 ssa.Instruction) {
					if st, isS := i2.(*ssa.Store); isS && st.Addr == ssa.Value(g) {
						n++
						if fn == init {
							val = st.Val
						}
					}
				})
			}
			if n != 1 || val == nil {
				return
			}
			if sl, isSl := val.(*ssa.Slice); isSl {
				if al, isAl := sl.X.(*ssa.Alloc); isAl {
					cands = append(cands, cand{al, []ssa.Value{x}})
				}
			}
		}
	})
	for _, cd := range cands {
		if found {
			break
		}
		al := cd.al
		arr, ok := al.Type().Underlying().(*types.Pointer).Elem().Underlying().(*types.Array)
		if !ok || arr.Len() == 0 {
			continue
		}
		// per field of the element: the function stored at each index
		fnsBy := map[int][]*ssa.Function{}
		for _, r := range *al.Referrers() {
			ia, isIA := r.(*ssa.IndexAddr)
			if !isIA {
				continue
			}
			kc, isK := ia.Index.(*ssa.Const)
			if !isK {
				continue
			}
			k, _ := constant.Int64Val(kc.Value)
			for _, rr := range *ia.Referrers() {
				if fa, isFA := rr.(*ssa.FieldAddr); isFA {
					for _, r3 := range *fa.Referrers() {
						if st, isS := r3.(*ssa.Store); isS && st.Addr == ssa.Value(fa) {
							if fn := funcValueOf(st.Val); fn != nil && k >= 0 && k < arr.Len() {
								if fnsBy[fa.Field] == nil {
									fnsBy[fa.Field] = make([]*ssa.Function, arr.Len())
								}
								fnsBy[fa.Field][k] = fn
							}
						}
					}
				}
			}
		}
		// walked in ascending order, each element's function called and its result appended in the loop
		field := -1
		for _, w := range cd.walkers {
			if w.Referrers() == nil {
				continue
			}
			for _, r := range *w.Referrers() {
				ia, isIA := r.(*ssa.IndexAddr)
				if !isIA || !ascendingFromZero(ia) {
					continue
				}
				for _, l := range naturalLoops(f) {
					if !l.blocks[ia.Block()] {
						continue
					}
					for b := range l.blocks {
						for _, i2 := range b.Instrs {
							ap, isC := i2.(*ssa.Call)
							if !isC {
								continue
							}
							if bi, isB := ap.Call.Value.(*ssa.Builtin); !isB || bi.Name() != "append" {
								continue
							}
							vs := map[ssa.Value]bool{}
							for v := range backSlice(ap.Call.Args[1]) {
								vs[v] = true
							}
							if els, okE := c.varargValues(ap.Call.Args[1]); okE {
								for _, e := range els {
									for v := range backSlice(e) {
										vs[v] = true
									}
								}
							}
							for v := range vs {
								if dc, isDC := v.(*ssa.Call); isDC && dc.Call.StaticCallee() == nil && !dc.Call.IsInvoke() {
									if _, isBuiltin := dc.Call.Value.(*ssa.Builtin); !isBuiltin && loadedFromElement(dc.Call.Value, ia) {
										field = elementField(dc.Call.Value)
									}
								}
							}
						}
					}
				}
			}
		}
		fns := fnsBy[field]
		if field < 0 || fns == nil {
			continue
		}
		complete := true
		for _, fn := range fns {
			if fn == nil {
				complete = false
			}
		}
		if !complete {
			continue
		}
		found = true
		for _, fn := range fns {
			kinds = append(kinds, c.patchKindOf(fn, 0))
		}
	}
	return kinds, found
}

// elementField: the field of the table element that v is read from (-1 when it cannot be told).
func elementField(v ssa.Value) int {
	for d := 0; d < 8; d++ {
		switch x := v.(type) {
		case *ssa.UnOp:
			v = x.X
		case *ssa.FieldAddr:
			return x.Field
		case *ssa.Field:
			return x.Field
		default:
			return -1
		}
	}
	return -1
}

// loadedFromElement: v is read from (a field of) the slice element addressed by ia, possibly through the range
// variable's own cell.
func loadedFromElement(v ssa.Value, ia *ssa.IndexAddr) bool {
	for d := 0; d < 8; d++ {
		switch x := v.(type) {
		case *ssa.IndexAddr:
			return x == ia
		case *ssa.UnOp:
			v = x.X
		case *ssa.FieldAddr:
			v = x.X
		case *ssa.Field:
			v = x.X
		case *ssa.Alloc:
			var src ssa.Value
			n := 0
			for _, r := range *x.Referrers() {
				if st, ok := r.(*ssa.Store); ok && st.Addr == ssa.Value(x) {
					n++
					src = st.Val
				}
			}
			if n != 1 {
				return false
			}
			v = src
		default:
			return false
		}
	}
	return false
}

// nonEmptyCond: the canonical branch condition cnd says that the string with path p is non-empty.
func nonEmptyCond(cnd, p string) bool {
	for _, w := range []string{
		"(" + p + ` != "")=true`, "(" + p + ` == "")=false`, `("" != ` + p + ")=true", `("" == ` + p + ")=false",
		"(len(" + p + ") > 0)=true", "(len(" + p + ") != 0)=true", "(len(" + p + ") == 0)=false", "(0 < len(" + p + "))=true", "(len(" + p + ") >= 1)=true", "(len(" + p + ") <= 0)=false", "(len(" + p + ") < 1)=false",
	} {
		if cnd == w {
			return true
		}
	}
	return false
}

// rawServiceRule: each member of the service model reaches the raw service under a condition on that member only —
// a member nested under another member's presence test is dropped from documents that have the one without the other.
func (c *Ctx) rawServiceRule(rule string) {
	const pDoc = "vdr/sidetreelongform/sidetree/doc"
	f := c.Fn(pDoc, "PopulateRawServices")
	if f == nil {
		c.Unresolved(rule, "doc.PopulateRawServices")
		return
	}
	c.Analysed(f)
	fieldRe := regexp.MustCompile(`(?:\[ι\]|\$\d+)\.([A-Z][A-Za-z]+)`)
	loopControl := regexp.MustCompile(`^\((len\(.*\) <= ι|ι < len\(.*\)|\d+ <= ι|ι < \d+)\)=true$`)
	n := 0
	hosts := append([]*ssa.Function{f}, c.helpersOf(f, 1)...)
	// (the per-service builder handed, as a function value, to a generic "convert every element" helper)
	forEachInstr(f, func(in ssa.Instruction) {
		if cl, ok := in.(*ssa.Call); ok {
			for _, a := range cl.Call.Args {
				if _, isSig := a.Type().Underlying().(*types.Signature); isSig {
					if g := funcValueOf(a); g != nil && inModule(g) && g.Blocks != nil && pkgPathOf(g) == pkgPathOf(f) {
						hosts = append(hosts, g)
					}
				}
			}
		}
	})
	for _, h := range hosts {
		forEachInstr(h, func(in ssa.Instruction) {
			mu, ok := in.(*ssa.MapUpdate)
			if !ok {
				return
			}
			if _, isK := mu.Key.(*ssa.Const); !isK {
				return
			}
			m := fieldRe.FindStringSubmatch(c.Path(mu.Value, nil))
			if m == nil {
				return
			}
			n++
			var foreign []string
			for _, cnd := range c.condsOf(mu.Block()) {
				if loopControl.MatchString(cnd) || strings.HasPrefix(cnd, "next(range(") || strings.Contains(cnd, "]."+m[1]) || regexp.MustCompile(`\$\d+\.`+m[1]+`\b`).MatchString(cnd) || strings.Contains(cnd, "#1") || strings.Contains(cnd, " nil)=") && strings.Contains(cnd, "#") {
					continue
				}
				foreign = append(foreign, cnd)
			}
			c.Check(rule, "raw-service:"+unquote(c.Path(mu.Key, nil))+":own-condition", len(foreign) == 0, mu.Pos(), fmt.Sprintf("service member %s is copied under conditions on %s only (foreign conditions: %v)", c.Path(mu.Key, nil), m[1], foreign))
		})
	}
	c.Check(rule, "raw-service:members", n >= 6, f.Pos(), fmt.Sprintf("%d member copies found in PopulateRawServices", n))
}

// docBytesRule: the document handed to the create / recover request carries every member of Doc: each accepting exit of
// JSONBytes returns bytes that depend on each field.
func (c *Ctx) docBytesRule(rule string) {
	const pST = "vdr/sidetreelongform/sidetree"
	// the document handed to the create / recover request carries every member of Doc: each accepting exit of JSONBytes
	// returns bytes that depend on each field
	if jb := c.Method(pST+"/doc", "Doc", "JSONBytes"); jb != nil {
		c.Analysed(jb)
		if dt := c.NamedType(pST+"/doc", "Doc"); dt != nil {
			for i := 0; i < numFields(dt); i++ {
				fld := fieldName(dt, i)
				ok := len(successReturns(jb)) > 0
				for _, r := range successReturns(jb) {
					dep := false
					for v := range backSlice(returnedValue(r, 0)) {
						if fa, isFA := v.(*ssa.FieldAddr); isFA && c.Path(fa, nil) == "$0."+fld {
							dep = true
						}
					}
					if !dep {
						ok = false
					}
				}
				c.Check(rule, "Doc.JSONBytes:member:"+fld, ok, jb.Pos(), "every accepting exit of JSONBytes returns bytes computed from Doc."+fld)
			}
		}
	} else {
		c.Unresolved(rule, "(*doc.Doc).JSONBytes")
	}
}

// builderCallSequence: cup hands patch builders (function values) to one collecting helper in a straight sequence of
// calls, each call dominating the next; the collector has a single append, of what the function it was handed returns.
// Returns the kinds of the builders in call order.
func (c *Ctx) builderCallSequence(cup *ssa.Function) ([]string, bool) {
	type site struct {
		cl   *ssa.Call
		kind string
	}
	var sites []site
	var collector *ssa.Function
	fnIdx := -1
	okAll := true
	forEachInstr(cup, func(in ssa.Instruction) {
		cl, ok := in.(*ssa.Call)
		if !ok {
			return
		}
		g := cl.Call.StaticCallee()
		if g == nil || !inModule(g) || g.Blocks == nil {
			return
		}
		for i, a := range cl.Call.Args {
			if _, isSig := a.Type().Underlying().(*types.Signature); !isSig {
				continue
			}
			fn := funcValueOf(a)
			if fn == nil || !inModule(fn) {
				continue
			}
			if collector == nil {
				collector, fnIdx = g, i
			}
			if g != collector || i != fnIdx {
				okAll = false
			}
			sites = append(sites, site{cl, c.patchKindOf(fn, 0)})
		}
	})
	if !okAll || collector == nil || len(sites) == 0 || fnIdx >= len(collector.Params) {
		return nil, false
	}
	// the collector: one append, of the result of calling the function it was handed
	nApp, fromParam := 0, false
	forEachInstr(collector, func(in ssa.Instruction) {
		cl, ok := in.(*ssa.Call)
		if !ok {
			return
		}
		if bi, isB := cl.Call.Value.(*ssa.Builtin); isB && bi.Name() == "append" {
			nApp++
			for v := range backSlice(cl.Call.Args[1]) {
				if pc, isC := v.(*ssa.Call); isC && pc.Call.Value == ssa.Value(collector.Params[fnIdx]) {
					fromParam = true
				}
			}
		}
	})
	if nApp != 1 || !fromParam || len(naturalLoops(collector)) > 0 {
		return nil, false
	}
	// call order: a chain under dominance
	sort.SliceStable(sites, func(i, j int) bool { return instrDominates(sites[i].cl, sites[j].cl) })
	var kinds []string
	for i, st := range sites {
		if i > 0 && !instrDominates(sites[i-1].cl, st.cl) {
			return nil, false
		}
		kinds = append(kinds, st.kind)
	}
	if len(naturalLoops(cup)) > 0 {
		return nil, false
	}
	return kinds, true
}

// commitmentPairField: which commitment the field read by path p (…getCommitment(…)#0.<field>) holds, as decided on
// getCommitment's result literal ("" when unknown).
func (c *Ctx) commitmentPairField(p string) string {
	i := strings.LastIndex(p, ".")
	if i < 0 {
		return ""
	}
	if c.pairFields == nil {
		// (decided on first use: the helper's success return hands back a struct literal)
		c.pairFields = map[string]string{}
		if gc := c.Fn("vdr/sidetreelongform/sidetree", "getCommitment"); gc != nil {
			for _, r := range successReturns(gc) {
				if ld, isLd := r.Results[0].(*ssa.UnOp); isLd {
					if al, isAl := ld.X.(*ssa.Alloc); isAl {
						for fld, vs := range c.fieldTable(al, nil) {
							if len(vs) == 1 && strings.Contains(vs[0], "NextRecoveryPublicKey") && !strings.Contains(vs[0], "NextUpdatePublicKey") {
								c.pairFields[fld] = "recovery"
							}
							if len(vs) == 1 && strings.Contains(vs[0], "NextUpdatePublicKey") && !strings.Contains(vs[0], "NextRecoveryPublicKey") {
								c.pairFields[fld] = "update"
							}
						}
					}
				}
			}
		}
	}
	return c.pairFields[p[i+1:]]
}
