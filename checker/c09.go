package main

import (
	"fmt"
	"go/token"
	"go/types"
	"sort"
	"strings"

	"golang.org/x/tools/go/ssa"
)

func init() {
	props["C09"] = &propDef{run: runC09, explanation: "C09 decided statically: (O1) the applier's window predicate (callee inlined) is extracted as a decision tree over comparisons of {0, from, until, t, from+Δ} and evaluated on every consistent weak ordering of these five points (exhaustive, boundaries included); it returns nil exactly when (from=0 ∧ until=0) ∨ (from ≤ t ≤ U), U = from+Δ if from≠0 ∧ until=0 else until. (P1) Δ is Protocol.MaxOperationTimeDelta in the applier and in the parser, and no other Protocol field is read by either computation. (G1) outside batch mode the three parsers succeed only across TimeValidator.Validate(signedData.AnchorFrom, U(signedData.AnchorFrom, signedData.AnchorUntil)) on the same signed data, with U decided as above; in batch mode the validator is unreachable. (G2) out-of-window update/recover still return the model with the advanced commitment and never install a patched document; out-of-window deactivate is refused. Assumes no int64 overflow in from+Δ and t < 2^63. (K1) the parser and applier never assign a field of protocol.Protocol; (U1) the signed anchoring times are compared nowhere in the parser except in the default-expiry function. (G3) Parser.anchorTimeValidator is written by New and its own option only, never with a possibly nil value. C07.K1 runs here."}
}

// windowFn discovers, in an apply function, the static callee invoked with
// (signedData.AnchorFrom, signedData.AnchorUntil, anchoredOp.TransactionTime).
func (c *Ctx) windowCall(f *ssa.Function, S string) *tcall {
	var out *tcall
	for _, t := range c.treeCalls(f, nil, 0, func(cl *ssa.Call, env Env) bool {
		g := cl.Call.StaticCallee()
		if g == nil || !inModule(g) {
			return false
		}
		a := declArgs(cl)
		return len(a) == 3 && c.Path(a[0], env) == S+".AnchorFrom" && c.Path(a[1], env) == S+".AnchorUntil" && c.Path(a[2], env) == "$1.TransactionTime"
	}) {
		out = t
	}
	return out
}

// protocolFieldsRead lists Protocol fields read in f and the module callees it calls (depth 2).
func (c *Ctx) protocolFieldsRead(f *ssa.Function, depth int, seen map[*ssa.Function]bool, out map[string]bool) {
	prot := c.NamedType("api/protocol", "Protocol")
	if f == nil || seen[f] || f.Blocks == nil || depth > 3 {
		return
	}
	seen[f] = true
	forEachInstr(f, func(in ssa.Instruction) {
		switch x := in.(type) {
		case *ssa.FieldAddr:
			t := x.X.Type().Underlying().(*types.Pointer).Elem()
			if types.Identical(t, prot) {
				out[fieldName(t, x.Field)] = true
			}
		case *ssa.Field:
			if types.Identical(x.X.Type(), prot) {
				out[fieldName(x.X.Type(), x.Field)] = true
			}
		case *ssa.Call:
			if g := x.Call.StaticCallee(); g != nil && inModule(g) && inlinable(g) {
				c.protocolFieldsRead(g, depth+1, seen, out)
			}
		}
	})
}

type windowEval struct {
	orderings int
	deltaTerm map[string]bool
}

// decideWindow evaluates decision paths of the window predicate against the reference on all orderings.
// paths' result: Ret[last] "nil" = effective.
func (c *Ctx) decideWindow(rule, key string, f *ssa.Function, paths []opath, resultIsUntil bool) *windowEval {
	we := &windowEval{deltaTerm: map[string]bool{}}
	canon := func(s string) (string, bool) {
		switch s {
		case "0", "F", "U", "T":
			return s, true
		}
		if strings.HasPrefix(s, "(F + ") && strings.HasSuffix(s, ")") {
			we.deltaTerm[s[5:len(s)-1]] = true
			return "F+D", true
		}
		if strings.HasSuffix(s, " + F)") && strings.HasPrefix(s, "(") {
			we.deltaTerm[s[1:len(s)-5]] = true
			return "F+D", true
		}
		return s, false
	}
	// rewrite terms
	var bad []string
	for i := range paths {
		for j := range paths[i].Conds {
			cd := &paths[i].Conds[j]
			var ok1, ok2 bool
			cd.L, ok1 = canon(cd.L)
			cd.R, ok2 = canon(cd.R)
			if !ok1 {
				bad = append(bad, cd.L)
			}
			if !ok2 {
				bad = append(bad, cd.R)
			}
		}
		for j := range paths[i].Ret {
			if s, ok := canon(paths[i].Ret[j]); ok {
				paths[i].Ret[j] = s
			}
		}
	}
	if len(bad) > 0 {
		sort.Strings(bad)
		c.Check(rule, key, false, f.Pos(), fmt.Sprintf("window predicate compares terms outside {0, from, until, t, from+Δ}: %v — undecided (counts as failure)", bad))
		return we
	}
	points := []string{"0", "F", "U", "T", "F+D"}
	okAll := true
	var witness []string
	for _, ranks := range weakOrderings(len(points)) {
		rk := map[string]int{}
		for i, p := range points {
			rk[p] = ranks[i]
		}
		if rk["T"] < rk["0"] || rk["F+D"] < rk["F"] {
			continue
		}
		we.orderings++
		hit, err := evalPaths(paths, rk)
		if err != nil {
			okAll = false
			witness = append(witness, describeOrdering(points, ranks)+": "+err.Error())
			break
		}
		ueff := rk["U"]
		ueffName := "U"
		if rk["F"] != rk["0"] && rk["U"] == rk["0"] {
			ueff = rk["F+D"]
			ueffName = "F+D"
		}
		if resultIsUntil {
			got := hit.Ret[0]
			gr, known := rk[got]
			if !known || gr != ueff {
				okAll = false
				witness = append(witness, fmt.Sprintf("ordering %s: effective expiry is %s (expected %s)", describeOrdering(points, ranks), got, ueffName))
			}
			continue
		}
		want := (rk["F"] == rk["0"] && rk["U"] == rk["0"]) || (rk["F"] <= rk["T"] && rk["T"] <= ueff)
		got := hit.Ret[len(hit.Ret)-1] == "nil"
		if hit.Ret[len(hit.Ret)-1] != "nil" && hit.Ret[len(hit.Ret)-1] != "err" {
			okAll = false
			witness = append(witness, "undetermined error result "+hit.Ret[len(hit.Ret)-1])
			break
		}
		if got != want {
			okAll = false
			if len(witness) < 6 {
				witness = append(witness, fmt.Sprintf("ordering %s: code says effective=%v, Sidetree rule says %v", describeOrdering(points, ranks), got, want))
			}
		}
	}
	c.Check(rule, key, okAll && we.orderings > 0, f.Pos(), fmt.Sprintf("%s decided on %d consistent weak orderings of {0, from, until, t, from+Δ} (%d decision paths)", short(f.String()), we.orderings, len(paths)), witness...)
	return we
}

// protocolWrites reports every assignment to a field of the protocol parameter struct in the selected functions and
// returns their number.
func (c *Ctx) protocolWrites(rule string, fs []*ssa.Function, sel func(*ssa.Function) bool, prot *types.Named) int {
	n := 0
	if prot == nil {
		return 0
	}
	for _, f := range fs {
		if !sel(f) {
			continue
		}
		forEachInstr(f, func(in ssa.Instruction) {
			st, ok := in.(*ssa.Store)
			if !ok {
				return
			}
			fa, isFA := st.Addr.(*ssa.FieldAddr)
			if !isFA || !types.Identical(derefT(fa.X.Type()), prot) {
				return
			}
			// the composite literal of a fresh value is construction, not an assignment to configured parameters
			if al, isAl := fa.X.(*ssa.Alloc); isAl {
				if st0 := wholeStoreAny(al); st0 == nil {
					return
				}
			}
			n++
			c.Check(rule, "assigns:"+short(f.String())+"."+fieldName(fa.X.Type(), fa.Field), false, st.Pos(), fmt.Sprintf("%s assigns %s.%s: the value the window (and every other gate) is computed with is no longer the configured one", short(f.String()), typeShort(prot), fieldName(fa.X.Type(), fa.Field)))
		})
	}
	return n
}

// wholeStoreAny: some store writes the whole struct cell (a parameter or a configured value copied in), so a later
// field store modifies a received value rather than building a fresh literal.
func wholeStoreAny(al *ssa.Alloc) *ssa.Store {
	if al.Referrers() == nil {
		return nil
	}
	for _, r := range *al.Referrers() {
		if st, ok := r.(*ssa.Store); ok && st.Addr == ssa.Value(al) {
			return st
		}
	}
	return nil
}

func runC09(c *Ctx) {
	af := c.applyFuncs("C09.O1")
	rmT := c.NamedType("api/protocol", "ResolutionModel")
	// ---- applier
	var winFns []*ssa.Function
	seenW := map[*ssa.Function]bool{}
	for _, typ := range []string{"update", "recover", "deactivate"} {
		f := af[typ]
		if f == nil {
			c.Unresolved("C09.G2", "apply function for "+typ)
			continue
		}
		pc := c.applierParseCall("C09.G2", typ, f)
		if pc == nil {
			continue
		}
		sc := c.applierSDCall("C09.G2", typ, f, pc.P(c))
		if sc == nil {
			continue
		}
		S := sc.P(c) + "#0"
		wt := c.windowCall(f, S)
		if wt == nil {
			c.Check("C09.G2", typ+":window-call", false, f.Pos(), "no call taking (signedData.AnchorFrom, signedData.AnchorUntil, anchoredOp.TransactionTime) in "+short(f.String()))
			continue
		}
		wc, wcTop := wt.call, wt.top
		if w := wc.Call.StaticCallee(); !seenW[w] {
			seenW[w] = true
			winFns = append(winFns, w)
		}
		chkWin := &GCheck{Name: "anchoring window check", MatchCall: func(c *Ctx, call *ssa.Call, env Env) bool { return call == wc }}
		objs := c.builtObjs(f, rmT)
		if len(objs) != 1 {
			c.Check("C09.G2", typ+":model", false, f.Pos(), "expected one ResolutionModel built in the apply function")
			continue
		}
		O := objs[0]
		A := O.v
		if typ == "deactivate" {
			c.CheckGuard("C09.G2", "deactivate:out-of-window-refused", f, nil, chkWin)
			continue
		}
		// patched document only in-window
		var apCall *ssa.Call
		if aps := callsNamed(f, "ApplyPatches"); len(aps) == 1 {
			apCall = aps[0]
		}
		evDoc := storeEvent(A, "Doc", func(v ssa.Value) bool { return apCall != nil && v == extractOf(apCall, 0) })
		ok, w, _ := c.Guard(f, nil, chkWin, evDoc)
		c.Check("C09.G2", typ+":patched-doc-only-in-window", ok && apCall != nil, f.Pos(), "the patched document is installed only behind the window check", w...)
		// out-of-window still advances: commitment installed on every path through the window check, and no refusal after it
		okAdv := c.storeOnAllPathsAfter(O, "UpdateCommitment", wcTop)
		seen := reach(wcTop.Block(), map[edge]bool{})
		for b := range seen {
			if r, isR := b.Instrs[len(b.Instrs)-1].(*ssa.Return); isR {
				if r.Results[0] != ssa.Value(A) || c.Path(r.Results[1], nil) != "nil" {
					okAdv = false
				}
			}
		}
		c.Check("C09.G2", typ+":out-of-window-still-advances", okAdv, wc.Pos(), "every exit after the window check returns the model with the new update commitment installed (window failure degrades, never refuses)")
	}
	c.Min("C09.G2", 5)

	// ---- O1 + P1 (applier)
	c.Check("C09.O1", "applier:single-window-predicate", len(winFns) == 1, token.NoPos, fmt.Sprintf("the three apply functions share one window predicate (%d found)", len(winFns)))
	for _, w := range winFns {
		paths, err := c.DecisionPaths(w, map[int]string{len(w.Params) - 3: "F", len(w.Params) - 2: "U", len(w.Params) - 1: "T"})
		if err != nil {
			c.Check("C09.O1", "applier:window-predicate", false, w.Pos(), "cannot extract a decision tree: "+err.Error()+" — undecided (counts as failure)")
			continue
		}
		we := c.decideWindow("C09.O1", "applier:window-predicate", w, paths, false)
		var dts []string
		for d := range we.deltaTerm {
			dts = append(dts, d)
		}
		sort.Strings(dts)
		c.Check("C09.P1", "applier:delta-is-MaxOperationTimeDelta", len(dts) == 1 && dts[0] == "$0.Protocol.MaxOperationTimeDelta", w.Pos(), fmt.Sprintf("Δ in the applier's default expiry = %v (expected $0.Protocol.MaxOperationTimeDelta)", dts))
		fr := map[string]bool{}
		c.protocolFieldsRead(w, 0, map[*ssa.Function]bool{}, fr)
		var frs []string
		for k := range fr {
			frs = append(frs, k)
		}
		sort.Strings(frs)
		c.Check("C09.P1", "applier:no-other-protocol-parameter", eqStrs(frs, []string{"MaxOperationTimeDelta"}), w.Pos(), fmt.Sprintf("Protocol fields read by the window predicate: %v (expected only MaxOperationTimeDelta)", frs))
	}
	c.Min("C09.O1", 2)

	// ---- G1 + P1 (parser)
	pf := c.parseFuncs()
	untilFns := map[*ssa.Function]bool{}
	combinedFns := map[*ssa.Function]bool{}
	isTimeValidate := func(call *ssa.Call) bool {
		if !call.Call.IsInvoke() || call.Call.Method.Name() != "Validate" {
			return false
		}
		sig := call.Call.Signature()
		return sig.Params().Len() == 2 && isIntType(sig.Params().At(0).Type()) && isIntType(sig.Params().At(1).Type())
	}
	for _, typ := range []string{"update", "recover", "deactivate"} {
		f := pf[typ]
		if f == nil {
			c.Unresolved("C09.G1", "Parse"+typ+"Operation")
			continue
		}
		c.Analysed(f)
		var sdCall *ssa.Call
		for _, cl := range callsNamed(f, parseSDMethod[typ]) {
			sdCall = cl
		}
		if sdCall == nil {
			c.Check("C09.G1", "parse-"+typ+":signed-data", false, f.Pos(), "no "+parseSDMethod[typ]+" call")
			continue
		}
		SD := c.Path(sdCall, nil) + "#0"
		isTV := func(call *ssa.Call) bool {
			if !call.Call.IsInvoke() || call.Call.Method.Name() != "Validate" {
				return false
			}
			sig := call.Call.Signature()
			return sig.Params().Len() == 2 && isIntType(sig.Params().At(0).Type()) && isIntType(sig.Params().At(1).Type())
		}
		var untilCallee *ssa.Function
		// helpers of the parse function that take the signed (from, until) and consult the validator themselves
		combinedExpiry := map[*ssa.Function]bool{}
		for _, cl := range findCalls(f, func(cl *ssa.Call) bool { return cl.Call.StaticCallee() != nil && inModule(cl.Call.StaticCallee()) }) {
			g := cl.Call.StaticCallee()
			ua := declArgs(cl)
			if g.Blocks == nil || len(ua) != 2 || c.Path(ua[0], Env{f.Params[2]: "false"}) != SD+".AnchorFrom" || c.Path(ua[1], Env{f.Params[2]: "false"}) != SD+".AnchorUntil" {
				continue
			}
			for _, in := range findCalls(g, func(c2 *ssa.Call) bool { return isTV(c2) }) {
				_ = in
				combinedExpiry[g] = true
				combinedFns[g] = true
			}
		}
		chk := &GCheck{Name: "TimeValidator.Validate(signedData.AnchorFrom, expiry(signedData.AnchorFrom, signedData.AnchorUntil))", MatchCall: func(c *Ctx, call *ssa.Call, env Env) bool {
			if !isTV(call) {
				return false
			}
			a := call.Call.Args
			if c.Path(a[0], env) != SD+".AnchorFrom" {
				return false
			}
			uc, ok := a[1].(*ssa.Call)
			if !ok || uc.Call.StaticCallee() == nil || !inModule(uc.Call.StaticCallee()) {
				// the default expiry computed in the function that consults the validator: it was entered with the
				// signed (from, until) — decided below on the value it hands to the validator
				if h := call.Parent(); h != f && len(h.Params) >= 2 && combinedExpiry[h] {
					return true
				}
				return false
			}
			ua := declArgs(uc)
			if len(ua) != 2 || c.Path(ua[0], env) != SD+".AnchorFrom" || c.Path(ua[1], env) != SD+".AnchorUntil" {
				return false
			}
			untilCallee = uc.Call.StaticCallee()
			return true
		}}
		c.CheckGuard("C09.G1", "parse-"+typ+":time-validator|batch=false", f, Env{f.Params[2]: "false"}, chk)
		if untilCallee != nil {
			untilFns[untilCallee] = true
		}
		// batch mode: the validator is unreachable
		never := &GCheck{Name: "(nothing: the call must be unreachable)"}
		ok, w, _ := c.Guard(f, Env{f.Params[2]: "true"}, never, func(in ssa.Instruction) bool {
			cl, isC := in.(*ssa.Call)
			return isC && isTV(cl)
		})
		c.Check("C09.G1", "parse-"+typ+":no-time-validation|batch=true", ok, f.Pos(), "in batch mode (anchored operations) the server-time validator is not consulted", w...)
	}
	c.Min("C09.G1", 6)
	var ufs []*ssa.Function
	for u := range untilFns {
		ufs = append(ufs, u)
	}
	for u := range combinedFns {
		if untilFns[u] {
			continue
		}
		// a forwarder: it hands the validator the result of a shared expiry function already in the list, called with
		// its own (from, until) — the expiry is decided on that function
		fwd, nTV := true, 0
		for _, vc := range findCalls(u, isTimeValidate) {
			nTV++
			uc, ok := vc.Call.Args[1].(*ssa.Call)
			if !ok || uc.Call.StaticCallee() == nil || !untilFns[uc.Call.StaticCallee()] {
				fwd = false
				continue
			}
			ua := declArgs(uc)
			if len(ua) != 2 || c.Path(ua[0], nil) != c.Path(u.Params[len(u.Params)-2], nil) || c.Path(ua[1], nil) != c.Path(u.Params[len(u.Params)-1], nil) {
				fwd = false
			}
		}
		if fwd && nTV > 0 {
			continue
		}
		ufs = append(ufs, u)
	}
	sort.Slice(ufs, func(i, j int) bool { return ufs[i].String() < ufs[j].String() })
	for _, u := range ufs {
		var paths []opath
		var err error
		if combinedFns[u] {
			// the value handed to the validator as expiry, and the from it is handed with
			var fromOK = true
			for _, vc := range findCalls(u, isTimeValidate) {
				if c.Path(vc.Call.Args[0], nil) != c.Path(u.Params[len(u.Params)-2], nil) {
					fromOK = false
				}
			}
			c.Check("C09.G1", "parser:validator-receives-from", fromOK, u.Pos(), "the time validator is handed the signed from unchanged")
			paths, err = c.DecisionPathsToCall(u, map[int]string{len(u.Params) - 2: "F", len(u.Params) - 1: "U"}, func(call *ssa.Call) (bool, int) { return isTimeValidate(call), 1 })
		} else {
			paths, err = c.DecisionPaths(u, map[int]string{len(u.Params) - 2: "F", len(u.Params) - 1: "U"})
		}
		if err != nil {
			c.Check("C09.O1", "parser:expiry", false, u.Pos(), "cannot extract a decision tree: "+err.Error())
			continue
		}
		we := c.decideWindow("C09.O1", "parser:expiry", u, paths, true)
		var dts []string
		for d := range we.deltaTerm {
			dts = append(dts, d)
		}
		sort.Strings(dts)
		c.Check("C09.P1", "parser:delta-is-MaxOperationTimeDelta", len(dts) == 1 && dts[0] == "$0.Protocol.MaxOperationTimeDelta", u.Pos(), fmt.Sprintf("Δ in the parser's default expiry = %v (expected $0.Protocol.MaxOperationTimeDelta)", dts))
		fr := map[string]bool{}
		c.protocolFieldsRead(u, 0, map[*ssa.Function]bool{}, fr)
		var frs []string
		for k := range fr {
			frs = append(frs, k)
		}
		sort.Strings(frs)
		c.Check("C09.P1", "parser:no-other-protocol-parameter", eqStrs(frs, []string{"MaxOperationTimeDelta"}), u.Pos(), fmt.Sprintf("Protocol fields read by the parser's expiry computation: %v (expected only MaxOperationTimeDelta)", frs))
	}
	if len(ufs) != 1 {
		c.Check("C09.O1", "parser:expiry", false, token.NoPos, fmt.Sprintf("expected one shared expiry function in the parser, found %d", len(ufs)))
	}
	c.Min("C09.P1", 4)

	c.protocolReadOnlyRule("C09.K1")
	c.Min("C09.K1", 2)

	// ---- U1 the signed anchoring times are compared in one place only: the parser hands them to the configured time
	// validator (non-batch) and to nothing else — a consistency check of its own (say until >= from) refuses operations
	// that the applier is documented to degrade, for every ordering of (from, until, t)
	{
		var bad []string
		n := 0
		var follow func(f *ssa.Function, v ssa.Value, what string, seen map[ssa.Value]bool, d int)
		follow = func(f *ssa.Function, v ssa.Value, what string, seen map[ssa.Value]bool, d int) {
			if d > 6 || seen[v] || v.Referrers() == nil {
				return
			}
			seen[v] = true
			for _, r := range *v.Referrers() {
				switch x := r.(type) {
				case *ssa.UnOp, *ssa.Convert, *ssa.ChangeType, *ssa.MakeInterface, *ssa.Phi:
					follow(f, x.(ssa.Value), what, seen, d+1)
				case *ssa.BinOp:
					if isCmp(x.Op) {
						bad = append(bad, fmt.Sprintf("%s compared in %s at %s", what, short(f.String()), c.pos(x.Pos())))
					} else {
						follow(f, x, what, seen, d+1)
					}
				case *ssa.Store:
					if x.Val == v {
						follow(f, x.Addr, what, seen, d+1) // spilled local / variadic formatting
					}
				case *ssa.Call:
					g := x.Call.StaticCallee()
					if g != nil && inModule(g) && g.Blocks != nil && pkgPathOf(g) == modPkg+pParser {
						for i, a := range x.Call.Args {
							if a == v && i < len(g.Params) {
								follow(g, g.Params[i], what, seen, d+1)
							}
						}
					}
				}
			}
		}
		for _, f := range c.Funcs {
			if pkgPathOf(f) != modPkg+pParser {
				continue
			}
			forEachInstr(f, func(in ssa.Instruction) {
				fa, ok := in.(*ssa.FieldAddr)
				if !ok {
					return
				}
				fn := fieldName(fa.X.Type(), fa.Field)
				if fn != "AnchorFrom" && fn != "AnchorUntil" {
					return
				}
				if nt, isN := derefT(fa.X.Type()).(*types.Named); !isN || !strings.HasSuffix(nt.Obj().Name(), "SignedDataModel") {
					return
				}
				n++
				follow(f, fa, "signedData."+fn, map[ssa.Value]bool{}, 0)
			})
		}
		sort.Strings(bad)
		// the shared expiry function (default until = from + Δ) compares until with 0: that is the documented default
		var foreign []string
		for _, b := range bad {
			own := false
			for _, u := range ufs {
				if strings.Contains(b, " in "+short(u.String())+" at ") {
					own = true
				}
			}
			if !own {
				foreign = append(foreign, b)
			}
		}
		c.Check("C09.U1", "anchor-times-not-compared-by-the-parser", len(foreign) == 0 && n >= 2, 0, fmt.Sprintf("%d reads of signedData.AnchorFrom / AnchorUntil in the parser package; comparisons outside the default-expiry function: %v", n, foreign))
	}
	c.Min("C09.U1", 1)
	// ---- G3 "the configured time validator": the parser's validator fields are written by the constructor (the default)
	// and by their own option (the configured one, when it is not nil) — and by nothing else
	c.validatorFieldsRule("C09.G3", "anchorTimeValidator")
	// "the window depends on no protocol parameter other than the maximum operation time delta": every protocol field the
	// parser or the applier reads goes to its documented use and nowhere else (C07.K1) — a field read somewhere new (a
	// genesis-time guard in Apply) makes the verdict depend on it
	c.only(func(c *Ctx) { c.configSinks() }, "C07.K1")
	c.Min("C07.K1", 9)
	c.Min("C09.G3", 3)
	c.Assume("no int64 overflow in from + MaxOperationTimeDelta; anchoring times < 2^63; 'missing' bound = 0 as in the JSON model (omitempty)")
}

// protocolReadOnlyRule: the protocol parameters are what the caller configured: the parser and the applier only read them (a
// constructor that "fills in a default" for a zero MaxOperationTimeDelta changes the window for that configuration)
func (c *Ctx) protocolReadOnlyRule(rule string) {
	prot := c.NamedType("api/protocol", "Protocol")
	nW := c.protocolWrites(rule, c.Funcs, func(f *ssa.Function) bool {
		pp := pkgPathOf(f)
		return pp == modPkg+pParser || pp == modPkg+pApplier
	}, prot)
	c.Check(rule, "protocol-parameters-read-only", nW == 0 && prot != nil, 0, fmt.Sprintf("the operation parser and applier never assign a field of their protocol.Protocol (%d assignment(s))", nW))
	if w, err := buildWitness(c.Fset); err == nil {
		wc := c.witnessCtx()
		pt, _ := w.fns["protoWriteWitness"].Params[0].Type().(*types.Named)
		fired := wc.protocolWrites(rule, []*ssa.Function{w.fns["protoWriteWitness"]}, func(*ssa.Function) bool { return true }, pt)
		silent := wc.protocolWrites(rule, []*ssa.Function{w.fns["protoReadOK"]}, func(*ssa.Function) bool { return true }, pt)
		c.alive(rule, "a configuration field assigned a default", fired == 1, silent == 0)
	} else {
		c.Check(rule, "positive-example:build", false, 0, "built-in positive examples could not be built: "+err.Error())
	}
}

// validatorFieldsRule: who may write the named collaborator fields of operationparser.Parser, and what: the constructor
// New stores a default on every path (itself, or through a helper only New calls); the field's own option
// With<Field> stores the value it was given, behind a test that it is not nil; no other function writes the field.
// (An option that resets a field it is not about silently replaces the configured validator by the permissive default;
// an option that stores nil makes the parser dereference nil on the first request that reaches the validator.)
func (c *Ctx) validatorFieldsRule(rule string, fields ...string) {
	newFn := c.Fn(pParser, "New")
	pt := c.NamedType(pParser, "Parser")
	if newFn == nil || pt == nil {
		c.Unresolved(rule, "operationparser.New / Parser")
		return
	}
	c.Analysed(newFn)
	callers := func(g *ssa.Function) []*ssa.Function {
		var out []*ssa.Function
		for _, f := range c.Funcs {
			if len(callsTo(f, g)) > 0 {
				out = append(out, f)
			}
		}
		return out
	}
	for _, fld := range fields {
		optName := "With" + strings.ToUpper(fld[:1]) + fld[1:]
		var bad []string
		nNew, nOpt := 0, 0
		newOnAllPaths := false
		for _, f := range c.Funcs {
			if !strings.HasPrefix(pkgPathOf(f), modPkg) {
				continue
			}
			forEachInstr(f, func(in ssa.Instruction) {
				st, ok := in.(*ssa.Store)
				if !ok {
					return
				}
				fa, isFA := st.Addr.(*ssa.FieldAddr)
				if !isFA || fieldName(fa.X.Type(), fa.Field) != fld {
					return
				}
				if nt, isN := derefT(fa.X.Type()).(*types.Named); !isN || nt.Obj() != pt.Obj() {
					return
				}
				// where: New, a helper of New's alone, or the literal of the field's option
				host := f
				where := ""
				switch {
				case host == newFn:
					where = "new"
				case host.Parent() != nil && host.Parent().Name() == optName && host.Parent().Parent() == nil:
					where = "option"
				default:
					cs := callers(host)
					if host.Object() != nil && !host.Object().Exported() && len(cs) == 1 && cs[0] == newFn {
						where = "new"
					}
					// the option as a small struct with an apply method: With<Field> hands back the method value of a literal
					// whose member is the validator it was given
					if optFn := c.Fn(pParser, optName); where == "" && optFn != nil && host.Signature.Recv() != nil {
						forEachInstr(optFn, func(i2 ssa.Instruction) {
							if mc, isMC := i2.(*ssa.MakeClosure); isMC && funcValueOf(mc) == host && len(mc.Bindings) == 1 {
								vp := c.Path(st.Val, nil) // $0.<member> in the method's frame
								if strings.HasPrefix(vp, "$0.") {
									if tok := c.structLitArg(mc.Bindings[0], nil); tok != "" {
										if c.litField(tok, strings.TrimPrefix(vp, "$0.")) == "$0" {
											where = "option-method"
										}
									}
								}
							}
						})
					}
				}
				if where == "" {
					bad = append(bad, fmt.Sprintf("%s: %s writes Parser.%s (only New and %s may)", c.pos(st.Pos()), short(f.String()), fld, optName))
					return
				}
				// what: a value that is not nil
				nonNil := false
				if mi, isMI := st.Val.(*ssa.MakeInterface); isMI {
					if _, isAl := mi.X.(*ssa.Alloc); isAl {
						nonNil = true
					}
				}
				if !nonNil {
					vp := c.Path(st.Val, nil)
					if okG, _, n := c.Guard(f, nil, cmpReject(vp+" == nil kept out", token.EQL, pathIs(vp), pathIs("nil")), func(i ssa.Instruction) bool { return i == ssa.Instruction(st) }); okG && n > 0 {
						nonNil = true
					}
				}
				// (or the option constructor tests its argument before it makes the closure that stores it)
				capt := st.Val
				if ld, isLd := capt.(*ssa.UnOp); isLd && ld.Op == token.MUL {
					capt = ld.X // (a variable captured through its cell)
				}
				if fv, isFV := capt.(*ssa.FreeVar); isFV && !nonNil && f.Parent() != nil {
					par := f.Parent()
					forEachInstr(par, func(i2 ssa.Instruction) {
						mc, isMC := i2.(*ssa.MakeClosure)
						if !isMC || mc.Fn != ssa.Value(f) {
							return
						}
						for bi, b := range mc.Bindings {
							if bi < len(f.FreeVars) && f.FreeVars[bi] == fv {
								bp := c.Path(b, nil)
								if al, isAl := b.(*ssa.Alloc); isAl {
									if s1 := singleStore(al); s1 != nil {
										bp = c.Path(s1.Val, nil)
									}
								}
								if okG, _, n := c.Guard(par, nil, cmpReject(bp+" == nil kept out", token.EQL, pathIs(bp), pathIs("nil")), func(i ssa.Instruction) bool { return i == ssa.Instruction(mc) }); okG && n > 0 {
									nonNil = true
								}
							}
						}
					})
				}
				if !nonNil {
					bad = append(bad, fmt.Sprintf("%s: %s stores a value that may be nil into Parser.%s", c.pos(st.Pos()), short(f.String()), fld))
				}
				if where == "new" {
					nNew++
					// on every path of New: the store (or the call of the helper that makes it) dominates New's exits
					at := ssa.Instruction(st)
					if host != newFn {
						for _, cl := range callsTo(newFn, host) {
							at = cl
						}
					}
					dom := true
					for _, r := range returnsOf(newFn) {
						if !at.Block().Dominates(r.Block()) {
							dom = false
						}
					}
					newOnAllPaths = newOnAllPaths || dom
				} else {
					nOpt++
					// (the option stores what it was given: its captured argument)
					if where == "option-method" {
						where = "option"
					} else if where == "option" && c.Path(st.Val, nil) != "up:$0" {
						bad = append(bad, fmt.Sprintf("%s: %s stores %s instead of the validator it was given", c.pos(st.Pos()), optName, c.Path(st.Val, nil)))
					}
				}
			})
		}
		c.Check(rule, "Parser."+fld+":written-by-New-and-its-own-option-only", len(bad) == 0, newFn.Pos(), fmt.Sprintf("Parser.%s: %d store(s) in New, %d in %s; none elsewhere, none of a possibly nil value", fld, nNew, nOpt, optName), bad...)
		c.Check(rule, "Parser."+fld+":default-on-every-path-of-New", nNew >= 1 && newOnAllPaths, newFn.Pos(), "New installs a default "+fld+" on every path")
		c.Check(rule, "Parser."+fld+":own-option-stores-it", nOpt == 1, newFn.Pos(), fmt.Sprintf("%s stores the validator it is given (%d store(s))", optName, nOpt))
	}
}
