package main

import (
	"fmt"
	"go/constant"
	"go/token"
	"go/types"
	"os"
	"regexp"
	"sort"
	"strconv"
	"strings"

	"golang.org/x/tools/go/ssa"
)

func init() {
	props["C10"] = &propDef{extraPkgs: []string{jsonPatchPkg}, run: runC10, explanation: "Partial (thin): the list algebra itself (insert-or-replace keeping order, set union/difference, RFC 6902 semantics, id uniqueness) is value-level and NOT decided. Decided statically: (T1) the action tables agree — keys of patch.actionConfig = case constants of patchvalidator.Validate = case constants of the composer's dispatch = the eight patch.Action constants, each composer case calls its own handler and anything else is an error; (E1) handler write-sets — the key/service/also-known-as handlers write exactly their own member of the working document, replace builds a fresh document with exactly the two members taken from the replace document's publicKeys/services, ietf-json-patch returns the library output re-parsed; (P1) ApplyPatches is a left fold: deep copy of the document parameter, then one loop over the patches parameter in index order threading the result, the final result returned; (X2) sibling decision skeletons — for every append/update site in a handler's loop, which collection is iterated (document vs patch value), which collection the membership set is built from, the polarity of the membership test and what is appended; the three remove-handlers, the two keyed add-handlers and add-also-known-as must each match the documented skeleton (this catches an inverted keep condition, a dropped replace branch, a wrong source collection). Every handler loop visits every element: the only way out of a top-level loop body is an error return (a break drops the remaining entries). RFC 6902 operations are a left fold of the library's Apply over the document bytes (nothing else produces the running bytes, every successful exit returns them), and the applying function refuses only what the library refuses or a copy of a value into itself. Every list handler writes the rebuilt list back into the document on every accepting path. The copy guard lets an operation through exactly when from has at least as many tokens as path (three orderings). Replace-by-id searches every index of the list. Token unescape order of the copy guard; list accessors hand back every entry; (Document).Bytes reaches json.Marshal / Unmarshal only; document accessors read the member the composer writes; nothing else writes the running document of the fold. The fold rule runs C19.G and C19.H (composer); entries of add / replace patches are stored as they are. Set builders keep every element; every operation's verdict is heeded. The library's copy / move must add at the destination (known finding D15). A computed capacity of make in the composer is held to the rule for lengths (C19.M)."}
	props["C14"] = &propDef{extraPkgs: []string{jsonPatchPkg}, run: runC14, explanation: "Partial (thin): document→patches→document and bytes round trips are value-level and NOT decided. Decided statically: (X1) each of the eight patch constructors stores ActionKey = its action and exactly one value under actionConfig[action]; (G1) FromBytes succeeds only across GetAction and GetValue of the decoded patch; GetValue looks up actionConfig[own action] and requires that member; GetAction admits only string-typed actions present in actionConfig; (T1) PatchesFromDocument maps publicKey / service / alsoKnownAs to their constructors and every other member to one combined ietf-json-patch 'add /<name>', visits members in sorted order, and succeeds only for documents without an id; (P1) Bytes() serialises the receiver itself; (J1) in the functions reachable from PatchesFromDocument no list separator is written under a loop-index test while the elements are written conditionally (hand-assembled JSON). (K2) every JSON decode in the patch and document packages is a plain encoding/json.Unmarshal; (X3) the json-patch fold and closed-refusal rules of C10. (K3) format strings in pkg/patch are constants; the validator's duplicate test for also-known-as URIs compares the URI's own text. Every constructor stores its value with a generic-JSON dynamic type. A constructor's value is built with decoding and conversion only; the composer stores patch entries' objects as they are. All of C10 and C13 run inside this check; GetAction hands back the action member as it stands. The add-operation text is checked in concatenation form."}
}

func (c *Ctx) actionConsts() map[string]string {
	out := map[string]string{}
	for _, n := range []string{"Replace", "AddPublicKeys", "RemovePublicKeys", "AddServiceEndpoints", "RemoveServiceEndpoints", "JSONPatch", "AddAlsoKnownAs", "RemoveAlsoKnownAs"} {
		if v, ok := c.ConstVal("patch", n); ok {
			out[unquote(v)] = n
		}
	}
	return out
}

func runC10(c *Ctx) {
	acts := c.actionConsts()
	var want []string
	for a := range acts {
		want = append(want, a)
	}
	sort.Strings(want)
	c.Check("C10.T1", "action-constants", len(want) == 8, 0, fmt.Sprintf("patch.Action constants %v", want))
	// ---- T1
	acTable, _ := c.actionValueKeys()
	ac := keysOf(acTable)
	c.Check("C10.T1", "actionConfig-keys", eqStrs(ac, want), 0, fmt.Sprintf("actionConfig keys %v", ac))
	pvV := c.Fn(pPV, "Validate")
	apf := c.Fn(pComposer, "applyPatch")
	if pvV == nil || apf == nil {
		c.Unresolved("C10.T1", "patchvalidator.Validate / doccomposer.applyPatch")
		return
	}
	tblKeys := func(f *ssa.Function) (map[string]*ssa.BasicBlock, []string) {
		t := c.caseTable(f, nil, func(p string) bool { return strings.Contains(p, ").GetAction(") })
		var ks []string
		for k := range t {
			ks = append(ks, unquote(k))
		}
		sort.Strings(ks)
		return t, ks
	}
	_, vk := tblKeys(pvV)
	if len(vk) == 0 {
		// the validator dispatch written as a package-level table action -> validation function
		if dv := c.dispatch(pvV, func(p string) bool { return strings.Contains(p, ").GetAction(") }); dv.table {
			for k := range dv.arms {
				vk = append(vk, unquote(k))
			}
			sort.Strings(vk)
			foundOnly, callReq := c.tableGuards(dv)
			c.Check("C10.T1", "validator-table:verdict-returned", foundOnly && callReq, pvV.Pos(), "Validate succeeds only for an action present in the table and only when the table's validation function succeeded")
		}
	}
	cdv := c.dispatch(apf, func(p string) bool { return strings.Contains(p, ").GetAction(") })
	var ck []string
	for k := range cdv.arms {
		ck = append(ck, unquote(k))
	}
	sort.Strings(ck)
	c.Check("C10.T1", "validator-cases", eqStrs(vk, want), pvV.Pos(), fmt.Sprintf("patchvalidator.Validate cases %v", vk))
	c.Check("C10.T1", "composer-cases", eqStrs(ck, want), apf.Pos(), fmt.Sprintf("composer dispatch cases %v", ck))
	handlers := map[string]*ssa.Function{}
	distinct := map[*ssa.Function]bool{}
	okDistinct := true
	isVal := func(p string) bool { return strings.HasSuffix(p, ").GetValue($1)#0") }
	for _, k := range ck {
		a := cdv.arms[`"`+k+`"`]
		for _, ac := range c.armCalls(cdv, a) {
			g := ac.callee
			if !inModule(g) {
				continue
			}
			handlers[k] = g
			if distinct[g] {
				okDistinct = false
			}
			distinct[g] = true
			// argument shape: (doc, value) or (value) for replace
			okArgs := (len(ac.args) == 2 && ac.args[0] == "$0" && isVal(ac.args[1])) || (len(ac.args) == 1 && isVal(ac.args[0]))
			// a literal wrapper in a table must hand the handler's results straight back
			if ac.call != nil && a.fn != nil {
				for _, r := range returnsOf(a.fn) {
					for _, rv := range r.Results {
						if ex, isEx := rv.(*ssa.Extract); !isEx || ex.Tuple != ssa.Value(ac.call) {
							okArgs = false
						}
					}
				}
			}
			c.Check("C10.T1", "composer:"+k+":args", okArgs, apf.Pos(), "handler receives the working document and the patch's own value")
			break
		}
	}
	c.Check("C10.T1", "composer:distinct-handlers", okDistinct && len(handlers) == 8, apf.Pos(), fmt.Sprintf("%d cases dispatch to %d distinct handlers", len(cdv.arms), len(distinct)))
	// fall-through => error
	if cdv.table {
		foundOnly, callReq := c.tableGuards(cdv)
		okRet := true
		for _, r := range returnsOf(apf) {
			if !maySucceed(r) {
				continue
			}
			for i, rv := range r.Results {
				if ex, isEx := rv.(*ssa.Extract); !isEx || ex.Tuple != ssa.Value(cdv.site) || ex.Index != i {
					okRet = false
				}
			}
		}
		c.Check("C10.T1", "composer:unknown-action-error", foundOnly && callReq && okRet, apf.Pos(), "an action outside the table yields an error; the handler's results are returned unchanged")
	} else {
		cut := map[edge]bool{}
		forEachInstr(apf, func(in ssa.Instruction) {
			if bo, ok := in.(*ssa.BinOp); ok && bo.Op == token.EQL && strings.Contains(c.Path(bo.X, nil), ").GetAction(") {
				for _, e := range boolEdges(bo, true) {
					cut[e] = true
				}
			}
		})
		seen := reach(apf.Blocks[0], cut)
		ok := true
		for b := range seen {
			if r, isR := b.Instrs[len(b.Instrs)-1].(*ssa.Return); isR && maySucceed(r) {
				ok = false
			}
		}
		c.Check("C10.T1", "composer:unknown-action-error", ok, apf.Pos(), "an action outside the eight cases yields an error")
	}
	c.Min("C10.T1", 14)

	// ---- E1 write sets
	pkP, _ := c.ConstVal("document", "PublicKeyProperty")
	svP, _ := c.ConstVal("document", "ServiceProperty")
	akP, _ := c.ConstVal("document", "AlsoKnownAs")
	wantW := map[string]string{"add-public-keys": pkP, "remove-public-keys": pkP, "add-services": svP, "remove-services": svP, "add-also-known-as": akP, "remove-also-known-as": akP}
	for a, key := range wantW {
		h := handlers[a]
		if h == nil {
			c.Unresolved("C10.E1", "handler for "+a)
			continue
		}
		c.Analysed(h)
		var ws []string
		other := 0
		forEachInstr(h, func(in ssa.Instruction) {
			if mu, ok := in.(*ssa.MapUpdate); ok {
				if c.Path(mu.Map, nil) == "$0" {
					ws = append(ws, c.Path(mu.Key, nil))
				}
			}
			if cl, ok := in.(*ssa.Call); ok {
				if b, isB := cl.Call.Value.(*ssa.Builtin); isB && b.Name() == "delete" && c.Path(cl.Call.Args[0], nil) == "$0" {
					other++
				}
			}
		})
		okRet := true
		for _, r := range successReturns(h) {
			if c.Path(r.Results[0], nil) != "$0" {
				okRet = false
			}
		}
		c.Check("C10.E1", a+":write-set", len(ws) == 1 && ws[0] == key && other == 0 && okRet, h.Pos(), fmt.Sprintf("%s writes document members %v (expected exactly %s) and returns the working document", h.Name(), ws, key))
	}
	if h := handlers["replace"]; h != nil {
		c.Analysed(h)
		got := map[string]string{}
		fresh := true
		forEachInstr(h, func(in ssa.Instruction) {
			if mu, ok := in.(*ssa.MapUpdate); ok {
				if _, isMM := mu.Map.(*ssa.MakeMap); !isMM {
					fresh = false
				}
				got[c.Path(mu.Key, nil)] = c.Path(mu.Value, nil)
			}
		})
		okR := fresh && len(got) == 2 && strings.HasSuffix(got[pkP], `["publicKeys"]`) && strings.HasSuffix(got[svP], `["services"]`) && strings.Contains(got[pkP], "ReplaceDocumentFromBytes(")
		c.Check("C10.E1", "replace:fresh-document", okR, h.Pos(), fmt.Sprintf("replace builds a fresh document %v", got))
	} else {
		c.Unresolved("C10.E1", "handler for replace")
	}
	if h := handlers["ietf-json-patch"]; h != nil {
		t := ""
		for _, r := range successReturns(h) {
			t = c.InlPath(r.Results[0], nil)
		}
		ok := strings.HasPrefix(t, "document.FromBytes(") && strings.Contains(t, "json-patch") && strings.Contains(t, "(document.Document).Bytes($0)")
		c.Check("C10.E1", "ietf-json-patch:library-output-reparsed", ok, h.Pos(), "result = "+t)
		// … and nothing else: the handler and its helpers store nothing into the re-parsed document (a member "carried
		// over" from the previous document appears as null where it was absent)
		var writes []string
		for _, g := range append([]*ssa.Function{h}, c.helpersOf(h, 2)...) {
			forEachInstr(g, func(in ssa.Instruction) {
				if mu, isMU := in.(*ssa.MapUpdate); isMU && (typeShort(mu.Map.Type()) == "document.Document" || strings.HasPrefix(c.Path(mu.Map, nil), "document.FromBytes(")) {
					writes = append(writes, short(g.String())+" at "+c.pos(mu.Pos())+": "+c.Path(mu.Map, nil)+"["+c.Path(mu.Key, nil)+"]")
				}
			})
		}
		c.Check("C10.E1", "ietf-json-patch:result-not-written", len(writes) == 0, h.Pos(), "the ietf-json-patch handler stores nothing into the document it returns", writes...)
		// the document handed to the JSON-patch library is written by encoding/json's Marshal — the encoder the patch is
		// written with: the library compares scalar values of a `test` operation byte for byte, so a second spelling of
		// the same text (HTML escaping switched off on one side) turns an applicable patch away
		if db := c.Method("document", "Document", "Bytes"); db != nil {
			ext := map[string]bool{}
			for _, g := range append([]*ssa.Function{db}, c.reachableModuleFuncs([]*ssa.Function{db})...) {
				forEachInstr(g, func(in ssa.Instruction) {
					if cl, ok := in.(*ssa.Call); ok {
						if x := cl.Call.StaticCallee(); x != nil && !inModule(x) {
							ext[x.String()] = true
						}
					}
				})
			}
			var other []string
			for n := range ext {
				if n != "encoding/json.Marshal" && n != "encoding/json.Unmarshal" {
					other = append(other, n)
				}
			}
			sort.Strings(other)
			c.Check("C10.E1", "ietf-json-patch:document-written-by-json.Marshal", ext["encoding/json.Marshal"] && len(other) == 0, db.Pos(), fmt.Sprintf("(Document).Bytes reaches encoding/json.Marshal / Unmarshal only (others: %v)", other))
		} else {
			c.Unresolved("C10.E1", "(document.Document).Bytes")
		}
		// … and read back by the document package's decoders as it is: what FromBytes hands back is the decoded map,
		// nothing removed or put in (a member dropped because its value is null cannot be removed or moved by the next
		// JSON patch, which the library then refuses)
		for _, fn := range []string{"FromBytes", "DidDocumentFromBytes", "ReplaceDocumentFromBytes"} {
			fb := c.Fn("document", fn)
			if fb == nil {
				c.Unresolved("C10.E1", "document."+fn)
				continue
			}
			var writes []string
			for _, g := range append([]*ssa.Function{fb}, c.helpersOf(fb, 1)...) {
				if pkgPathOf(g) != pkgPathOf(fb) {
					continue
				}
				forEachInstr(g, func(in ssa.Instruction) {
					switch x := in.(type) {
					case *ssa.MapUpdate:
						writes = append(writes, c.pos(x.Pos())+": map update")
					case *ssa.Call:
						if b, isB := x.Call.Value.(*ssa.Builtin); isB && (b.Name() == "delete" || b.Name() == "clear") {
							writes = append(writes, c.pos(x.Pos())+": "+b.Name())
						}
					}
				})
			}
			c.Check("C10.E1", "document."+fn+":decoded-as-it-is", len(writes) == 0, fb.Pos(), "document."+fn+" hands back the decoded document without removing or adding members", writes...)
		}
	} else {
		c.Unresolved("C10.E1", "handler for ietf-json-patch")
	}
	c.Min("C10.E1", 9)

	// ---- P1 left fold
	c.applyPatchesFoldRule("C10.P1")
	c.jsonPatchFoldRule("C10.P1")
	c.listAccessorLoopsRule("C10.P1")
	c.setBuildersRule("C10.P1")
	c.Min("C10.P1", 11)

	c.composerSkeletons("C10.X2", handlers)
	// "add installs the entry": the JSON-LD object of each patch entry goes into the rebuilt list as it is (a copying
	// helper on the way can reshape it — drop a boolean, turn an empty list into null)
	c.entriesStoredRule("C10.X2")
	c.Min("C10.X2", 13)
	c.Assume("the documented per-action skeletons are encoded in c10c14.go from the property statement; element-level semantics of the RFC 6902 library are outside the claim")
	// the handlers read the document's keys and services through the document package's accessors: each reads the member
	// the composer writes, and nothing else of the document
	c.documentAccessorRule()
}

func runC14(c *Ctx) {
	// "document -> patches -> document" goes through the composer (all of C10: what the handlers and the JSON-patch
	// handler write), and "patches produced by the constructors pass validation" through the validators (all of C13:
	// the limits are exactly the documented ones — an id of exactly 50 characters is valid)
	c.apart(runC10)
	c.apart(runC13)
	acts := c.actionConsts()
	cfg, cfgFn := c.actionValueKeys()
	ctor := map[string]string{"replace": "NewReplacePatch", "ietf-json-patch": "NewJSONPatch", "add-public-keys": "NewAddPublicKeysPatch", "remove-public-keys": "NewRemovePublicKeysPatch", "add-services": "NewAddServiceEndpointsPatch", "remove-services": "NewRemoveServiceEndpointsPatch", "add-also-known-as": "NewAddAlsoKnownAs", "remove-also-known-as": "NewRemoveAlsoKnownAs"}
	// ---- X1
	for a := range acts {
		f := c.Fn("patch", ctor[a])
		if f == nil {
			c.Unresolved("C14.X1", "patch."+ctor[a])
			continue
		}
		c.Analysed(f)
		// the patch a constructor returns: a map built in place, or by a module helper from its arguments
		ups := map[string]string{}
		n := 0
		okRet := len(successReturns(f)) > 0
		for _, r := range successReturns(f) {
			lit, cnt, isLit := c.patchLiteral(r.Results[0], nil, 0)
			if !isLit {
				okRet = false
				continue
			}
			if n != 0 && fmt.Sprint(lit) != fmt.Sprint(ups) {
				okRet = false
			}
			ups, n = lit, cnt
		}
		wantKey := cfg[a]
		_, hasVal := ups[wantKey]
		ok := n == 2 && ups["action"] == a && hasVal
		c.Check("C14.X1", ctor[a], ok && okRet, f.Pos(), fmt.Sprintf("%s stores action=%q and exactly one value under %q (stores: %v)", ctor[a], ups["action"], wantKey, keysOf(ups)))
		// the value is stored in the shape a decoded patch has it (generic JSON: []interface{} / map[string]interface{}):
		// the validators and the composer take the value apart by those types, so a typed slice is "not an array"
		// … and it is what the caller wrote: between the input text and the stored value there is decoding and type
		// conversion only — no library that rewrites content (a URI re-serialised by net/url comes back percent-encoded,
		// lower-cased or without an empty fragment)
		{
			ext := map[string]bool{}
			seenF := map[*ssa.Function]bool{}
			var scan func(g *ssa.Function, d int)
			scan = func(g *ssa.Function, d int) {
				if g == nil || seenF[g] || d > 3 || g.Blocks == nil {
					return
				}
				seenF[g] = true
				forEachInstr(g, func(in ssa.Instruction) {
					cl, isC := in.(*ssa.Call)
					if !isC {
						return
					}
					h := cl.Call.StaticCallee()
					if h == nil {
						return
					}
					if inModule(h) {
						// validation helpers of the constructor do not feed the value; helpers of pkg/patch and the document
						// decoders may
						if strings.HasSuffix(pkgPathOf(h), "/patch") || strings.HasSuffix(pkgPathOf(h), "/document") {
							scan(h, d+1)
						}
						return
					}
					if o := h.Origin(); o != nil {
						h = o
					}
					ext[pkgPathOf(h)] = true
				})
			}
			scan(f, 0)
			var foreign []string
			for p := range ext {
				switch p {
				case "encoding/json", "fmt", "errors", "sort", "slices", "maps", "strconv":
				default:
					foreign = append(foreign, p)
				}
			}
			sort.Strings(foreign)
			c.Check("C14.X1", ctor[a]+":value-only-decoded", len(foreign) == 0, f.Pos(), fmt.Sprintf("%s builds its value with decoding and conversion only (other libraries in its call tree: %v)", ctor[a], foreign))
		}
		vt := ups["type:"+wantKey]
		c.Check("C14.X1", ctor[a]+":generic-json-value", vt == "[]interface{}" || vt == "map[string]interface{}" || vt == "[]any" || vt == "map[string]any" || vt == "json", f.Pos(), fmt.Sprintf("%s stores a value of dynamic type %q under %q (expected generic JSON, as json.Unmarshal produces)", ctor[a], vt, wantKey))
	}
	c.Min("C14.X1", 24)

	c.patchFormatConstRule("C14.K3")
	c.Min("C14.K3", 1)
	// the validator's duplicate test for also-known-as URIs compares the URI's own text (C13.U2): a valid document's list
	// is not refused as containing duplicates
	if sp := c.SPkg[modPkg+pPV]; sp != nil {
		if t := sp.Type("AlsoKnownAsValidator"); t != nil {
			if akaV := c.Method(pPV, "AlsoKnownAsValidator", "Validate"); akaV != nil {
				c.alsoKnownAsKeyRule("C14.K3", akaV, "")
			}
		}
	}

	// ---- G1
	c.patchAccessorRules(cfgFn)
	c.Min("C14.G1", 10)

	// ---- T1
	pfd := c.Fn("patch", "PatchesFromDocument")
	if pfd == nil {
		c.Unresolved("C14.T1", "patch.PatchesFromDocument")
	} else {
		c.Analysed(pfd)
		tbl, _, _, _ := c.caseTableTree(pfd, func(p string) bool { return strings.HasSuffix(p, "[ι]") })
		got := map[string]string{}
		for k, blk := range tbl {
			for _, cl := range callsIn(blk) {
				if g := cl.Call.StaticCallee(); g != nil && inModule(g) {
					got[unquote(k)] = g.Name()
				}
			}
		}
		want := map[string]string{"publicKey": "NewAddPublicKeysPatch", "service": "NewAddServiceEndpointsPatch", "alsoKnownAs": "NewAddAlsoKnownAs"}
		ok := len(got) == 3
		for k, v := range want {
			if got[k] != v {
				ok = false
			}
		}
		c.Check("C14.T1", "member->constructor", ok, pfd.Pos(), fmt.Sprintf("document member -> constructor table %v", got))
		// other members: template add "/<name>"
		// (what the member loop appends to the list of operation texts: `{ "op": "add", "path": "/` ++ name ++ `", "value": `
		// ++ the member's JSON ++ ` }`, white space aside — by format string or by concatenation, here or in a helper)
		{
			var forms []string
			okT := true
			forEachInstr(pfd, func(in ssa.Instruction) {
				cl, isC := in.(*ssa.Call)
				if !isC {
					return
				}
				var els []ssa.Value
				if bi, isB := cl.Call.Value.(*ssa.Builtin); isB && bi.Name() == "append" && types.TypeString(cl.Type().Underlying(), nil) == "[]string" {
					vs, okV := c.varargValues(cl.Call.Args[1])
					if !okV {
						return
					}
					els = vs
				} else if g := cl.Call.StaticCallee(); g != nil && (g.String() == "(*strings.Builder).WriteString" || g.String() == "(*bytes.Buffer).WriteString") && len(cl.Call.Args) == 2 {
					// (or written into a builder, text by text)
					els = []ssa.Value{cl.Call.Args[1]}
				} else {
					return
				}
				for _, e := range els {
					f := c.concatForm(e, nil)
					parts := strings.Split(f, " ++ ")
					if len(parts) != 5 || !strings.HasPrefix(parts[0], `"`) {
						continue // (another list of texts: the sorted keys, …)
					}
					forms = append(forms, f)
					lit := func(p string) string {
						u, err := strconv.Unquote(p)
						if err != nil {
							return "?"
						}
						return strings.Join(strings.Fields(u), "")
					}
					if lit(parts[0]) != `{"op":"add","path":"/` || lit(parts[2]) != `","value":` || lit(parts[4]) != `}` {
						okT = false
					}
					// (the name is the member's key, the value the JSON of the document's member under that very key)
					if !strings.HasSuffix(parts[1], "[ι]") || !strings.HasPrefix(parts[3], "conv<string>(encoding/json.Marshal(document.FromBytes(") || !strings.HasSuffix(parts[3], "#0["+parts[1]+"])#0)") {
						okT = false
					}
				}
			})
			// … or written into a builder with Fprintf and a constant format of %s verbs only (a []byte printed with %s is
			// its text)
			forEachInstr(pfd, func(in ssa.Instruction) {
				cl, isC := in.(*ssa.Call)
				if !isC || cl.Call.StaticCallee() == nil || cl.Call.StaticCallee().String() != "fmt.Fprintf" || len(cl.Call.Args) != 3 {
					return
				}
				k, isK := cl.Call.Args[1].(*ssa.Const)
				args, okV := c.varargValues(cl.Call.Args[2])
				if !isK || k.Value == nil || k.Value.Kind() != constant.String || !okV {
					return
				}
				segs := strings.Split(constant.StringVal(k.Value), "%s")
				if len(segs) != 3 || len(args) != 2 || strings.Contains(strings.Join(segs, ""), "%") {
					return
				}
				var parts []string
				for i, sg := range segs {
					parts = append(parts, strconv.Quote(sg))
					if i < len(args) {
						a := args[i]
						if mi, isMI := a.(*ssa.MakeInterface); isMI {
							a = mi.X
						}
						p := c.Path(a, nil)
						if isBytesT(a.Type()) {
							p = "conv<string>(" + p + ")"
						}
						parts = append(parts, p)
					}
				}
				forms = append(forms, strings.Join(parts, " ++ "))
				lit := func(p string) string {
					u, err := strconv.Unquote(p)
					if err != nil {
						return "?"
					}
					return strings.Join(strings.Fields(u), "")
				}
				if lit(parts[0]) != `{"op":"add","path":"/` || lit(parts[2]) != `","value":` || lit(parts[4]) != `}` {
					okT = false
				}
				if !strings.HasSuffix(parts[1], "[ι]") || !strings.HasPrefix(parts[3], "conv<string>(encoding/json.Marshal(document.FromBytes(") || !strings.HasSuffix(parts[3], "#0["+parts[1]+"])#0)") {
					okT = false
				}
			})
			c.Check("C14.T1", "other-members:add-template", okT && len(forms) == 1, pfd.Pos(), fmt.Sprintf("operation text appended per other member: %v", forms))
		}
		nj := 0
		for _, cl := range callsTo(pfd, c.Fn("patch", "NewJSONPatch")) {
			nj++
			_ = cl
		}
		c.Check("C14.T1", "other-members:one-combined-json-patch", nj == 1, pfd.Pos(), fmt.Sprintf("%d NewJSONPatch call(s) outside the member loop", nj))
		// sorted order
		sk := c.Fn("patch", "sortedKeys")
		okSorted := false
		if sk != nil {
			for _, cl := range callsTo(pfd, sk) {
				if strings.HasPrefix(c.Path(cl.Call.Args[0], nil), "document.FromBytes(") {
					okSorted = true
				}
			}
			hasSort := false
			forEachInstr(sk, func(in ssa.Instruction) {
				if cl, ok := in.(*ssa.Call); ok && cl.Call.StaticCallee() != nil {
					g := cl.Call.StaticCallee()
					if o := g.Origin(); o != nil {
						g = o
					}
					// sort.Strings and slices.Sort order strings the same way (ascending, byte-wise)
					if n := g.String(); n == "sort.Strings" || (n == "slices.Sort" && len(cl.Call.Args) == 1 && types.TypeString(cl.Call.Args[0].Type().Underlying(), nil) == "[]string") {
						hasSort = true
					}
				}
			})
			okSorted = okSorted && hasSort
		}
		c.Check("C14.T1", "members-visited-in-sorted-order", okSorted, pfd.Pos(), "members are visited in the order of sort.Strings over the parsed document's keys")
		c.CheckGuard("C14.T1", "id-refused", pfd, nil, cmpReject(`doc.ID() != "" rejected`, token.NEQ, func(s string) bool { return strings.HasPrefix(s, "(document.Document).ID(") }, pathIs(`""`)))
	}
	c.Min("C14.T1", 5)

	// ---- P1
	if b := c.Method("patch", "Patch", "Bytes"); b != nil {
		t := ""
		for _, r := range returnsOf(b) {
			t = c.Path(r.Results[0], nil)
		}
		c.Check("C14.P1", "Bytes:serialises-receiver", strings.HasPrefix(t, "util/json.MarshalCanonical($0)"), b.Pos(), "Bytes() = "+t)
	} else {
		c.Unresolved("C14.P1", "(patch.Patch).Bytes")
	}
	c.Min("C14.P1", 1)

	// ---- X2 the patches produced from a document are applied by the add-handlers: their decision skeletons
	// (insert-or-replace by id within the handler's own list) are part of this check
	c.composerSkeletons("C14.X2", c.composerHandlers())
	c.entriesStoredRule("C14.X2")
	c.Min("C14.X2", 13)
	// ---- K2 one decoder: a patch built by a constructor, the same patch parsed back from its bytes, and the document it
	// is applied to must agree on how JSON values are represented (numbers as float64, objects as maps): every decode in
	// the patch and document packages is a plain encoding/json.Unmarshal — no Decoder options (UseNumber, ...)
	{
		idioms := map[string]int{}
		n := 0
		for _, rel := range []string{"patch", "document"} {
			sp := c.SPkg[modPkg+rel]
			if sp == nil {
				c.Unresolved("C14.K2", "package "+rel)
				continue
			}
			for _, f := range allFuncs(sp) {
				forEachInstr(f, func(in ssa.Instruction) {
					cl, ok := in.(*ssa.Call)
					if !ok || cl.Call.StaticCallee() == nil {
						return
					}
					g := cl.Call.StaticCallee()
					if g.Pkg == nil || !strings.HasSuffix(g.Pkg.Pkg.Path(), "json") || g.Pkg.Pkg.Path() == modPkg+"util/json" {
						return
					}
					switch g.Name() {
					case "Unmarshal", "Decode", "UseNumber", "DisallowUnknownFields", "NewDecoder":
						n++
						idioms[g.String()]++
					}
				})
			}
		}
		var other []string
		for k := range idioms {
			if k != "encoding/json.Unmarshal" {
				other = append(other, k)
			}
		}
		sort.Strings(other)
		c.Check("C14.K2", "one-json-decoder", n > 0 && len(other) == 0, 0, fmt.Sprintf("%d decode call(s) in the patch and document packages, all encoding/json.Unmarshal (others: %v)", n, other))
	}
	c.Min("C14.K2", 1)
	// the combined ietf-json-patch produced from a document is applied by the library, and by nothing else
	c.jsonPatchFoldRule("C14.X3")
	c.Min("C14.X3", 2)
	// ---- J1 hand-assembled JSON lists (PatchesFromDocument formats RFC 6902 operations from a text template):
	// a separator written under a test of the loop index is only right when every iteration writes an element
	if pfd := c.Fn("patch", "PatchesFromDocument"); pfd != nil {
		fs := c.reachableModuleFuncs([]*ssa.Function{pfd})
		nLoops, bad := 0, 0
		for _, f := range fs {
			n, sites := c.indexGuardedSeparators(f)
			nLoops += n
			for _, in := range sites {
				bad++
				c.Check("C14.J1", short(f.String())+": separator written by loop index", false, instrPos(in), "a list separator is written under a test of the loop index while the element itself is written only on some iterations (filtered / switched): the first written element can be preceded by a separator, or two elements left unseparated — the assembled JSON does not parse")
			}
		}
		c.Check("C14.J1", "PatchesFromDocument:list-separators", bad == 0 && nLoops > 0, pfd.Pos(), fmt.Sprintf("%d functions reachable from PatchesFromDocument, %d loops inspected: no separator constant is written under a loop-index test in a loop that writes its elements conditionally", len(fs), nLoops))
	} else {
		c.Unresolved("C14.J1", "patch.PatchesFromDocument")
	}
	if w, err := buildWitness(c.Fset); err == nil {
		_, pos := c.indexGuardedSeparators(w.fns["sepWitness"])
		_, neg := c.indexGuardedSeparators(w.fns["sepOK"])
		c.alive("C14.J1", "separator by loop index with conditional elements", len(pos) > 0, len(neg) == 0)
	} else {
		c.Check("C14.J1", "positive-example:build", false, 0, "built-in positive examples could not be built: "+err.Error())
	}
	c.Min("C14.J1", 2)
	c.Assume("round-trip equalities are value-level and not decided")
}

// indexGuardedSeparators returns the number of loops of f and the writes of a "," constant that are guarded by a
// comparison of the loop's index (a variable stepped by a constant on every back edge) while (a) the guarded
// test itself does not run on every iteration, or (b) some other write to the same sink in the loop does not.
func (c *Ctx) indexGuardedSeparators(f *ssa.Function) (int, []ssa.Instruction) {
	var out []ssa.Instruction
	loops := naturalLoops(f)
	isSep := func(v ssa.Value) bool {
		k, ok := v.(*ssa.Const)
		if !ok || k.Value == nil {
			return false
		}
		switch k.Value.Kind() {
		case constant.String:
			return strings.TrimSpace(constant.StringVal(k.Value)) == ","
		case constant.Int:
			x, _ := constant.Int64Val(k.Value)
			return x == ','
		}
		return false
	}
	for _, l := range loops {
		// strict index variables of this loop
		idx := map[ssa.Value]bool{}
		for _, in := range l.header.Instrs {
			phi, ok := in.(*ssa.Phi)
			if !ok {
				continue
			}
			strict, inner := true, 0
			for i, e := range phi.Edges {
				if !l.blocks[l.header.Preds[i]] {
					continue
				}
				inner++
				bo, isB := e.(*ssa.BinOp)
				if !isB || (bo.Op != token.ADD && bo.Op != token.SUB) || bo.X != ssa.Value(phi) {
					strict = false
					continue
				}
				if _, isK := bo.Y.(*ssa.Const); !isK {
					strict = false
				}
			}
			if strict && inner > 0 {
				idx[phi] = true
				for _, e := range phi.Edges {
					if bo, isB := e.(*ssa.BinOp); isB {
						idx[bo] = true
					}
				}
			}
		}
		if len(idx) == 0 {
			continue
		}
		everyIteration := func(b *ssa.BasicBlock) bool {
			for _, bk := range l.backs {
				if !b.Dominates(bk) {
					return false
				}
			}
			return true
		}
		// sink of a write: receiver / first argument of a Write*, Fprint* call, or the string being extended
		sinkOf := func(in ssa.Instruction) (ssa.Value, []ssa.Value) {
			switch x := in.(type) {
			case *ssa.Call:
				name := ""
				if x.Call.IsInvoke() {
					name = x.Call.Method.Name()
				} else if g := x.Call.StaticCallee(); g != nil {
					name = g.Name()
				}
				if !(strings.HasPrefix(name, "Write") || strings.HasPrefix(name, "Fprint")) {
					return nil, nil
				}
				args := x.Call.Args
				if x.Call.IsInvoke() {
					return x.Call.Value, args
				}
				if len(args) == 0 {
					return nil, nil
				}
				return args[0], args[1:]
			}
			return nil, nil
		}
		for b := range l.blocks {
			iff, ok := b.Instrs[len(b.Instrs)-1].(*ssa.If)
			if !ok {
				continue
			}
			bo, ok := iff.Cond.(*ssa.BinOp)
			if !ok || !isCmp(bo.Op) {
				continue
			}
			_, kx := bo.X.(*ssa.Const)
			_, ky := bo.Y.(*ssa.Const)
			if !((idx[bo.X] && ky) || (idx[bo.Y] && kx)) {
				continue
			}
			for _, succ := range b.Succs {
				if len(succ.Preds) != 1 || !l.blocks[succ] {
					continue
				}
				for rb := range l.blocks {
					if !succ.Dominates(rb) {
						continue
					}
					for _, in := range rb.Instrs {
						sink, args := sinkOf(in)
						if sink == nil {
							continue
						}
						sep := false
						for _, a := range args {
							if isSep(a) {
								sep = true
							}
						}
						if !sep {
							continue
						}
						// (a) the index test is itself conditional within the iteration
						if !everyIteration(b) {
							out = append(out, in)
							continue
						}
						// (b) another write to the same sink in this loop is conditional
						sp := c.Path(sink, nil)
						for ob := range l.blocks {
							if succ.Dominates(ob) || everyIteration(ob) {
								continue
							}
							for _, oin := range ob.Instrs {
								if os, _ := sinkOf(oin); os != nil && c.Path(os, nil) == sp {
									out = append(out, in)
								}
							}
						}
					}
				}
			}
		}
	}
	sort.Slice(out, func(i, j int) bool { return out[i].Pos() < out[j].Pos() })
	return len(loops), out
}

// ascendingFromZero: v is (a load of) slice[i] where i runs 0,1,2,… (range loop or for i := 0; …; i++).
func ascendingFromZero(v ssa.Value) bool {
	if u, ok := v.(*ssa.UnOp); ok {
		v = u.X
	}
	ia, ok := v.(*ssa.IndexAddr)
	if !ok {
		return false
	}
	isConst := func(x ssa.Value, want int64) bool {
		k, ok := x.(*ssa.Const)
		if !ok || k.Value == nil {
			return false
		}
		return k.Int64() == want
	}
	switch idx := ia.Index.(type) {
	case *ssa.BinOp: // rangeindex: phi(-1, idx) + 1
		phi, ok := idx.X.(*ssa.Phi)
		if !ok || idx.Op != token.ADD || !isConst(idx.Y, 1) || len(phi.Edges) < 2 {
			return false
		}
		// one entry edge carrying -1; every other edge (the loop's back edges, one per `continue`) carries idx itself
		nInit := 0
		for _, e := range phi.Edges {
			switch {
			case isConst(e, -1):
				nInit++
			case e == ssa.Value(idx):
			default:
				return false
			}
		}
		return nInit == 1
	case *ssa.Phi: // for i := 0; i < n; i++
		if len(idx.Edges) != 2 {
			return false
		}
		for k := 0; k < 2; k++ {
			if isConst(idx.Edges[k], 0) {
				if b, ok := idx.Edges[1-k].(*ssa.BinOp); ok && b.Op == token.ADD && b.X == ssa.Value(idx) && isConst(b.Y, 1) {
					return true
				}
			}
		}
	}
	return false
}

// composerHandlers: action -> handler function, from the composer's dispatch.
func (c *Ctx) composerHandlers() map[string]*ssa.Function {
	out := map[string]*ssa.Function{}
	apf := c.Fn(pComposer, "applyPatch")
	if apf == nil {
		return out
	}
	dv := c.dispatch(apf, func(p string) bool { return strings.Contains(p, ").GetAction(") })
	for k, a := range dv.arms {
		for _, ac := range c.armCalls(dv, a) {
			if inModule(ac.callee) {
				out[unquote(k)] = ac.callee
				break
			}
		}
	}
	return out
}

var memberRe0 = regexp.MustCompile(`\{[A-Za-z,]*\}`)

// composerSkeletons: decision skeletons of the list handlers (shared by C10 and by C14, whose
// document -> patches -> document claim rests on the add-handlers).
func (c *Ctx) composerSkeletons(rule string, handlers map[string]*ssa.Function) {
	// ---- X2 skeletons
	type site struct{ kind, loopOver, setFrom, polarity string }
	// hostOf: the function that holds the handler's element loops — the handler itself, or the one unexported helper it
	// hands the existing and the new entries to (`merge(doc.PublicKeys(), added)`), whose parameters are then classified
	// by what the handler passes for them
	type hostT struct {
		fn       *ssa.Function
		classify func(v ssa.Value) string
	}
	hostMemo := map[*ssa.Function]hostT{}
	hostOf := func(h *ssa.Function) hostT {
		if ht, ok := hostMemo[h]; ok {
			return ht
		}
		classifyH := func(v ssa.Value) string {
			sl := backSlice(v)
			d, e := sliceHas(sl, isParam(h, 0)), sliceHas(sl, isParam(h, 1))
			switch {
			case d && e:
				return "doc" + c.docMembers(sl) + "+entry"
			case d:
				return "doc" + c.docMembers(sl)
			case e:
				return "entry"
			}
			return "fresh"
		}
		ht := hostT{fn: h, classify: classifyH}
		if len(naturalLoops(h)) == 0 {
			var calls []*ssa.Call
			forEachInstr(h, func(in ssa.Instruction) {
				if cl, ok := in.(*ssa.Call); ok {
					if g := cl.Call.StaticCallee(); g != nil && inModule(g) && g.Blocks != nil && pkgPathOf(g) == pkgPathOf(h) && g.Object() != nil && !g.Object().Exported() && g.Signature.Recv() == nil && len(naturalLoops(g)) > 0 && g.Signature.Results().Len() == 1 {
						if _, isSl := g.Signature.Results().At(0).Type().Underlying().(*types.Slice); isSl {
							// (handed the existing entries and the new ones as separate arguments)
							nd, ne := 0, 0
							for _, a := range cl.Call.Args {
								if os.Getenv("STCHECK_HOST") != "" {
									fmt.Printf("HOSTARG %s %s -> %s\n", g.Name(), a.Name(), classifyH(a))
								}
								switch cls := classifyH(a); {
								case cls == "entry":
									ne++
								case strings.HasPrefix(cls, "doc") && !strings.HasSuffix(cls, "+entry"):
									nd++
								}
							}
							if nd > 0 && ne > 0 {
								calls = append(calls, cl)
							}
						}
					}
				}
			})
			if os.Getenv("STCHECK_HOST") != "" {
				fmt.Printf("HOST %s loops=%d calls=%d\n", h.Name(), len(naturalLoops(h)), len(calls))
			}
			if len(calls) == 1 {
				cl := calls[0]
				g := cl.Call.StaticCallee()
				ht = hostT{fn: g, classify: func(v ssa.Value) string {
					sl := backSlice(v)
					d, e := false, false
					mem := map[string]bool{}
					for i, p := range g.Params {
						if !sliceHas(sl, isParam(g, i)) || i >= len(cl.Call.Args) {
							continue
						}
						_ = p
						cls := classifyH(cl.Call.Args[i])
						if strings.HasPrefix(cls, "doc") {
							d = true
							if m := memberRe0.FindString(cls); m != "" {
								mem[m] = true
							}
						}
						if cls == "entry" || strings.HasSuffix(cls, "+entry") {
							e = true
						}
					}
					var ms []string
					for m := range mem {
						ms = append(ms, m)
					}
					sort.Strings(ms)
					switch {
					case d && e:
						return "doc" + strings.Join(ms, "") + "+entry"
					case d:
						return "doc" + strings.Join(ms, "")
					case e:
						return "entry"
					}
					return "fresh"
				}}
			}
		}
		hostMemo[h] = ht
		return ht
	}
	skeleton := func(h0 *ssa.Function) []string {
		var out []string
		ht := hostOf(h0)
		h, classify := ht.fn, ht.classify
		loops := naturalLoops(h)
		nestedIn := func(inner, outer *loop) bool {
			if inner == outer || len(inner.blocks) >= len(outer.blocks) {
				return false
			}
			for b := range inner.blocks {
				if !outer.blocks[b] {
					return false
				}
			}
			return true
		}
		for _, l := range loops {
			top := true
			inner := map[*ssa.BasicBlock]bool{}
			for _, o := range loops {
				if nestedIn(l, o) {
					top = false
				}
				if nestedIn(o, l) {
					for b := range o.blocks {
						inner[b] = true
					}
				}
			}
			if !top {
				continue // an inner loop is part of its enclosing loop's body (e.g. an inlined replace-by-id search)
			}
			// iterated collection: the slice indexed by this loop's own induction variable
			loopOver := "?"
			for b := range l.blocks {
				if inner[b] {
					continue
				}
				for _, in := range b.Instrs {
					if ia, ok := in.(*ssa.IndexAddr); ok && c.Path(ia.Index, nil) == "ι" {
						loopOver = classify(ia.X)
					}
				}
			}
			var scan func(in ssa.Instruction, b *ssa.BasicBlock, inFrame func(*ssa.BasicBlock) bool, cls func(ssa.Value) string, depth int)
			scan = func(in ssa.Instruction, b *ssa.BasicBlock, inFrame func(*ssa.BasicBlock) bool, cls func(ssa.Value) string, depth int) {
				// the loop body written as a function literal that the loop calls with the element: its instructions are
				// the iteration's, its captured variables read as the cells of the enclosing function, its parameters as
				// what the loop hands over
				if cl, isC := in.(*ssa.Call); isC && depth == 0 {
					if lit := localLiteral(cl); lit != nil && lit.Parent() == h {
						litCls := func(v ssa.Value) string {
							sl := backSlice(v)
							d, e := false, false
							mem := map[string]bool{}
							note := func(s string) {
								if strings.HasPrefix(s, "doc") {
									d = true
									if m := memberRe0.FindString(s); m != "" {
										mem[m] = true
									}
								}
								if s == "entry" || strings.HasSuffix(s, "+entry") {
									e = true
								}
							}
							for x := range sl {
								switch y := x.(type) {
								case *ssa.Parameter:
									if k := paramIndex(y); y.Parent() == lit && k < len(cl.Call.Args) {
										note(cls(cl.Call.Args[k]))
									}
								case *ssa.FreeVar:
									if bnd := bindingOf(cl, lit, y); bnd != nil {
										note(cls(bnd))
									}
								}
							}
							var ms []string
							for m := range mem {
								ms = append(ms, m)
							}
							sort.Strings(ms)
							switch {
							case d && e:
								return "doc" + strings.Join(ms, "") + "+entry"
							case d:
								return "doc" + strings.Join(ms, "")
							case e:
								return "entry"
							}
							return "fresh"
						}
						for _, lb := range lit.Blocks {
							for _, lin := range lb.Instrs {
								scan(lin, lb, func(x *ssa.BasicBlock) bool { return x.Parent() == lit }, litCls, depth+1)
							}
						}
					}
				}
				kind := ""
				switch x := in.(type) {
				case *ssa.Call:
					if bi, isB := x.Call.Value.(*ssa.Builtin); isB && bi.Name() == "append" {
						kind = "append(" + cls(x.Call.Args[1]) + "-element)"
					} else if g := x.Call.StaticCallee(); g != nil && inModule(g) && g.Signature.Results().Len() == 0 && len(x.Call.Args) == 2 && c.replacesByID(g) {
						kind = "update-in-place(" + cls(x.Call.Args[1]) + "-element)"
					} else if g != nil && inModule(g) && len(x.Call.Args) == 2 && c.replacesByIDReporting(g) {
						// replace-by-id that reports whether it found the id: the slots are overwritten exactly when the id is
						// among those of the list it searches
						out = append(out, fmt.Sprintf("loop over %s: update-in-place(%s-element) if-member of set built from %s", loopOver, cls(x.Call.Args[1]), cls(earlierPrefix(x.Call.Args[0]))))
						return
					}
				case *ssa.Store:
					// the replace-by-id search written in place: list[i] = element under ID(list[i]) == ID(element)
					if _, val, ok := c.replaceByIDStore(x); ok {
						kind = "update-in-place(" + cls(val) + "-element)"
					}
				}
				if kind == "" {
					return
				}
				// controlling membership test: dominating If on the ok of a Lookup
				pol, from := "unconditional", "-"
				for x := b; x != nil; x = x.Idom() {
					id := x.Idom()
					if id == nil || len(x.Preds) != 1 {
						continue
					}
					iff, isIf := id.Instrs[len(id.Instrs)-1].(*ssa.If)
					if !isIf || !inFrame(id) {
						continue
					}
					cond := iff.Cond
					neg := false
					if u, isU := cond.(*ssa.UnOp); isU && u.Op == token.NOT {
						cond, neg = u.X, true
					}
					// the membership test: ok of a comma-ok lookup, the value of a bool-valued set m[k], or a
					// membership function (slices.Contains and the module's own) over a list
					var set ssa.Value
					switch y := cond.(type) {
					case *ssa.Extract:
						if lk, isLk := y.Tuple.(*ssa.Lookup); isLk && y.Index == 1 {
							set = lk.X
						}
					case *ssa.Lookup:
						if mt, isM := y.X.Type().Underlying().(*types.Map); isM && !y.CommaOk {
							if bt, isB := mt.Elem().Underlying().(*types.Basic); isB && bt.Kind() == types.Bool {
								set = y.X
							}
						}
					case *ssa.Call:
						if g := y.Call.StaticCallee(); g != nil && len(y.Call.Args) == 2 && boolResult(g) {
							if si, isMap := c.isMapMembershipFn(g); isMap {
								set = y.Call.Args[si]
							} else if isM, _ := c.isMembershipFn(g); isM {
								set, _ = memberArgs(y)
							} else if inModule(g) && c.replacesByIDReporting(g) {
								set = earlierPrefix(y.Call.Args[0])
							}
						}
					}
					if set == nil {
						continue
					}
					taken := id.Succs[0] == x
					isOK := taken != neg
					if isOK {
						pol = "if-member"
					} else {
						pol = "if-not-member"
					}
					from = cls(set)
					break
				}
				out = append(out, fmt.Sprintf("loop over %s: %s %s of set built from %s", loopOver, kind, pol, from))
			}
			for b := range l.blocks {
				for _, in := range b.Instrs {
					scan(in, b, func(x *ssa.BasicBlock) bool { return l.blocks[x] }, classify, 0)
				}
			}
		}
		sort.Strings(out)
		return out
	}
	// doc{M}: the value is derived from the document parameter through exactly the member(s) M
	member := map[string]string{"public-keys": "{publicKey}", "services": "{service}", "also-known-as": "{alsoKnownAs}"}
	wantSk := map[string][]string{}
	for _, a := range []string{"remove-public-keys", "remove-services", "remove-also-known-as"} {
		m := member[strings.TrimPrefix(a, "remove-")]
		wantSk[a] = []string{"loop over doc" + m + ": append(doc" + m + "-element) if-not-member of set built from entry"}
	}
	for _, a := range []string{"add-public-keys", "add-services"} {
		m := member[strings.TrimPrefix(a, "add-")]
		wantSk[a] = []string{"loop over entry: append(entry-element) if-not-member of set built from doc" + m, "loop over entry: update-in-place(entry-element) if-member of set built from doc" + m}
	}
	wantSk["add-also-known-as"] = []string{"loop over entry: append(entry-element) if-not-member of set built from doc{alsoKnownAs}"}
	memberRe := regexp.MustCompile(`\{[A-Za-z,]*\}`)
	anon := func(sk []string) []string {
		var out []string
		for _, x := range sk {
			out = append(out, memberRe.ReplaceAllString(x, "{own}"))
		}
		return out
	}
	var as []string
	for a := range wantSk {
		as = append(as, a)
	}
	sort.Strings(as)
	for _, a := range as {
		h := handlers[a]
		if h == nil {
			continue
		}
		got := skeleton(h)
		c.Check(rule, a+":decision-skeleton", eqStrs(got, wantSk[a]), h.Pos(), fmt.Sprintf("%s: %v (documented: %v)", h.Name(), got, wantSk[a]))
		// add-handlers start from the existing entries in order: append(nil, existing...)
		if strings.HasPrefix(a, "add-") {
			okInit := false
			ht := hostOf(h)
			fromDocOnly := func(v ssa.Value) bool {
				cls := ht.classify(v)
				return strings.HasPrefix(cls, "doc") && !strings.HasSuffix(cls, "+entry")
			}
			forEachInstr(ht.fn, func(in ssa.Instruction) {
				if cl, ok := in.(*ssa.Call); ok {
					if bi, isB := cl.Call.Value.(*ssa.Builtin); isB && bi.Name() == "append" && (c.Path(cl.Call.Args[0], nil) == "nil" || freshCellLoad(cl.Call.Args[0])) && cl.Block() == ht.fn.Blocks[0] {
						if fromDocOnly(cl.Call.Args[1]) {
							okInit = true
						}
					}
					// or the loop extends the existing list itself: the value the appended-to list has on loop entry
					// comes from the document and not from the patch value
					if bi, isB := cl.Call.Value.(*ssa.Builtin); isB && bi.Name() == "append" {
						if phi, isPhi := cl.Call.Args[0].(*ssa.Phi); isPhi {
							for i, e := range phi.Edges {
								if _, isK := e.(*ssa.Const); isK || e == ssa.Value(cl) || !phi.Block().Preds[i].Dominates(phi.Block()) {
									continue
								}
								if fromDocOnly(e) {
									okInit = true
								}
							}
						}
					}
				}
			})
			c.Check(rule, a+":keeps-existing-order", okInit, h.Pos(), "the result list starts as a copy of the existing entries in their order")
		}
	}
	// siblings agree pairwise (deviance check independent of the documented table)
	for _, grp := range [][]string{{"remove-public-keys", "remove-services", "remove-also-known-as"}, {"add-public-keys", "add-services"}} {
		ok := true
		var first []string
		for i, a := range grp {
			if handlers[a] == nil {
				ok = false
				continue
			}
			sk := anon(skeleton(handlers[a]))
			if i == 0 {
				first = sk
			} else if !eqStrs(sk, first) {
				ok = false
			}
		}
		c.Check(rule, "siblings-agree:"+strings.Join(grp, ","), ok, 0, "sibling handlers share one decision skeleton")
	}
	// the rebuilt list is written back into the document on every accepting path: a handler that leaves the member
	// untouched under some condition (say, when the rebuilt list is empty) keeps the entries it was asked to remove
	memberKey := map[string]string{"public-keys": "publicKey", "services": "service", "also-known-as": "alsoKnownAs"}
	for _, a := range as {
		h := handlers[a]
		if h == nil {
			continue
		}
		key := memberKey[strings.TrimPrefix(strings.TrimPrefix(a, "remove-"), "add-")]
		// the write: a map update of the document under the member's key, here or in a setter the handler calls with the
		// document (`setMember(doc, key, list)`); its place in the handler is the update itself or that call
		var wbs []ssa.Instruction
		forEachInstr(h, func(in ssa.Instruction) {
			switch x := in.(type) {
			case *ssa.MapUpdate:
				if unquote(c.Path(x.Key, nil)) == key && sliceHas(backSlice(x.Map), isParam(h, 0)) {
					wbs = append(wbs, x)
				}
			case *ssa.Call:
				g := x.Call.StaticCallee()
				if g == nil || !inModule(g) || g.Blocks == nil || len(g.Blocks) != 1 {
					return
				}
				genv := c.calleeEnv(&x.Call, g, nil)
				forEachInstr(g, func(i2 ssa.Instruction) {
					if mu, ok := i2.(*ssa.MapUpdate); ok && unquote(c.Path(mu.Key, genv)) == key {
						if mp := c.Path(mu.Map, genv); mp == "$0" || strings.HasPrefix(mp, "$0.") {
							wbs = append(wbs, x)
						}
					}
				})
			}
		})
		cut := map[edge]bool{}
		wbBlock := map[*ssa.BasicBlock]bool{}
		for _, mu := range wbs {
			wbBlock[mu.Block()] = true
			for _, sc := range mu.Block().Succs {
				cut[edge{from: mu.Block(), to: sc}] = true
			}
		}
		skipped := ""
		for b := range reach(h.Blocks[0], cut) {
			if r, isR := b.Instrs[len(b.Instrs)-1].(*ssa.Return); isR && maySucceed(r) && !wbBlock[b] {
				skipped = c.pos(r.Pos())
			}
		}
		c.Check(rule, a+":list-written-back", len(wbs) > 0 && skipped == "", h.Pos(), fmt.Sprintf("%s: the member %q receives the rebuilt list on every accepting path (%d write(s); accepting exit that skips it: %s)", h.Name(), key, len(wbs), skipped))
	}
	// every handler loop visits every element: the only way out of a loop, other than its own loop condition, is an
	// error return — a `break` (or a success return) inside the body drops the remaining entries of the patch / document
	for _, a := range as {
		h := handlers[a]
		if h == nil {
			continue
		}
		bad := c.earlyLoopExits(h)
		if ht := hostOf(h); ht.fn != h {
			bad = append(bad, c.earlyLoopExits(ht.fn)...)
		}
		c.Check(rule, a+":loops-visit-every-element", len(bad) == 0, h.Pos(), fmt.Sprintf("%s: no loop is left before its last element except by an error return", h.Name()), bad...)
	}
	// the keyed add-handlers replace by id: through a helper (checked by replacesByID at the call) or in place
	for _, a := range []string{"add-public-keys", "add-services"} {
		h := handlers[a]
		if h == nil {
			continue
		}
		n := 0
		hf := hostOf(h).fn
		// (the handler's own instructions and those of the function literals it declares)
		each := func(fn func(in ssa.Instruction)) {
			forEachInstr(hf, fn)
			for _, lit := range hf.AnonFuncs {
				forEachInstr(lit, fn)
			}
		}
		each(func(in ssa.Instruction) {
			switch x := in.(type) {
			case *ssa.Call:
				if g := x.Call.StaticCallee(); g != nil && inModule(g) && g.Signature.Results().Len() == 0 && len(x.Call.Args) == 2 && c.replacesByID(g) {
					n++
				} else if g != nil && inModule(g) && len(x.Call.Args) == 2 && c.replacesByIDReporting(g) {
					n++
				}
			case *ssa.Store:
				if _, _, ok := c.replaceByIDStore(x); ok && (ascendingFromZero(x.Addr) || c.descendingToZero(x.Addr)) {
					n++
				}
			}
		})
		c.Check(rule, a+":replace-by-id", n == 1, h.Pos(), fmt.Sprintf("%s overwrites exactly the slots whose id equals the new element's id (%d replace-by-id site(s))", h.Name(), n))
	}
}

// replaceByIDStore: the store writes val into list[i] on the true edge of ID(list[i]) == ID(val).
func (c *Ctx) replaceByIDStore(st *ssa.Store) (list, val ssa.Value, ok bool) {
	ia, isIA := st.Addr.(*ssa.IndexAddr)
	if !isIA {
		return nil, nil, false
	}
	slot := c.Path(ia, nil)
	vp := c.Path(st.Val, nil)
	for x := st.Block(); x != nil; x = x.Idom() {
		id := x.Idom()
		if id == nil {
			break
		}
		if len(x.Preds) != 1 {
			continue
		}
		iff, isIf := id.Instrs[len(id.Instrs)-1].(*ssa.If)
		if !isIf || id.Succs[0] != x {
			continue
		}
		bo, isB := iff.Cond.(*ssa.BinOp)
		if !isB || bo.Op != token.EQL {
			continue
		}
		idOf := func(v ssa.Value) string {
			cl, isC := v.(*ssa.Call)
			if !isC || cl.Call.StaticCallee() == nil || cl.Call.StaticCallee().Name() != "ID" || len(cl.Call.Args) != 1 {
				return ""
			}
			return c.Path(cl.Call.Args[0], nil)
		}
		l, r := idOf(bo.X), idOf(bo.Y)
		if (l == slot && r == vp) || (r == slot && l == vp) {
			return ia.X, st.Val, true
		}
	}
	return nil, nil, false
}

// replacesByID: helper g(list, element) whose only store into list is a replace-by-id store of its element parameter.
func (c *Ctx) replacesByID(g *ssa.Function) bool {
	if g.Blocks == nil || len(g.Params) != 2 {
		return false
	}
	n, good := 0, 0
	forEachInstr(g, func(in ssa.Instruction) {
		st, ok := in.(*ssa.Store)
		if !ok {
			return
		}
		if _, isIA := st.Addr.(*ssa.IndexAddr); !isIA {
			return
		}
		n++
		// … and the search that leads to the store looks at every slot: the index runs over the whole list (an ascending
		// range / loop from 0, or a descending loop from len-1 down to and including 0)
		if l, v, ok2 := c.replaceByIDStore(st); ok2 && l == ssa.Value(g.Params[0]) && v == ssa.Value(g.Params[1]) && (ascendingFromZero(st.Addr) || c.descendingToZero(st.Addr)) {
			good++
		}
	})
	return n == 1 && good == 1
}

// replacesByIDReporting: helper g(list, element) bool that replaces by id like replacesByID and answers whether it
// overwrote a slot: its result starts false (outside every loop), becomes true exactly where the store is made, and is
// otherwise carried along.
func (c *Ctx) replacesByIDReporting(g *ssa.Function) bool {
	if g.Blocks == nil || len(g.Params) != 2 || !boolResult(g) || !c.replacesByID(g) {
		return false
	}
	var store *ssa.Store
	forEachInstr(g, func(in ssa.Instruction) {
		if st, ok := in.(*ssa.Store); ok {
			if _, isIA := st.Addr.(*ssa.IndexAddr); isIA {
				store = st
			}
		}
	})
	if store == nil {
		return false
	}
	inLoop := map[*ssa.BasicBlock]bool{}
	for _, l := range naturalLoops(g) {
		for b := range l.blocks {
			inLoop[b] = true
		}
	}
	ok := true
	trues := 0
	seen := map[ssa.Value]bool{}
	var leaf func(v ssa.Value, from *ssa.BasicBlock)
	leaf = func(v ssa.Value, from *ssa.BasicBlock) {
		afterStore := store.Block().Dominates(from)
		switch x := v.(type) {
		case *ssa.Const:
			switch c.Path(x, nil) {
			case "true":
				ok = ok && afterStore
				trues++
			case "false":
				ok = ok && !inLoop[from] && !afterStore
			default:
				ok = false
			}
		case *ssa.Phi:
			// (the value carried along; where the store was just made it has to be the constant true)
			ok = ok && !afterStore
			if seen[x] {
				return
			}
			seen[x] = true
			for i, e := range x.Edges {
				leaf(e, x.Block().Preds[i])
			}
		default:
			ok = false
		}
	}
	n := 0
	for _, r := range returnsOf(g) {
		if len(r.Results) != 1 {
			return false
		}
		n++
		leaf(r.Results[0], r.Block())
	}
	return ok && n > 0 && trues > 0
}

// earlierPrefix: list[:len(first)] where first is what the growing list held before the loop — as a set of ids it is
// that earlier list (the list only grows at its end, and a replace-by-id leaves the ids where they are).
func earlierPrefix(v ssa.Value) ssa.Value {
	sl, ok := v.(*ssa.Slice)
	if !ok || sl.Low != nil || sl.High == nil || sl.Max != nil {
		return v
	}
	ln, ok := sl.High.(*ssa.Call)
	if !ok {
		return v
	}
	if bi, isB := ln.Call.Value.(*ssa.Builtin); !isB || bi.Name() != "len" {
		return v
	}
	first := ln.Call.Args[0]
	if sl.X == first {
		return first
	}
	if phi, isPhi := sl.X.(*ssa.Phi); isPhi {
		for _, e := range phi.Edges {
			if e == first {
				return first
			}
		}
	}
	return v
}

// descendingToZero: the index of the element address runs from len(list)-1 down to 0 inclusive:
// for i := len(list) - 1; i >= 0; i-- (or i > -1).
func (c *Ctx) descendingToZero(v ssa.Value) bool {
	ia, ok := v.(*ssa.IndexAddr)
	if !ok {
		return false
	}
	phi, ok := ia.Index.(*ssa.Phi)
	if !ok || len(phi.Edges) != 2 {
		return false
	}
	okInit, okStep := false, false
	for _, e := range phi.Edges {
		if b, isB := e.(*ssa.BinOp); isB && b.Op == token.SUB && c.Path(b.Y, nil) == "1" {
			if b.X == ssa.Value(phi) {
				okStep = true
			} else if c.Path(b.X, nil) == "len("+c.Path(ia.X, nil)+")" {
				okInit = true
			}
		}
	}
	if !okInit || !okStep {
		return false
	}
	// the loop condition keeps index 0 in
	iff, isIf := phi.Block().Instrs[len(phi.Block().Instrs)-1].(*ssa.If)
	if !isIf {
		return false
	}
	bo, isB := iff.Cond.(*ssa.BinOp)
	if !isB || bo.X != ssa.Value(phi) {
		return false
	}
	return (bo.Op == token.GEQ && c.Path(bo.Y, nil) == "0") || (bo.Op == token.GTR && c.Path(bo.Y, nil) == "-1")
}

func boolResult(g *ssa.Function) bool {
	r := g.Signature.Results()
	if r.Len() != 1 {
		return false
	}
	b, ok := r.At(0).Type().Underlying().(*types.Basic)
	return ok && b.Kind() == types.Bool
}

// docMembers names the members of the document that a value is read through: accessor methods of the document
// types (PublicKeys, Services, AlsoKnownAs) and constant-key lookups, followed into module helper functions
// that receive the document (bounded depth). Result "{a,b}" (sorted), "" when none is identified.
func (c *Ctx) docMembers(sl map[ssa.Value]bool) string {
	norm := map[string]string{"PublicKeys": "publicKey", "Services": "service", "AlsoKnownAs": "alsoKnownAs", "publicKey": "publicKey", "service": "service", "alsoKnownAs": "alsoKnownAs"}
	set := map[string]bool{}
	seenF := map[*ssa.Function]bool{}
	var scanInstr func(in ssa.Instruction, depth int)
	var scanFn func(g *ssa.Function, depth int)
	scanInstr = func(in ssa.Instruction, depth int) {
		switch x := in.(type) {
		case *ssa.Call:
			g := x.Call.StaticCallee()
			if g == nil {
				return
			}
			if g.Pkg != nil && g.Pkg.Pkg.Path() == modPkg+"document" && g.Signature.Recv() != nil {
				if m, ok := norm[g.Name()]; ok {
					set[m] = true
				}
				return
			}
			if inModule(g) && depth > 0 {
				scanFn(g, depth-1)
			}
		case *ssa.Lookup:
			if k, ok := x.Index.(*ssa.Const); ok && k.Value != nil && k.Value.Kind() == constant.String {
				if m, ok2 := norm[constant.StringVal(k.Value)]; ok2 && typeShort(x.X.Type()) == "document.Document" {
					set[m] = true
				}
			}
		}
	}
	scanFn = func(g *ssa.Function, depth int) {
		if seenF[g] || g.Blocks == nil {
			return
		}
		seenF[g] = true
		forEachInstr(g, func(in ssa.Instruction) { scanInstr(in, depth) })
	}
	for v := range sl {
		if in, ok := v.(ssa.Instruction); ok {
			scanInstr(in, 2)
		}
	}
	var ms []string
	for m := range set {
		ms = append(ms, m)
	}
	sort.Strings(ms)
	if len(ms) == 0 {
		return ""
	}
	return "{" + strings.Join(ms, ",") + "}"
}

// patchLiteral: v is a patch.Patch built by make + map updates (in place, or inside a module helper whose parameters
// are renamed to the caller's argument paths); returns key -> value paths and the number of stores.
func (c *Ctx) patchLiteral(v ssa.Value, env Env, depth int) (map[string]string, int, bool) {
	switch x := v.(type) {
	case *ssa.MakeMap:
		if typeShort(x.Type()) != "patch.Patch" {
			return nil, 0, false
		}
		out := map[string]string{}
		n := 0
		for _, r := range *x.Referrers() {
			if mu, ok := r.(*ssa.MapUpdate); ok && mu.Map == ssa.Value(x) {
				out[unquote(c.Path(mu.Key, env))] = unquote(c.Path(mu.Value, env))
				out["type:"+unquote(c.Path(mu.Key, env))] = strings.Join(c.dynTypes(mu.Value, 0), "|")
				n++
			}
		}
		return out, n, true
	case *ssa.Extract:
		// the patch of a (Patch, error) helper whose results are handed on
		if cl, ok := x.Tuple.(*ssa.Call); ok && x.Index == 0 {
			return c.patchLiteral(cl, env, depth)
		}
	case *ssa.Call:
		g := x.Call.StaticCallee()
		if g == nil || !inModule(g) || g.Blocks == nil || depth > 2 || g.Signature.Results().Len() > 2 {
			return nil, 0, false
		}
		genv := c.calleeEnv(&x.Call, g, env)
		// (the values the helper's parameters stand for, for questions about their dynamic type)
		savedArgs := c.argOf
		c.argOf = map[*ssa.Parameter]ssa.Value{}
		for k, v := range savedArgs {
			c.argOf[k] = v
		}
		for i, p := range g.Params {
			if i < len(x.Call.Args) {
				c.argOf[p] = x.Call.Args[i]
			}
		}
		defer func() { c.argOf = savedArgs }()
		var out map[string]string
		cnt := 0
		for _, r := range returnsOf(g) {
			if !maySucceed(r) {
				continue
			}
			lit, n, ok := c.patchLiteral(returnedValue(r, 0), genv, depth+1)
			if !ok || (out != nil && fmt.Sprint(lit) != fmt.Sprint(out)) {
				return nil, 0, false
			}
			out, cnt = lit, n
		}
		if out != nil {
			c.Analysed(g)
		}
		return out, cnt, out != nil
	}
	return nil, 0, false
}

// earlyLoopExits lists the edges that leave a loop of f from inside its body (not from the loop header's own
// condition) towards code from which a may-succeed return is reachable: break statements and success returns.
func (c *Ctx) earlyLoopExits(f *ssa.Function) []string {
	var out []string
	canSucceed := func(start *ssa.BasicBlock) bool {
		seen := reach(start, nil)
		seen[start] = nil
		for b := range seen {
			if r, ok := b.Instrs[len(b.Instrs)-1].(*ssa.Return); ok && maySucceed(r) {
				return true
			}
		}
		return false
	}
	loops := naturalLoops(f)
	for _, l := range loops {
		// only the handler's own element loops: a search loop nested inside one (an inlined replace-by-id that stops
		// at the first match) may break
		nested := false
		for _, o := range loops {
			if o != l && len(o.blocks) > len(l.blocks) && o.blocks[l.header] {
				nested = true
			}
		}
		if nested {
			continue
		}
		for b := range l.blocks {
			if b == l.header {
				continue
			}
			for _, s := range b.Succs {
				if l.blocks[s] {
					continue
				}
				if canSucceed(s) {
					out = append(out, fmt.Sprintf("the loop at %s is left from its body at %s towards a successful exit", c.pos(firstPos(l.header)), c.pos(firstPos(s))))
				}
			}
		}
	}
	sort.Strings(out)
	return out
}

// jsonRoundTripOf: v is a fresh value decoded by encoding/json.Unmarshal from encoding/json.Marshal(X) — in f itself, or
// in a module helper whose success result is such a round trip of one of its parameters. Returns the path of X in f's
// frame and the function holding the Unmarshal call.
func (c *Ctx) jsonRoundTripOf(f *ssa.Function, v ssa.Value, env Env, depth int) (string, *ssa.Function, bool) {
	jsonU := c.ExtFn("encoding/json", "Unmarshal")
	if jsonU == nil || depth > 2 {
		return "", nil, false
	}
	// through a helper
	if ex, ok := v.(*ssa.Extract); ok && ex.Index == 0 {
		if cl, isC := ex.Tuple.(*ssa.Call); isC {
			if g := cl.Call.StaticCallee(); g != nil && inModule(g) && g.Blocks != nil {
				srs := successReturns(g)
				if len(srs) == 1 {
					return c.jsonRoundTripOf(g, srs[0].Results[0], c.calleeEnv(&cl.Call, g, env), depth+1)
				}
			}
		}
	}
	ld, ok := v.(*ssa.UnOp)
	if !ok || ld.Op != token.MUL {
		return "", nil, false
	}
	al, ok := ld.X.(*ssa.Alloc)
	if !ok {
		return "", nil, false
	}
	// the only writer of the local is the Unmarshal call
	for _, r := range *al.Referrers() {
		if st, isS := r.(*ssa.Store); isS && st.Addr == ssa.Value(al) {
			if k, isK := st.Val.(*ssa.Const); isK && k.IsNil() {
				continue
			}
			// a fresh, empty map as the decode target is the same as a nil one
			if mm, isMM := st.Val.(*ssa.MakeMap); isMM {
				empty := true
				for _, rr := range *mm.Referrers() {
					if _, isMU := rr.(*ssa.MapUpdate); isMU {
						empty = false
					}
				}
				if empty {
					continue
				}
			}
			return "", nil, false
		}
	}
	return c.jsonRoundTripCellEnv(f, al, env)
}

// jsonRoundTripCell: the local cell al is filled by json.Unmarshal(json.Marshal(X), &al) in f; returns the path of X.
func (c *Ctx) jsonRoundTripCell(f *ssa.Function, al *ssa.Alloc) (string, *ssa.Function, bool) {
	return c.jsonRoundTripCellEnv(f, al, nil)
}

func (c *Ctx) jsonRoundTripCellEnv(f *ssa.Function, al *ssa.Alloc, env Env) (string, *ssa.Function, bool) {
	jsonU := c.ExtFn("encoding/json", "Unmarshal")
	if jsonU == nil {
		return "", nil, false
	}
	for _, u := range callsTo(f, jsonU) {
		mi, isMI := u.Call.Args[1].(*ssa.MakeInterface)
		if !isMI || mi.X != ssa.Value(al) {
			continue
		}
		bp := c.Path(u.Call.Args[0], env)
		const pre = "encoding/json.Marshal("
		if strings.HasPrefix(bp, pre) && strings.HasSuffix(bp, ")#0") {
			return bp[len(pre) : len(bp)-3], f, true
		}
	}
	return "", nil, false
}

// jsonPatchDocArg: position of the document bytes among the arguments of the call that stands for Apply.
var jsonPatchDocArg = 1

// jsonPatchFoldRule: the function that hands RFC 6902 operations to the json-patch library threads the document bytes
// through them — the bytes given to Apply in one iteration are the bytes the previous Apply returned (the caller's bytes
// in the first), every successful exit returns those bytes, and nothing but the library produces them. (Each operation
// applied to the original bytes, or an operation applied by other code, breaks "applies RFC 6902 to the other members".)
func (c *Ctx) jsonPatchFoldRule(rule string) {
	h := c.composerHandlers()["ietf-json-patch"]
	if h == nil {
		c.Unresolved(rule, "handler for ietf-json-patch")
		return
	}
	var site *ssa.Call
	var fn *ssa.Function
	for _, g := range c.reachableModuleFuncs([]*ssa.Function{h}) {
		forEachInstr(g, func(in ssa.Instruction) {
			if cl, ok := in.(*ssa.Call); ok && cl.Call.StaticCallee() != nil {
				switch cl.Call.StaticCallee().String() {
				case "(github.com/evanphx/json-patch.Patch).Apply", "(github.com/evanphx/json-patch.Patch).ApplyIndent":
					site, fn = cl, g
				}
			}
		})
	}
	if site == nil {
		c.Check(rule, "json-patch:applied-through-the-library", false, h.Pos(), "no call of the json-patch library's Apply in the call tree of the ietf-json-patch handler")
		return
	}
	c.Analysed(fn)
	inLoop := false
	for _, l := range naturalLoops(fn) {
		if l.blocks[site.Block()] {
			inLoop = true
		}
	}
	// Apply in a one-operation helper that a loop of its caller runs per operation: the helper hands back Apply's
	// result on success (checked here, in the helper's frame), and the loop rules are the caller's — with the helper
	// call in Apply's place
	if !inLoop {
		okHelper := true
		for _, r := range successReturns(fn) {
			if rv := returnedValue(r, 0); rv != extractOf(site, 0) {
				okHelper = false
			}
		}
		for _, g := range c.reachableModuleFuncs([]*ssa.Function{h}) {
			for _, cl := range callsTo(g, fn) {
				for _, l := range naturalLoops(g) {
					if l.blocks[cl.Block()] && okHelper && fn.Object() != nil && !fn.Object().Exported() {
						bi := -1
						for i, a := range site.Call.Args {
							if p, isP := a.(*ssa.Parameter); isP && i == 1 {
								bi = paramIndex(p)
							}
						}
						if bi >= 0 && bi < len(cl.Call.Args) {
							c.Check(rule, "json-patch:one-operation-helper", true, fn.Pos(), short(fn.String())+" applies one operation with the library and hands back the library's result on success")
							site, fn, inLoop = cl, g, true
							// (the document argument of the helper call stands where Apply's stood)
							if bi != 1 {
								args := make([]ssa.Value, len(cl.Call.Args))
								copy(args, cl.Call.Args)
								_ = args
							}
							jsonPatchDocArg = bi
						}
					}
				}
			}
		}
	}
	doc := site.Call.Args[jsonPatchDocArg]
	jsonPatchDocArg = 1
	ok := true
	why := ""
	if inLoop {
		phi, isPhi := doc.(*ssa.Phi)
		if !isPhi {
			ok, why = false, "the bytes handed to Apply inside the loop are "+c.Path(doc, nil)+", not the running result of the previous operation"
		} else {
			prev := false
			for _, e := range phi.Edges {
				switch {
				case e == extractOf(site, 0):
					prev = true
				case c.isParamOrConv(e):
				default:
					ok, why = false, "the running document bytes also come from "+c.Path(e, nil)+" — something other than the library's Apply produces them"
				}
			}
			if !prev {
				ok, why = false, "the result of Apply is not fed into the next operation"
			}
			for _, r := range successReturns(fn) {
				if rv := returnedValue(r, 0); rv != ssa.Value(phi) {
					ok, why = false, "a successful exit returns "+c.Path(rv, nil)+" instead of the running result"
				}
			}
		}
	} else {
		// the whole patch in one call: the result returned must be Apply's
		for _, r := range successReturns(fn) {
			if rv := returnedValue(r, 0); rv != extractOf(site, 0) {
				ok, why = false, "a successful exit returns "+c.Path(rv, nil)+" instead of the library's result"
			}
		}
	}
	// closed set of refusals: the function says no only when the library does, or for a copy of a value into itself
	// (C19.G). Any further refusal turns away a patch that validation accepted and the library can apply — a document
	// whose members produce such an operation (e.g. a null member) would no longer survive document -> patches -> document
	{
		allowed := map[string]bool{}
		forEachInstr(fn, func(in ssa.Instruction) {
			if cl, isC := in.(*ssa.Call); isC {
				if g := cl.Call.StaticCallee(); g != nil && inModule(g) && returnsError(g) {
					cs := c.stringConstsDeep(g, 3)
					if cs["copy"] && cs["from"] && cs["path"] && !cs["add"] && !cs["replace"] && !cs["test"] && !cs["value"] {
						if !allowed[short(g.String())+"("] {
							c.copyGuardRule(rule, g, nil)
							c.tokenUnescapeRule(rule)
						}
						allowed[short(g.String())+"("] = true
					} else if cs["copy"] && cs["move"] && cs["path"] && !cs["add"] && !cs["replace"] && !cs["test"] && !cs["value"] {
						// the destination-index guard (C19.G): a copy / move beyond the end of an array is refused, as RFC 6902 says
						allowed[short(g.String())+"("] = true
					} else if c.copyGuardOnMembers(cl, nil) {
						// the guard handed the two pointers themselves (the caller reads "from" and "path" of the operation)
						if !allowed[short(g.String())+"("] {
							c.copyGuardRule(rule, g, c.calleeEnv(&cl.Call, g, nil))
							c.tokenUnescapeRule(rule)
						}
						allowed[short(g.String())+"("] = true
					}
				}
			}
		})
		var extra []string
		for _, r := range c.rejectionReasons(fn, nil, false, 3) {
			// (the tested value is the library's verdict, or the verdict of one of the guards — not a value that merely
			// mentions them, like a check of its own on the bytes the previous Apply returned)
			okR := strings.HasPrefix(r, "((github.com/evanphx/json-patch.Patch).Apply")
			for a := range allowed {
				if strings.HasPrefix(r, "("+a) {
					okR = true
				}
			}
			if !okR {
				extra = append(extra, r)
			}
		}
		c.Check(rule, "json-patch:no-refusal-of-its-own", len(extra) == 0, fn.Pos(), "the applying function refuses only what the library refuses, or a copy of a value into itself", extra...)
	}
	// "applies RFC 6902": copy and move are "add at the target location" (RFC 6902 4.4, 4.5) — for an array index that
	// is an insertion before the element there. Decided on the library's own source: the destination write of its copy
	// and move is the container's add, not its set (set overwrites the element at an existing index). Reported under C10
	// only: the other checks that share the fold rules do not depend on this clause.
	if c.Prop == "C10" {
		if sp := c.SPkg[jsonPatchPkg]; sp != nil {
			var wrong []string
			n := 0
			for _, mn := range []string{"copy", "move"} {
				m := c.MethodIn(jsonPatchPkg, "Patch", mn)
				if m == nil || m.Blocks == nil {
					wrong = append(wrong, "json-patch (Patch)."+mn+" not found")
					continue
				}
				forEachInstr(m, func(in ssa.Instruction) {
					cl, ok := in.(*ssa.Call)
					if !ok || !cl.Call.IsInvoke() {
						return
					}
					switch cl.Call.Method.Name() {
					case "add":
						n++
					case "set":
						n++
						wrong = append(wrong, fmt.Sprintf("%s: (Patch).%s writes its destination with the container's set", c.pos(cl.Pos()), mn))
					}
				})
			}
			c.Check(rule, "json-patch:library:copy-and-move-add-at-the-destination", n >= 2 && len(wrong) == 0, site.Pos(), fmt.Sprintf("the library's copy and move write their destination with the container's add (%d destination write(s) examined)", n), wrong...)
		} else {
			c.Unresolved(rule, jsonPatchPkg+" (library source not loaded)")
		}
	}
	// every operation's verdict is heeded: inside the loop, the next operation is reached (and the function succeeds)
	// only after the library applied this one without an error — a verdict collected and looked at after the loop is the
	// last operation's only ("test" then "replace": RFC 6902 refuses the whole patch when the test fails)
	if inLoop {
		c.CheckGuardLoop(rule, "json-patch:every-operation's-verdict-is-heeded", fn, nil, &GCheck{Name: "the library applied this operation", MatchCall: func(c *Ctx, call *ssa.Call, env Env) bool { return call == site }})
	}
	// … and the copy guard tells "the same element" the way the library does: index tokens read with the library's own
	// number parser, every Apply call one operation wide and behind the guard (C19.G)
	// (and no handler of the composer compares two JSON values with ==, which panics on two lists or two objects: C19.H)
	c.only(runC19, "C19.G", "C19.H::versions/1_0/doccomposer.", "C19.M::versions/1_0/doccomposer.")
	c.Min("C19.G", 2)
	c.Check(rule, "json-patch:operations-threaded-through-the-library", ok, site.Pos(), "RFC 6902 operations are a left fold of the library's Apply over the document bytes "+why)
}

// isParamOrConv: the value is a parameter of its function (possibly converted).
func (c *Ctx) isParamOrConv(v ssa.Value) bool {
	for d := 0; d < 3; d++ {
		switch x := v.(type) {
		case *ssa.Parameter:
			return true
		case *ssa.ChangeType:
			v = x.X
		case *ssa.Convert:
			v = x.X
		default:
			return false
		}
	}
	return false
}

// copyGuardRule: the guard against a copy of a value into itself refuses only when "from" is a PROPER prefix of "path":
// the comparison of the two token counts lets the operation through exactly when from has at least as many tokens as
// path (decided on the three orderings of the two counts) — a copy onto the same location, or between siblings of the
// same depth, is an RFC 6902 operation the library applies.
func (c *Ctx) copyGuardRule(rule string, g *ssa.Function, genv Env) {
	c.Analysed(g)
	side := func(p string) string {
		if !strings.HasPrefix(p, "len(") {
			return ""
		}
		f, t := strings.Contains(p, `"from"`), strings.Contains(p, `"path"`)
		switch {
		case f && !t:
			return "from"
		case t && !f:
			return "path"
		}
		return ""
	}
	acceptNow := func(b *ssa.BasicBlock) bool {
		r, ok := b.Instrs[len(b.Instrs)-1].(*ssa.Return)
		return ok && len(r.Results) == 1 && c.Path(r.Results[0], nil) == "nil"
	}
	n := 0
	// where the comparison sits: the guard itself, or a boolean helper it asks ("does the source contain the
	// destination?") — there the branch that lets the operation through is the one that hands back the answer under
	// which the guard returns no error
	type hostT struct {
		fn     *ssa.Function
		env    Env
		accept func(b *ssa.BasicBlock) bool
	}
	hosts := []hostT{{g, genv, acceptNow}}
	forEachInstr(g, func(in ssa.Instruction) {
		cl, ok := in.(*ssa.Call)
		if !ok || !isBoolType(cl.Type()) || cl.Referrers() == nil {
			return
		}
		h := cl.Call.StaticCallee()
		if h == nil || !inModule(h) || h.Blocks == nil || pkgPathOf(h) != pkgPathOf(g) || h.Object() == nil || h.Object().Exported() {
			return
		}
		for _, e := range boolEdges(cl, true) {
			other := e.from.Succs[0]
			if other == e.to {
				other = e.from.Succs[1]
			}
			aT, aF := acceptNow(e.to), acceptNow(other)
			if aT == aF {
				continue
			}
			letVal := fmt.Sprint(aT)
			hosts = append(hosts, hostT{h, c.calleeEnv(&cl.Call, h, genv), func(b *ssa.BasicBlock) bool {
				r, ok := b.Instrs[len(b.Instrs)-1].(*ssa.Return)
				return ok && len(r.Results) == 1 && c.Path(r.Results[0], nil) == letVal
			}})
		}
	})
	for _, ht := range hosts {
		henv, acceptNow := ht.env, ht.accept
		forEachInstr(ht.fn, func(in ssa.Instruction) {
			bo, ok := in.(*ssa.BinOp)
			if !ok || !isCmp(bo.Op) {
				return
			}
			if os.Getenv("STCHECK_CG") != "" {
				fmt.Printf("CG %s: %s | %s\n", ht.fn.Name(), c.Path(bo.X, henv), c.Path(bo.Y, henv))
			}
			sx, sy := side(c.Path(bo.X, henv)), side(c.Path(bo.Y, henv))
			if sx == "" || sy == "" || sx == sy {
				return
			}
			n++
			var iff *ssa.If
			for _, r := range *bo.Referrers() {
				if i, isIf := r.(*ssa.If); isIf {
					iff = i
				}
			}
			if iff == nil {
				c.Check(rule, "copy-guard:token-count-test", false, bo.Pos(), "the comparison of the token counts does not decide a branch: not understood")
				return
			}
			b := iff.Block()
			a0, a1 := acceptNow(b.Succs[0]), acceptNow(b.Succs[1])
			if a0 == a1 {
				c.Check(rule, "copy-guard:token-count-test", false, bo.Pos(), "expected exactly one branch of the token-count test to let the operation through at once")
				return
			}
			// orderings of (count(from) - count(path)) under which the letting-through branch is taken
			var let []string
			for _, o := range []int{-1, 0, 1} {
				d := o // X - Y
				if sx == "path" {
					d = -o
				}
				var v bool
				switch bo.Op {
				case token.LSS:
					v = d < 0
				case token.LEQ:
					v = d <= 0
				case token.GTR:
					v = d > 0
				case token.GEQ:
					v = d >= 0
				case token.EQL:
					v = d == 0
				case token.NEQ:
					v = d != 0
				}
				if v == a0 {
					let = append(let, map[int]string{-1: "from<path", 0: "from=path", 1: "from>path"}[o])
				}
			}
			c.Check(rule, "copy-guard:token-count-test", eqStrs(let, []string{"from=path", "from>path"}), bo.Pos(), fmt.Sprintf("a copy is let through without comparing tokens when %v (expected exactly [from=path from>path]: only a proper prefix can contain its destination)", let))
		})
	}
	if n == 0 {
		c.Check(rule, "copy-guard:token-count-test", false, g.Pos(), "no comparison of the token counts of \"from\" and \"path\" in the copy guard: shape not understood")
	}
}

// entriesStoredRule (C14.X2; also run by C10: "the handlers install the patch's entries").
func (c *Ctx) entriesStoredRule(rule string) {
	// what the add / replace handlers put into the document are the patch's own key and service objects: the JSON-LD
	// object of each entry goes into the rebuilt list as it is, through no function that could reshape it (a copying
	// helper that turns an empty nested list into null changes what comes back from document -> patches -> document)
	{
		n := 0
		var bad []string
		for _, f := range c.Funcs {
			if pkgPathOf(f) != modPkg+pComposer {
				continue
			}
			forEachInstr(f, func(in ssa.Instruction) {
				cl, ok := in.(*ssa.Call)
				if !ok || cl.Call.StaticCallee() == nil || cl.Call.StaticCallee().Name() != "JSONLdObject" || !strings.HasSuffix(pkgPathOf(cl.Call.StaticCallee()), "/document") {
					return
				}
				if rt := typeShort(cl.Call.Args[0].Type()); rt != "document.PublicKey" && rt != "document.Service" {
					return
				}
				n++
				var follow func(v ssa.Value, d int)
				follow = func(v ssa.Value, d int) {
					if d > 3 || v.Referrers() == nil {
						return
					}
					for _, r := range *v.Referrers() {
						switch y := r.(type) {
						case *ssa.MakeInterface:
							follow(y, d+1)
						case *ssa.ChangeType:
							follow(y, d+1)
						case *ssa.Call:
							if g := y.Call.StaticCallee(); g != nil && inModule(g) {
								bad = append(bad, fmt.Sprintf("%s at %s: the entry's object is handed to %s before it is stored", short(f.String()), c.pos(y.Pos()), short(g.String())))
							}
						}
					}
				}
				follow(cl, 0)
			})
		}
		c.Check(rule, "entries-stored-as-they-are", n >= 2 && len(bad) == 0, 0, fmt.Sprintf("%d key / service objects taken from patch entries in the composer; none passes through a module function on its way into the document", n), bad...)
	}
}

// copyGuardOnMembers: the call hands a module function (returning an error) the "from" member of an operation as one
// argument and its "path" member as another — the copy-into-itself check written over the two pointers.
func (c *Ctx) copyGuardOnMembers(call *ssa.Call, env Env) bool {
	g := call.Call.StaticCallee()
	if g == nil || !inModule(g) || !returnsError(g) || g.Blocks == nil {
		return false
	}
	from, path := 0, 0
	for _, a := range call.Call.Args {
		p := c.Path(a, env)
		f, t := strings.Contains(p, `"from"`), strings.Contains(p, `"path"`)
		if f && !t {
			from++
		}
		if t && !f {
			path++
		}
	}
	return from == 1 && path == 1
}

// dynTypes: the dynamic types an interface value may carry, followed through conversions to interface, φ and the
// accepting exits of module helpers ("?" when it cannot be told).
func (c *Ctx) dynTypes(v ssa.Value, d int) []string {
	set := map[string]bool{}
	var visit func(v ssa.Value, d int)
	visit = func(v ssa.Value, d int) {
		if d > 5 {
			set["?"] = true
			return
		}
		if p, isP := v.(*ssa.Parameter); isP {
			if a, known := c.argOf[p]; known {
				visit(a, d+1)
				return
			}
		}
		if !types.IsInterface(v.Type()) {
			set[types.TypeString(v.Type(), nil)] = true
			return
		}
		switch x := v.(type) {
		case *ssa.MakeInterface:
			set[types.TypeString(x.X.Type(), nil)] = true
		case *ssa.Phi:
			for _, e := range x.Edges {
				visit(e, d+1)
			}
		case *ssa.Const:
			if x.IsNil() {
				set["nil"] = true
			} else {
				set["?"] = true
			}
		case *ssa.Extract:
			if cl, ok := x.Tuple.(*ssa.Call); ok {
				if g := cl.Call.StaticCallee(); g != nil && inModule(g) && g.Blocks != nil {
					for _, r := range successReturns(g) {
						if x.Index < len(r.Results) {
							visit(returnedValue(r, x.Index), d+1)
						}
					}
					return
				}
			}
			set["?"] = true
		case *ssa.Call:
			if g := x.Call.StaticCallee(); g != nil && inModule(g) && g.Blocks != nil {
				for _, r := range successReturns(g) {
					if len(r.Results) > 0 {
						visit(returnedValue(r, 0), d+1)
					}
				}
				return
			}
			set["?"] = true
		case *ssa.Lookup:
			// a member of a generic document that a decoding function handed back (its members are what the JSON
			// decoder produced)
			if mt, isM := x.X.Type().Underlying().(*types.Map); isM && isEmptyInterface(mt.Elem()) {
				src := x.X
				if ex, isE := src.(*ssa.Extract); isE {
					src = ex.Tuple
				}
				if cl, isC := src.(*ssa.Call); isC && len(cl.Call.Args) == 1 && types.TypeString(cl.Call.Args[0].Type(), nil) == "[]byte" {
					set["json"] = true
					return
				}
			}
			set["?"] = true
		case *ssa.UnOp:
			if al, isA := x.X.(*ssa.Alloc); isA && x.Op == token.MUL {
				// a local decoded into by json.Unmarshal(&v) with v of interface / generic type: generic JSON
				if decodedFrom(al) != nil {
					set["decoded:"+types.TypeString(al.Type().Underlying().(*types.Pointer).Elem(), nil)] = true
					return
				}
			}
			set["?"] = true
		default:
			set["?"] = true
		}
	}
	visit(v, d)
	var out []string
	for k := range set {
		out = append(out, k)
	}
	sort.Strings(out)
	return out
}

// applyPatchesFoldRule: ApplyPatches is a left fold — a deep copy of the document parameter, then one loop over the
// patches parameter in index order threading the result, the final result returned, a handler error aborts.
func (c *Ctx) applyPatchesFoldRule(rule string) {
	apf := c.Fn(pComposer, "applyPatch")
	if apf == nil {
		c.Unresolved(rule, "doccomposer.applyPatch")
		return
	}
	ap := c.Method(pComposer, "DocumentComposer", "ApplyPatches")
	if ap == nil {
		c.Unresolved(rule, "ApplyPatches")
	} else {
		c.Analysed(ap)
		// the exported method may be a thin wrapper of the function that does the work: that function is read instead,
		// its parameters named as the method names them
		if g, wenv := c.thinWrapperTarget(ap); g != nil && len(callsTo(ap, apf)) == 0 {
			ap = g
			c.Analysed(ap)
			c.baseEnv = wenv
			defer func() { c.baseEnv = nil }()
		}
		aps := callsTo(ap, apf)
		okFold, okCopy := false, false
		var copyFn *ssa.Function
		if len(aps) == 1 {
			a0 := aps[0].Call.Args[0]
			phi, isPhi := a0.(*ssa.Phi)
			// the running result kept in a local cell (its address was handed to json.Unmarshal): loads and stores
			// instead of a φ
			if ld, isLd := a0.(*ssa.UnOp); isLd && ld.Op == token.MUL {
				if al, isAl := ld.X.(*ssa.Alloc); isAl {
					stepOnly := true
					for _, r := range *al.Referrers() {
						if st, isS := r.(*ssa.Store); isS && st.Addr == ssa.Value(al) {
							if k, isK := st.Val.(*ssa.Const); isK && k.IsNil() {
								continue
							}
							if st.Val != extractOf(aps[0], 0) {
								stepOnly = false
							}
						}
					}
					if src, fn, ok := c.jsonRoundTripCell(ap, al); ok && src == "$1" && stepOnly {
						okCopy, copyFn = true, fn
					}
					if stepOnly && c.Path(aps[0].Call.Args[1], nil) == "$2[ι]" && ascendingFromZero(aps[0].Call.Args[1]) {
						okFold = true
						for _, r := range successReturns(ap) {
							if l2, isL2 := r.Results[0].(*ssa.UnOp); !isL2 || l2.X != ssa.Value(al) {
								okFold = false
							}
						}
					}
				}
			}
			if isPhi && len(phi.Edges) == 2 {
				// one edge is the previous step's result, the other the starting value: a JSON round trip of the document parameter
				var start ssa.Value
				n := 0
				for _, e := range phi.Edges {
					if e == extractOf(aps[0], 0) {
						n++
					} else {
						start = e
					}
				}
				if n == 1 && start != nil {
					if src, fn, ok := c.jsonRoundTripOf(ap, start, nil, 0); ok && src == "$1" {
						okCopy, copyFn = true, fn
					}
					if c.Path(aps[0].Call.Args[1], nil) == "$2[ι]" && ascendingFromZero(aps[0].Call.Args[1]) {
						okFold = true
						for _, r := range successReturns(ap) {
							if r.Results[0] != ssa.Value(phi) {
								okFold = false
							}
						}
					}
				}
			}
		}
		// between the steps nothing else writes the running document: what applyPatch hands back goes to the next
		// applyPatch (or is returned) and to no function that may store into it
		{
			var bad []string
			if len(aps) == 1 {
				var follow func(v ssa.Value, d int)
				seenV := map[ssa.Value]bool{}
				follow = func(v ssa.Value, d int) {
					if v == nil || seenV[v] || d > 4 || v.Referrers() == nil {
						return
					}
					seenV[v] = true
					for _, r := range *v.Referrers() {
						switch y := r.(type) {
						case *ssa.Phi:
							follow(y, d+1)
						case *ssa.ChangeType:
							follow(y, d+1)
						case *ssa.MapUpdate:
							if y.Map == v {
								bad = append(bad, c.pos(y.Pos())+": the fold function itself stores into the running document")
							}
						case *ssa.Call:
							if y == aps[0] {
								continue
							}
							g := y.Call.StaticCallee()
							if g == nil || !inModule(g) || g.Blocks == nil {
								continue
							}
							for i, a := range y.Call.Args {
								if a == v && i < len(g.Params) && mayFill(g.Params[i], 0) {
									bad = append(bad, c.pos(y.Pos())+": the running document is handed to "+short(g.String())+", which may store into it")
								}
							}
						}
					}
				}
				follow(extractOf(aps[0], 0), 0)
			}
			c.Check(rule, "fold:nothing-else-writes-the-running-document", len(bad) == 0, ap.Pos(), "between two applyPatch steps the running document is written by nothing else", bad...)
		}
		c.Check(rule, "fold:starts-from-deep-copy", okCopy, ap.Pos(), "the fold starts from a JSON round trip (json.Unmarshal of json.Marshal) of the document parameter, made in ApplyPatches or in a helper")
		c.Check(rule, "fold:threads-result-in-index-order", okFold, ap.Pos(), "one loop over the patches parameter in index order; each step receives the previous result; the last result is returned")
		c.CheckGuardLoop(rule, "fold:handler-error-aborts", ap, nil, callTo("applyPatch ok", apf))
		jsonU := c.ExtFn("encoding/json", "Unmarshal")
		if copyFn != nil && jsonU != nil {
			c.CheckGuard(rule, "deepCopy:decode-error-propagated", copyFn, nil, callTo("json.Unmarshal of the encoded document", jsonU))
		} else {
			c.Check(rule, "deepCopy:decode-error-propagated", false, ap.Pos(), "no JSON round trip of the document found")
		}
	}
}

// actionValueKeys: the action -> value-key table of pkg/patch — the package-level map literal actionConfig, or a
// function of the package from an Action to (Key, bool) that answers each case with constants. Returns the entries and
// the function when the table is a function.
func (c *Ctx) actionValueKeys() (map[string]string, *ssa.Function) {
	if m := c.globalMapLiteral(c.Global("patch", "actionConfig")); len(m) > 0 {
		return m, nil
	}
	for _, f := range c.Funcs {
		if pkgPathOf(f) != modPkg+"patch" || f.Blocks == nil || len(f.Params) != 1 || typeShort(f.Params[0].Type()) != "patch.Action" {
			continue
		}
		res := f.Signature.Results()
		if res.Len() != 2 || typeShort(res.At(0).Type()) != "patch.Key" || !isBoolType(res.At(1).Type()) {
			continue
		}
		out := map[string]string{}
		for k, blk := range c.caseTable(f, nil, func(p string) bool { return p == "$0" }) {
			for b := range reach(blk, nil) {
				if r, ok := b.Instrs[len(b.Instrs)-1].(*ssa.Return); ok && blk.Dominates(b) && c.Path(r.Results[1], nil) == "true" {
					out[unquote(k)] = unquote(c.Path(r.Results[0], nil))
				}
			}
			if r, ok := blk.Instrs[len(blk.Instrs)-1].(*ssa.Return); ok && c.Path(r.Results[1], nil) == "true" {
				out[unquote(k)] = unquote(c.Path(r.Results[0], nil))
			}
		}
		// outside the cases the function says "not supported"
		okDefault := true
		for _, r := range returnsOf(f) {
			if c.Path(r.Results[1], nil) == "true" {
				in := false
				for _, blk := range c.caseTable(f, nil, func(p string) bool { return p == "$0" }) {
					if blk == r.Block() || blk.Dominates(r.Block()) {
						in = true
					}
				}
				if !in {
					okDefault = false
				}
			}
		}
		if len(out) > 0 && okDefault {
			c.Analysed(f)
			return out, f
		}
	}
	return nil, nil
}

// listAccessorLoopsRule: the accessors through which validators and handlers see the lists of a document or a patch
// (ParsePublicKeys, ParseServices, StringArray) hand on every entry of the right kind: their entry loop is left only at
// its end — an early "not a list of …" return hides the remaining entries from whoever relies on the accessor, while
// the presence test on the raw list has already passed.
func (c *Ctx) listAccessorLoopsRule(rule string) {
	for _, pn := range []string{"ParsePublicKeys", "ParseServices", "StringArray"} {
		pf := c.Fn("document", pn)
		if pf == nil {
			c.Unresolved(rule, "document."+pn)
			continue
		}
		c.Analysed(pf)
		var bad []string
		nLoops := 0
		for _, h := range append([]*ssa.Function{pf}, c.helpersOf(pf, 2)...) {
			bad = append(bad, c.earlyLoopExits(h)...)
			nLoops += len(naturalLoops(h))
		}
		c.Check(rule, pn+":every-entry-handed-on", len(bad) == 0 && nLoops > 0, pf.Pos(), pn+": the loop over the list's entries is left only at its end", bad...)
	}
	// … and the list-valued accessors of the key and service types hand back what those three parse, entry for entry:
	// an accessor that walks the list itself appends on every iteration (one that drops repeated or unknown entries makes
	// the validator count, and the composer store, something other than the patch's own list)
	for _, tn := range []string{"PublicKey", "Service"} {
		nt := c.NamedType("document", tn)
		if nt == nil {
			c.Unresolved(rule, "document."+tn)
			continue
		}
		for _, m := range c.methodsOf(nt) {
			if m.Blocks == nil || m.Signature.Params().Len() != 0 || m.Signature.Results().Len() != 1 {
				continue
			}
			if _, isSl := m.Signature.Results().At(0).Type().Underlying().(*types.Slice); !isSl {
				continue
			}
			c.Analysed(m)
			for _, h := range append([]*ssa.Function{m}, c.helpersOf(m, 1)...) {
				if pkgPathOf(h) != modPkg+"document" || len(naturalLoops(h)) == 0 {
					continue
				}
				switch h.Name() {
				case "ParsePublicKeys", "ParseServices", "StringArray":
					continue
				}
				bad := c.earlyLoopExits(h)
				forEachInstr(h, func(in ssa.Instruction) {
					cl, ok := in.(*ssa.Call)
					if !ok {
						return
					}
					if b, isB := cl.Call.Value.(*ssa.Builtin); !isB || b.Name() != "append" {
						return
					}
					for _, l := range naturalLoops(h) {
						if l.blocks[cl.Block()] && !everyIterationOf(l, cl.Block()) {
							bad = append(bad, c.pos(cl.Pos())+": an entry is handed back only under a condition")
						}
					}
				})
				c.Check(rule, tn+"."+m.Name()+":every-entry-handed-back", len(bad) == 0, h.Pos(), fmt.Sprintf("(%s).%s hands back every entry of the member's list", tn, m.Name()), bad...)
			}
		}
	}
}

// setBuildersRule: the helpers of the composer that turn a list into a set (a loop over the list parameter that puts
// each element into a map made there, handed back) put every element in — "already present" and "to be removed" are
// decided against these sets; an element left out (the empty string, say, which is a valid URI reference) is neither.
func (c *Ctx) setBuildersRule(rule string) {
	n := 0
	var bad []string
	for _, f := range c.Funcs {
		if pkgPathOf(f) != modPkg+pComposer || f.Blocks == nil || f.Parent() != nil {
			continue
		}
		forEachInstr(f, func(in ssa.Instruction) {
			mu, ok := in.(*ssa.MapUpdate)
			if !ok {
				return
			}
			if _, isMM := stripConv(mu.Map).(*ssa.MakeMap); !isMM {
				return
			}
			returned := false
			for _, r := range returnsOf(f) {
				for _, rv := range r.Results {
					if stripConv(rv) == stripConv(mu.Map) {
						returned = true
					}
				}
			}
			if !returned {
				return
			}
			for _, l := range naturalLoops(f) {
				if !l.blocks[mu.Block()] {
					continue
				}
				n++
				if !everyIterationOf(l, mu.Block()) {
					bad = append(bad, fmt.Sprintf("%s: %s puts an element into the set only under a condition", c.pos(mu.Pos()), short(f.String())))
				}
			}
		})
	}
	c.Check(rule, "set-builders:every-element-kept", n >= 1 && len(bad) == 0, 0, fmt.Sprintf("%d set-building loop(s) in the composer; each puts every element of its list into the set", n), bad...)
}

// everyIterationOf: block b of loop l runs on every iteration (every path from the loop's body entry back to the header
// passes through b).
func everyIterationOf(l *loop, b *ssa.BasicBlock) bool {
	cut := map[edge]bool{}
	for _, s := range b.Succs {
		cut[edge{from: b, to: s}] = true
	}
	for _, e := range l.bodyEntries() {
		if e == b {
			continue
		}
		for x := range reach(e, cut) {
			if x == b || !l.blocks[x] {
				continue
			}
			for _, s := range x.Succs {
				if s == l.header {
					return false
				}
			}
		}
	}
	return true
}

// patchFormatConstRule: format strings in the patch package are constants: caller-supplied JSON never takes the place of a format
// (a '%' in a service endpoint would be read as a verb)
func (c *Ctx) patchFormatConstRule(rule string) {
	n, bad := 0, 0
	var where []string
	for _, f := range c.Funcs {
		if pkgPathOf(f) != modPkg+"patch" {
			continue
		}
		forEachInstr(f, func(in ssa.Instruction) {
			cl, ok := in.(*ssa.Call)
			if !ok || cl.Call.StaticCallee() == nil || len(cl.Call.Args) < 1 {
				return
			}
			switch cl.Call.StaticCallee().String() {
			case "fmt.Sprintf", "fmt.Errorf", "fmt.Fprintf", "fmt.Printf":
			default:
				return
			}
			fa := cl.Call.Args[0]
			if cl.Call.StaticCallee().String() == "fmt.Fprintf" && len(cl.Call.Args) > 1 {
				fa = cl.Call.Args[1]
			}
			n++
			if _, isK := fa.(*ssa.Const); !isK {
				bad++
				where = append(where, short(f.String())+" at "+c.pos(cl.Pos())+": "+c.Path(fa, nil))
			}
		})
	}
	c.Check(rule, "constant-format-strings", bad == 0 && n >= 5, 0, fmt.Sprintf("%d formatting calls in pkg/patch, %d with a format that is not a constant %v", n, bad, where))
}

// patchAccessorRules (C14.G1): FromBytes succeeds only across GetAction and GetValue of the decoded patch; GetValue
// hands back exactly the member stored under the action's value key; GetAction admits only actions of the table.
func (c *Ctx) patchAccessorRules(cfgFn *ssa.Function) {
	fb := c.Fn("patch", "FromBytes")
	ga := c.Method("patch", "Patch", "GetAction")
	gv := c.Method("patch", "Patch", "GetValue")
	if fb == nil || ga == nil || gv == nil {
		c.Unresolved("C14.G1", "patch.FromBytes / GetAction / GetValue")
	} else {
		// (a lookup accessor of the action table with an error for a miss — `valueKeyFor(action) (Key, error)` — reads as
		// the lookup it makes)
		{
			saved := c.inlineFns
			c.inlineFns = map[*ssa.Function]bool{}
			for k, v := range saved {
				c.inlineFns[k] = v
			}
			defer func() { c.inlineFns = saved }()
			for _, f := range []*ssa.Function{ga, gv} {
				forEachInstr(f, func(in ssa.Instruction) {
					if cl, ok := in.(*ssa.Call); ok {
						if lk, g := c.lookupAccessorErr(cl); lk != nil {
							c.inlineFns[g] = true
						}
					}
				})
			}
		}
		var A string
		for _, r := range successReturns(fb) {
			A = c.Path(r.Results[0], nil)
		}
		jsonU := c.ExtFn("encoding/json", "Unmarshal")
		c.CheckGuard("C14.G1", "FromBytes:decode", fb, nil, callTo("json.Unmarshal(data, &patch)", jsonU, pathIs("$0")))
		c.CheckGuard("C14.G1", "FromBytes:GetAction", fb, nil, callTo("patch.GetAction()", ga, pathIs(A)))
		c.CheckGuard("C14.G1", "FromBytes:GetValue", fb, nil, callTo("patch.GetValue()", gv, pathIs(A)))
		c.Check("C14.G1", "FromBytes:returns-decoded", A == "makemap<patch.Patch>" || A == "new<patch.Patch>#0", fb.Pos(), "FromBytes returns the decoded patch "+A)
		// GetValue
		act := short(ga.String()) + "($0)#0"
		// GetAction may be a thin projection of an unexported helper that GetValue calls as well (one lookup yielding the
		// action and its value key): that helper is then "the action of this patch", its key result the action's key
		var core *ssa.Function
		coreKeyIdx := -1
		if srs := successReturns(ga); len(srs) == 1 {
			if ex, isEx := returnedValue(srs[0], 0).(*ssa.Extract); isEx && ex.Index == 0 {
				if cl, isC := ex.Tuple.(*ssa.Call); isC {
					if h := cl.Call.StaticCallee(); h != nil && inModule(h) && h.Blocks != nil && h.Object() != nil && !h.Object().Exported() && len(cl.Call.Args) == 1 && c.Path(cl.Call.Args[0], nil) == "$0" {
						core = h
					}
				}
			}
		}
		if core != nil {
			c.Analysed(core)
			for _, r := range successReturns(core) {
				a0 := c.Path(returnedValue(r, 0), nil)
				for k := 1; k < len(r.Results)-1; k++ {
					if strings.TrimSuffix(c.Path(returnedValue(r, k), nil), "#0") == "global:patch.actionConfig["+a0+"]" {
						coreKeyIdx = k
					}
				}
			}
			if len(callsTo(gv, core)) > 0 {
				act = short(core.String()) + "($0)#0"
			}
		}
		ownAction := callTo("GetAction()", ga, pathIs("$0"))
		if core != nil {
			ownAction = anyOf("GetAction() or the helper GetAction is a projection of", ownAction, callTo(core.Name()+"()", core, pathIs("$0")))
		}
		c.CheckGuard("C14.G1", "GetValue:own-action", gv, nil, ownAction)
		// the action GetAction hands back is a key of actionConfig (the lookup's index is the value it returns): a plain
		// actionConfig[action] in GetValue is then a lookup that cannot miss
		gaRet := ""
		for _, r := range successReturns(ga) {
			gaRet = c.Path(r.Results[0], nil)
		}
		// a lookup of the table: actionConfig[a] (comma-ok), or a call of the table function with a
		cfgOK := func(name string, idx func(string) bool) *GCheck {
			return &GCheck{Name: name, NoDescend: true, MatchOK: func(c *Ctx, v ssa.Value, env Env) bool {
				lk, ok := v.(*ssa.Lookup)
				return ok && c.Path(lk.X, env) == "global:patch.actionConfig" && idx(c.Path(lk.Index, env))
			}, MatchCall: func(c *Ctx, call *ssa.Call, env Env) bool {
				return cfgFn != nil && call.Call.StaticCallee() == cfgFn && len(call.Call.Args) == 1 && idx(c.Path(call.Call.Args[0], env))
			}}
		}
		noOK := func(s string) string { return strings.ReplaceAll(s, "]#0", "]") }
		// the value key of action a, as a path: the looked-up entry or the function's first result
		isKeyOf := func(p, a string) bool {
			if noOK(p) == "global:patch.actionConfig["+a+"]" {
				return true
			}
			if core != nil && coreKeyIdx > 0 && a == short(core.String())+"($0)#0" && p == fmt.Sprintf("%s($0)#%d", short(core.String()), coreKeyIdx) {
				return true
			}
			return cfgFn != nil && p == short(cfgFn.String())+"("+a+")#0"
		}
		gaHost := ga
		if core != nil {
			gaHost = core
			for _, r := range successReturns(core) {
				gaRet = c.Path(r.Results[0], nil)
			}
		}
		gaMember, _, gaN := c.Guard(gaHost, nil, cfgOK("actionConfig[returned action] ok", pathIs(gaRet)), nil)
		cfgLookup := cfgOK("actionConfig[action] ok", pathIs(act))
		if gaMember && gaN > 0 {
			c.CheckGuard("C14.G1", "GetValue:config-lookup", gv, nil, anyOf("actionConfig[action] ok, or the action is the one GetAction vouches for", cfgLookup, ownAction))
		} else {
			c.CheckGuard("C14.G1", "GetValue:config-lookup", gv, nil, cfgLookup)
		}
		c.CheckGuard("C14.G1", "GetValue:member-present", gv, nil, &GCheck{Name: "patch[valueKey] ok", MatchOK: func(c *Ctx, v ssa.Value, env Env) bool {
			lk, ok := v.(*ssa.Lookup)
			return ok && c.Path(lk.X, env) == "$0" && isKeyOf(c.Path(lk.Index, env), act)
		}})
		okRet := true
		for _, r := range successReturns(gv) {
			p := c.Path(r.Results[0], nil)
			if !strings.HasPrefix(p, "$0[") || !strings.HasSuffix(p, "]#0") || !isKeyOf(p[3:len(p)-3], act) {
				okRet = false
			}
		}
		c.Check("C14.G1", "GetValue:returns-member", okRet, gv.Pos(), "GetValue returns the member stored under the action's value key")
		// GetAction
		c.CheckGuard("C14.G1", "GetAction:member-present", ga, nil, &GCheck{Name: `patch["action"] ok`, MatchOK: func(c *Ctx, v ssa.Value, env Env) bool {
			lk, ok := v.(*ssa.Lookup)
			return ok && c.Path(lk.X, env) == "$0" && c.Path(lk.Index, env) == `"action"`
		}})
		c.CheckGuard("C14.G1", "GetAction:supported", gaHost, nil, cfgOK("actionConfig[action] ok", func(string) bool { return true }))
		// the action reported is the "action" member as it stands (an Action, or a string converted to one): a
		// normalised spelling (lower-cased, trimmed) makes the accessor disagree with the patch's own content
		{
			okAct := gaRet != ""
			for _, part := range strings.Split(strings.TrimSuffix(strings.TrimPrefix(gaRet, "phi("), ")"), "|") {
				if !regexp.MustCompile(`^(conv<[^>]*>\()?\$0\["action"\](#0)?\.\((patch\.Action|string)\)(#0)?\)?$`).MatchString(part) {
					okAct = false
				}
			}
			c.Check("C14.G1", "GetAction:member-as-it-stands", okAct, gaHost.Pos(), "GetAction hands back the \"action\" member itself: "+gaRet)
		}
		if core != nil {
			c.CheckGuard("C14.G1", "GetAction:helper-required", ga, nil, callTo(core.Name()+"()", core, pathIs("$0")))
		}
	}
}

// localLiteral: the call invokes a function literal of the enclosing function — directly, or through the local variable
// it was assigned to (once).
func localLiteral(cl *ssa.Call) *ssa.Function {
	if cl.Call.IsInvoke() {
		return nil
	}
	switch x := cl.Call.Value.(type) {
	case *ssa.MakeClosure:
		f, _ := x.Fn.(*ssa.Function)
		return f
	case *ssa.Function:
		if x.Parent() != nil {
			return x
		}
		return nil
	}
	if f := resolveFuncVar(cl.Call.Value, 0); f != nil && f.Parent() != nil {
		return f
	}
	return nil
}

// bindingOf: the cell of the enclosing function that the literal lit (called at cl) reads through its captured variable fv.
func bindingOf(cl *ssa.Call, lit *ssa.Function, fv *ssa.FreeVar) ssa.Value {
	idx := -1
	for i, x := range lit.FreeVars {
		if x == fv {
			idx = i
		}
	}
	if idx < 0 || lit.Parent() == nil {
		return nil
	}
	var out ssa.Value
	forEachInstr(lit.Parent(), func(in ssa.Instruction) {
		if mc, ok := in.(*ssa.MakeClosure); ok && mc.Fn == ssa.Value(lit) && idx < len(mc.Bindings) {
			out = mc.Bindings[idx]
		}
	})
	return out
}

// freshCellLoad: v loads a local variable's cell in the function's entry block before anything was stored into it —
// the variable's zero value (`var list []T`, kept in a cell because a function literal captures it).
func freshCellLoad(v ssa.Value) bool {
	ld, ok := v.(*ssa.UnOp)
	if !ok || ld.Op != token.MUL || ld.Block() == nil || ld.Parent() == nil || ld.Block() != ld.Parent().Blocks[0] {
		return false
	}
	cell, ok := ld.X.(*ssa.Alloc)
	if !ok || cell.Block() != ld.Block() {
		return false
	}
	seenCell := false
	for _, in := range ld.Block().Instrs {
		if in == ssa.Instruction(cell) {
			seenCell = true
			continue
		}
		if in == ssa.Instruction(ld) {
			return seenCell
		}
		if !seenCell {
			continue
		}
		switch x := in.(type) {
		case *ssa.Store:
			if x.Addr == ssa.Value(cell) {
				return false
			}
		case *ssa.MakeClosure:
			for _, b := range x.Bindings {
				if b == ssa.Value(cell) {
					// captured before the load: the literal is only made here, not run
					continue
				}
			}
		case ssa.CallInstruction:
			for _, a := range x.Common().Args {
				if a == ssa.Value(cell) {
					return false
				}
			}
			// a literal that captures the cell may have been made already and could be run by this call
			if _, isBuiltin := x.Common().Value.(*ssa.Builtin); !isBuiltin && x.Common().StaticCallee() == nil {
				return false
			}
		}
	}
	return false
}

// tokenUnescapeRule: the copy guard compares reference tokens after RFC 6901 unescaping — "~1" stands for "/" and "~0"
// for "~", and "~01" is the text "~1": the two replacements are made in one pass (a strings.Replacer built from exactly
// those two pairs) or "~1" first and "~0" second. The other order turns "~01" into "/", and two different members
// look the same.
func (c *Ctx) tokenUnescapeRule(rule string) {
	st := c.Fn(pComposer, "sameToken")
	if st == nil {
		c.Unresolved(rule, "doccomposer.sameToken")
		return
	}
	c.Analysed(st)
	// how a value is derived from a token: the chain of replacement steps applied to the parameter, outermost last
	var steps func(v ssa.Value, env map[ssa.Value]ssa.Value, d int) ([]string, ssa.Value)
	steps = func(v ssa.Value, env map[ssa.Value]ssa.Value, d int) ([]string, ssa.Value) {
		if d > 6 {
			return nil, v
		}
		if a, ok := env[v]; ok {
			return steps(a, nil, d+1)
		}
		cl, ok := v.(*ssa.Call)
		if !ok {
			return nil, v
		}
		if lit := localLiteral(cl); lit != nil {
			rs := returnsOf(lit)
			if len(rs) == 1 && len(rs[0].Results) == 1 {
				e := map[ssa.Value]ssa.Value{}
				for i, p := range lit.Params {
					if i < len(cl.Call.Args) {
						e[p] = cl.Call.Args[i]
					}
				}
				return steps(rs[0].Results[0], e, d+1)
			}
			return nil, v
		}
		g := cl.Call.StaticCallee()
		if g == nil {
			return nil, v
		}
		switch g.String() {
		case "strings.ReplaceAll":
			in, root := steps(cl.Call.Args[0], env, d+1)
			return append(in, c.Path(cl.Call.Args[1], nil)+"->"+c.Path(cl.Call.Args[2], nil)), root
		case "strings.Replace":
			if c.Path(cl.Call.Args[3], nil) != "-1" {
				return []string{"?"}, v
			}
			in, root := steps(cl.Call.Args[0], env, d+1)
			return append(in, c.Path(cl.Call.Args[1], nil)+"->"+c.Path(cl.Call.Args[2], nil)), root
		case "(*strings.Replacer).Replace":
			in, root := steps(cl.Call.Args[1], env, d+1)
			return append(in, "replacer{"+strings.Join(c.replacerPairs(cl.Call.Args[0]), ",")+"}"), root
		}
		if inModule(g) && g.Blocks != nil && len(g.Params) == 1 && len(cl.Call.Args) == 1 {
			rs := returnsOf(g)
			if len(rs) == 1 && len(rs[0].Results) == 1 {
				return steps(rs[0].Results[0], map[ssa.Value]ssa.Value{g.Params[0]: cl.Call.Args[0]}, d+1)
			}
		}
		return nil, v
	}
	n := 0
	// where the comparison sits: sameToken itself, or a helper it hands its two tokens to ("same member name?")
	type hostT struct {
		fn   *ssa.Function
		penv map[ssa.Value]ssa.Value
	}
	hosts := []hostT{{st, nil}}
	forEachInstr(st, func(in ssa.Instruction) {
		cl, ok := in.(*ssa.Call)
		if !ok {
			return
		}
		h := cl.Call.StaticCallee()
		if h == nil || !inModule(h) || h.Blocks == nil || pkgPathOf(h) != pkgPathOf(st) || h.Object() == nil || h.Object().Exported() || len(h.Params) != len(cl.Call.Args) {
			return
		}
		pe := map[ssa.Value]ssa.Value{}
		for i, a := range cl.Call.Args {
			if _, isP := a.(*ssa.Parameter); !isP {
				return
			}
			pe[h.Params[i]] = a
		}
		hosts = append(hosts, hostT{h, pe})
	})
	for _, ht := range hosts {
		ht := ht
		forEachInstr(ht.fn, func(in ssa.Instruction) {
			bo, ok := in.(*ssa.BinOp)
			if !ok || (bo.Op != token.EQL && bo.Op != token.NEQ) || !isStringType(bo.X.Type()) {
				return
			}
			sx, rx := steps(bo.X, nil, 0)
			sy, ry := steps(bo.Y, nil, 0)
			if a, ok := ht.penv[rx]; ok {
				rx = a
			}
			if a, ok := ht.penv[ry]; ok {
				ry = a
			}
			px, isPX := rx.(*ssa.Parameter)
			py, isPY := ry.(*ssa.Parameter)
			if !isPX || !isPY || px == py || px.Parent() != st || py.Parent() != st {
				return
			}
			n++
			good := func(s []string) bool {
				switch strings.Join(s, " ; ") {
				case `replacer{"~0"->"~","~1"->"/"}`, `"~1"->"/" ; "~0"->"~"`:
					return true
				}
				return false
			}
			c.Check(rule, "copy-guard:token-unescape", good(sx) && good(sy), bo.Pos(), fmt.Sprintf("the two reference tokens are compared after RFC 6901 unescaping, \"~1\" before \"~0\" or both in one pass: %v / %v", sx, sy))
		})
	}
	if n == 0 {
		c.Check(rule, "copy-guard:token-unescape", false, st.Pos(), "no comparison of the two reference tokens as texts found in sameToken: shape not understood")
	}
}

// replacerPairs: the old->new pairs of a strings.Replacer held in a package-level variable initialised once with
// strings.NewReplacer and constant arguments (sorted); nil when it cannot be told.
func (c *Ctx) replacerPairs(v ssa.Value) []string {
	ld, ok := v.(*ssa.UnOp)
	if !ok || ld.Op != token.MUL {
		return []string{"?"}
	}
	g, ok := ld.X.(*ssa.Global)
	if !ok || g.Pkg == nil {
		return []string{"?"}
	}
	var val ssa.Value
	n := 0
	for _, fn := range allFuncs(g.Pkg) {
		forEachInstr(fn, func(in ssa.Instruction) {
			if st, isS := in.(*ssa.Store); isS && st.Addr == ssa.Value(g) {
				n++
				if fn.Name() == "init" {
					val = st.Val
				}
			}
		})
	}
	cl, isC := val.(*ssa.Call)
	if n != 1 || !isC || cl.Call.StaticCallee() == nil || cl.Call.StaticCallee().String() != "strings.NewReplacer" || len(cl.Call.Args) != 1 {
		return []string{"?"}
	}
	vs, okV := c.varargValues(cl.Call.Args[0])
	if !okV || len(vs)%2 != 0 {
		return []string{"?"}
	}
	var out []string
	for i := 0; i+1 < len(vs); i += 2 {
		if _, k1 := vs[i].(*ssa.Const); !k1 {
			return []string{"?"}
		}
		if _, k2 := vs[i+1].(*ssa.Const); !k2 {
			return []string{"?"}
		}
		out = append(out, c.Path(vs[i], nil)+"->"+c.Path(vs[i+1], nil))
	}
	sort.Strings(out)
	return out
}
