package main

// Dispatch tables: "constant key -> handler" written as a switch (one case block per key) or as a package-level
// map literal of function values that is looked up with the key and whose result is called. Both forms are read
// into the same view so that rules on dispatchers do not depend on which one the code uses.

import (
	"go/token"
	"go/types"
	"strings"

	"golang.org/x/tools/go/ssa"
)

type arm struct {
	key   string
	blk   *ssa.BasicBlock // switch form: the case body
	fn    *ssa.Function   // table form: the function stored under the key (a named function / method, or a literal)
	bound bool            // table form: fn is a method value (receiver already bound), the call passes no receiver
}

type dispatchView struct {
	f      *ssa.Function
	arms   map[string]*arm
	table  bool        // table form
	lk     *ssa.Lookup // table form: the lookup
	site   *ssa.Call   // table form: the call of the looked-up function
	sel    *ssa.Call   // selector form: the call of the function that picks the handler (a switch returning function values)
	objSel bool        // selector form: the selector hands back a handler object; the call invokes a method of it
}

// armCall is one handler invocation of an arm, with its arguments rendered in the dispatcher's frame.
type armCall struct {
	callee *ssa.Function
	call   *ssa.Call // the call instruction (switch form and literal-function arms); nil for a method/function entry
	args   []string  // declared arguments (receiver excluded), paths in the dispatcher's frame
}

// funcValueOf strips conversions from a function value stored in a table.
func funcValueOf(v ssa.Value) *ssa.Function {
	for d := 0; d < 4; d++ {
		switch x := v.(type) {
		case *ssa.Function:
			// a method expression (*T).M used as a value is a synthetic thunk around the method: unwrap it
			if strings.HasPrefix(x.Synthetic, "thunk") || strings.HasPrefix(x.Synthetic, "bound method") || strings.HasPrefix(x.Synthetic, "wrapper") {
				var inner *ssa.Function
				n := 0
				forEachInstr(x, func(in ssa.Instruction) {
					if ci, ok := in.(ssa.CallInstruction); ok {
						n++
						inner = ci.Common().StaticCallee()
					}
				})
				if n == 1 && inner != nil {
					return inner
				}
			}
			return x
		case *ssa.MakeClosure:
			f, _ := x.Fn.(*ssa.Function)
			if f != nil && strings.HasPrefix(f.Synthetic, "bound method") {
				v = f
				continue
			}
			return f
		case *ssa.ChangeType:
			v = x.X
		case *ssa.MakeInterface:
			v = x.X
		default:
			return nil
		}
	}
	return nil
}

// tableCallees: the call's function value is the result of looking a key up in a package-level map literal of
// functions; returns the lookup, the key -> function entries (nil if the call has another shape).
func (c *Ctx) tableCallees(v ssa.Value) (*ssa.Lookup, map[string]*ssa.Function) {
	var lk *ssa.Lookup
	switch x := v.(type) {
	case *ssa.Lookup:
		lk = x
	case *ssa.Extract:
		if x.Index == 0 {
			lk, _ = x.Tuple.(*ssa.Lookup)
		}
	}
	if lk == nil {
		return nil, nil
	}
	ld, ok := lk.X.(*ssa.UnOp)
	if !ok || ld.Op != token.MUL {
		return nil, nil
	}
	g, ok := ld.X.(*ssa.Global)
	if !ok {
		return nil, nil
	}
	ups := c.globalMapUpdates(g)
	if len(ups) == 0 {
		return nil, nil
	}
	out := map[string]*ssa.Function{}
	for _, mu := range ups {
		fn := funcValueOf(mu.Value)
		if fn == nil {
			return nil, nil
		}
		out[c.Path(mu.Key, nil)] = fn
	}
	return lk, out
}

// dispatch reads the dispatcher f on the value whose path satisfies scrut.
func (c *Ctx) dispatch(f *ssa.Function, scrut func(path string) bool) *dispatchView {
	dv := &dispatchView{f: f, arms: map[string]*arm{}}
	for k, blk := range c.caseTable(f, nil, scrut) {
		dv.arms[k] = &arm{key: k, blk: blk}
	}
	if len(dv.arms) > 0 {
		return dv
	}
	forEachInstr(f, func(in ssa.Instruction) {
		cl, ok := in.(*ssa.Call)
		if !ok || cl.Call.IsInvoke() || cl.Call.StaticCallee() != nil {
			return
		}
		lk, tbl := c.tableCallees(cl.Call.Value)
		if lk == nil || !scrut(c.Path(lk.Index, nil)) {
			return
		}
		dv.table, dv.lk, dv.site = true, lk, cl
		for k, fn := range tbl {
			dv.arms[k] = &arm{key: k, fn: fn}
		}
	})
	if len(dv.arms) > 0 {
		return dv
	}
	// selector form: handler, err := pick(key); handler(args...) where pick switches on the key and returns function values
	forEachInstr(f, func(in ssa.Instruction) {
		cl, ok := in.(*ssa.Call)
		if !ok || cl.Call.IsInvoke() || cl.Call.StaticCallee() != nil || dv.sel != nil {
			return
		}
		var sel *ssa.Call
		switch x := cl.Call.Value.(type) {
		case *ssa.Call:
			sel = x
		case *ssa.Extract:
			if x.Index == 0 {
				sel, _ = x.Tuple.(*ssa.Call)
			}
		}
		if sel == nil {
			return
		}
		g := sel.Call.StaticCallee()
		if g == nil || !inModule(g) || g.Blocks == nil {
			return
		}
		senv := c.calleeEnv(&sel.Call, g, nil)
		arms := map[string]*arm{}
		for k, blk := range c.caseTable(g, senv, scrut) {
			for _, r := range returnsOf(g) {
				if len(r.Results) == 0 || !blk.Dominates(r.Block()) {
					continue
				}
				if fn := funcValueOf(r.Results[0]); fn != nil {
					_, isMC := stripConv(r.Results[0]).(*ssa.MakeClosure)
					arms[k] = &arm{key: k, fn: fn, bound: isMC && fn.Signature.Recv() != nil}
				}
			}
		}
		if len(arms) == 0 {
			return
		}
		dv.table, dv.site, dv.sel, dv.arms = true, cl, sel, arms
	})
	if dv.sel != nil {
		return dv
	}
	// object selector form: h := pick(key); h.Method(args...) where pick switches on the key and returns, per case, a
	// handler object under the interface the method is invoked on
	forEachInstr(f, func(in ssa.Instruction) {
		cl, ok := in.(*ssa.Call)
		if !ok || !cl.Call.IsInvoke() || dv.sel != nil {
			return
		}
		sel, _ := cl.Call.Value.(*ssa.Call)
		if sel == nil {
			return
		}
		g := sel.Call.StaticCallee()
		if g == nil || !inModule(g) || g.Blocks == nil || g.Signature.Results().Len() != 1 {
			return
		}
		senv := c.calleeEnv(&sel.Call, g, nil)
		arms := map[string]*arm{}
		for k, blk := range c.caseTable(g, senv, scrut) {
			for _, r := range returnsOf(g) {
				if len(r.Results) != 1 || !blk.Dominates(r.Block()) {
					continue
				}
				if m := c.objMethod(r.Results[0], cl); m != nil {
					arms[k] = &arm{key: k, fn: m, bound: true}
				}
			}
		}
		if len(arms) == 0 {
			return
		}
		dv.table, dv.site, dv.sel, dv.arms, dv.objSel = true, cl, sel, arms, true
	})
	return dv
}

// objMethod: v is a concrete value put under an interface; the method of it that the invoke call cl runs.
func (c *Ctx) objMethod(v ssa.Value, cl *ssa.Call) *ssa.Function {
	mi, ok := v.(*ssa.MakeInterface)
	if !ok || !cl.Call.IsInvoke() {
		return nil
	}
	return c.Prog.LookupMethod(mi.X.Type(), cl.Call.Method.Pkg(), cl.Call.Method.Name())
}

func stripConv(v ssa.Value) ssa.Value {
	for d := 0; d < 4; d++ {
		switch x := v.(type) {
		case *ssa.ChangeType:
			v = x.X
		case *ssa.MakeInterface:
			v = x.X
		default:
			return v
		}
	}
	return v
}

// calls lists the handler invocations of an arm.
func (c *Ctx) armCalls(dv *dispatchView, a *arm) []armCall {
	var out []armCall
	render := func(vs []ssa.Value, env Env) []string {
		var ps []string
		for _, v := range vs {
			ps = append(ps, c.Path(v, env))
		}
		return ps
	}
	if a.blk != nil {
		for _, cl := range callsIn(a.blk) {
			if g := cl.Call.StaticCallee(); g != nil {
				out = append(out, armCall{callee: g, call: cl, args: render(declArgs(cl), nil)})
			}
		}
		// the arm only picks the handler function (a function variable assigned per case, possibly in the empty block
		// the case jumps through); it is called once, after the switch, through the value that merges the arms
		for _, pc := range phiPickedCalls(a.blk) {
			if fn := funcValueOf(pc.picked); fn != nil {
				out = append(out, armCall{callee: fn, call: pc.call, args: render(pc.call.Call.Args, nil)})
			}
		}
		// the arm only picks the handler object (an interface variable assigned per case); the method is invoked once,
		// after the switch, on the value that merges the arms
		for _, in := range a.blk.Instrs {
			mi, ok := in.(*ssa.MakeInterface)
			if !ok || mi.Referrers() == nil {
				continue
			}
			for _, r := range *mi.Referrers() {
				phi, isPhi := r.(*ssa.Phi)
				if !isPhi || phi.Referrers() == nil {
					continue
				}
				for _, rr := range *phi.Referrers() {
					cl, isC := rr.(*ssa.Call)
					if !isC || !cl.Call.IsInvoke() || cl.Call.Value != ssa.Value(phi) {
						continue
					}
					if m := c.Prog.LookupMethod(mi.X.Type(), cl.Call.Method.Pkg(), cl.Call.Method.Name()); m != nil {
						out = append(out, armCall{callee: m, call: cl, args: render(cl.Call.Args, nil)})
					}
				}
			}
		}
		return out
	}
	if a.fn == nil || dv.site == nil {
		return nil
	}
	if a.fn.Parent() == nil && a.fn.Synthetic == "" {
		// a named function or a method expression: the dispatcher's call arguments are the handler's
		args := dv.site.Call.Args
		if a.fn.Signature.Recv() != nil && len(args) > 0 && !a.bound {
			args = args[1:]
		}
		return []armCall{{callee: a.fn, args: render(args, nil)}}
	}
	// a function literal (or a synthetic wrapper): its own calls, parameters renamed to the dispatcher's arguments
	env := c.calleeEnv(&dv.site.Call, a.fn, nil)
	forEachInstr(a.fn, func(in ssa.Instruction) {
		if cl, ok := in.(*ssa.Call); ok {
			if g := cl.Call.StaticCallee(); g != nil {
				out = append(out, armCall{callee: g, call: cl, args: render(declArgs(cl), env)})
			}
		}
	})
	return out
}

// foundOnly: in table form, every may-succeed return of the dispatcher lies behind the found edge of the lookup and
// behind the success edge of the handler call.
func (c *Ctx) tableGuards(dv *dispatchView) (foundOnly, callRequired bool) {
	if !dv.table || (dv.lk == nil && dv.sel == nil) || dv.site == nil {
		return false, false
	}
	if dv.sel != nil {
		// the selector refuses a key outside its cases (every exit that may succeed lies in a case), and the
		// dispatcher goes on only when the selector succeeded
		g := dv.sel.Call.StaticCallee()
		inCase := true
		if dv.objSel {
			// every object the selector hands back is one of the cases'; "none" (nil) is refused before the method is invoked
			hasNil := false
			for _, r := range returnsOf(g) {
				if k, isK := r.Results[0].(*ssa.Const); isK && k.IsNil() {
					hasNil = true
					continue
				}
				hit := false
				for _, a := range dv.arms {
					if m := c.objMethod(r.Results[0], dv.site); m != nil && m == a.fn {
						hit = true
					}
				}
				inCase = inCase && hit
			}
			if hasNil {
				nilRefused, _, _ := c.Guard(dv.f, nil, cmpReject("no handler selected: refused", token.EQL, pathIs(c.Path(dv.sel, nil)), pathIs("nil")), func(i ssa.Instruction) bool { return i == ssa.Instruction(dv.site) })
				inCase = inCase && nilRefused
			}
			foundOnly = inCase
			callRequired, _, _ = c.Guard(dv.f, nil, &GCheck{Name: "handler call succeeded", NoDescend: true, MatchCall: func(c *Ctx, call *ssa.Call, env Env) bool { return call == dv.site }}, nil)
			return
		}
		for _, r := range returnsOf(g) {
			if !maySucceed(r) {
				continue
			}
			hit := false
			for _, a := range dv.arms {
				if fn := funcValueOf(r.Results[0]); fn != nil && fn == a.fn {
					hit = true
				}
			}
			inCase = inCase && hit
		}
		selOK, _, _ := c.Guard(dv.f, nil, &GCheck{Name: "handler selection succeeded", NoDescend: true, MatchCall: func(c *Ctx, call *ssa.Call, env Env) bool { return call == dv.sel }}, func(i ssa.Instruction) bool { return i == ssa.Instruction(dv.site) })
		foundOnly = inCase && selOK
		callRequired, _, _ = c.Guard(dv.f, nil, &GCheck{Name: "handler call succeeded", NoDescend: true, MatchCall: func(c *Ctx, call *ssa.Call, env Env) bool { return call == dv.site }}, nil)
		return
	}
	if dv.lk.CommaOk {
		foundOnly, _, _ = c.Guard(dv.f, nil, &GCheck{Name: "table lookup found the key", NoDescend: true, MatchOK: func(c *Ctx, v ssa.Value, env Env) bool { return v == ssa.Value(dv.lk) }}, nil)
	}
	if !foundOnly {
		// or the looked-up function is compared with nil
		fv := dv.site.Call.Value
		foundOnly, _, _ = c.Guard(dv.f, nil, cmpReject("handler == nil rejected", token.EQL, pathIs(c.Path(fv, nil)), pathIs("nil")), nil)
	}
	callRequired, _, _ = c.Guard(dv.f, nil, &GCheck{Name: "handler call succeeded", NoDescend: true, MatchCall: func(c *Ctx, call *ssa.Call, env Env) bool { return call == dv.site }}, nil)
	return
}

type pickedCall struct {
	picked ssa.Value // the function value the arm selects
	call   *ssa.Call // the call through the φ that merges the arms
}

// phiPickedCalls: function values (closures made in blk, or named functions) that flow from blk into a φ of function
// type which is then called.
func phiPickedCalls(blk *ssa.BasicBlock) []pickedCall {
	var out []pickedCall
	for _, s := range blk.Succs {
		for _, in := range s.Instrs {
			phi, ok := in.(*ssa.Phi)
			if !ok {
				break
			}
			if _, isSig := phi.Type().Underlying().(*types.Signature); !isSig || phi.Referrers() == nil {
				continue
			}
			for i, p := range s.Preds {
				if p != blk {
					continue
				}
				v := phi.Edges[i]
				if k, isK := v.(*ssa.Const); isK && k.IsNil() {
					continue
				}
				for _, rr := range *phi.Referrers() {
					if cl, isC := rr.(*ssa.Call); isC && !cl.Call.IsInvoke() && cl.Call.Value == ssa.Value(phi) {
						out = append(out, pickedCall{picked: v, call: cl})
					}
				}
			}
		}
	}
	return out
}
