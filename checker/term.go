package main

// Engine P (success terms): def-use reconstruction of what a function returns on its success exits, with
// repo-internal callees inlined down to external primitives and a few opaque repo leaves, then rewritten
// into a small algebra {JCS, H, mhEnc, mhDec, b64, b64dec}. No path conditions, no solver.

import (
	"fmt"
	"go/token"
	"strings"

	"golang.org/x/tools/go/ssa"
)

type Term struct {
	Op   string
	Args []*Term
}

func T(op string, args ...*Term) *Term { return &Term{Op: op, Args: args} }

func (t *Term) String() string {
	if t == nil {
		return "<nil>"
	}
	if len(t.Args) == 0 {
		return t.Op
	}
	var as []string
	for _, a := range t.Args {
		as = append(as, a.String())
	}
	return t.Op + "(" + strings.Join(as, ",") + ")"
}

// leaves: repo functions not inlined (each has its own local contract rule).
var termLeaves = map[string]string{
	modPkg + "canonicalizer.MarshalCanonical":       "JCS",
	modPkg + "internal/jsoncanonicalizer.Transform": "Transform",
	modPkg + "hashing.GetHash":                      "GetHash",
	modPkg + "hashing.GetHashFromMultihash":         "HashOf",
	"github.com/multiformats/go-multihash.Encode":   "mhEnc",
	"github.com/multiformats/go-multihash.Decode":   "mhDec",
	"(*encoding/base64.Encoding).EncodeToString":    "b64enc",
	"(*encoding/base64.Encoding).DecodeString":      "b64decode",
	"encoding/json.Marshal":                         "jsonMarshal",
	"github.com/go-jose/go-jose/v3/json.Marshal":    "joseMarshal",
}

type termer struct {
	c *Ctx
}

func successReturns(f *ssa.Function) []*ssa.Return {
	var out []*ssa.Return
	for _, r := range returnsOf(f) {
		if maySucceed(r) {
			out = append(out, r)
		}
	}
	return out
}

// SuccessTerm returns the term of result idx of f on its (unique) success exit, parameters bound to args.
func (c *Ctx) SuccessTerm(f *ssa.Function, idx int, args []*Term) *Term {
	tm := &termer{c: c}
	env := map[ssa.Value]*Term{}
	for i, p := range f.Params {
		if i < len(args) {
			env[p] = args[i]
		} else {
			env[p] = T(fmt.Sprintf("$%d", i))
		}
	}
	return tm.fnResult(f, idx, env, 0)
}

func (tm *termer) fnResult(f *ssa.Function, idx int, env map[ssa.Value]*Term, d int) *Term {
	tm.c.Analysed(f)
	srs := successReturns(f)
	if len(srs) == 0 {
		return T("⊥no-success-return:" + short(f.String()))
	}
	var alts []*Term
	seen := map[string]bool{}
	for _, r := range srs {
		if idx >= len(r.Results) {
			return T("⊥result-index")
		}
		t := tm.term(r.Results[idx], env, d+1)
		if !seen[t.String()] {
			seen[t.String()] = true
			alts = append(alts, t)
		}
	}
	if len(alts) == 1 {
		return alts[0]
	}
	return T("alt", alts...)
}

func (tm *termer) term(v ssa.Value, env map[ssa.Value]*Term, d int) *Term {
	if d > 24 {
		return T("…")
	}
	if t, ok := env[v]; ok {
		return t
	}
	c := tm.c
	switch x := v.(type) {
	case *ssa.Parameter:
		return T(fmt.Sprintf("$%d", paramIndex(x)))
	case *ssa.Const:
		return T(c.Path(x, nil))
	case *ssa.Global:
		return T(c.Path(x, nil))
	case *ssa.MakeInterface:
		return tm.term(x.X, env, d)
	case *ssa.ChangeType:
		return tm.term(x.X, env, d)
	case *ssa.ChangeInterface:
		return tm.term(x.X, env, d)
	case *ssa.Convert:
		// numeric width conversions and string<->named-string conversions are value preserving here
		return tm.term(x.X, env, d)
	case *ssa.UnOp:
		if x.Op == token.MUL {
			return tm.term(x.X, env, d)
		}
		return T(x.Op.String(), tm.term(x.X, env, d+1))
	case *ssa.FieldAddr:
		return T("."+fieldName(x.X.Type(), x.Field), tm.term(x.X, env, d+1))
	case *ssa.Field:
		return T("."+fieldName(x.X.Type(), x.Field), tm.term(x.X, env, d+1))
	case *ssa.IndexAddr:
		return T("index", tm.term(x.X, env, d+1), tm.term(x.Index, env, d+1))
	case *ssa.Index:
		return T("index", tm.term(x.X, env, d+1), tm.term(x.Index, env, d+1))
	case *ssa.BinOp:
		return T(x.Op.String(), tm.term(x.X, env, d+1), tm.term(x.Y, env, d+1))
	case *ssa.Extract:
		if cl, ok := x.Tuple.(*ssa.Call); ok {
			return tm.call(cl, x.Index, env, d)
		}
		return T(fmt.Sprintf("#%d", x.Index), tm.term(x.Tuple, env, d+1))
	case *ssa.Call:
		return tm.call(x, 0, env, d)
	case *ssa.Phi:
		var alts []*Term
		seen := map[string]bool{}
		for _, e := range x.Edges {
			t := tm.term(e, env, d+4)
			if !seen[t.String()] {
				seen[t.String()] = true
				alts = append(alts, t)
			}
		}
		if len(alts) == 1 {
			return alts[0]
		}
		return T("phi", alts...)
	case *ssa.Alloc:
		return T(c.Path(x, nil))
	case *ssa.Slice:
		return T("slice", tm.term(x.X, env, d+1))
	case *ssa.TypeAssert:
		return T("assert<"+typeShort(x.AssertedType)+">", tm.term(x.X, env, d+1))
	}
	return T(c.Path(v, nil))
}

func (tm *termer) call(cl *ssa.Call, idx int, env map[ssa.Value]*Term, d int) *Term {
	c := tm.c
	var args []*Term
	if cl.Call.IsInvoke() {
		args = append(args, tm.term(cl.Call.Value, env, d+1))
	}
	for _, a := range cl.Call.Args {
		args = append(args, tm.term(a, env, d+1))
	}
	cs := c.Callees(&cl.Call)
	if len(cs) == 1 {
		f := cs[0]
		// a method value (`enc := x.Method; enc(a)`) or a method expression (`T.Method(x, a)`): the method itself, with
		// the receiver as its first argument
		if strings.HasPrefix(f.Synthetic, "bound method wrapper") || strings.HasPrefix(f.Synthetic, "thunk") {
			if m := funcValueOf(f); m != nil && m != f {
				if mc, isMC := cl.Call.Value.(*ssa.MakeClosure); isMC && strings.HasPrefix(f.Synthetic, "bound") {
					var recv []*Term
					for _, b := range mc.Bindings {
						recv = append(recv, tm.term(b, env, d+1))
					}
					args = append(recv, args...)
				}
				f = m
			}
		}
		name := f.String()
		if op, ok := termLeaves[name]; ok {
			return pick(T(op, args...), idx, cl)
		}
		if inModule(f) && f.Blocks != nil && d < 20 {
			ne := map[ssa.Value]*Term{}
			for i, p := range f.Params {
				if i < len(args) {
					ne[p] = args[i]
				}
			}
			return tm.fnResult(f, idx, ne, d+1)
		}
		return pick(T(short(name), args...), idx, cl)
	}
	if b, ok := cl.Call.Value.(*ssa.Builtin); ok {
		return T(b.Name(), args...)
	}
	if cl.Call.IsInvoke() {
		return pick(T("invoke."+cl.Call.Method.Name(), args...), idx, cl)
	}
	return pick(T("dyn", args...), idx, cl)
}

func pick(t *Term, idx int, cl *ssa.Call) *Term {
	if cl.Call.Signature().Results().Len() > 1 && idx > 0 {
		return T(fmt.Sprintf("#%d", idx), t)
	}
	return t
}

// normalize rewrites primitive call terms into the algebra.
func normalize(t *Term) *Term {
	if t == nil {
		return nil
	}
	var as []*Term
	for _, a := range t.Args {
		as = append(as, normalize(a))
	}
	n := &Term{Op: t.Op, Args: as}
	switch n.Op {
	case "b64enc":
		if len(as) == 2 && as[0].String() == "global:encoding/base64.RawURLEncoding" {
			return T("b64", as[1])
		}
		return T("b64?["+as[0].String()+"]", as[1:]...)
	case "b64decode":
		if len(as) == 2 && as[0].String() == "global:encoding/base64.RawURLEncoding" {
			return T("b64dec", as[1])
		}
		return T("b64dec?["+as[0].String()+"]", as[1:]...)
	case "GetHash":
		// GetHash(HashOf(code), data) -> H(code, data)
		if len(as) == 2 && as[0].Op == "HashOf" && len(as[0].Args) == 1 {
			return T("H", as[0].Args[0], as[1])
		}
	}
	return n
}

// altSet expands every φ / alt node of a term into the set of φ-free terms it can stand for (bounded), so that
// `Transform(φ(a,b))` and `alt(Transform(a),Transform(b))` — the same function written with one or two returns —
// compare equal. A comma-ok assertion's value `#0(assert<T>(x))` is the same value as `assert<T>(x)`.
func altSet(t *Term) map[string]bool {
	var exp func(t *Term) []*Term
	exp = func(t *Term) []*Term {
		if t == nil {
			return []*Term{nil}
		}
		if t.Op == "phi" || t.Op == "alt" {
			var out []*Term
			for _, a := range t.Args {
				out = append(out, exp(a)...)
			}
			return out
		}
		if t.Op == "#0" && len(t.Args) == 1 && strings.HasPrefix(t.Args[0].Op, "assert<") {
			return exp(t.Args[0])
		}
		combos := [][]*Term{{}}
		for _, a := range t.Args {
			var next [][]*Term
			for _, alt := range exp(a) {
				for _, cmb := range combos {
					if len(next) > 256 {
						break
					}
					next = append(next, append(append([]*Term{}, cmb...), alt))
				}
			}
			combos = next
		}
		var out []*Term
		for _, cmb := range combos {
			out = append(out, &Term{Op: t.Op, Args: cmb})
		}
		return out
	}
	set := map[string]bool{}
	for _, x := range exp(t) {
		set[x.String()] = true
	}
	return set
}

// termIs: the term stands for exactly the given alternatives.
func termIs(t *Term, wants ...string) bool {
	got := altSet(t)
	if len(got) != len(wants) {
		return false
	}
	for _, w := range wants {
		if !got[w] {
			return false
		}
	}
	return true
}

// ValueTerm returns the term of a value inside f (parameters as $i).
func (c *Ctx) ValueTerm(f *ssa.Function, v ssa.Value) *Term {
	tm := &termer{c: c}
	env := map[ssa.Value]*Term{}
	for i, p := range f.Params {
		env[p] = T(fmt.Sprintf("$%d", i))
	}
	return tm.term(v, env, 0)
}
