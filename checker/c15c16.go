package main

import (
	"fmt"
	"go/ast"
	"go/parser"
	"go/token"
	"go/types"
	"reflect"
	"regexp"
	"sort"
	"strings"

	"golang.org/x/tools/go/ssa"
)

func init() {
	props["C15"] = &propDef{run: runC15, explanation: "Partial (structural agreement of signer and verifier; not the cryptography). Decided statically: (X1) the signer's curve→hash table and the verifier's curve-name→(curve, coordinate width, hash) table agree row by row, every width equals ⌈bit size/8⌉ of the curve named in the same row (specification table P-256:256, P-384:384, P-521:521, secp256k1:256), and the signer pads r and s to ⌈BitSize/8⌉ computed from the key's own curve; (X2) one signingInput function produces the signing input for both signing and verification from (headers, payload); compact serialisation and parsing use the single encoding base64.RawURLEncoding, the separator '.', and exactly three parts; (G1) the verifier slices the signature only behind len(sig) == 2·width, tests the boolean results of ecdsa.Verify / ed25519.Verify, guards the Ed25519 key size, rejects empty signature / payload segments, and SignPayload refuses a signer without an alg header. Not decided: 'verifies iff produced by the matching key over the same bytes' (cryptography,  go-jose key decoding). (K2) JOSE headers on the parse / verify paths are decoded with the go-jose decoder, which refuses duplicate member names (read from the library source): the verified signing input is rebuilt from the parsed header, so anything the decoder drops would be unsigned header content. The C16 rules (JWK coordinate width, padding helpers, strict reading) run inside this check as well. SerializeCompact writes each segment as the unpadded base64url text of its part. A supplied detached payload is the payload on every accepting path; NewJWS stores header maps made for that JWS; the compact form is three dot-separated segments however assembled. NewJWS hands sign the JOSE headers it stores; ed25519.Verify receives the whole signature parameter. VerifySignature accepts only behind Verify; the signer emits ecdsa.Sign's r and s as returned; Signature() returns a copy. The signing input is checked in concatenation form per alternative. The compact text is handed on as given. Closed sets of refusals for VerifyJWS and the header check. The compact parser is handed texts as given only (no other serialization is read as a JWS)."}
	props["C16"] = &propDef{run: runC16, explanation: "Partial (thin). Decided statically: (K1) secp256k1 JWK marshalling pads X and Y (public and private form) through one padding helper with the constant 32 = ⌈256/8⌉, and the helper left-pads to exactly the requested length; (G1) unmarshalling a secp256k1 JWK succeeds only with X and Y present, each of length curveSize(S256) and the point on the curve (IsOnCurve true edge); curveSize is ⌈BitSize/8⌉; (T1) GetPublicKeyJWK's type switch admits exactly ed25519.PublicKey, *rsa.PublicKey and *ecdsa.PublicKey, marks a key as (EC, secp256k1) exactly when its curve is btcec.S256(), and rejects other types; isSecp256k1 compares both kty and crv. Not decided: the NIST and Ed25519 encodings (delegated to go-jose) and round-trip equality. (G2) closed rejection set of the secp256k1 reader: it says no only for a missing coordinate, a coordinate / private value of the wrong width, or a point off the curve (conditions inside helper predicates are followed). (K2) every (*big.Int).Bytes() flows only into a right-aligning sink; (G3) byteBuffer.data is exactly the base64url decoder's result. (*JWK).UnmarshalJSON stores the decoded key-type and curve labels before every accepting exit. The secp256k1 encoder writes the registered key-type and curve names; key conversion functions keep no state between calls. EC keys are built only in the checked reader's call tree; every decode into go-jose's JSONWebKey sits inside the strict reader; jws.JWK.Validate has the closed set of refusals; C15.X1's curve tables run here. JWK copies are member for member; C19.N on the JWK reader's functions. JWK texts for the strict reader are written by the JSON encoder; the receiver of UnmarshalJSON is untouched on failure. jwsutil writes through no jws.JWK it is handed; the secp256k1 encoder is chosen on the labels alone. The readers of a byteBuffer take data as it is; the length of a big integer's minimal form is compared for 'too wide' only; keys are marshalled for the strict reader as they were handed."}
}

var curveBits = map[string]int{"crypto/elliptic.P256()": 256, "crypto/elliptic.P384()": 384, "crypto/elliptic.P521()": 521, "github.com/btcsuite/btcd/btcec/v2.S256()": 256}
var hashName = map[string]string{"5": "SHA256", "6": "SHA384", "7": "SHA512"}

func runC15(c *Ctx) {
	if !c.signerVerifierTables("C15.X1") {
		return
	}
	c.Min("C15.X1", 12)

	// ---- X2: one signing input; encodings
	si := c.Fn("jwsutil", "signingInput")
	signFn := c.Fn("jwsutil", "sign")
	verifyJWS := c.Fn("jwsutil", "VerifyJWS")
	if si == nil || signFn == nil || verifyJWS == nil {
		c.Unresolved("C15.X2", "jwsutil.signingInput / sign / VerifyJWS")
	} else {
		var callers []string
		for _, f := range c.Funcs {
			if len(callsTo(f, si)) > 0 {
				callers = append(callers, f.Name())
			}
		}
		// (an unexported helper called by exactly one of the two stands for it)
		for i, cn := range callers {
			if cn == "VerifyJWS" || cn == "sign" {
				continue
			}
			var h *ssa.Function
			for _, f := range c.Funcs {
				if f.Name() == cn && len(callsTo(f, si)) > 0 {
					h = f
				}
			}
			if h == nil || h.Object() == nil || h.Object().Exported() {
				continue
			}
			var by []string
			for _, f := range c.Funcs {
				if len(callsTo(f, h)) > 0 {
					by = append(by, f.Name())
				}
			}
			sort.Strings(by)
			if len(uniqStrs(by)) == 1 && (by[0] == "VerifyJWS" || by[0] == "sign") {
				callers[i] = by[0]
			}
		}
		sort.Strings(callers)
		callers = uniqStrs(callers)
		c.Check("C15.X2", "signingInput:callers", eqStrs(callers, []string{"VerifyJWS", "sign"}), si.Pos(), fmt.Sprintf("signingInput is called by %v (expected exactly sign and VerifyJWS)", callers))
		for _, cl := range callsTo(signFn, si) {
			okIn := sliceHas(backSlice(cl.Call.Args[0]), isParam(signFn, 0)) && sliceHas(backSlice(cl.Call.Args[1]), isParam(signFn, 1))
			if signFn.Signature.Recv() != nil {
				// (sign as a method of the JWS: the input is built from the receiver's JOSE headers and payload)
				okIn = c.Path(cl.Call.Args[0], nil) == "$0.joseHeaders" && c.Path(cl.Call.Args[1], nil) == "$0.Payload"
			}
			c.Check("C15.X2", "sign:input", okIn, cl.Pos(), "sign builds the input from (joseHeaders, payload)")
			// and signs exactly that
			okS := false
			for _, s2 := range callsNamed(signFn, "Sign") {
				if c.Path(s2.Call.Args[0], nil) == c.Path(cl, nil)+"#0" {
					okS = true
				}
			}
			c.Check("C15.X2", "sign:signs-the-input", okS, cl.Pos(), "signer.Sign receives the signing input")
		}
		// signing input term: b64(json(headers)) + "." + b64(payload)
		c.Analysed(si)
		encs := 0
		forEachInstr(si, func(in ssa.Instruction) {
			if cl, ok := in.(*ssa.Call); ok && cl.Call.StaticCallee() != nil && cl.Call.StaticCallee().String() == "(*encoding/base64.Encoding).EncodeToString" {
				if c.Path(cl.Call.Args[0], nil) == "global:encoding/base64.RawURLEncoding" {
					encs++
				} else {
					encs = -100
				}
			}
		})
		c.Check("C15.X2", "signingInput:encoding", encs == 2, si.Pos(), fmt.Sprintf("signingInput encodes header and payload with base64.RawURLEncoding (%d uses)", encs))
		fm := ""
		forEachInstr(si, func(in ssa.Instruction) {
			if cl, ok := in.(*ssa.Call); ok && cl.Call.StaticCallee() != nil && cl.Call.StaticCallee().String() == "fmt.Sprintf" {
				fm = c.Path(cl.Call.Args[0], nil)
			}
		})
		_ = fm
		// the text handed back, in concatenation form (by format string, + or +=): the encoded header, ".", and the
		// payload — encoded, or as it stands where the header says so
		{
			var forms []string
			var alts func(v ssa.Value, d int)
			alts = func(v ssa.Value, d int) {
				switch x := v.(type) {
				case *ssa.Phi:
					if d < 4 {
						for _, e := range x.Edges {
							alts(e, d+1)
						}
						return
					}
				case *ssa.Convert:
					alts(x.X, d+1)
					return
				}
				f := c.concatForm(v, nil)
				// (a payload text chosen beforehand: one form per choice)
				if i := strings.LastIndex(f, " ++ phi("); i >= 0 && strings.HasSuffix(f, ")") {
					for _, a := range strings.Split(f[i+len(" ++ phi("):len(f)-1], "|") {
						forms = append(forms, f[:i]+" ++ "+a)
					}
					return
				}
				forms = append(forms, f)
			}
			for _, r := range successReturns(si) {
				alts(returnedValue(r, 0), 0)
			}
			sort.Strings(forms)
			forms = uniqStrs(forms)
			hdr := `(*encoding/base64.Encoding).EncodeToString(global:encoding/base64.RawURLEncoding,`
			okF := len(forms) == 2
			for _, f := range forms {
				p := strings.Split(f, " ++ ")
				if len(p) != 3 || !strings.HasPrefix(p[0], hdr) || strings.Contains(p[0], "$1") || p[1] != `"."` {
					okF = false
				}
			}
			if okF {
				a, b := strings.Split(forms[0], " ++ ")[2], strings.Split(forms[1], " ++ ")[2]
				okF = a == hdr+"$1)" && b == "conv<string>($1)"
			}
			c.Check("C15.X2", "signingInput:format", okF, si.Pos(), fmt.Sprintf("signing input = b64url(headers) ++ \".\" ++ (b64url(payload) | payload): %v", forms))
		}
	}
	// all base64 uses in jwsutil are RawURLEncoding
	{
		n, bad := 0, 0
		for _, f := range c.Funcs {
			if pkgPathOf(f) != modPkg+"jwsutil" {
				continue
			}
			forEachInstr(f, func(in ssa.Instruction) {
				if cl, ok := in.(*ssa.Call); ok && cl.Call.StaticCallee() != nil && strings.HasPrefix(cl.Call.StaticCallee().String(), "(*encoding/base64.Encoding).") {
					n++
					if c.Path(cl.Call.Args[0], nil) != "global:encoding/base64.RawURLEncoding" {
						bad++
					}
				}
			})
		}
		c.Check("C15.X2", "jwsutil:single-alphabet", n >= 8 && bad == 0, 0, fmt.Sprintf("%d base64 operations in jwsutil, %d not using RawURLEncoding", n, bad))
	}
	// "the library's own JWS verifies": VerifyJWS says no only when parsing, building the signing input or checking the
	// signature does (an unexported helper on the way may, for the same reasons), and the header check only for a missing
	// "alg" — a further demand of their own (an alg / curve table, a "crit" reading) refuses JWS the library itself signs
	{
		vj, ch := c.Fn("jwsutil", "VerifyJWS"), c.Fn("jwsutil", "checkJWSHeaders")
		if vj == nil || ch == nil {
			c.Unresolved("C15.G1", "jwsutil.VerifyJWS / checkJWSHeaders")
		} else {
			var extra []string
			callRe := regexp.MustCompile(`^\((?:\(\*?)?jwsutil\.([A-Za-z0-9_]+)\)?\(`)
			methRe := regexp.MustCompile(`^\(\(\*?jwsutil\.([A-Za-z0-9_]+)\)\.([A-Za-z0-9_]+)\(`)
			var walk func(f *ssa.Function, d int)
			walk = func(f *ssa.Function, d int) {
				for _, r := range c.rejectionReasons(f, nil, false, 3) {
					m := callRe.FindStringSubmatch(r)
					if m == nil {
						// an unexported method of the package's own types on the way
						if mm := methRe.FindStringSubmatch(r); mm != nil && d < 2 {
							if h := c.Method("jwsutil", mm[1], mm[2]); h != nil && h.Object() != nil && !h.Object().Exported() {
								walk(h, d+1)
								continue
							}
						}
						extra = append(extra, short(f.String())+": "+r)
						continue
					}
					switch m[1] {
					case "ParseJWS", "VerifySignature", "signingInput":
						continue
					}
					h := c.Fn("jwsutil", m[1])
					if h != nil && h.Object() != nil && !h.Object().Exported() && d < 2 {
						walk(h, d+1)
						continue
					}
					extra = append(extra, short(f.String())+": "+r)
				}
			}
			walk(vj, 0)
			c.Check("C15.G1", "VerifyJWS:closed-set-of-refusals", len(extra) == 0, vj.Pos(), fmt.Sprintf("VerifyJWS refuses only what ParseJWS, signingInput or VerifySignature refuse; other reasons: %v", extra))
			var extraH []string
			rs := c.rejectionReasons(ch, nil, false, 0)
			// (the refusals of a checker it hands the headers on to are its own)
			for _, g := range c.reachableModuleFuncs([]*ssa.Function{ch}) {
				if g != ch && returnsError(g) && pkgPathOf(g) == pkgPathOf(ch) {
					for _, cl := range callsTo(ch, g) {
						rs = append(rs, c.rejectionReasons(g, c.calleeEnv(&cl.Call, g, nil), false, 0)...)
					}
				}
			}
			for _, r := range rs {
				if !strings.HasPrefix(r, `$0["alg"]`) && !strings.Contains(r, `$0["alg"]`) {
					extraH = append(extraH, r)
				}
			}
			c.Check("C15.G1", "checkJWSHeaders:closed-set-of-refusals", len(rs) >= 1 && len(extraH) == 0, ch.Pos(), fmt.Sprintf("the header check refuses only for the \"alg\" member; other reasons: %v", extraH))
		}
	}
	// the compact text is split as it was given: ParseJWS and VerifyJWS hand the caller's string on (a text tidied first
	// — white space trimmed — is a malformed compact form accepted)
	{
		pj, vj, pcf := c.Fn("jwsutil", "ParseJWS"), c.Fn("jwsutil", "VerifyJWS"), c.Fn("jwsutil", "parseCompacted")
		if pj == nil || vj == nil || pcf == nil {
			c.Unresolved("C15.X2", "jwsutil.ParseJWS / VerifyJWS / parseCompacted")
		} else {
			n, okA := 0, true
			for _, pr := range [][2]*ssa.Function{{pj, pcf}, {vj, pj}} {
				for _, cl := range callsTo(pr[0], pr[1]) {
					n++
					if c.Path(cl.Call.Args[0], nil) != "$0" {
						okA = false
					}
				}
			}
			// … and nothing else is read as a JWS: whoever calls the compact parser hands it a text it was itself handed
			// (a compact form put together from the members of another serialization admits unsigned, unprotected members)
			var made []string
			for _, g := range c.Funcs {
				for _, cl := range callsTo(g, pcf) {
					if _, isP := cl.Call.Args[0].(*ssa.Parameter); !isP {
						made = append(made, fmt.Sprintf("%s: %s hands parseCompacted %s", c.pos(cl.Pos()), short(g.String()), c.Path(cl.Call.Args[0], nil)))
					}
				}
			}
			sort.Strings(made)
			c.Check("C15.X2", "compact-text:the-only-form-read", len(made) == 0, pj.Pos(), "the compact parser is handed texts as given only", made...)
			c.Check("C15.X2", "compact-text:handed-on-as-given", n >= 2 && okA, pj.Pos(), fmt.Sprintf("ParseJWS -> parseCompacted and VerifyJWS -> ParseJWS receive the caller's text itself (%d call(s))", n))
		}
	}
	// (decoded parts are named after the decoder call, also when a small unexported helper wraps it)
	c.inlineHelpers = true
	if pc := c.Fn("jwsutil", "parseCompacted"); pc != nil {
		c.CheckGuard("C15.X2", "parseCompacted:three-parts", pc, nil, cmpReject(`len(strings.Split(jws, ".")) != 3 rejected`, token.NEQ, pathIs(`len(strings.Split($0,"."))`), pathIs("3")))
		c.CheckGuard("C15.G1", "parseCompacted:empty-signature-rejected", pc, nil, cmpReject("len(signature) == 0 rejected", token.EQL, func(s string) bool {
			return strings.HasPrefix(s, "len((*encoding/base64.Encoding).DecodeString(") && strings.Contains(s, `strings.Split($0,".")[2]`)
		}, pathIs("0")))
		pp := c.Fn("jwsutil", "parseCompactedPayload")
		if pp != nil {
			// a detached payload, when the caller supplies one, IS the payload: every accepting exit that hands back
			// anything else lies on the "none supplied" side of the test — whatever the payload segment holds
			{
				// (the detached payload: a member of the options the function is handed, or the bytes themselves)
				detP := "$1.detachedPayload"
				if len(pp.Params) == 2 && isBytesT(pp.Params[1].Type()) {
					detP = c.Path(pp.Params[1], nil)
				}
				isDet := func(s string) bool { return s == "len("+detP+")" }
				okD, w, _ := c.Guard(pp, nil, anyOf("no detached payload supplied",
					cmpReject("len(detachedPayload) > 0 leads to the detached payload", token.GTR, isDet, pathIs("0")),
					cmpReject("len(detachedPayload) != 0 leads to the detached payload", token.NEQ, isDet, pathIs("0")),
					cmpAccept("len(detachedPayload) == 0", token.EQL, isDet, pathIs("0"))), func(in ssa.Instruction) bool {
					// the places where something other than the detached payload becomes the result: a return of such a
					// value, or — when the returned value is a φ — the end of each block that feeds it such a value
					for _, r := range successReturns(pp) {
						v := returnedValue(r, 0)
						if phi, isPhi := v.(*ssa.Phi); isPhi {
							for i, e := range phi.Edges {
								pred := phi.Block().Preds[i]
								if c.Path(e, nil) != detP && in == pred.Instrs[len(pred.Instrs)-1] {
									return true
								}
							}
							continue
						}
						if in == ssa.Instruction(r) && c.Path(v, nil) != detP {
							return true
						}
					}
					return false
				})
				c.Check("C15.G1", "parseCompactedPayload:detached-payload-wins", okD, pp.Pos(), "the embedded payload segment is used only when no detached payload was supplied", w...)
			}
			c.CheckGuard("C15.G1", "parseCompactedPayload:empty-payload-rejected", pp, nil, anyOf("detached payload supplied, or decoded payload non-empty",
				cmpAccept("len(detachedPayload) > 0", token.GTR, func(s string) bool {
					return s == "len($1.detachedPayload)" || (len(pp.Params) == 2 && isBytesT(pp.Params[1].Type()) && s == "len("+c.Path(pp.Params[1], nil)+")")
				}, pathIs("0")),
				cmpReject("len(payload) == 0 rejected", token.EQL, func(s string) bool { return strings.HasPrefix(s, "len((*encoding/base64.Encoding).DecodeString(") }, pathIs("0"))))
		}
	}
	c.inlineHelpers = false
	if ser := c.Method("jwsutil", "JSONWebSignature", "SerializeCompact"); ser != nil {
		// the returned text, in concatenation form — whether it was written with Sprintf, +, or strings.Join: three
		// segments separated by "."
		var segs []string
		fm := ""
		for _, r := range successReturns(ser) {
			parts := strings.Split(c.concatForm(returnedValue(r, 0), nil), " ++ ")
			if len(parts) == 5 {
				fm = parts[1] + parts[3]
				segs = []string{parts[0], parts[2], parts[4]}
			} else {
				fm = strings.Join(parts, " ++ ")
			}
		}
		c.Check("C15.X2", "SerializeCompact:format", fm == `"."`+`"."`, ser.Pos(), "compact serialisation is three segments separated by dots: "+fm)
		// each segment is the unpadded base64url text of its part — the payload too, whatever the headers say (the
		// parser decodes every segment): "" (detached) or EncodeToString(payload), nothing else
		enc := func(of string) string {
			return "(*encoding/base64.Encoding).EncodeToString(global:encoding/base64.RawURLEncoding," + of + ")"
		}
		okSeg := len(segs) == 3 && strings.HasPrefix(segs[0], enc("")[:len(enc(""))-1]) && strings.Contains(segs[0], ".joseHeaders") &&
			(segs[1] == `phi(|`+enc("$0.Payload")+`)` || segs[1] == `phi(""|`+enc("$0.Payload")+`)`) &&
			segs[2] == enc("$0.signature")
		c.Check("C15.X2", "SerializeCompact:segments", okSeg, ser.Pos(), fmt.Sprintf("segments: %v (expected b64url(headers JSON), \"\" or b64url(payload), b64url(signature))", segs))
	}
	// the JWS owns the headers it signed: what NewJWS signs and stores is a map made for this JWS, not the caller's map
	// (SerializeCompact marshals the stored map again later — a caller reusing its header map would change what is
	// serialised after it was signed)
	if nj := c.Fn("jwsutil", "NewJWS"); nj != nil {
		c.Analysed(nj)
		var fresh func(v ssa.Value, d int) bool
		fresh = func(v ssa.Value, d int) bool {
			if d > 3 {
				return false
			}
			switch x := v.(type) {
			case *ssa.MakeMap:
				return true
			case *ssa.ChangeType:
				return fresh(x.X, d+1)
			case *ssa.Phi:
				for _, e := range x.Edges {
					if !fresh(e, d+1) {
						return false
					}
				}
				return len(x.Edges) > 0
			case *ssa.Call:
				g := x.Call.StaticCallee()
				if g == nil {
					return false
				}
				if o := g.Origin(); o != nil && pkgPathOf(o) == "maps" && o.Name() == "Clone" {
					return true
				}
				if !inModule(g) || g.Blocks == nil {
					return false
				}
				rs := returnsOf(g)
				for _, r := range rs {
					if len(r.Results) != 1 || !fresh(returnedValue(r, 0), d+1) {
						return false
					}
				}
				return len(rs) > 0
			}
			return false
		}
		n, bad := 0, 0
		if jt := c.NamedType("jwsutil", "JSONWebSignature"); jt != nil {
			for _, a := range allocsOf(nj, jt) {
				for _, fs := range storesInto(a) {
					if fs.Field != "ProtectedHeaders" && fs.Field != "joseHeaders" {
						continue
					}
					n++
					if !fresh(fs.Val, 0) {
						bad++
					}
				}
			}
		}
		// what is signed is what SerializeCompact will write: the headers handed to sign are the stored JOSE headers
		{
			var jose, made ssa.Value
			if jt := c.NamedType("jwsutil", "JSONWebSignature"); jt != nil {
				for _, a := range allocsOf(nj, jt) {
					for _, fs := range storesInto(a) {
						if fs.Field == "joseHeaders" {
							jose = fs.Val
							made = a
						}
					}
				}
			}
			okSame, nS := jose != nil, 0
			if signFn := c.Fn("jwsutil", "sign"); signFn != nil && jose != nil {
				for _, cl := range callsTo(nj, signFn) {
					nS++
					if signFn.Signature.Recv() != nil {
						// (sign as a method: called on the JWS that holds those headers)
						if cl.Call.Args[0] != made {
							okSame = false
						}
						continue
					}
					if c.Path(cl.Call.Args[0], nil) != c.Path(jose, nil) && !strings.HasSuffix(c.Path(cl.Call.Args[0], nil), ".joseHeaders") {
						okSame = false
					}
				}
			}
			c.Check("C15.X2", "NewJWS:signs-what-it-serialises", okSame && nS == 1, nj.Pos(), "the headers NewJWS hands to sign are the JOSE headers it stores (the ones SerializeCompact marshals)")
		}
		c.Check("C15.X2", "NewJWS:owns-its-headers", n >= 2 && bad == 0, nj.Pos(), fmt.Sprintf("the protected / JOSE headers NewJWS stores are maps made for this JWS on every path (%d store(s), %d of a map that may be the caller's)", n, bad))
	} else {
		c.Unresolved("C15.X2", "jwsutil.NewJWS")
	}
	// the accessors hand out copies: what Signature() returns shares no memory with the JWS (a caller wiping or reusing
	// the returned bytes must not change what SerializeCompact writes) — `append(s.signature[:0], s.signature...)` is the
	// idiom gone wrong: without a capacity limit it appends into the signature's own array
	if sg := c.Method("jwsutil", "JSONWebSignature", "Signature"); sg != nil {
		c.Analysed(sg)
		var fresh func(v ssa.Value, d int) bool
		fresh = func(v ssa.Value, d int) bool {
			if d > 3 {
				return false
			}
			switch x := v.(type) {
			case *ssa.Const:
				return x.IsNil()
			case *ssa.MakeSlice:
				return true
			case *ssa.Phi:
				for _, e := range x.Edges {
					if !fresh(e, d+1) {
						return false
					}
				}
				return len(x.Edges) > 0
			case *ssa.Call:
				if g := x.Call.StaticCallee(); g != nil {
					o := g
					if g.Origin() != nil {
						o = g.Origin()
					}
					if (pkgPathOf(o) == "slices" || pkgPathOf(o) == "bytes") && o.Name() == "Clone" {
						return true
					}
				}
				if bi, isB := x.Call.Value.(*ssa.Builtin); isB && bi.Name() == "append" && len(x.Call.Args) == 2 {
					// append onto nil, onto a fresh slice, or onto a zero-capacity slice ([:0:0]) allocates
					base := x.Call.Args[0]
					if fresh(base, d+1) {
						return true
					}
					if sl, isSl := base.(*ssa.Slice); isSl && sl.Max != nil && c.Path(sl.Max, nil) == "0" {
						return true
					}
				}
			}
			return false
		}
		okCopy := len(returnsOf(sg)) > 0
		for _, r := range returnsOf(sg) {
			if !fresh(r.Results[0], 0) {
				okCopy = false
			}
		}
		c.Check("C15.X2", "Signature:returns-a-copy", okCopy, sg.Pos(), "Signature() returns nil or freshly allocated bytes on every path")
	}
	c.Min("C15.X2", 11)

	// ---- G1
	vec := c.Fn("jwsutil", "verifyECSignature")
	ved := c.Fn("jwsutil", "verifyEd25519Signature")
	ecV := c.ExtFn("crypto/ecdsa", "Verify")
	edV := c.ExtFn("crypto/ed25519", "Verify")
	if vec == nil || ved == nil || ecV == nil || edV == nil {
		c.Unresolved("C15.G1", "verifyECSignature / verifyEd25519Signature / ecdsa.Verify / ed25519.Verify")
	} else {
		// ed25519.Verify is handed the signature bytes it was given — all of them: the library refuses every length but
		// 64, which a copy into a fixed-size buffer would undo (the tail of a longer signature would be ignored)
		{
			nV, okSig := 0, true
			for _, cl := range callsTo(ved, edV) {
				nV++
				if len(cl.Call.Args) != 3 || c.Path(cl.Call.Args[2], nil) != "$1" {
					okSig = false
				}
			}
			c.Check("C15.G1", "verifyEd25519Signature:whole-signature-verified", nV > 0 && okSig, ved.Pos(), "ed25519.Verify receives the signature parameter itself")
		}
		// the curve's table row: what parseEllipticCurve(jwk.Crv) hands back (a pointer, or a value with an ok flag)
		pec := c.Fn("jwsutil", "parseEllipticCurve")
		row := "jwsutil.parseEllipticCurve($0.Crv)"
		for _, cl := range callsTo(vec, pec) {
			if c.Path(cl.Call.Args[0], nil) == "$0.Crv" && cl.Call.Signature().Results().Len() > 1 {
				row += "#0"
			}
		}
		ks := row + ".keySize"
		slices := 0
		chk := cmpReject("len(signature) != 2*keySize rejected", token.NEQ, pathIs("len($1)"), pathIs("(2 * "+ks+")"))
		ok, w, _ := c.Guard(vec, nil, chk, func(in ssa.Instruction) bool {
			if s, isS := in.(*ssa.Slice); isS && c.Path(s.X, nil) == "$1" {
				slices++
				return true
			}
			return false
		})
		_ = slices
		c.Check("C15.G1", "verifyECSignature:length-guard-dominates-slicing", ok, vec.Pos(), "both halves of the signature are sliced only behind len(sig) == 2·keySize", w...)
		// r = sig[:k], s = sig[k:]
		var rs []string
		forEachInstr(vec, func(in ssa.Instruction) {
			if s, isS := in.(*ssa.Slice); isS && c.Path(s.X, nil) == "$1" {
				rs = append(rs, c.Path(s, nil))
			}
		})
		for _, cl := range callsTo(vec, ecV) {
			rp, sp := c.Path(cl.Call.Args[2], nil), c.Path(cl.Call.Args[3], nil)
			c.Check("C15.G1", "verifyECSignature:r-first-s-second", strings.Contains(rp, "$1[:"+ks+"]") && strings.Contains(sp, "$1["+ks+":]"), cl.Pos(), "r is read from the first half and s from the second half of the signature (as the signer writes them)")
		}
		sort.Strings(rs)
		c.Check("C15.G1", "verifyECSignature:r||s-split", eqStrs(rs, []string{"$1[:" + ks + "]", "$1[" + ks + ":]"}), vec.Pos(), fmt.Sprintf("signature split %v", rs))
		c.CheckGuard("C15.G1", "verifyECSignature:unsupported-curve-rejected", vec, nil, anyOf("unknown curve rejected",
			cmpReject("curve == nil rejected", token.EQL, pathIs("jwsutil.parseEllipticCurve($0.Crv)"), pathIs("nil")),
			callTo("parseEllipticCurve(jwk.Crv) ok", pec, pathIs("$0.Crv"))))
		c.CheckGuard("C15.G1", "verifyECSignature:Verify-result-tested", vec, nil, callTo("ecdsa.Verify == true", ecV))
		c.CheckGuard("C15.G1", "verifyEd25519Signature:Verify-result-tested", ved, nil, callTo("ed25519.Verify == true", edV))
		// hash of msg with the row's hash
		okH := false
		for _, cl := range callsTo(vec, ecV) {
			if strings.Contains(c.Path(cl.Call.Args[1], nil), row+".hash") {
				okH = true
			}
		}
		c.Check("C15.G1", "verifyECSignature:digest-of-row-hash", okH, vec.Pos(), "ecdsa.Verify receives the digest computed with the hash of the curve's table row")
	}
	if sp := c.Fn("util/signutil", "SignPayload"); sp != nil {
		// (through the headers' accessor, or by reading the "alg" member as a string in place)
		isAlgMember := func(s string) bool { return strings.HasSuffix(s, `["alg"]`) && strings.Contains(s, ".Headers") }
		c.CheckGuard("C15.G1", "SignPayload:alg-required", sp, nil, anyOf("the signer's headers carry a string alg", &GCheck{Name: "signer.Headers().Algorithm() ok", MatchCall: func(c *Ctx, call *ssa.Call, env Env) bool {
			g := call.Call.StaticCallee()
			return g != nil && g.String() == "("+modPkg+"jws.Headers).Algorithm"
		}}, &GCheck{Name: `headers["alg"].(string) ok`, MatchOK: func(c *Ctx, v ssa.Value, env Env) bool {
			ta, ok := v.(*ssa.TypeAssert)
			return ok && isStringType(ta.AssertedType) && isAlgMember(c.Path(ta.X, env))
		}}))
		c.CheckGuard("C15.G1", "SignPayload:alg-non-empty", sp, nil, cmpReject(`alg == "" rejected`, token.EQL, func(s string) bool {
			if strings.HasSuffix(s, ")#0") && strings.Contains(s, ".Algorithm(") {
				return true
			}
			return strings.HasSuffix(s, ".(string)#0") && isAlgMember(strings.TrimSuffix(s, ".(string)#0"))
		}, pathIs(`""`)))
	}
	// "fails under any other key … unsupported key types are refused": VerifySignature says yes only behind the true
	// result of ecdsa.Verify / ed25519.Verify — a key-type arm that does nothing (an empty case does not fall through to
	// the refusing default) accepts every signature
	if vs := c.Fn("jwsutil", "VerifySignature"); vs != nil {
		ecV2 := c.ExtFn("crypto/ecdsa", "Verify")
		edV2 := c.ExtFn("crypto/ed25519", "Verify")
		if ecV2 != nil && edV2 != nil {
			c.CheckGuard("C15.G1", "VerifySignature:accepts-only-behind-Verify", vs, nil, &GCheck{Name: "ecdsa.Verify / ed25519.Verify == true", MatchCall: func(c *Ctx, call *ssa.Call, env Env) bool {
				g := call.Call.StaticCallee()
				return g == ecV2 || g == edV2
			}})
		} else {
			c.Unresolved("C15.G1", "crypto/ecdsa.Verify / crypto/ed25519.Verify")
		}
	} else {
		c.Unresolved("C15.G1", "jwsutil.VerifySignature")
	}
	c.Min("C15.G1", 10)

	c.strictHeaderDecoderRule()
	// the signing input is the JSON of the header map as encoding/json writes a map: the header type has no encoder or
	// decoder of its own (one that leaves out empty or null members makes different headers sign the same bytes)
	{
		var own []string
		for _, rel := range []string{"jws", "api/jws"} {
			if nt := c.NamedType(rel, "Headers"); nt != nil {
				for _, m := range c.methodsOf(nt) {
					switch m.Name() {
					case "MarshalJSON", "UnmarshalJSON", "MarshalText", "UnmarshalText":
						own = append(own, short(m.String()))
					}
				}
			}
		}
		c.Check("C15.X2", "header-map:no-encoder-of-its-own", len(own) == 0, 0, fmt.Sprintf("jws.Headers is written and read as a plain JSON object (own encoders/decoders: %v)", own))
	}

	// "verifies under the matching public JWK": the JWK the library produces for a key (fixed-width coordinates, curve
	// marking, strict reading) is the subject of C16; those rules are part of this check as well
	c.apart(runC16)
	c.Assume("ECDSA/EdDSA soundness; go-jose key decoding; specification table of curve bit sizes encoded in the checker")
}

func runC16(c *Ctx) {
	ms := c.Fn("jwsutil", "marshalSecp256k1")
	us := c.Fn("jwsutil", "unmarshalSecp256k1")
	nfb := c.Fn("jwsutil", "newFixedSizeBuffer")
	cs := c.Fn("jwsutil", "curveSize")
	if ms == nil || us == nil || nfb == nil || cs == nil {
		c.Unresolved("C16.K1", "jwsutil.marshalSecp256k1 / unmarshalSecp256k1 / newFixedSizeBuffer / curveSize")
		return
	}
	// ---- K1
	c.Analysed(ms)
	n, bad := 0, 0
	jwkT := c.NamedType("jwsutil", "jsonWebKey")
	for _, a := range allocsOf(ms, jwkT) {
		for _, fs := range storesInto(a) {
			if fs.Field != "X" && fs.Field != "Y" {
				continue
			}
			cl, ok := fs.Val.(*ssa.Call)
			if !ok {
				// composite literal copied through a temporary: value is loaded from the temp struct; handled below
				continue
			}
			n++
			if cl.Call.StaticCallee() != nfb || c.Path(cl.Call.Args[1], nil) != "32" {
				bad++
			}
		}
	}
	// the literal is built in a temporary and copied: count the helper calls directly
	// (in the encoder itself, or in a constructor helper it calls — counted once per call of that helper)
	xy := 0
	for _, host := range append([]*ssa.Function{ms}, c.helpersOf(ms, 1)...) {
		times := 1
		if host != ms {
			times = len(callsTo(ms, host))
		}
		for _, cl := range callsTo(host, nfb) {
			p0 := c.Path(cl.Call.Args[0], nil)
			if strings.HasSuffix(p0, ".X)") || strings.HasSuffix(p0, ".Y)") {
				xy += times
				if c.Path(cl.Call.Args[1], nil) != "32" {
					bad++
				}
			}
		}
	}
	c.Check("C16.K1", "marshal:X-Y-fixed-width-32", xy == 4 && bad == 0, ms.Pos(), fmt.Sprintf("%d coordinate encodings (public and private form) go through newFixedSizeBuffer(…, 32); 32 = ⌈256/8⌉; mismatches: %d", xy, bad))
	sz, _ := c.ConstVal("jwsutil", "secp256k1Size")
	c.Check("C16.K1", "secp256k1Size", sz == "32", 0, "secp256k1Size = "+sz+" = ⌈256/8⌉")
	// helper: left pad to `length`: make([]byte, length-len(data)) then append(padding, data...)
	{
		c.Analysed(nfb)
		t := ""
		for _, a := range allocsOf(nfb, c.NamedType("jwsutil", "byteBuffer")) {
			ft := c.fieldTable(a, nil)
			if len(ft["data"]) == 1 {
				t = ft["data"][0]
			}
		}
		mk := ""
		forEachInstr(nfb, func(in ssa.Instruction) {
			if m, ok := in.(*ssa.MakeSlice); ok {
				mk = c.Path(m.Len, nil)
			}
		})
		c.Check("C16.K1", "newFixedSizeBuffer:left-pad", t == "append(makeslice<[]byte>,$0)" && mk == "($1 - len($0))", nfb.Pos(), fmt.Sprintf("data = %s with padding length %s", t, mk))
	}
	// curveSize = ceil(BitSize/8)
	{
		c.Analysed(cs)
		bs := "invoke<crypto/elliptic.Curve>.Params[$0]().BitSize"
		var rets []string
		for _, r := range returnsOf(cs) {
			rets = append(rets, c.Path(r.Results[0], nil))
		}
		sort.Strings(rets)
		okC := c.isCeilDiv8(cs, nil, pathIs(bs), 0)
		exact := okC
		c.Check("C16.K1", "curveSize=ceil(BitSize/8)", okC && exact, cs.Pos(), fmt.Sprintf("curveSize returns %v", rets))
	}
	c.Min("C16.K1", 4)

	// ---- G1
	c.Analysed(us)
	for _, co := range []string{"X", "Y"} {
		c.CheckGuard("C16.G1", "unmarshal:"+co+"-present", us, nil, cmpReject(co+" == nil rejected", token.EQL, pathIs("$0."+co), pathIs("nil")))
		c.CheckGuard("C16.G1", "unmarshal:"+co+"-width", us, nil, cmpReject("curveSize(S256) != len("+co+") rejected", token.NEQ, pathIs("jwsutil.curveSize(github.com/btcsuite/btcd/btcec/v2.S256())"), pathIs("len($0."+co+".data)")))
	}
	c.CheckGuard("C16.G1", "unmarshal:on-curve", us, nil, &GCheck{Name: "curve.IsOnCurve(x, y)", MatchCall: func(c *Ctx, call *ssa.Call, env Env) bool {
		var recv ssa.Value
		args := call.Call.Args
		if call.Call.IsInvoke() {
			if call.Call.Method.Name() != "IsOnCurve" {
				return false
			}
			recv = call.Call.Value
		} else {
			g := call.Call.StaticCallee()
			if g == nil || g.Name() != "IsOnCurve" || len(args) != 3 {
				return false
			}
			recv, args = args[0], args[1:]
		}
		return strings.Contains(c.Path(localFieldValue(args[0]), env), "$0.X") && strings.Contains(c.Path(localFieldValue(args[1]), env), "$0.Y") && c.Path(recv, env) == "github.com/btcsuite/btcd/btcec/v2.S256()"
	}})
	// the key returned carries those coordinates on that curve
	okKey := false
	for _, a := range allocsOf(us, c.NamedTypeIn("crypto/ecdsa", "PublicKey")) {
		ft := c.fieldTable(a, nil)
		if len(ft["Curve"]) == 1 && ft["Curve"][0] == "github.com/btcsuite/btcd/btcec/v2.S256()" && len(ft["X"]) == 1 && strings.Contains(ft["X"][0], "$0.X") && len(ft["Y"]) == 1 && strings.Contains(ft["Y"][0], "$0.Y") {
			okKey = true
		}
	}
	// (or by an unexported helper that is handed the curve and the two numbers)
	if !okKey {
		forEachInstr(us, func(in ssa.Instruction) {
			cl, isC := in.(*ssa.Call)
			if !isC {
				return
			}
			g := cl.Call.StaticCallee()
			if g == nil || !inModule(g) || g.Blocks == nil || pkgPathOf(g) != pkgPathOf(us) || g.Object() == nil || g.Object().Exported() {
				return
			}
			genv := c.calleeEnv(&cl.Call, g, nil)
			for _, a := range allocsOf(g, c.NamedTypeIn("crypto/ecdsa", "PublicKey")) {
				ft := c.fieldTable(a, genv)
				if len(ft["Curve"]) == 1 && ft["Curve"][0] == "github.com/btcsuite/btcd/btcec/v2.S256()" && len(ft["X"]) == 1 && strings.Contains(ft["X"][0], "$0.X") && len(ft["Y"]) == 1 && strings.Contains(ft["Y"][0], "$0.Y") {
					okKey = true
				}
			}
		})
	}
	c.Check("C16.G1", "unmarshal:key-from-checked-coordinates", okKey, us.Pos(), "the public key is built from the checked X, Y on S256")
	// … and nothing else in the module builds an elliptic-curve public key from its parts: every reader of a JWK goes
	// through the checked one (a second, "direct" decoder of the coordinates has its own idea of the width rule)
	{
		ok := true
		var where []string
		tree := map[*ssa.Function]bool{us: true}
		for _, g := range c.reachableModuleFuncs([]*ssa.Function{us}) {
			tree[g] = true
		}
		n := 0
		for _, f := range c.Funcs {
			pp := pkgPathOf(f)
			if !strings.HasPrefix(pp, modPkg) || isMockPath(pp) || f.Blocks == nil {
				continue
			}
			forEachInstr(f, func(in ssa.Instruction) {
				al, isA := in.(*ssa.Alloc)
				if !isA {
					return
				}
				ts := types.TypeString(derefT(al.Type()), nil)
				if ts != "crypto/ecdsa.PublicKey" && ts != "crypto/ecdsa.PrivateKey" {
					return
				}
				n++
				host := f
				for host.Parent() != nil {
					host = host.Parent()
				}
				if !tree[host] {
					ok = false
					where = append(where, short(f.String())+" at "+c.pos(al.Pos()))
				}
			})
		}
		c.Check("C16.G1", "ec-keys-built-only-by-the-checked-reader", ok && n > 0, us.Pos(), fmt.Sprintf("%d composite(s) of ecdsa.PublicKey / PrivateKey in the module, all inside the checked secp256k1 reader %v", n, where))
	}
	// … and every JWK text is read by the strict reader: go-jose's own JSONWebKey.UnmarshalJSON (which tolerates base64
	// padding: one key, several accepted texts) is called by (*JWK).UnmarshalJSON, behind its strict first pass, only
	{
		uj := c.Method("jwsutil", "JWK", "UnmarshalJSON")
		var bad []string
		n := 0
		okTree := map[*ssa.Function]bool{}
		if uj != nil {
			okTree[uj] = true
			for _, g := range c.reachableModuleFuncs([]*ssa.Function{uj}) {
				if pkgPathOf(g) == pkgPathOf(uj) && (g.Object() == nil || !g.Object().Exported()) {
					okTree[g] = true
				}
			}
		}
		for _, f := range c.Funcs {
			pp := pkgPathOf(f)
			if !strings.HasPrefix(pp, modPkg) || isMockPath(pp) || f.Blocks == nil {
				continue
			}
			forEachInstr(f, func(in ssa.Instruction) {
				cl, ok := in.(*ssa.Call)
				if !ok || cl.Call.StaticCallee() == nil {
					return
				}
				// a decode into go-jose's key type: its own UnmarshalJSON, or a JSON decoder handed a *JSONWebKey
				isJose := func(v ssa.Value) bool {
					if mi, isMI := v.(*ssa.MakeInterface); isMI {
						v = mi.X
					}
					return types.TypeString(v.Type(), nil) == "*github.com/go-jose/go-jose/v3.JSONWebKey"
				}
				name := cl.Call.StaticCallee().Name()
				hit := false
				if name == "UnmarshalJSON" || name == "Unmarshal" || name == "Decode" {
					for _, a := range cl.Call.Args {
						hit = hit || isJose(a)
					}
				}
				if !hit {
					return
				}
				n++
				host := f
				for host.Parent() != nil {
					host = host.Parent()
				}
				if !okTree[host] {
					bad = append(bad, short(f.String())+" at "+c.pos(cl.Pos()))
				}
			})
		}
		c.Check("C16.G1", "jwk-texts-read-by-the-strict-reader-only", uj != nil && n > 0 && len(bad) == 0, 0, fmt.Sprintf("%d decode(s) into go-jose's JSONWebKey in the module, all inside (*jwsutil.JWK).UnmarshalJSON", n), bad...)
	}
	// a key that is read is not written: no function of jwsutil stores through a *jws.JWK it was handed (a "reduced copy"
	// made by copying the pointer takes the nonce away from the caller's key, and with it the commitment computed next)
	{
		var bad []string
		n := 0
		for _, f := range c.Funcs {
			if pkgPathOf(f) != modPkg+"jwsutil" || f.Blocks == nil {
				continue
			}
			n++
			forEachInstr(f, func(in ssa.Instruction) {
				st, ok := in.(*ssa.Store)
				if !ok {
					return
				}
				if _, isFA := st.Addr.(*ssa.FieldAddr); !isFA {
					return
				}
				p, isP := rootOf(st.Addr).(*ssa.Parameter)
				if !isP || typeShort(derefT(p.Type())) != "jws.JWK" {
					return
				}
				bad = append(bad, fmt.Sprintf("%s: %s writes through its argument %s", c.pos(st.Pos()), short(f.String()), p.Name()))
			})
		}
		c.Check("C16.G1", "jwsutil:handed-keys-not-written", n >= 10 && len(bad) == 0, 0, fmt.Sprintf("%d functions of jwsutil: none stores into a jws.JWK it was handed", n), bad...)
	}
	// … and it is read as it was handed: the text the strict reader gets is json.Marshal of the caller's key itself, not
	// of a copy with a member set differently (a relabelled curve makes a key of an unsupported type verify)
	{
		var bad []string
		n := 0
		for _, f := range c.Funcs {
			if pkgPathOf(f) != modPkg+"jwsutil" || f.Blocks == nil {
				continue
			}
			forEachInstr(f, func(in ssa.Instruction) {
				cl, ok := in.(*ssa.Call)
				if !ok || cl.Call.StaticCallee() == nil || cl.Call.StaticCallee().String() != "encoding/json.Marshal" {
					return
				}
				v := cl.Call.Args[0]
				if mi, isMI := v.(*ssa.MakeInterface); isMI {
					v = mi.X
				}
				if typeShort(derefT(v.Type())) != "jws.JWK" {
					return
				}
				n++
				// (the key itself, or a copy that no member is stored into)
				written := false
				for w := range backSlice(v) {
					al, isA := w.(*ssa.Alloc)
					if !isA || al.Referrers() == nil || typeShort(derefT(al.Type())) != "jws.JWK" {
						continue
					}
					for _, r := range *al.Referrers() {
						if fa, isFA := r.(*ssa.FieldAddr); isFA && fa.Referrers() != nil {
							for _, r2 := range *fa.Referrers() {
								if st, isS := r2.(*ssa.Store); isS && st.Addr == ssa.Value(fa) {
									written = true
								}
							}
						}
					}
				}
				if !written {
					return
				}
				bad = append(bad, fmt.Sprintf("%s: %s marshals %s", c.pos(cl.Pos()), short(f.String()), c.Path(v, nil)))
			})
		}
		c.Check("C16.G1", "jwsutil:handed-keys-read-as-handed", n >= 1 && len(bad) == 0, 0, fmt.Sprintf("%d json.Marshal of a jws.JWK in jwsutil, each of the key as it was handed", n), bad...)
	}
	// the encoder is chosen on the key's own labels: (*JWK).MarshalJSON hands the key to the secp256k1 encoder exactly
	// when isSecp256k1(kty, crv) says so, and to go-jose otherwise (a choice "by exclusion" labels a key on any curve
	// go-jose does not know as secp256k1)
	if mj, ms := c.Method("jwsutil", "JWK", "MarshalJSON"), c.Fn("jwsutil", "marshalSecp256k1"); mj != nil && ms != nil {
		n := 0
		var bad []string
		for _, g := range append([]*ssa.Function{mj}, c.helpersOf(mj, 1)...) {
			for _, cl := range callsTo(g, ms) {
				n++
				// the branches that decide whether this call runs: exactly one, the true edge of isSecp256k1(kty, crv) of
				// the receiver
				nIf, okC := 0, false
				for x := cl.Block(); x != nil; x = x.Idom() {
					id := x.Idom()
					if id == nil || len(x.Preds) != 1 {
						continue
					}
					iff, isIf := id.Instrs[len(id.Instrs)-1].(*ssa.If)
					if !isIf {
						continue
					}
					nIf++
					if pc, isC := iff.Cond.(*ssa.Call); isC && id.Succs[0] == x && pc.Call.StaticCallee() != nil && pc.Call.StaticCallee() == c.Fn("jwsutil", "isSecp256k1") && len(pc.Call.Args) == 2 {
						a0, a1 := c.Path(pc.Call.Args[0], nil), c.Path(pc.Call.Args[1], nil)
						if strings.HasSuffix(a0, ".Kty") && strings.HasSuffix(a1, ".Crv") && strings.TrimSuffix(a0, ".Kty") == strings.TrimSuffix(a1, ".Crv") {
							okC = true
						}
					}
				}
				if !okC || nIf != 1 {
					bad = append(bad, fmt.Sprintf("%s: the secp256k1 encoder is chosen under %v", c.pos(cl.Pos()), c.condsOf(cl.Block())))
				}
			}
		}
		c.Check("C16.G1", "MarshalJSON:secp256k1-encoder-chosen-on-the-labels", n == 1 && len(bad) == 0, mj.Pos(), fmt.Sprintf("%d call(s) of marshalSecp256k1, under isSecp256k1($0.Kty, $0.Crv) alone", n), bad...)
	} else {
		c.Unresolved("C16.G1", "(*jwsutil.JWK).MarshalJSON / marshalSecp256k1")
	}
	// a refused text leaves the key it was read into as it was: no store into the receiver of (*JWK).UnmarshalJSON is
	// followed by a failing exit (labels written before the key is validated stay behind when validation fails: the old
	// key under the new curve name)
	if uj := c.Method("jwsutil", "JWK", "UnmarshalJSON"); uj != nil {
		var bad []string
		n := 0
		forEachInstr(uj, func(in ssa.Instruction) {
			st, ok := in.(*ssa.Store)
			if !ok || rootOf(st.Addr) != ssa.Value(uj.Params[0]) {
				return
			}
			n++
			for b := range reach(st.Block(), nil) {
				r, isR := b.Instrs[len(b.Instrs)-1].(*ssa.Return)
				if !isR || maySucceed(r) {
					continue
				}
				// (an exit of the store's own block that comes before the store is not "after" it)
				if b == st.Block() {
					continue
				}
				bad = append(bad, fmt.Sprintf("%s: the receiver is written at %s and the function can still fail at %s", c.pos(st.Pos()), c.pos(st.Pos()), c.pos(r.Pos())))
			}
		})
		c.Check("C16.G1", "UnmarshalJSON:receiver-untouched-on-failure", n >= 2 && len(bad) == 0, uj.Pos(), fmt.Sprintf("%d store(s) into the receiver, none followed by a failing exit", n), bad...)
	} else {
		c.Unresolved("C16.G1", "(*jwsutil.JWK).UnmarshalJSON")
	}
	// a key that goes from the public JWK type to the strict reader goes as JSON written by the JSON encoder: every text
	// handed to (*jwsutil.JWK).UnmarshalJSON inside the module is the caller's own bytes or the result of json.Marshal —
	// a text assembled by hand (Sprintf with %s) lets a quote inside a member be read as structure
	{
		n := 0
		var bad []string
		uj := c.Method("jwsutil", "JWK", "UnmarshalJSON")
		for _, f := range c.Funcs {
			if uj == nil || !strings.HasPrefix(pkgPathOf(f), modPkg) || f.Blocks == nil {
				continue
			}
			for _, cl := range callsTo(f, uj) {
				n++
				p := c.Path(cl.Call.Args[1], nil)
				if strings.HasPrefix(p, "$") || strings.HasPrefix(p, "encoding/json.Marshal(") || strings.HasPrefix(p, "github.com/go-jose/go-jose/v3/json.Marshal(") {
					continue
				}
				bad = append(bad, fmt.Sprintf("%s: %s hands the strict reader %s", c.pos(cl.Pos()), short(f.String()), p))
			}
		}
		c.Check("C16.G1", "jwk-texts-written-by-the-json-encoder", uj != nil && n >= 1 && len(bad) == 0, 0, fmt.Sprintf("%d text(s) handed to (*jwsutil.JWK).UnmarshalJSON in the module, each the caller's bytes or json.Marshal's result", n), bad...)
	}
	// a JWK rebuilt from another JWK (the document's key handed to the Ed25519 reader, a key copied between the two JWK
	// types) is copied member for member: kty from kty, crv from crv, x from x, y from y — a label supplied by the copying
	// code ("OKP", because it is an Ed25519 key after all) makes the reader accept a key that names another type
	{
		jt := c.NamedType("jws", "JWK")
		memberRe := regexp.MustCompile(`^(?:\(document\.JWK\)\.(Kty|Crv|X|Y|Nonce)\((.+)\)|(.+)\.(Kty|Crv|X|Y|Nonce))$`)
		n := 0
		var bad []string
		for _, f := range c.Funcs {
			if jt == nil || !strings.HasPrefix(pkgPathOf(f), modPkg) || f.Blocks == nil {
				continue
			}
			for _, a := range allocsOf(f, jt) {
				ft := c.fieldTable(a, nil)
				src := ""
				for _, vs := range ft {
					for _, v := range vs {
						if m := memberRe.FindStringSubmatch(v); m != nil {
							src = m[2] + m[3]
						}
					}
				}
				if src == "" {
					continue // (not a copy of another JWK)
				}
				n++
				for _, fld := range []string{"Kty", "Crv", "X", "Y"} {
					vs := ft[fld]
					if len(vs) == 0 {
						if fld == "Y" {
							continue
						}
						bad = append(bad, fmt.Sprintf("%s: %s copies a JWK from %s without its %s", c.pos(a.Pos()), short(f.String()), src, fld))
						continue
					}
					for _, v := range vs {
						m := memberRe.FindStringSubmatch(v)
						if m == nil || m[1]+m[4] != fld || m[2]+m[3] != src {
							bad = append(bad, fmt.Sprintf("%s: %s fills %s of the copied JWK from %s (expected the %s of %s)", c.pos(a.Pos()), short(f.String()), fld, v, fld, src))
						}
					}
				}
			}
		}
		c.Check("C16.G1", "jwk-copies:member-for-member", n >= 1 && len(bad) == 0, 0, fmt.Sprintf("%d JWK(s) in the module built from another JWK; each of kty, crv, x, y comes from the member of that name", n), bad...)
	}
	// the public JWK type's own check (called by the request builders and by the parser before the key is read) refuses
	// a key only for a missing kty, n, e, crv or x: a further demand — a coordinate "length" computed from the curve —
	// refuses keys the library itself produces
	if jv := c.Method("jws", "JWK", "Validate"); jv != nil {
		c.jwkValidateRules("C16.G1", "jws.JWK.Validate", jv, func(m string) pathPred { return pathIs("$0." + m) })
	} else {
		c.Unresolved("C16.G1", "(*jws.JWK).Validate")
	}
	// the first pass of the strict reader (kty / crv dispatch, secp256k1 coordinates, the labels) is made with go-jose's
	// JSON decoder — member names matched exactly, duplicates refused — like go-jose's own second pass: encoding/json
	// would let "Crv" stand in for "crv" and the last of two "x" win
	{
		uj := c.Method("jwsutil", "JWK", "UnmarshalJSON")
		n, bad := 0, 0
		var where []string
		if uj != nil {
			for _, g := range append([]*ssa.Function{uj}, c.helpersOf(uj, 1)...) {
				forEachInstr(g, func(in ssa.Instruction) {
					cl, ok := in.(*ssa.Call)
					if !ok || cl.Call.StaticCallee() == nil || len(cl.Call.Args) != 2 {
						return
					}
					h := cl.Call.StaticCallee()
					if h.Name() != "Unmarshal" {
						return
					}
					n++
					if h.Pkg == nil || h.Pkg.Pkg.Path() != joseJSONPkg {
						bad++
						where = append(where, c.pos(cl.Pos())+": "+h.String())
					}
				})
			}
		}
		c.Check("C16.G1", "strict-reader:decodes-with-the-strict-json-decoder", uj != nil && n > 0 && bad == 0, 0, fmt.Sprintf("%d JSON decode(s) in (*JWK).UnmarshalJSON, all with %s", n, joseJSONPkg), where...)
	}
	c.Min("C16.G1", 9)

	// ---- G2 closed set of rejections: a valid key must read back, so unmarshalSecp256k1 may say no only for a missing
	// coordinate, a coordinate (or private value) of the wrong width, or a point off the curve
	{
		var extra []string
		rs := c.rejectionReasons(us, nil, false, 0)
		for _, r := range rs {
			switch {
			case strings.Contains(r, "$0.X == nil)=true"), strings.Contains(r, "$0.Y == nil)=true"), strings.Contains(r, "$0.X != nil)=false"), strings.Contains(r, "$0.Y != nil)=false"):
			case strings.Contains(r, "len($0.X.data)"), strings.Contains(r, "len($0.Y.data)"), strings.Contains(r, "len($0.D.data)"):
			case (strings.Contains(r, ".IsOnCurve[") || strings.Contains(r, ").IsOnCurve(")) && strings.HasSuffix(r, "=false"):
			default:
				extra = append(extra, r)
			}
		}
		c.Check("C16.G2", "unmarshal:no-other-rejection", len(extra) == 0 && len(rs) >= 5, us.Pos(), fmt.Sprintf("unmarshalSecp256k1 rejects for exactly: missing X/Y, width of X/Y/D, point off the curve (%d deciding conditions found)", len(rs)), extra...)
	}
	c.Min("C16.G2", 1)

	// ---- K2 big-endian byte strings of big integers drop leading zero bytes: every (*big.Int).Bytes() result in the key
	// and signature code goes straight into a right-aligning sink (a padding helper of the module, or btcec's
	// SetByteSlice) — never into copy / append / an encoder, which would left-align or shorten a short coordinate
	{
		n := 0
		for _, rel := range []string{"jwsutil", "util/pubkey", "util/ecsigner", "util/edsigner"} {
			sp := c.SPkg[modPkg+rel]
			if sp == nil {
				continue
			}
			for _, f := range allFuncs(sp) {
				forEachInstr(f, func(in ssa.Instruction) {
					cl, ok := in.(*ssa.Call)
					if !ok || cl.Call.StaticCallee() == nil || cl.Call.StaticCallee().String() != "(*math/big.Int).Bytes" {
						return
					}
					n++
					var bad []string
					for _, r := range *cl.Referrers() {
						okUse := false
						if u, isC := r.(*ssa.Call); isC {
							if bi, isB := u.Call.Value.(*ssa.Builtin); isB && bi.Name() == "len" {
								okUse = true
								// (the length of the minimal form says how much padding is needed, or that the number is too
								// wide — a test for the exact width, or for "too short", turns away numbers with leading zero bytes)
								if u.Referrers() != nil {
									for _, r2 := range *u.Referrers() {
										bo, isBO := r2.(*ssa.BinOp)
										if !isBO || !isCmp(bo.Op) {
											continue
										}
										tooWide := (bo.Op == token.GTR && bo.X == ssa.Value(u)) || (bo.Op == token.LSS && bo.Y == ssa.Value(u))
										if !tooWide {
											okUse = false
										}
									}
								}
							}
							if _, isPad := c.padSink(u, func(v ssa.Value) bool { return v == ssa.Value(cl) }); isPad {
								okUse = true
							}
							if g := u.Call.StaticCallee(); g != nil {
								switch {
								case strings.HasSuffix(g.String(), "FieldVal).SetByteSlice"), strings.HasSuffix(g.String(), "ModNScalar).SetByteSlice"):
									okUse = true
								case inModule(g) && len(u.Call.Args) == 2 && u.Call.Args[0] == ssa.Value(cl) && c.leftPads(g):
									okUse = true
								case inModule(g) && len(u.Call.Args) == 2:
									if _, si, into := c.alignsInto(g); into && u.Call.Args[si] == ssa.Value(cl) {
										okUse = true
									}
								}
							}
						}
						if _, isDbg := r.(*ssa.DebugRef); isDbg {
							okUse = true
						}
						if !okUse {
							bad = append(bad, r.String())
						}
					}
					c.Check("C16.K2", "big-int-bytes:"+short(f.String())+":"+c.Path(cl.Call.Args[0], nil), len(bad) == 0, cl.Pos(), fmt.Sprintf("Bytes() of %s is used only by right-aligning sinks %v", c.Path(cl.Call.Args[0], nil), bad))
				})
			}
		}
		// FillBytes writes right-aligned into a caller-sized buffer: counted as a site, nothing to check
		nFill := 0
		for _, rel := range []string{"jwsutil", "util/pubkey", "util/ecsigner", "util/edsigner"} {
			if sp := c.SPkg[modPkg+rel]; sp != nil {
				for _, f := range allFuncs(sp) {
					forEachInstr(f, func(in ssa.Instruction) {
						if cl, ok := in.(*ssa.Call); ok && cl.Call.StaticCallee() != nil && cl.Call.StaticCallee().String() == "(*math/big.Int).FillBytes" {
							nFill++
						}
					})
				}
			}
		}
		c.Check("C16.K2", "big-int-bytes:sites", n+nFill >= 1, 0, fmt.Sprintf("%d (*big.Int).Bytes() and %d FillBytes sites in the key / signature packages", n, nFill))
	}
	c.Min("C16.K2", 1)

	// ---- G3 a coordinate read from JSON is exactly what its base64url text decodes to: the width checks of G1 are about
	// len(data), so data must be the decoder's own result (DecodeString, or buf[:n] with n from Decode) — a pre-sized
	// buffer kept at full length would turn a short coordinate plus skipped characters into one of the right width
	if bu := c.Method("jwsutil", "byteBuffer", "UnmarshalJSON"); bu != nil {
		c.Analysed(bu)
		var stored []ssa.Value
		forEachInstr(bu, func(in ssa.Instruction) {
			st, ok := in.(*ssa.Store)
			if !ok {
				return
			}
			if fa, isFA := st.Addr.(*ssa.FieldAddr); isFA && fieldName(fa.X.Type(), fa.Field) == "data" {
				stored = append(stored, st.Val)
			}
		})
		okD := len(stored) > 0
		var got []string
		for _, v := range stored {
			p := c.Path(v, nil)
			got = append(got, p)
			exact := strings.HasPrefix(p, "(*encoding/base64.Encoding).DecodeString(global:encoding/base64.RawURLEncoding,") && strings.HasSuffix(p, ")#0")
			if sl, isSl := v.(*ssa.Slice); isSl && sl.Low == nil && sl.High != nil {
				hp := c.Path(sl.High, nil)
				if strings.HasPrefix(hp, "(*encoding/base64.Encoding).Decode(global:encoding/base64.RawURLEncoding,") && strings.HasSuffix(hp, ")#0") {
					exact = true
				}
			}
			if !exact {
				okD = false
			}
		}
		c.Check("C16.G3", "byteBuffer:data-is-exactly-the-decoded-bytes", okD, bu.Pos(), fmt.Sprintf("byteBuffer.data = %v (expected the result of RawURLEncoding.DecodeString, or buf[:n] with n returned by Decode)", got))
		b64D := c.MethodIn("encoding/base64", "Encoding", "DecodeString")
		if b64D != nil {
			c.CheckGuard("C16.G3", "byteBuffer:decode-error-propagated", bu, Env{}, anyOf("base64 decode ok, or empty text", callTo("DecodeString", b64D), callTo("Decode", c.MethodIn("encoding/base64", "Encoding", "Decode")), cmpAccept(`encoded == ""`, token.EQL, func(s string) bool { return strings.HasPrefix(s, "decoded(") }, pathIs(`""`))))
		}
	} else {
		c.Unresolved("C16.G3", "(*jwsutil.byteBuffer).UnmarshalJSON")
	}
	// … and the readers of the buffer take the bytes as they are: the number and the text are made from the whole of
	// data (a coordinate is a fixed-width big-endian number — trimming zero bytes at the end divides it by 256)
	{
		var got []string
		okA := true
		n := 0
		// (a read of the data member of a byteBuffer, wherever it is written: in the type's own methods or inline)
		isDataRead := func(v ssa.Value) bool {
			switch x := v.(type) {
			case *ssa.UnOp:
				if fa, ok := x.X.(*ssa.FieldAddr); ok && x.Op == token.MUL {
					st, _ := derefT(fa.X.Type()).Underlying().(*types.Struct)
					return st != nil && typeShort(derefT(fa.X.Type())) == "jwsutil.byteBuffer" && st.Field(fa.Field).Name() == "data"
				}
			case *ssa.Field:
				st, _ := x.X.Type().Underlying().(*types.Struct)
				return st != nil && typeShort(x.X.Type()) == "jwsutil.byteBuffer" && st.Field(x.Field).Name() == "data"
			}
			return false
		}
		for _, f := range c.Funcs {
			if pkgPathOf(f) != modPkg+"jwsutil" || f.Blocks == nil {
				continue
			}
			forEachInstr(f, func(in ssa.Instruction) {
				cl, isC := in.(*ssa.Call)
				if !isC || cl.Call.StaticCallee() == nil {
					return
				}
				var arg ssa.Value
				switch cl.Call.StaticCallee().String() {
				case "(*math/big.Int).SetBytes", "(*encoding/base64.Encoding).EncodeToString":
					arg = cl.Call.Args[1]
				default:
					return
				}
				fromData := false
				for v := range backSlice(arg) {
					if isDataRead(v) {
						fromData = true
					}
				}
				if !fromData {
					return
				}
				n++
				got = append(got, f.Name()+": "+c.Path(arg, nil))
				if !isDataRead(arg) {
					okA = false
				}
			})
		}
		sort.Strings(got)
		c.Check("C16.G3", "byteBuffer:readers-take-data-as-it-is", okA && n >= 1, 0, fmt.Sprintf("the number and the text of a byteBuffer are made from %v (expected the data member itself)", got))
	}
	c.Min("C16.G3", 3)

	// ---- T1
	gp := c.Fn("util/pubkey", "GetPublicKeyJWK")
	if gp == nil {
		c.Unresolved("C16.T1", "pubkey.GetPublicKeyJWK")
	} else {
		c.Analysed(gp)
		tset := map[string]bool{}
		// the classification of the key may sit in an unexported helper that is handed the key
		type frameT struct {
			fn  *ssa.Function
			env Env
		}
		frames := []frameT{{gp, nil}}
		forEachInstr(gp, func(in ssa.Instruction) {
			if cl, ok := in.(*ssa.Call); ok {
				if g := cl.Call.StaticCallee(); g != nil && inModule(g) && g.Blocks != nil && pkgPathOf(g) == pkgPathOf(gp) && g.Object() != nil && !g.Object().Exported() {
					for _, a := range cl.Call.Args {
						if c.Path(a, nil) == "$0" {
							frames = append(frames, frameT{g, c.calleeEnv(&cl.Call, g, nil)})
							break
						}
					}
				}
			}
		})
		for _, fr := range frames {
			fr := fr
			forEachInstr(fr.fn, func(in ssa.Instruction) {
				if ta, ok := in.(*ssa.TypeAssert); ok && c.Path(ta.X, fr.env) == "$0" {
					tset[typeShort(ta.AssertedType)] = true
				}
			})
		}
		var ts []string
		for t := range tset {
			ts = append(ts, t)
		}
		sort.Strings(ts)
		c.Check("C16.T1", "GetPublicKeyJWK:admitted-types", eqStrs(ts, []string{"*crypto/ecdsa.PublicKey", "*crypto/rsa.PublicKey", "crypto/ed25519.PublicKey"}), gp.Pos(), fmt.Sprintf("type switch admits %v", ts))
		// default -> error: success requires one of the assertions ok
		c.CheckGuard("C16.T1", "GetPublicKeyJWK:other-types-rejected", gp, nil, &GCheck{Name: "key is one of the admitted types", MatchOK: func(c *Ctx, v ssa.Value, env Env) bool {
			ta, ok := v.(*ssa.TypeAssert)
			return ok && c.Path(ta.X, env) == "$0"
		}})
		// secp marking iff curve == S256: every store of Kty / Crv writes the marking value only on paths through the
		// true edge of curve == btcec.S256() (directly in that branch, or through locals merged by a φ whose other
		// edges are the empty string)
		var s256 []*ssa.BasicBlock
		for _, fr := range frames {
			forEachInstr(fr.fn, func(in ssa.Instruction) {
				bo, ok := in.(*ssa.BinOp)
				if !ok || bo.Op != token.EQL || !strings.HasSuffix(c.Path(bo.X, nil), ".Curve") || c.Path(bo.Y, nil) != "github.com/btcsuite/btcd/btcec/v2.S256()" {
					return
				}
				for _, e := range boolEdges(bo, true) {
					if len(e.to.Preds) == 1 {
						s256 = append(s256, e.to)
					}
				}
			})
		}
		under := func(b *ssa.BasicBlock) bool {
			for _, t := range s256 {
				if t.Dominates(b) {
					return true
				}
			}
			return false
		}
		var onlyUnder func(v ssa.Value, at *ssa.BasicBlock, want string, d int) (marks bool, ok bool)
		onlyUnder = func(v ssa.Value, at *ssa.BasicBlock, want string, d int) (bool, bool) {
			switch x := v.(type) {
			case *ssa.Const:
				p := c.Path(x, nil)
				if p == want {
					return true, under(at)
				}
				return false, p == `""`
			case *ssa.Phi:
				if d > 3 {
					return false, false
				}
				marks, ok := false, true
				for i, e := range x.Edges {
					m, o := onlyUnder(e, x.Block().Preds[i], want, d+1)
					marks = marks || m
					ok = ok && o
				}
				return marks, ok
			case *ssa.Extract:
				// what the classifying helper hands back: on each of its exits
				cl, isC := x.Tuple.(*ssa.Call)
				if !isC || d > 3 {
					return false, false
				}
				g := cl.Call.StaticCallee()
				isFrame := false
				for _, fr := range frames[1:] {
					isFrame = isFrame || fr.fn == g
				}
				if !isFrame {
					return false, false
				}
				marks, ok := false, true
				for _, r := range returnsOf(g) {
					if x.Index >= len(r.Results) {
						return false, false
					}
					m, o := onlyUnder(returnedValue(r, x.Index), r.Block(), want, d+1)
					marks = marks || m
					ok = ok && o
				}
				return marks, ok
			}
			return false, false
		}
		nK, nC := 0, 0
		okMark := len(s256) > 0
		var markStores []ssa.Instruction
		for _, fr := range frames {
			forEachInstr(fr.fn, func(in ssa.Instruction) { markStores = append(markStores, in) })
		}
		for _, in := range markStores {
			st, isS := in.(*ssa.Store)
			if !isS {
				continue
			}
			p := c.Path(st.Addr, nil)
			switch {
			case strings.HasSuffix(p, ".Kty"):
				m, ok := onlyUnder(st.Val, st.Block(), `"EC"`, 0)
				if m {
					nK++
				}
				okMark = okMark && ok
			case strings.HasSuffix(p, ".Crv"):
				m, ok := onlyUnder(st.Val, st.Block(), `"secp256k1"`, 0)
				if m {
					nC++
				}
				okMark = okMark && ok
			}
		}
		nSt := 2
		okMark = okMark && nK == 1 && nC == 1
		c.Check("C16.T1", "GetPublicKeyJWK:secp256k1-marking", okMark && nSt == 2, gp.Pos(), "kty/crv are set to (EC, secp256k1) exactly on the curve == btcec.S256() edge")
	}
	if is := c.Fn("jwsutil", "isSecp256k1"); is != nil {
		var rets []string
		for _, r := range returnsOf(is) {
			rets = append(rets, c.Path(r.Results[0], nil))
		}
		// short-circuit &&: the result is false unless EqualFold(kty,"EC"), and then EqualFold(crv,"secp256k1")
		ok1 := len(rets) == 1 && rets[0] == `phi(false|strings.EqualFold($1,"secp256k1"))`
		ok2 := false
		if iff, isIf := is.Blocks[0].Instrs[len(is.Blocks[0].Instrs)-1].(*ssa.If); isIf && c.Path(iff.Cond, nil) == `strings.EqualFold($0,"EC")` {
			for _, in := range is.Blocks[0].Succs[0].Instrs {
				if cl, isC := in.(*ssa.Call); isC && c.Path(cl, nil) == `strings.EqualFold($1,"secp256k1")` {
					ok2 = true
				}
			}
		}
		c.Check("C16.T1", "isSecp256k1:both-kty-and-crv", ok1 && ok2, is.Pos(), fmt.Sprintf("isSecp256k1 requires kty EC and crv secp256k1 (%v)", rets))
	}
	// converting a key is a function of the key: the conversion functions keep no state between calls (a cache keyed by
	// the key's address hands out a stale JWK once the caller reuses the key struct)
	{
		var entries []*ssa.Function
		for _, e := range []*ssa.Function{c.Fn("util/pubkey", "GetPublicKeyJWK"), c.Method("jwsutil", "JWK", "MarshalJSON"), c.Method("jwsutil", "JWK", "UnmarshalJSON"), c.Fn("jwsutil", "GetED25519PublicKey")} {
			if e != nil {
				entries = append(entries, e)
			}
		}
		if len(entries) < 3 {
			c.Unresolved("C16.T1", "pubkey.GetPublicKeyJWK / (*jwsutil.JWK).MarshalJSON / UnmarshalJSON")
		} else {
			c.statelessRule("C16.T1", "key conversion", entries)
		}
	}
	// what marshalSecp256k1 writes carries the registered names, not whatever spelling the wrapper was labelled with (the
	// encoder is selected by a case-insensitive match of the labels)
	{
		jwkT := c.NamedType("jwsutil", "jsonWebKey")
		n, okLab := 0, true
		var got []string
		each := func(fn func(in ssa.Instruction)) {
			for _, host := range append([]*ssa.Function{ms}, c.helpersOf(ms, 1)...) {
				forEachInstr(host, fn)
			}
		}
		each(func(in ssa.Instruction) {
			st, ok := in.(*ssa.Store)
			if !ok {
				return
			}
			if fa, isFA := st.Addr.(*ssa.FieldAddr); isFA && types.Identical(derefT(fa.X.Type()), jwkT) {
				switch fieldName(fa.X.Type(), fa.Field) {
				case "Kty":
					n++
					if c.Path(st.Val, nil) != `"EC"` {
						okLab = false
						got = append(got, "Kty="+c.Path(st.Val, nil))
					}
				case "Crv":
					n++
					if c.Path(st.Val, nil) != `"secp256k1"` {
						okLab = false
						got = append(got, "Crv="+c.Path(st.Val, nil))
					}
				}
			}
		})
		c.Check("C16.T1", "marshalSecp256k1:registered-names", okLab && n > 0, ms.Pos(), fmt.Sprintf("the secp256k1 encoder writes kty \"EC\" and crv \"secp256k1\" (%d store(s); deviating: %v)", n, got))
	}
	// the wrapper's own key-type and curve labels are those of the JSON just read, on every accepting path of
	// UnmarshalJSON (MarshalJSON picks the secp256k1 encoder by these labels: a label left over from an earlier value of
	// a reused wrapper sends the key to the wrong encoder)
	if uj := c.Method("jwsutil", "JWK", "UnmarshalJSON"); uj != nil {
		c.Analysed(uj)
		for _, fld := range []string{"Kty", "Crv"} {
			cut := map[edge]bool{}
			n := 0
			forEachInstr(uj, func(in ssa.Instruction) {
				st, ok := in.(*ssa.Store)
				if !ok {
					return
				}
				fa, isFA := st.Addr.(*ssa.FieldAddr)
				if !isFA || c.Path(fa.X, nil) != "$0" || fieldName(fa.X.Type(), fa.Field) != fld {
					return
				}
				// the stored label is the decoded one
				ld, isLd := st.Val.(*ssa.UnOp)
				if !isLd || ld.Op != token.MUL {
					return
				}
				src, isSrc := ld.X.(*ssa.FieldAddr)
				if !isSrc || fieldName(src.X.Type(), src.Field) != fld {
					return
				}
				al, isAl := src.X.(*ssa.Alloc)
				if !isAl {
					return
				}
				fromInput := false
				for _, r := range *al.Referrers() {
					if mi, isMI := r.(*ssa.MakeInterface); isMI {
						for _, rr := range *mi.Referrers() {
							if cl, isC := rr.(*ssa.Call); isC && cl.Call.StaticCallee() != nil && strings.HasSuffix(cl.Call.StaticCallee().String(), "json.Unmarshal") && len(cl.Call.Args) == 2 && cl.Call.Args[1] == ssa.Value(mi) && c.Path(cl.Call.Args[0], nil) == "$1" {
								fromInput = true
							}
						}
					}
				}
				if !fromInput {
					return
				}
				n++
				for _, sc := range st.Block().Succs {
					cut[edge{from: st.Block(), to: sc}] = true
				}
				if r, isR := st.Block().Instrs[len(st.Block().Instrs)-1].(*ssa.Return); isR {
					_ = r // a return in the storing block is behind the store
				}
			})
			skipped := ""
			for b := range reach(uj.Blocks[0], cut) {
				if r, isR := b.Instrs[len(b.Instrs)-1].(*ssa.Return); isR && maySucceed(r) {
					stored := false
					for _, in := range b.Instrs {
						if st, isS := in.(*ssa.Store); isS {
							if fa, isFA := st.Addr.(*ssa.FieldAddr); isFA && c.Path(fa.X, nil) == "$0" && fieldName(fa.X.Type(), fa.Field) == fld {
								stored = true
							}
						}
					}
					if !stored {
						skipped = c.pos(r.Pos())
					}
				}
			}
			c.Check("C16.T1", "UnmarshalJSON:label-"+fld+"-set-on-every-accepting-path", n > 0 && skipped == "", uj.Pos(), fmt.Sprintf("(*JWK).UnmarshalJSON stores the decoded %s into the wrapper before every accepting exit (%d store(s); accepting exit without it: %s)", fld, n, skipped))
		}
	} else {
		c.Unresolved("C16.T1", "(*jwsutil.JWK).UnmarshalJSON")
	}
	c.Min("C16.T1", 8)
	c.Assume("go-jose encodes NIST and Ed25519 keys at full width; btcec.S256 parameters")
	// "the JWK carries the right key type and curve name": which curve names denote a key is the verifier's table of
	// names (exact, one per curve) — a name matched loosely there makes one key readable under several JWK texts, each
	// with its own commitment
	c.signerVerifierTables("C15.X1")
	// "… are rejected": with an error — the JWK reader dereferences the optional coordinate members ("x", "y", "d" may
	// be absent or null) only behind a nil test (C19.N on the reader's functions); a panic is not a refusal
	{
		// (the reader's functions under the names they carry in this tree)
		prefixes := []string{"C19.N::(*jwsutil.JWK).", "C19.N::(*jwsutil.byteBuffer)."}
		for _, nm := range []string{"unmarshalSecp256k1", "marshalSecp256k1"} {
			if f := c.Fn("jwsutil", nm); f != nil {
				prefixes = append(prefixes, "C19.N::"+short(f.String())+":")
			}
		}
		if bb := c.NamedType("jwsutil", "byteBuffer"); bb != nil {
			prefixes = append(prefixes, "C19.N::(*jwsutil."+bb.Obj().Name()+").")
		}
		c.only(runC19, prefixes...)
	}
	c.Min("C19.N", 3)
}

// edgeConds: the canonical conditions that hold when control passes from block p to its successor b.
func (c *Ctx) edgeConds(p, b *ssa.BasicBlock) []string {
	out := c.condsOf(p)
	if iff, ok := p.Instrs[len(p.Instrs)-1].(*ssa.If); ok && p.Succs[0] != p.Succs[1] {
		out = append(out, c.canonCond(iff.Cond, p.Succs[0] == b))
	}
	return out
}

// isCeilDiv8: every exit of f returns ⌈B/8⌉ for the number of bits B (a value whose path, rendered in env, satisfies
// isBits): (B+7)/8; or B/8 where B%8 == 0 and B/8+1 where it is not (as separate returns or merged in a φ); or what a
// module helper with those properties returns for B.
func (c *Ctx) isCeilDiv8(f *ssa.Function, env Env, isBits func(string) bool, depth int) bool {
	if f == nil || f.Blocks == nil || depth > 3 || len(returnsOf(f)) == 0 {
		return false
	}
	old := c.condEnv
	c.condEnv = env
	defer func() { c.condEnv = old }()
	bitsOf := func(p, pre, suf string) (string, bool) {
		if strings.HasPrefix(p, pre) && strings.HasSuffix(p, suf) {
			b := p[len(pre) : len(p)-len(suf)]
			return b, isBits(b)
		}
		return "", false
	}
	has := func(conds []string, want ...string) bool {
		for _, cnd := range conds {
			for _, w := range want {
				if cnd == w {
					return true
				}
			}
		}
		return false
	}
	one := func(v ssa.Value, conds []string) bool {
		p := c.Path(v, env)
		if _, ok := bitsOf(p, "((", " + 7) / 8)"); ok {
			return true
		}
		if b, ok := bitsOf(p, "((", " / 8) + 1)"); ok {
			return has(conds, "(("+b+" % 8) != 0)=true", "(0 < ("+b+" % 8))=true")
		}
		if b, ok := bitsOf(p, "(", " / 8)"); ok {
			return has(conds, "(("+b+" % 8) == 0)=true", "(("+b+" % 8) <= 0)=true")
		}
		if cl, isC := v.(*ssa.Call); isC {
			if h := cl.Call.StaticCallee(); h != nil && inModule(h) && h.Blocks != nil && h.Signature.Results().Len() == 1 {
				for _, a := range cl.Call.Args {
					if isBits(c.Path(a, env)) {
						return c.isCeilDiv8(h, c.calleeEnv(&cl.Call, h, env), isBits, depth+1)
					}
				}
			}
		}
		return false
	}
	for _, r := range returnsOf(f) {
		if len(r.Results) != 1 {
			return false
		}
		v := returnedValue(r, 0)
		if phi, isPhi := v.(*ssa.Phi); isPhi && phi.Block() == r.Block() {
			for i, e := range phi.Edges {
				if !one(e, c.edgeConds(phi.Block().Preds[i], phi.Block())) {
					return false
				}
			}
			continue
		}
		if !one(v, c.condsOf(r.Block())) {
			return false
		}
	}
	return true
}

// hashOf: a table entry names its hash as the crypto.Hash constant or as the hasher made from it.
func hashOf(p string) string {
	if strings.HasPrefix(p, "(crypto.Hash).New(") && strings.HasSuffix(p, ")") {
		return p[len("(crypto.Hash).New(") : len(p)-1]
	}
	return p
}

// signerVerifierTables: the ECDSA signer's curve→hash table and the verifier's name→(curve,width,hash)
// table agree row by row; widths are ⌈bits/8⌉; the signer pads to ⌈BitSize/8⌉ of the key's curve.
func (c *Ctx) signerVerifierTables(rule string) bool {
	pec := c.Fn("jwsutil", "parseEllipticCurve")
	sign := c.Method("util/ecsigner", "Signer", "Sign")
	// the signer's curve -> hash function: the ecsigner function that Sign calls with the key's curve and that hands
	// back the hash (a crypto.Hash, or the hash.Hash made from it)
	var getHasher *ssa.Function
	if sign != nil {
		forEachInstr(sign, func(in ssa.Instruction) {
			cl, ok := in.(*ssa.Call)
			if !ok {
				return
			}
			g := cl.Call.StaticCallee()
			if g == nil || pkgPathOf(g) != modPkg+"util/ecsigner" || g.Blocks == nil || g.Signature.Results().Len() != 1 {
				return
			}
			switch types.TypeString(g.Signature.Results().At(0).Type(), nil) {
			case "crypto.Hash", "hash.Hash":
			default:
				return
			}
			for _, a := range cl.Call.Args {
				if strings.HasSuffix(c.Path(a, nil), ".Curve") {
					getHasher = g
				}
			}
		})
	}
	if getHasher == nil || pec == nil || sign == nil {
		c.Unresolved(rule, "ecsigner.getHasher / jwsutil.parseEllipticCurve / (*ecsigner.Signer).Sign")
		return false
	}
	// ---- X1: signer table  curve -> hash
	c.Analysed(getHasher)
	signer := map[string]string{}
	forEachInstr(getHasher, func(in ssa.Instruction) {
		bo, ok := in.(*ssa.BinOp)
		if !ok || bo.Op != token.EQL || c.Path(bo.X, nil) != "$0" {
			return
		}
		for _, e := range boolEdges(bo, true) {
			if r, isR := e.to.Instrs[len(e.to.Instrs)-1].(*ssa.Return); isR {
				signer[c.Path(bo.Y, nil)] = hashOf(c.Path(r.Results[0], nil))
			}
		}
	})
	// the same search written as a loop over a table of (curve, hash) rows: one comparison per row
	if tes := c.tableLoopEnvs(getHasher, nil); len(tes) > 0 {
		rows := map[string]string{}
		for _, te := range tes {
			forEachInstr(getHasher, func(in ssa.Instruction) {
				bo, ok := in.(*ssa.BinOp)
				if !ok || bo.Op != token.EQL || c.Path(bo.X, nil) != "$0" {
					return
				}
				for _, e := range boolEdges(bo, true) {
					if r, isR := e.to.Instrs[len(e.to.Instrs)-1].(*ssa.Return); isR {
						rows[c.Path(bo.Y, te)] = hashOf(c.Path(r.Results[0], te))
					}
				}
			})
		}
		if len(rows) == len(tes) {
			signer = rows
		}
	}
	// what getHasher returns when no comparison matched (the default / fall-through arm)
	signerDefault := ""
	{
		cut := map[edge]bool{}
		forEachInstr(getHasher, func(in ssa.Instruction) {
			if bo, ok := in.(*ssa.BinOp); ok && bo.Op == token.EQL && c.Path(bo.X, nil) == "$0" {
				for _, e := range boolEdges(bo, true) {
					cut[e] = true
				}
			}
		})
		n := 0
		for b := range reach(getHasher.Blocks[0], cut) {
			if r, isR := b.Instrs[len(b.Instrs)-1].(*ssa.Return); isR {
				n++
				signerDefault = hashOf(c.Path(r.Results[0], nil))
			}
		}
		if _, isReachedEntry := reach(getHasher.Blocks[0], cut)[getHasher.Blocks[0]]; isReachedEntry {
			if r, isR := getHasher.Blocks[0].Instrs[len(getHasher.Blocks[0].Instrs)-1].(*ssa.Return); isR && n == 0 {
				signerDefault = hashOf(c.Path(r.Results[0], nil))
				n = 1
			}
		}
		if n != 1 {
			signerDefault = ""
		}
	}
	// verifier table  name -> (curve, width, hash)
	c.Analysed(pec)
	type row struct{ curve, width, hash string }
	ver := map[string]row{}
	for k, blk := range c.caseTable(pec, nil, func(p string) bool { return p == "$0" }) {
		var r row
		for _, in := range blk.Instrs {
			if a, ok := in.(*ssa.Alloc); ok {
				ft := c.fieldTable(a, nil)
				if len(ft["curve"]) == 1 {
					r.curve = ft["curve"][0]
				}
				if len(ft["keySize"]) == 1 {
					r.width = ft["keySize"][0]
				}
				if len(ft["hash"]) == 1 {
					r.hash = ft["hash"][0]
				}
			}
		}
		ver[unquote(k)] = r
	}
	// the same table written as a package-level map literal curve name -> struct, looked up by the name: the
	// function must hand out the looked-up entry (or a copy) only when the lookup found one
	if len(ver) == 0 {
		if g, lk := c.globalTableLookup(pec, func(p string) bool { return p == "$0" }); g != nil {
			foundOnly := false
			if lk.CommaOk {
				if okv := extractOf2(lk, 1); okv != nil {
					chk := &GCheck{Name: "table lookup found the name", NoDescend: true, MatchOK: func(c *Ctx, v ssa.Value, env Env) bool { return v == ssa.Value(lk) }}
					nonNil := func(in ssa.Instruction) bool {
						r, isR := in.(*ssa.Return)
						if !isR || len(r.Results) == 0 {
							return false
						}
						k, isK := r.Results[0].(*ssa.Const)
						return !(isK && k.IsNil())
					}
					foundOnly, _, _ = c.Guard(pec, nil, chk, nonNil)
				}
			}
			if foundOnly {
				for _, mu := range c.globalMapUpdates(g) {
					var r row
					if a := structOfValue(mu.Value); a != nil {
						ft := c.fieldTable(a, nil)
						if len(ft["curve"]) == 1 {
							r.curve = ft["curve"][0]
						}
						if len(ft["keySize"]) == 1 {
							r.width = ft["keySize"][0]
						}
						if len(ft["hash"]) == 1 {
							r.hash = ft["hash"][0]
						}
					}
					ver[unquote(c.Path(mu.Key, nil))] = r
				}
			}
		}
	}
	wantNames := map[string]string{"P-256": "crypto/elliptic.P256()", "P-384": "crypto/elliptic.P384()", "P-521": "crypto/elliptic.P521()", "secp256k1": "github.com/btcsuite/btcd/btcec/v2.S256()"}
	var names []string
	for n := range ver {
		names = append(names, n)
	}
	sort.Strings(names)
	c.Check(rule, "verifier:curve-names", len(ver) == 4 && reflect.DeepEqual(func() map[string]string {
		m := map[string]string{}
		for n, r := range ver {
			m[n] = r.curve
		}
		return m
	}(), wantNames), pec.Pos(), fmt.Sprintf("verifier curve table %v", ver))
	for _, n := range names {
		r := ver[n]
		bits := curveBits[r.curve]
		w := (bits + 7) / 8
		c.Check(rule, "width:"+n, bits > 0 && r.width == fmt.Sprint(w), pec.Pos(), fmt.Sprintf("%s: coordinate width %s (⌈%d/8⌉ = %d)", n, r.width, bits, w))
		sh, ok := signer[r.curve]
		if !ok && signerDefault != "" {
			sh, ok = signerDefault, true // the curve falls through to getHasher's default arm
		}
		c.Check(rule, "hash-agreement:"+n, ok && sh == r.hash && hashName[r.hash] != "", pec.Pos(), fmt.Sprintf("%s: signer hashes with %s, verifier with %s", n, hashName[sh], hashName[r.hash]))
	}
	// the signer's table mentions no curve the verifier does not know (an extra signer-only curve could never verify)
	extra := 0
	for cv := range signer {
		known := false
		for _, r := range ver {
			if r.curve == cv {
				known = true
			}
		}
		if !known {
			extra++
		}
	}
	c.Check(rule, "signer:curves", extra == 0 && (len(signer) == 4 || signerDefault != ""), getHasher.Pos(), fmt.Sprintf("signer curve→hash table %v, default %s", signer, hashName[signerDefault]))
	// signer width computed from the key's own curve: ceil(BitSize/8)
	{
		c.Analysed(sign)
		cp := c.Fn("util/ecsigner", "copyPadded")
		const keyCurve = "$0.privateKey.PublicKey.Curve"
		// ceilOf: in function h, value v is ⌈BitSize/8⌉ of the curve with path cv: φ(BitSize/8 + 1 | BitSize/8) with the
		// increment on the true edge of BitSize % 8 > 0
		ceilOf := func(h *ssa.Function, v ssa.Value, cv string) bool {
			bs := "invoke<crypto/elliptic.Curve>.Params[" + cv + "]().BitSize"
			p := c.Path(v, nil)
			if p != "phi((("+bs+" / 8) + 1)|("+bs+" / 8))" && p != "phi(("+bs+" / 8)|(("+bs+" / 8) + 1))" {
				return false
			}
			inc := false
			forEachInstr(h, func(in ssa.Instruction) {
				if bo, ok := in.(*ssa.BinOp); ok && c.Path(bo, nil) == "(("+bs+" % 8) > 0)" {
					for _, e := range boolEdges(bo, true) {
						for _, i2 := range e.to.Instrs {
							if b2, ok2 := i2.(*ssa.BinOp); ok2 && c.Path(b2, nil) == "(("+bs+" / 8) + 1)" {
								inc = true
							}
						}
					}
				}
			})
			return inc
		}
		okW := 0
		// the padding calls: to the package's padding helper, whatever it is called and whether it takes the bytes or
		// the integer
		padCalls := findCalls(sign, func(cl *ssa.Call) bool {
			g := cl.Call.StaticCallee()
			if _, _, into := c.alignsInto(g); into {
				return false // fills a destination it is handed: see below
			}
			return g != nil && inModule(g) && len(cl.Call.Args) == 2 && (g == cp || c.leftPads(g))
		})
		// or: one zeroed buffer of twice the width, each half filled by a helper that right-aligns its source in the
		// part it is handed — `sig := make([]byte, 2*w); pad(sig[:w], r); pad(sig[w:], s)`
		var halfWidths []ssa.Value
		for _, cl := range findCalls(sign, func(cl *ssa.Call) bool {
			g := cl.Call.StaticCallee()
			if g == nil || !inModule(g) || len(cl.Call.Args) != 2 {
				return false
			}
			_, _, ok := c.alignsInto(g)
			return ok
		}) {
			di, _, _ := c.alignsInto(cl.Call.StaticCallee())
			sl, isSl := cl.Call.Args[di].(*ssa.Slice)
			if !isSl {
				continue
			}
			ms, isMS := sl.X.(*ssa.MakeSlice)
			if !isMS {
				continue
			}
			var w ssa.Value
			switch {
			case sl.Low == nil && sl.High != nil:
				w = sl.High
			case sl.Low != nil && sl.High == nil:
				w = sl.Low
			}
			// the buffer is twice that width
			if w == nil || (c.Path(ms.Len, nil) != "(2 * "+c.Path(w, nil)+")" && c.Path(ms.Len, nil) != "("+c.Path(w, nil)+" * 2)" && c.Path(ms.Len, nil) != "("+c.Path(w, nil)+" + "+c.Path(w, nil)+")") {
				continue
			}
			halfWidths = append(halfWidths, w)
		}
		widthOf := func(cl *ssa.Call) ssa.Value { return cl.Call.Args[1] }
		type padded struct{ w ssa.Value }
		var pads []padded
		for _, cl := range padCalls {
			pads = append(pads, padded{widthOf(cl)})
		}
		if len(padCalls) == 0 {
			for _, w := range halfWidths {
				pads = append(pads, padded{w})
			}
		}
		for _, pd := range pads {
			w := pd.w
			if ceilOf(sign, w, keyCurve) {
				okW++
				continue
			}
			// or computed by a helper of the signer package from the key's curve
			if hc, isC := w.(*ssa.Call); isC {
				if h := hc.Call.StaticCallee(); h != nil && inModule(h) && h.Blocks != nil && len(hc.Call.Args) == len(h.Params) {
					ci := -1
					for i, a := range hc.Call.Args {
						if c.Path(a, nil) == keyCurve {
							ci = i
						}
					}
					if ci >= 0 {
						all := len(returnsOf(h)) > 0
						for _, r := range returnsOf(h) {
							if len(r.Results) != 1 || !ceilOf(h, r.Results[0], c.Path(h.Params[ci], nil)) {
								all = false
							}
						}
						if all {
							c.Analysed(h)
							okW++
						}
					}
				}
			}
		}
		inc := okW > 0
		c.Check(rule, "signer:width=ceil(BitSize/8)", okW == 2 && inc, sign.Pos(), fmt.Sprintf("r and s are padded to ⌈BitSize/8⌉ of the signing key's curve (%d padded values)", okW))
		// hash of the message with the curve's hash
		okH := false
		for _, cl := range findCalls(sign, func(cl *ssa.Call) bool {
			g := cl.Call.StaticCallee()
			return g != nil && g.String() == "crypto/ecdsa.Sign"
		}) {
			if strings.Contains(c.Path(cl.Call.Args[2], nil), fname(getHasher)[strings.LastIndex(fname(getHasher), ".")+1:]+"($0.privateKey.PublicKey.Curve)") {
				okH = true
			}
		}
		c.Check(rule, "signer:digest-of-curve-hash", okH, sign.Pos(), "ecdsa.Sign receives the digest computed with getHasher(key curve)")
		// r and s go into the signature as ecdsa.Sign returned them: read as bytes and padded, nothing else (an s
		// "normalised" against the wrong modulus no longer verifies)
		{
			var bad []string
			n := 0
			for _, cl := range findCalls(sign, func(cl *ssa.Call) bool {
				g := cl.Call.StaticCallee()
				return g != nil && g.String() == "crypto/ecdsa.Sign"
			}) {
				for ex := 0; ex < 2; ex++ {
					v := extractOf(cl, ex)
					if v == nil || v.Referrers() == nil {
						bad = append(bad, fmt.Sprintf("result %d of ecdsa.Sign is not used", ex))
						continue
					}
					n++
					for _, r := range *v.Referrers() {
						switch y := r.(type) {
						case *ssa.DebugRef:
						case *ssa.Call:
							g := y.Call.StaticCallee()
							okUse := false
							if g != nil {
								switch g.String() {
								case "(*math/big.Int).Bytes", "(*math/big.Int).FillBytes", "(*math/big.Int).BitLen":
									okUse = true
								}
								if inModule(g) && (g == cp || c.leftPads(g)) {
									okUse = true
								}
								if _, _, into := c.alignsInto(g); into {
									okUse = true
								}
							}
							if !okUse {
								bad = append(bad, c.pos(y.Pos())+": handed to "+calleeName(&y.Call))
							}
						default:
							bad = append(bad, c.pos(instrPos(r))+": "+r.String())
						}
					}
				}
			}
			c.Check(rule, "signer:r-s-as-signed", n == 2 && len(bad) == 0, sign.Pos(), "the two halves of the signature are ecdsa.Sign's r and s, read as bytes and padded", bad...)
		}
		if cp != nil {
			if _, _, into := c.alignsInto(cp); into {
				c.Check(rule, "copyPadded", true, cp.Pos(), "copyPadded right-aligns its source in the destination it is handed (a zeroed part of the signature buffer)")
			} else {
				t := "?"
				for _, r := range returnsOf(cp) {
					if len(r.Results) > 0 {
						t = c.Path(r.Results[0], nil)
					}
					break
				}
				c.Check(rule, "copyPadded", t == "makeslice<[]byte>", cp.Pos(), "copyPadded returns a fresh slice of the requested size: "+t)
			}
		}
	}

	return true
}

// leftPads: g(data []byte, n int) returns a fresh n-byte slice with data copied to its end (offset n-len(data)), or
// data itself when it already has that length — the padding helpers the JWK and signature code use.
func (c *Ctx) leftPads(g *ssa.Function) bool {
	if g.Blocks == nil || len(g.Params) != 2 {
		return false
	}
	// the bytes padded: the first parameter itself, or the big-endian bytes of a *big.Int first parameter
	isSrc := func(v ssa.Value) bool {
		if v == ssa.Value(g.Params[0]) {
			return true
		}
		if cl, ok := v.(*ssa.Call); ok && cl.Call.StaticCallee() != nil && cl.Call.StaticCallee().String() == "(*math/big.Int).Bytes" {
			return cl.Call.Args[0] == ssa.Value(g.Params[0])
		}
		return false
	}
	okCopy := false
	forEachInstr(g, func(in ssa.Instruction) {
		if cl, ok := in.(*ssa.Call); ok {
			if w, isPad := c.padSink(cl, isSrc); isPad && c.Path(w, nil) == "$1" {
				okCopy = true
			}
		}
	})
	return okCopy
}

// padSink: the builtin call right-aligns a source accepted by isSrc in a zeroed buffer; returns the buffer's width.
//
//	dest := make([]byte, n); copy(dest[n-len(src):], src)
//	append(make([]byte, n-len(src)), src...)
func (c *Ctx) padSink(cl *ssa.Call, isSrc func(ssa.Value) bool) (ssa.Value, bool) {
	bi, isB := cl.Call.Value.(*ssa.Builtin)
	if !isB || len(cl.Call.Args) != 2 || !isSrc(cl.Call.Args[1]) {
		return nil, false
	}
	lenOfSrc := func(v ssa.Value) bool {
		l, ok := v.(*ssa.Call)
		if !ok {
			return false
		}
		b, isB := l.Call.Value.(*ssa.Builtin)
		return isB && b.Name() == "len" && len(l.Call.Args) == 1 && isSrc(l.Call.Args[0])
	}
	switch bi.Name() {
	case "copy":
		if sl, isSl := cl.Call.Args[0].(*ssa.Slice); isSl && sl.Low != nil && sl.High == nil {
			if ms, isMS := sl.X.(*ssa.MakeSlice); isMS {
				if lo, isBO := sl.Low.(*ssa.BinOp); isBO && lo.Op == token.SUB && lo.X == ms.Len && lenOfSrc(lo.Y) {
					return ms.Len, true
				}
			}
		}
	case "append":
		if ms, isMS := cl.Call.Args[0].(*ssa.MakeSlice); isMS {
			if lo, isBO := ms.Len.(*ssa.BinOp); isBO && lo.Op == token.SUB && lenOfSrc(lo.Y) {
				return lo.X, true
			}
		}
	}
	return nil, false
}

// alignsInto: g(dest, src []byte) (in either order, no result needed) copies src to the END of dest:
// copy(dest[len(dest)-len(src):], src) — it right-aligns the source in whatever (zeroed) destination it is handed.
func (c *Ctx) alignsInto(g *ssa.Function) (destIdx, srcIdx int, ok bool) {
	if g == nil || g.Blocks == nil || len(g.Params) != 2 {
		return 0, 0, false
	}
	idx := func(v ssa.Value) int {
		for i, p := range g.Params {
			if v == ssa.Value(p) {
				return i
			}
		}
		return -1
	}
	lenOf := func(v ssa.Value) int {
		l, isC := v.(*ssa.Call)
		if !isC {
			return -1
		}
		b, isB := l.Call.Value.(*ssa.Builtin)
		if !isB || b.Name() != "len" || len(l.Call.Args) != 1 {
			return -1
		}
		return idx(l.Call.Args[0])
	}
	found := false
	forEachInstr(g, func(in ssa.Instruction) {
		cl, isC := in.(*ssa.Call)
		if !isC {
			return
		}
		bi, isB := cl.Call.Value.(*ssa.Builtin)
		if !isB || bi.Name() != "copy" || len(cl.Call.Args) != 2 {
			return
		}
		sl, isSl := cl.Call.Args[0].(*ssa.Slice)
		si := idx(cl.Call.Args[1])
		if !isSl || si < 0 || sl.High != nil || sl.Low == nil {
			return
		}
		di := idx(sl.X)
		lo, isBO := sl.Low.(*ssa.BinOp)
		if di < 0 || di == si || !isBO || lo.Op != token.SUB || lenOf(lo.X) != di || lenOf(lo.Y) != si {
			return
		}
		destIdx, srcIdx, found = di, si, true
	})
	return destIdx, srcIdx, found
}

// localFieldValue: v reads a field of a local struct (a composite literal kept in a cell) that is stored exactly once,
// before the read: the value stored (v itself otherwise).
func localFieldValue(v ssa.Value) ssa.Value {
	ld, ok := v.(*ssa.UnOp)
	if !ok || ld.Op != token.MUL {
		return v
	}
	fa, ok := ld.X.(*ssa.FieldAddr)
	if !ok {
		return v
	}
	cell, ok := fa.X.(*ssa.Alloc)
	if !ok || cell.Referrers() == nil {
		return v
	}
	var st *ssa.Store
	n := 0
	for _, r := range *cell.Referrers() {
		switch y := r.(type) {
		case *ssa.FieldAddr:
			if y.Field != fa.Field || y.Referrers() == nil {
				continue
			}
			for _, rr := range *y.Referrers() {
				if w, isS := rr.(*ssa.Store); isS && w.Addr == ssa.Value(y) {
					n++
					st = w
				}
			}
		case *ssa.Store:
			if y.Addr == ssa.Value(cell) {
				return v // written as a whole
			}
		}
	}
	if n == 1 && instrDominates(st, ld) {
		return st.Val
	}
	return v
}

// strictHeaderDecoderRule (C15.K2; also run by C07: "only alg/kid protected headers" is decided on the decoded map).
func (c *Ctx) strictHeaderDecoderRule() {
	// ---- K2 the protected header is decoded by a decoder that refuses duplicate member names. The signature is
	// verified over the re-serialised *parsed* header (C15.X2: one signingInput for both directions), so a member the
	// decoder silently drops (encoding/json keeps the last duplicate) is header content the signature does not cover.
	{
		strict := false
		// read from the library's source files (syntax only; the decoder's object() reports "duplicate key")
		if tp := c.TPkg[joseJSONPkg]; tp != nil {
			fset := token.NewFileSet()
			for _, fn := range tp.GoFiles {
				af, err := parser.ParseFile(fset, fn, nil, 0)
				if err != nil {
					continue
				}
				ast.Inspect(af, func(n ast.Node) bool {
					if fd, ok := n.(*ast.FuncDecl); ok && fd.Body != nil {
						ast.Inspect(fd.Body, func(m ast.Node) bool {
							if bl, ok2 := m.(*ast.BasicLit); ok2 && bl.Kind == token.STRING && strings.Contains(bl.Value, "duplicate key") {
								// the literal must be part of an error raised by the decoder
								strict = true
							}
							return true
						})
						return false
					}
					return true
				})
			}
		}
		c.Check("C15.K2", "strict-decoder:rejects-duplicate-members", strict, 0, joseJSONPkg+" reports duplicate member names as an error (derived from the library source)")
		hdr := c.NamedType("api/jws", "Headers")
		if hdr == nil {
			hdr = c.NamedTypeIn(modPkg+"jws", "Headers")
		}
		entries := []*ssa.Function{c.Fn("jwsutil", "ParseJWS"), c.Fn("jwsutil", "VerifyJWS")}
		n, bad := 0, 0
		if entries[0] != nil && entries[1] != nil {
			for _, f := range c.reachableModuleFuncs(entries) {
				forEachInstr(f, func(in ssa.Instruction) {
					cl, ok := in.(*ssa.Call)
					if !ok || cl.Call.StaticCallee() == nil || cl.Call.StaticCallee().Name() != "Unmarshal" || len(cl.Call.Args) != 2 {
						return
					}
					// the decode target is a header map
					tgt := cl.Call.Args[1]
					if mi, isMI := tgt.(*ssa.MakeInterface); isMI {
						tgt = mi.X
					}
					pt, isP := tgt.Type().Underlying().(*types.Pointer)
					if !isP {
						return
					}
					nt, isN := pt.Elem().(*types.Named)
					if !isN || nt.Obj().Name() != "Headers" {
						return
					}
					n++
					g := cl.Call.StaticCallee()
					if g.Pkg == nil || g.Pkg.Pkg.Path() != joseJSONPkg {
						bad++
						c.Check("C15.K2", "header-decoder:"+short(f.String()), false, cl.Pos(), "the JOSE header is decoded with "+g.String()+", which does not refuse duplicate member names; the verified signing input is rebuilt from the parsed header, so dropped duplicates are unsigned header content")
					}
				})
			}
		}
		_ = hdr
		c.Check("C15.K2", "header-decoder:strict", n > 0 && bad == 0, 0, fmt.Sprintf("%d decode(s) of a JOSE header map on the parse / verify paths, all with the duplicate-refusing decoder", n))
	}
	c.Min("C15.K2", 2)
}

// isBytesT: the type is a slice of bytes.
func isBytesT(t types.Type) bool {
	sl, ok := t.Underlying().(*types.Slice)
	if !ok {
		return false
	}
	b, ok := sl.Elem().Underlying().(*types.Basic)
	return ok && b.Kind() == types.Uint8
}
