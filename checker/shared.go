package main

// Engines S / L: shared-state inventory, lock pairing and locksets (C20).

import (
	"fmt"
	"go/token"
	"go/types"
	"sort"
	"strings"

	"golang.org/x/tools/go/ssa"
)

// mutexCall classifies a call/defer as Lock/RLock/Unlock/RUnlock on a sync mutex and returns the path of
// the mutex address.
func (c *Ctx) mutexCall(cc *ssa.CallCommon) (kind string, mpath string) {
	f := cc.StaticCallee()
	if f == nil || f.Signature.Recv() == nil {
		return "", ""
	}
	n := f.String()
	for _, k := range []string{"Lock", "RLock", "Unlock", "RUnlock"} {
		if n == "(*sync.RWMutex)."+k || n == "(*sync.Mutex)."+k {
			return k, c.Path(cc.Args[0], nil)
		}
	}
	return "", ""
}

type lockSite struct {
	kind   string
	mpath  string
	in     ssa.Instruction
	defer_ bool
}

func (c *Ctx) lockSites(f *ssa.Function) []lockSite {
	var out []lockSite
	forEachInstr(f, func(in ssa.Instruction) {
		switch x := in.(type) {
		case *ssa.Call:
			if k, m := c.mutexCall(&x.Call); k != "" {
				out = append(out, lockSite{k, m, in, false})
			}
		case *ssa.Defer:
			if k, m := c.mutexCall(&x.Call); k != "" {
				out = append(out, lockSite{k, m, in, true})
			}
		}
	})
	return out
}

// lockHeldAt: is mutex mpath held at instruction `at` (exclusive: by Lock; shared: Lock or RLock), with no
// explicit unlock between the acquire and `at`?
func (c *Ctx) lockHeldAt(f *ssa.Function, at ssa.Instruction, mpath string, needExclusive bool) bool {
	ls := c.lockSites(f)
	for _, l := range ls {
		if l.defer_ || l.mpath != mpath {
			continue
		}
		if l.kind != "Lock" && !(l.kind == "RLock" && !needExclusive) {
			continue
		}
		if !instrDominates(l.in, at) {
			continue
		}
		released := false
		for _, u := range ls {
			if u.defer_ || u.mpath != mpath || (u.kind != "Unlock" && u.kind != "RUnlock") {
				continue
			}
			if instrDominates(l.in, u.in) && instrDominates(u.in, at) {
				released = true
			}
		}
		if !released {
			return true
		}
	}
	// a "…Locked" helper: an unexported function that takes no lock of its own and is only ever called (statically) with
	// the mutex held in the required mode — by every caller, on the same object
	if f.Object() != nil && !f.Object().Exported() && f.Parent() == nil && strings.HasPrefix(mpath, "$") && c.lockDepth < 2 {
		n := 0
		for _, g := range c.Funcs {
			if g == f {
				continue
			}
			takenAsValue := false
			forEachInstr(g, func(in ssa.Instruction) {
				var ops []*ssa.Value
				for _, op := range in.Operands(ops) {
					if *op == ssa.Value(f) {
						if cl, isC := in.(ssa.CallInstruction); !isC || cl.Common().Value != ssa.Value(f) {
							takenAsValue = true
						}
					}
				}
			})
			if takenAsValue {
				return false
			}
			for _, cl := range callsTo(g, f) {
				// the mutex in the caller's frame: the helper's parameter replaced by the call's argument
				k := strings.IndexAny(mpath[1:], ".[")
				pi, rest := mpath[1:], ""
				if k >= 0 {
					pi, rest = mpath[1:1+k], mpath[1+k:]
				}
				idx := 0
				if _, err := fmt.Sscanf(pi, "%d", &idx); err != nil || idx >= len(cl.Call.Args) {
					return false
				}
				c.lockDepth++
				held := c.lockHeldAt(g, cl, c.Path(cl.Call.Args[idx], nil)+rest, needExclusive)
				c.lockDepth--
				if !held {
					return false
				}
				n++
			}
		}
		return n > 0
	}
	return false
}

// checkLockPairing: every acquire has its matching release deferred or on all exits.
func (c *Ctx) checkLockPairing(rule string) int {
	n := 0
	for _, f := range c.Funcs {
		ls := c.lockSites(f)
		for _, l := range ls {
			if l.defer_ || (l.kind != "Lock" && l.kind != "RLock") {
				continue
			}
			n++
			want := "Unlock"
			if l.kind == "RLock" {
				want = "RUnlock"
			}
			ok := false
			cut := map[edge]bool{}
			unlockBlocks := map[*ssa.BasicBlock]bool{}
			for _, u := range ls {
				if u.mpath != l.mpath || u.kind != want {
					continue
				}
				if u.defer_ && instrDominates(l.in, u.in) {
					ok = true
				}
				if !u.defer_ {
					if u.in.Block() == l.in.Block() && instrDominates(l.in, u.in) {
						ok = true
					}
					unlockBlocks[u.in.Block()] = true
					for _, s := range u.in.Block().Succs {
						cut[edge{from: u.in.Block(), to: s}] = true
					}
				}
			}
			if !ok && len(unlockBlocks) > 0 {
				ok = true
				seen := reach(l.in.Block(), cut)
				for b := range seen {
					if unlockBlocks[b] {
						continue
					}
					if _, isR := b.Instrs[len(b.Instrs)-1].(*ssa.Return); isR {
						ok = false
					}
				}
			}
			c.Check(rule, short(f.String())+":"+l.kind+"("+l.mpath+")", ok, l.in.Pos(), fmt.Sprintf("%s on %s is paired with %s (deferred or on every exit)", l.kind, l.mpath, want))
		}
	}
	return n
}

func isFreshBase(v ssa.Value) bool {
	for {
		switch x := v.(type) {
		case *ssa.FieldAddr:
			v = x.X
		case *ssa.IndexAddr:
			v = x.X
		case *ssa.Alloc:
			return true
		default:
			return false
		}
	}
}

// isOptionClosureParam: v is the parameter of a function literal nested in a function that returns a
// named func type called Option (the functional-options idiom: runs at construction time).
func isOptionClosureParam(c *Ctx, v ssa.Value) bool {
	base := v
	for {
		if fa, ok := base.(*ssa.FieldAddr); ok {
			base = fa.X
			continue
		}
		break
	}
	p, ok := base.(*ssa.Parameter)
	if !ok {
		return false
	}
	return optionTimeFunc(c, p.Parent(), 0)
}

// returnsOptionType: f's single result is a named function type of the module called ...Option / ...Opt.
func returnsOptionType(f *ssa.Function) bool {
	res := f.Signature.Results()
	if res.Len() != 1 {
		return false
	}
	n, ok := res.At(0).Type().(*types.Named)
	if !ok {
		return false
	}
	_, isSig := n.Underlying().(*types.Signature)
	return isSig && (strings.HasSuffix(n.Obj().Name(), "Option") || strings.HasSuffix(n.Obj().Name(), "Opt"))
}

// optionTimeFunc: f runs only as (part of) a functional option, i.e. at construction time. The spellings:
// a closure built in a constructor of options (a function returning the option type); an unexported method
// whose method value is what such a constructor returns; an unexported function or method called only from
// functions that are themselves option-time.
func optionTimeFunc(c *Ctx, f *ssa.Function, depth int) bool {
	if f == nil || depth > 3 {
		return false
	}
	if par := f.Parent(); par != nil {
		return returnsOptionType(par) || optionTimeFunc(c, par, depth+1)
	}
	if f.Object() == nil || f.Object().Exported() {
		return false
	}
	uses, ok := 0, true
	for _, g := range c.Funcs {
		forEachInstr(g, func(in ssa.Instruction) {
			switch x := in.(type) {
			case ssa.CallInstruction:
				cm := x.Common()
				if cm.StaticCallee() == f {
					uses++
					if g == f || !optionTimeFunc(c, g, depth+1) {
						ok = false
					}
				}
				for _, a := range cm.Args {
					if a == ssa.Value(f) {
						ok = false
					}
				}
			case *ssa.MakeClosure:
				w, isF := x.Fn.(*ssa.Function)
				if !isF || w.Synthetic == "" || w.Object() != f.Object() {
					return
				}
				uses++
				if !(returnsOptionType(g) || optionTimeFunc(c, g, depth+1)) {
					ok = false
				}
			default:
				for _, op := range in.Operands(nil) {
					if *op == ssa.Value(f) {
						ok = false
					}
				}
			}
		})
	}
	return ok && uses > 0
}

// statelessRule: the functions reachable from entries (module code) read no package-level state that can change after
// initialisation: no global that is assigned, updated in place (map / slice element writes) or mutated through its
// methods (sync.Map, sync.Pool) outside package initialisation. The results are then functions of the arguments alone.
func (c *Ctx) statelessRule(rule, label string, entries []*ssa.Function) {
	if c.mutGlobals == nil {
		c.mutGlobals = map[*ssa.Global]string{}
		isInit := func(f *ssa.Function) bool { return f.Name() == "init" || strings.HasPrefix(f.Name(), "init#") }
		for _, f := range c.Funcs {
			if c.Tags == "testing" && tagGuardedTestHook(f) {
				continue // reviewed: unit-test hooks compiled only under //go:build testing, absent from production builds
			}
			forEachInstr(f, func(in ssa.Instruction) {
				switch x := in.(type) {
				case *ssa.Store:
					if g, ok := x.Addr.(*ssa.Global); ok && !isInit(f) {
						c.mutGlobals[g] = "assigned in " + short(f.String())
					}
					if ia, ok := x.Addr.(*ssa.IndexAddr); ok && !isInit(f) {
						if ld, isLd := ia.X.(*ssa.UnOp); isLd && ld.Op == token.MUL {
							if g, isG := ld.X.(*ssa.Global); isG {
								c.mutGlobals[g] = "element written in " + short(f.String())
							}
						}
					}
				case *ssa.MapUpdate:
					if ld, isLd := x.Map.(*ssa.UnOp); isLd && ld.Op == token.MUL && !isInit(f) {
						if g, isG := ld.X.(*ssa.Global); isG {
							c.mutGlobals[g] = "map updated in " + short(f.String())
						}
					}
				}
			})
		}
	}
	n := 0
	var bad []string
	seen := map[string]bool{}
	fs := c.reachableModuleFuncs(entries)
	for _, f := range fs {
		forEachInstr(f, func(in ssa.Instruction) {
			for _, op := range in.Operands(nil) {
				g, ok := (*op).(*ssa.Global)
				if !ok || g.Pkg == nil || !strings.HasPrefix(g.Pkg.Pkg.Path(), modPath) {
					continue
				}
				n++
				why := c.mutGlobals[g]
				if ts := types.TypeString(g.Type().(*types.Pointer).Elem(), nil); ts == "sync.Map" || ts == "sync.Pool" {
					why = "a " + ts
				}
				// a module struct that carries a lock next to its data is a stateful object (a cache, a registry)
				if why == "" {
					et := g.Type().(*types.Pointer).Elem()
					if p, isP := et.(*types.Pointer); isP {
						et = p.Elem()
					}
					if n, isN := et.(*types.Named); isN && n.Obj().Pkg() != nil && strings.HasPrefix(n.Obj().Pkg().Path(), modPath) {
						if st, isS := n.Underlying().(*types.Struct); isS {
							for i := 0; i < st.NumFields(); i++ {
								switch types.TypeString(st.Field(i).Type(), nil) {
								case "sync.Mutex", "sync.RWMutex", "sync.Map", "sync.Pool":
									why = "a lock-protected stateful object of type " + typeShort(n)
								}
							}
						}
					}
				}
				if why != "" && !seen[g.String()+f.String()] {
					seen[g.String()+f.String()] = true
					bad = append(bad, short(f.String())+" uses "+short(g.String())+" ("+why+")")
				}
			}
		})
	}
	sort.Strings(bad)
	c.Check(rule, label+":no-mutable-package-state", len(bad) == 0 && len(fs) > 0, 0, fmt.Sprintf("%d functions reachable from %s, %d uses of package-level variables, none of a variable that changes after initialisation %v", len(fs), label, n, bad))
}

var safeGlobalTypes = []string{"*regexp.Regexp", "*log/slog.Logger", "*log.Logger", "error", "sync.RWMutex", "sync.Mutex"}

func init() {
	props["C20"] = &propDef{run: runC20, explanation: "C20 decided statically for the library's own state: (S1) inventory of every package-level variable of the module; each is stored only by package initialisation (or under its owning mutex), and no store / map update / append / delete / sort anywhere in the module targets memory reachable from one (effect engine with globals as sources), except values of documented concurrency-safe types; (S2) every store to a field of a module struct through a pointer targets an object allocated in the same function (not yet shared), the parameter of a functional-option closure (construction time), or happens under the struct's mutex — in particular no method of parser/applier/composer/transformers/metadata/document handler/VDR/version providers/registries/client writes its receiver; writes through maps/slices held in component fields require the mutex; (L1) the mutex-guarded fields (inferred, confirmed, frozen: nsprovider.Provider.clients, clientregistry.Registry.factories, log.handler) are accessed only with the lock held in the required mode; (L2) every Lock/RLock is paired with its Unlock/RUnlock on all exits; (S3) the module starts no goroutines and uses no channels or sync/atomic. Consequence: operational calls on distinct inputs share no mutable library memory except under a lock. Not covered: third-party internals (did-go/json-gold loaders, go-jose, user-supplied slog handlers/validators). (L4) a guarded container read under the lock is used only inside the critical section and does not leave the function; (L5) a mutex-holding struct is never copied. Module code never assigns a package-level variable of another package. No package-level variable or struct field of the module is a sync.Map or sync.Pool. L5: no re-entrant acquisition of a held mutex; the content of a shared ProtocolConfig parameter is a source of the shared-state analysis. The protocol parameters are read-only (S2)."}
}

func runC20(c *Ctx) {
	// ---------- S3 inventory
	var goes, chans, atomics []string
	for _, f := range c.Funcs {
		forEachInstr(f, func(in ssa.Instruction) {
			switch x := in.(type) {
			case *ssa.Go:
				goes = append(goes, c.pos(x.Pos()))
			case *ssa.Send, *ssa.Select, *ssa.MakeChan:
				chans = append(chans, c.pos(in.Pos()))
			case *ssa.UnOp:
				if x.Op == token.ARROW {
					chans = append(chans, c.pos(x.Pos()))
				}
			}
		})
	}
	for path, p := range c.TPkg {
		if strings.HasPrefix(path, modPath) && !isMockPath(path) {
			for imp := range p.Imports {
				if imp == "sync/atomic" {
					atomics = append(atomics, path)
				}
			}
		}
	}
	c.Check("C20.S3", "no-goroutines", len(goes) == 0, 0, fmt.Sprintf("go statements in module code: %v", goes))
	c.Check("C20.S3", "no-channels", len(chans) == 0, 0, fmt.Sprintf("channel operations in module code: %v", chans))
	c.Check("C20.S3", "no-atomics", len(atomics) == 0, 0, fmt.Sprintf("packages importing sync/atomic: %v", atomics))
	c.Min("C20.S3", 3)

	// ---------- S1 globals
	guardedGlobals := map[string]string{"global:log.handler": "global:log.mutex"}
	var globals []*ssa.Global
	for path, sp := range c.SPkg {
		if !strings.HasPrefix(path, modPath) || isMockPath(path) {
			continue
		}
		for _, m := range sp.Members {
			if g, ok := m.(*ssa.Global); ok && !strings.HasPrefix(g.Name(), "init$") {
				globals = append(globals, g)
			}
		}
	}
	sort.Slice(globals, func(i, j int) bool { return globals[i].String() < globals[j].String() })
	isSafeType := func(t types.Type) bool {
		s := types.TypeString(t, nil)
		for _, st := range safeGlobalTypes {
			if s == st {
				return true
			}
		}
		return false
	}
	for _, g := range globals {
		gp := c.Path(g, nil)
		ok := true
		var where []string
		if g.Referrers() != nil {
			for _, r := range *g.Referrers() {
				st, isSt := r.(*ssa.Store)
				if !isSt || st.Addr != ssa.Value(g) {
					continue
				}
				fn := st.Parent()
				if fn.Name() == "init" || strings.HasPrefix(fn.Name(), "init#") {
					continue
				}
				if m, has := guardedGlobals[gp]; has && c.lockHeldAt(fn, st, m, true) {
					continue
				}
				if c.isGenFile(fn.Pos()) || isMockPath(pkgPathOf(fn)) {
					continue
				}
				ok = false
				where = append(where, short(fn.String())+" at "+c.pos(st.Pos()))
			}
		}
		// go/ssa records referrers only for function-local values: scan all functions for stores to g
		for _, f := range c.Funcs {
			forEachInstr(f, func(in ssa.Instruction) {
				st, isSt := in.(*ssa.Store)
				if !isSt || st.Addr != ssa.Value(g) {
					return
				}
				if f.Name() == "init" || strings.HasPrefix(f.Name(), "init#") {
					return
				}
				if m, has := guardedGlobals[gp]; has && c.lockHeldAt(f, st, m, true) {
					return
				}
				if c.Tags == "testing" && tagGuardedTestHook(f) {
					return // reviewed: unit-test hook compiled only under //go:build testing, absent from production builds
				}
				ok = false
				where = append(where, short(f.String())+" at "+c.pos(st.Pos()))
			})
		}
		c.Check("C20.S1", "var:"+short(g.String()), ok, g.Pos(), fmt.Sprintf("package-level variable %s (%s) is assigned only during package initialisation or under its mutex %v", short(g.String()), typeShort(g.Type().(*types.Pointer).Elem()), where))
	}
	// package-level variables of other packages (third-party and standard library switches) are shared by every user
	// of that package in the process: module code never assigns them
	nForeign := 0
	for _, f := range c.Funcs {
		forEachInstr(f, func(in ssa.Instruction) {
			st, isSt := in.(*ssa.Store)
			if !isSt {
				return
			}
			g, isG := st.Addr.(*ssa.Global)
			if !isG || g.Pkg == nil || strings.HasPrefix(g.Pkg.Pkg.Path(), modPath) {
				return
			}
			nForeign++
			c.Check("C20.S1", "foreign-var:"+short(f.String())+"="+g.String(), false, st.Pos(), fmt.Sprintf("%s assigns %s, a package-level variable of another package: every goroutine using that package sees the change (and the write races with their reads)", short(f.String()), g.String()))
		})
	}
	// containers that are mutated through their methods (sync.Map, sync.Pool) escape the assignment and store rules
	// above: a package-level or per-component cache / object pool carries state from one call (goroutine) to the next.
	// None exists on the reference tree; one that appears is reported for review rather than assumed correct.
	{
		var found []string
		hasInner := func(t types.Type) string {
			s := types.TypeString(t, nil)
			for _, bad := range []string{"sync.Map", "sync.Pool"} {
				if s == bad || s == "*"+bad {
					return bad
				}
			}
			return ""
		}
		for _, g := range globals {
			if b := hasInner(g.Type().(*types.Pointer).Elem()); b != "" {
				found = append(found, short(g.String())+" ("+b+")")
			}
		}
		for path, p := range c.TPkg {
			if !strings.HasPrefix(path, modPath) || isMockPath(path) || p.Types == nil {
				continue
			}
			sc := p.Types.Scope()
			for _, name := range sc.Names() {
				tn, ok := sc.Lookup(name).(*types.TypeName)
				if !ok {
					continue
				}
				st, ok := tn.Type().Underlying().(*types.Struct)
				if !ok {
					continue
				}
				for i := 0; i < st.NumFields(); i++ {
					if b := hasInner(st.Field(i).Type()); b != "" {
						found = append(found, strings.TrimPrefix(path, modPkg)+"."+name+"."+st.Field(i).Name()+" ("+b+")")
					}
				}
			}
		}
		sort.Strings(found)
		c.Check("C20.S1", "no-method-mutated-shared-containers", len(found) == 0, 0, fmt.Sprintf("package-level variables and struct fields of type sync.Map / sync.Pool in the module: %v", found))
	}
	c.Check("C20.S1", "no-assignment-to-foreign-package-variables", nForeign == 0, 0, fmt.Sprintf("%d module functions scanned: none assigns a package-level variable of a third-party or standard-library package", len(c.Funcs)))
	c.Min("C20.S1", 22)

	// reads of guarded globals need the lock too
	for _, f := range c.Funcs {
		forEachInstr(f, func(in ssa.Instruction) {
			u, isU := in.(*ssa.UnOp)
			if !isU || u.Op != token.MUL {
				return
			}
			g, isG := u.X.(*ssa.Global)
			if !isG {
				return
			}
			if m, has := guardedGlobals[c.Path(g, nil)]; has {
				if f.Name() == "init" {
					return
				}
				c.Check("C20.L1", short(f.String())+":read("+short(g.String())+")", c.lockHeldAt(f, u, m, false), u.Pos(), "read of "+short(g.String())+" holds "+m)
			}
		})
	}

	// ---------- effect analysis with globals and component fields as sources
	compMutex := map[string]string{} // struct type string -> mutex field name
	for _, f := range c.Funcs {
		_ = f
	}
	structHasMutex := func(t types.Type) string {
		st, ok := t.Underlying().(*types.Struct)
		if !ok {
			return ""
		}
		for i := 0; i < st.NumFields(); i++ {
			ts := types.TypeString(st.Field(i).Type(), nil)
			if ts == "sync.RWMutex" || ts == "sync.Mutex" {
				return st.Field(i).Name()
			}
		}
		return ""
	}
	inModuleType := func(t types.Type) bool {
		n, ok := t.(*types.Named)
		return ok && n.Obj().Pkg() != nil && strings.HasPrefix(n.Obj().Pkg().Path(), modPath) && !isMockPath(n.Obj().Pkg().Path())
	}
	a := &effect{c: c, fl: map[ssa.Value]int{}, tup: map[ssa.Value]map[int]int{}, locs: map[string]bool{}, ret: map[*ssa.Function]map[int]int{}, viol: map[string]effViolation{}, ext: map[string]int{}, violInstr: map[string]ssa.Instruction{}}
	a.globalSrc = func(g *ssa.Global) bool {
		if g.Pkg == nil || !strings.HasPrefix(g.Pkg.Pkg.Path(), modPath) || isMockPath(g.Pkg.Pkg.Path()) {
			return false
		}
		return !isSafeType(g.Type().(*types.Pointer).Elem())
	}
	components := map[string]bool{}
	for _, cn := range []string{
		pParser + ".Parser", pApplier + ".Applier", pComposer + ".DocumentComposer",
		"versions/1_0/doctransformer/didtransformer.Transformer", "versions/1_0/doctransformer/doctransformer.Transformer",
		"versions/1_0/doctransformer/metadata.Metadata", "versions/1_0/docvalidator/didvalidator.Validator", "versions/1_0/docvalidator/docvalidator.Validator",
		"vdr/sidetreelongform/dochandler.DocumentHandler", "vdr/sidetreelongform.VDR",
		"vdr/sidetreelongform/dochandler/protocol/verprovider.ClientVersionProvider",
		"vdr/sidetreelongform/dochandler/protocolversion/clientregistry.Registry",
		"vdr/sidetreelongform/dochandler/protocol/nsprovider.Provider",
		"vdr/sidetreelongform/sidetree.Client",
		"vdr/sidetreelongform/dochandler/protocolversion/versions/common.ProtocolVersion",
		"vdr/sidetreelongform/dochandler/protocolversion/versions/v1_0/client.Factory",
	} {
		components[modPkg+cn] = true
	}
	isComponent := func(t types.Type) bool { return components[types.TypeString(t, nil)] }
	nComp := 0
	for cn := range components {
		i := strings.LastIndex(cn, ".")
		if c.NamedTypeIn(cn[:i], cn[i+1:]) != nil {
			nComp++
		} else {
			c.Note("component type %s not present in this tree", cn)
		}
	}
	c.Check("C20.S2", "component-inventory", nComp >= 12, 0, fmt.Sprintf("%d of %d listed shared component types resolved", nComp, len(components)))
	// configuration objects the caller hands to several components (one ProtocolConfig for every version created from it):
	// their content is shared state whichever parameter it arrives in
	sharedConfig := map[string]bool{modPkg + "vdr/sidetreelongform/dochandler/protocolversion/versions/common.ProtocolConfig": true}
	a.fieldSrc = func(fa *ssa.FieldAddr) bool {
		t := fa.X.Type().Underlying().(*types.Pointer).Elem()
		if sharedConfig[types.TypeString(t, nil)] && !isFreshBase(fa.X) {
			if _, isParam := rootOf(fa.X).(*ssa.Parameter); isParam {
				return true
			}
		}
		if !isComponent(t) || isFreshBase(fa.X) {
			return false
		}
		// receiver / shared object fields holding maps, slices, pointers
		if _, isParam := rootOf(fa.X).(*ssa.Parameter); !isParam {
			return false
		}
		p := rootOf(fa.X).(*ssa.Parameter)
		if p.Parent().Signature.Recv() == nil || paramIndex(p) != 0 {
			return false
		}
		return true
	}
	var entries []*ssa.Function
	for _, f := range c.Funcs {
		entries = append(entries, f)
	}
	a.run(entries, func(f *ssa.Function) []*ssa.Parameter { return nil })
	var keys []string
	for k := range a.viol {
		keys = append(keys, k)
	}
	sort.Strings(keys)
	nv := 0
	for _, k := range keys {
		in := a.violInstr[k]
		f := in.Parent()
		// allowed when the write happens under the owning mutex (exclusive)
		allowed := false
		for _, l := range c.lockSites(f) {
			if !l.defer_ && l.kind == "Lock" && c.lockHeldAt(f, in, l.mpath, true) {
				allowed = true
			}
		}
		if f.Name() == "init" || strings.HasPrefix(f.Name(), "init#") {
			allowed = true
		}
		if allowed {
			continue
		}
		nv++
		c.Check("C20.S1", "write:"+k, false, a.viol[k].p, "write through shared library state (package-level variable or receiver field content) outside initialisation and without the owning mutex: "+a.viol[k].what)
	}
	c.Check("C20.S1", "no-write-through-shared-state", nv == 0, 0, fmt.Sprintf("effect analysis over %d module functions (%d write sites / external hand-offs examined): no write reaches memory reachable from a package-level variable or from a method receiver's fields, except under the owning mutex", len(a.order), a.sites))
	var es []string
	for e, n := range a.ext {
		es = append(es, fmt.Sprintf("%s x%d", short(e), n))
	}
	sort.Strings(es)
	c.extra["externals_receiving_shared_values"] = es

	// ---------- S2 component field stores
	nStores := 0
	for _, f := range c.Funcs {
		forEachInstr(f, func(in ssa.Instruction) {
			st, isSt := in.(*ssa.Store)
			if !isSt {
				return
			}
			fa, isFA := st.Addr.(*ssa.FieldAddr)
			var baseT types.Type
			var base ssa.Value
			if isFA {
				base = fa.X
				baseT = fa.X.Type().Underlying().(*types.Pointer).Elem()
			} else if _, isP := st.Addr.(*ssa.Parameter); isP {
				// *recv = value
				base = st.Addr
				baseT = st.Addr.Type().Underlying().(*types.Pointer).Elem()
			} else {
				return
			}
			if !inModuleType(baseT) || !isComponent(baseT) {
				return
			}
			if _, isStruct := baseT.Underlying().(*types.Struct); !isStruct {
				return
			}
			nStores++
			if isFreshBase(st.Addr) {
				return // object under construction in this function
			}
			key := short(f.String()) + ":" + c.Path(st.Addr, nil)
			ok := false
			why := ""
			switch {
			case isOptionClosureParam(c, base):
				ok, why = true, "functional option (construction time)"
			case structHasMutex(baseT) != "" && c.lockHeldAt(f, st, c.Path(base, nil)+"."+structHasMutex(baseT), true):
				ok, why = true, "under the struct's mutex"
			}
			_ = compMutex
			c.Check("C20.S2", key, ok, st.Pos(), fmt.Sprintf("store to a field of shared struct %s outside construction: %s", typeShort(baseT), why))
		})
	}
	c.Check("C20.S2", "field-stores-inventory", nStores >= 10, 0, fmt.Sprintf("%d stores to fields of module structs examined", nStores))
	// the protocol parameters a parser or applier was built with are shared by every call on it: neither assigns a field
	// of its protocol.Protocol (a "relaxed copy" made by copying the pointer rewrites the shared configuration)
	c.protocolReadOnlyRule("C20.S2")
	c.Min("C20.S2", 6)

	// ---------- L1 locksets on the frozen table of guarded fields
	type guarded struct{ pkg, typ, field, mutex string }
	gfs := []guarded{
		{"vdr/sidetreelongform/dochandler/protocol/nsprovider", "Provider", "clients", "mutex"},
		{"vdr/sidetreelongform/dochandler/protocolversion/clientregistry", "Registry", "factories", "mutex"},
	}
	for _, gf := range gfs {
		nt := c.NamedType(gf.pkg, gf.typ)
		if nt == nil {
			c.Unresolved("C20.L1", gf.pkg+"."+gf.typ)
			continue
		}
		if structHasMutex(nt) != gf.mutex {
			c.Check("C20.L1", gf.typ+":mutex-field", false, nt.Obj().Pos(), "struct has no mutex field named "+gf.mutex)
			continue
		}
		n := 0
		for _, f := range c.Funcs {
			forEachInstr(f, func(in ssa.Instruction) {
				fa, ok := in.(*ssa.FieldAddr)
				if !ok {
					return
				}
				t := fa.X.Type().Underlying().(*types.Pointer).Elem()
				if !types.Identical(t, nt) || fieldName(t, fa.Field) != gf.field || isFreshBase(fa.X) {
					return
				}
				// classify: write if the loaded container is updated, or the field itself stored
				write := false
				for _, r := range *fa.Referrers() {
					switch y := r.(type) {
					case *ssa.Store:
						if y.Addr == ssa.Value(fa) {
							write = true
						}
					case *ssa.UnOp:
						for _, rr := range *y.Referrers() {
							switch z := rr.(type) {
							case *ssa.MapUpdate:
								if z.Map == ssa.Value(y) {
									write = true
								}
							case *ssa.Call:
								if b, isB := z.Call.Value.(*ssa.Builtin); isB && (b.Name() == "delete" || b.Name() == "clear") {
									write = true
								}
							}
						}
					}
				}
				n++
				mode := "read"
				if write {
					mode = "write"
				}
				held := c.lockHeldAt(f, fa, c.Path(fa.X, nil)+"."+gf.mutex, write)
				c.Check("C20.L1", short(f.String())+":"+mode+"("+gf.typ+"."+gf.field+")", held, fa.Pos(), fmt.Sprintf("%s of %s.%s holds %s in the required mode", mode, gf.typ, gf.field, gf.mutex))
				// L4: the guarded container itself (a map / slice header read under the lock) is not used outside the
				// critical section: every use of the loaded value happens with the lock held, and it is not returned,
				// stored or handed to another function (the lock protects the container, not just the field holding it)
				for _, r := range *fa.Referrers() {
					ld, isLd := r.(*ssa.UnOp)
					if !isLd || ld.Op != token.MUL || !isRefLike(ld.Type()) {
						continue
					}
					var bad []string
					for _, u := range *ld.Referrers() {
						switch z := u.(type) {
						case *ssa.DebugRef:
						case *ssa.Return:
							bad = append(bad, "returned at "+c.pos(z.Pos()))
						case *ssa.Store:
							if z.Val == ssa.Value(ld) {
								bad = append(bad, "stored at "+c.pos(z.Pos()))
							}
						case *ssa.Call:
							if bi, isB := z.Call.Value.(*ssa.Builtin); isB && (bi.Name() == "len" || bi.Name() == "delete" || bi.Name() == "clear" || bi.Name() == "cap") {
								if !c.lockHeldAt(f, z, c.Path(fa.X, nil)+"."+gf.mutex, false) {
									bad = append(bad, "used without the lock at "+c.pos(z.Pos()))
								}
							} else {
								for _, a := range z.Call.Args {
									if a == ssa.Value(ld) {
										bad = append(bad, "handed to "+calleeName(&z.Call)+" at "+c.pos(z.Pos()))
									}
								}
							}
						default:
							if ui, isI := u.(ssa.Instruction); isI && !c.lockHeldAt(f, ui, c.Path(fa.X, nil)+"."+gf.mutex, false) {
								bad = append(bad, "used without the lock at "+c.pos(ui.Pos()))
							}
						}
					}
					c.Check("C20.L4", short(f.String())+":"+gf.typ+"."+gf.field+":container-stays-inside-the-critical-section", len(bad) == 0, ld.Pos(), fmt.Sprintf("the %s read from %s.%s is used only while %s is held and does not leave the function", typeShort(ld.Type()), gf.typ, gf.field, gf.mutex), bad...)
				}
			})
		}
		if n == 0 {
			c.Check("C20.L1", gf.typ+"."+gf.field+":accesses", false, nt.Obj().Pos(), "no access to the guarded field found (table out of date)")
		}
	}
	c.Min("C20.L1", 5)
	c.Min("C20.L4", 5)

	// ---------- L5 a struct that holds a mutex is never copied: no method with a value receiver, no parameter, result or
	// assignment of the struct by value (a copy has its own, unlocked mutex and shares the guarded containers)
	for _, gf := range gfs {
		nt := c.NamedType(gf.pkg, gf.typ)
		if nt == nil {
			continue
		}
		var bad []string
		for _, f := range c.Funcs {
			sig := f.Signature
			if sig.Recv() != nil && types.Identical(sig.Recv().Type(), nt) {
				bad = append(bad, "value receiver: "+short(f.String()))
			}
			for i := 0; i < sig.Params().Len(); i++ {
				if types.Identical(sig.Params().At(i).Type(), nt) {
					bad = append(bad, "by-value parameter of "+short(f.String()))
				}
			}
			for i := 0; i < sig.Results().Len(); i++ {
				if types.Identical(sig.Results().At(i).Type(), nt) {
					bad = append(bad, "by-value result of "+short(f.String()))
				}
			}
			forEachInstr(f, func(in ssa.Instruction) {
				if ld, ok := in.(*ssa.UnOp); ok && ld.Op == token.MUL && types.Identical(ld.Type(), nt) {
					if _, fresh := ld.X.(*ssa.Alloc); !fresh {
						bad = append(bad, "copied by value in "+short(f.String())+" at "+c.pos(ld.Pos()))
					}
				}
			})
		}
		sort.Strings(bad)
		c.Check("C20.L5", gf.typ+":never-copied", len(bad) == 0, nt.Obj().Pos(), fmt.Sprintf("%s (holds %s) is only used through pointers", gf.typ, gf.mutex), bad...)
	}
	c.Min("C20.L5", 2)

	// ---------- L3 atomic check-then-act: a write to a guarded container that is control-dependent on a
	// read of the same container must happen in the critical section that contains that read.
	for _, gf := range gfs {
		nt := c.NamedType(gf.pkg, gf.typ)
		if nt == nil {
			continue
		}
		touches := func(g *ssa.Function) bool { // g (or its module callees, depth 2) accesses the guarded field
			found := false
			var walk func(h *ssa.Function, d int)
			walk = func(h *ssa.Function, d int) {
				if h == nil || h.Blocks == nil || d > 2 || found {
					return
				}
				forEachInstr(h, func(in ssa.Instruction) {
					if fa, ok := in.(*ssa.FieldAddr); ok {
						t := fa.X.Type().Underlying().(*types.Pointer).Elem()
						if types.Identical(t, nt) && fieldName(t, fa.Field) == gf.field {
							found = true
						}
					}
					if cl, ok := in.(*ssa.Call); ok {
						if k := cl.Call.StaticCallee(); k != nil && inModule(k) {
							walk(k, d+1)
						}
					}
				})
			}
			walk(g, 0)
			return found
		}
		for _, f := range c.Funcs {
			forEachInstr(f, func(in ssa.Instruction) {
				mu, ok := in.(*ssa.MapUpdate)
				if !ok {
					return
				}
				ld, isLd := mu.Map.(*ssa.UnOp)
				if !isLd {
					return
				}
				fa, isFA := ld.X.(*ssa.FieldAddr)
				if !isFA {
					return
				}
				t := fa.X.Type().Underlying().(*types.Pointer).Elem()
				if !types.Identical(t, nt) || fieldName(t, fa.Field) != gf.field || isFreshBase(fa.X) {
					return
				}
				mpath := c.Path(fa.X, nil) + "." + gf.mutex
				okAtomic := true
				var why []string
				nConds := 0
				for b := mu.Block(); b != nil; b = b.Idom() {
					id := b.Idom()
					if id == nil {
						break
					}
					iff, isIf := id.Instrs[len(id.Instrs)-1].(*ssa.If)
					if !isIf {
						continue
					}
					// does the branch decide whether the write happens? (one successor does not reach the write)
					for v := range backSlice(iff.Cond) {
						switch x := v.(type) {
						case *ssa.Lookup:
							if l2, isL := x.X.(*ssa.UnOp); isL {
								if f2, isF := l2.X.(*ssa.FieldAddr); isF && fieldName(f2.X.Type(), f2.Field) == gf.field {
									nConds++
									if !c.lockHeldAt(f, x, mpath, false) || !c.sameCriticalSection(f, x, mu, mpath) {
										okAtomic = false
										why = append(why, "the membership test at "+c.pos(x.Pos())+" is not in the critical section of the write")
									}
								}
							}
						case *ssa.Call:
							k := x.Call.StaticCallee()
							if k == nil || !inModule(k) || k.Signature.Recv() == nil || len(x.Call.Args) == 0 {
								continue
							}
							if c.Path(x.Call.Args[0], nil) != c.Path(fa.X, nil) || !touches(k) {
								continue
							}
							nConds++
							if !c.lockHeldAt(f, x, mpath, false) || !c.sameCriticalSection(f, x, mu, mpath) {
								okAtomic = false
								why = append(why, "the decision is taken by "+short(k.String())+" at "+c.pos(x.Pos())+" outside the critical section of the write (check-then-act is not atomic)")
							}
						}
					}
				}
				if nConds > 0 {
					c.Check("C20.L3", short(f.String())+":check-then-write("+gf.typ+"."+gf.field+")", okAtomic, mu.Pos(), "the write to "+gf.typ+"."+gf.field+" and the test it depends on happen under one acquisition of "+gf.mutex+" "+strings.Join(why, "; "))
				}
			})
		}
	}
	c.Min("C20.L3", 1)

	// any other struct with a mutex must be in the frozen table
	known := map[string]bool{}
	for _, gf := range gfs {
		known[modPkg+gf.pkg+"."+gf.typ] = true
	}
	for path, p := range c.TPkg {
		if !strings.HasPrefix(path, modPath) || isMockPath(path) || p.Types == nil {
			continue
		}
		sc := p.Types.Scope()
		for _, name := range sc.Names() {
			tn, ok := sc.Lookup(name).(*types.TypeName)
			if !ok {
				continue
			}
			if structHasMutex(tn.Type()) != "" && !known[path+"."+name] {
				if strings.Contains(c.Fset.Position(tn.Pos()).Filename, ".gen.go") {
					continue
				}
				c.Check("C20.L1", "unlisted-mutex-struct:"+short(path)+"."+name, false, tn.Pos(), "struct with a mutex is not in the checker's guarded-field table; its lock discipline is undecided")
			}
		}
	}

	// ---------- L2 pairing
	n := c.checkLockPairing("C20.L2")
	_ = n
	c.Min("C20.L2", 6)
	// ---------- L5 no second acquisition of a mutex that is already held: sync.Mutex and sync.RWMutex are not re-entrant
	// — a second RLock deadlocks as soon as a writer is waiting between the two
	{
		nHeld := 0
		var bad []string
		var acquires func(g *ssa.Function, sub map[string]string, d int) []string
		acquires = func(g *ssa.Function, sub map[string]string, d int) []string {
			var out []string
			if g == nil || g.Blocks == nil || !inModule(g) || d > 3 {
				return nil
			}
			render := func(p string) string {
				for k, v := range sub {
					if p == k || strings.HasPrefix(p, k+".") {
						return v + p[len(k):]
					}
				}
				return p
			}
			for _, l := range c.lockSites(g) {
				if l.kind == "Lock" || l.kind == "RLock" {
					out = append(out, render(l.mpath))
				}
			}
			forEachInstr(g, func(in ssa.Instruction) {
				cl, ok := in.(*ssa.Call)
				if !ok {
					return
				}
				h := cl.Call.StaticCallee()
				if h == nil || h == g {
					return
				}
				ns := map[string]string{}
				for i, a := range cl.Call.Args {
					ns[fmt.Sprintf("$%d", i)] = render(c.Path(a, nil))
				}
				out = append(out, acquires(h, ns, d+1)...)
			})
			return out
		}
		for _, f := range c.Funcs {
			ls := c.lockSites(f)
			if len(ls) == 0 {
				continue
			}
			held := map[string]bool{}
			for _, l := range ls {
				if l.kind == "Lock" || l.kind == "RLock" {
					held[l.mpath] = true
				}
			}
			forEachInstr(f, func(in ssa.Instruction) {
				cl, ok := in.(*ssa.Call)
				if !ok {
					return
				}
				g := cl.Call.StaticCallee()
				if g == nil || !inModule(g) || g.Blocks == nil {
					return
				}
				for m := range held {
					if !c.lockHeldAt(f, cl, m, false) {
						continue
					}
					nHeld++
					ns := map[string]string{}
					for i, a := range cl.Call.Args {
						ns[fmt.Sprintf("$%d", i)] = c.Path(a, nil)
					}
					for _, am := range acquires(g, ns, 0) {
						if am == m {
							bad = append(bad, fmt.Sprintf("%s: %s calls %s while holding %s, which acquires it again", c.pos(cl.Pos()), short(f.String()), short(g.String()), m))
						}
					}
				}
			})
			// … and directly: a second Lock / RLock of the same mutex while the first is held
			for _, l := range ls {
				if (l.kind == "Lock" || l.kind == "RLock") && !l.defer_ {
					for _, l0 := range ls {
						if l0.in != l.in && !l0.defer_ && (l0.kind == "Lock" || l0.kind == "RLock") && l0.mpath == l.mpath && instrDominates(l0.in, l.in) && c.lockHeldAt(f, l.in, l.mpath, false) {
							bad = append(bad, fmt.Sprintf("%s: %s acquires %s while it already holds it", c.pos(l.in.Pos()), short(f.String()), l.mpath))
						}
					}
				}
			}
		}
		c.Check("C20.L5", "no-reentrant-acquisition", len(bad) == 0, 0, fmt.Sprintf("%d call(s) made with a mutex held; none of the callees acquires that mutex again", nHeld), bad...)
		c.Min("C20.L5", 1)
	}
	// ---------- S3 no in-place reuse of a caller's slice: `append(s[:0], …)` keeps s's backing array — for a slice that
	// reaches the function through a parameter (or a field of one) that is a write into memory the caller, and whoever
	// else holds the slice, still uses (the copying idioms are append([]T(nil), s...), s[:0:0], slices.Clone)
	{
		var bad []string
		n := 0
		for _, f := range c.Funcs {
			pp := pkgPathOf(f)
			if !strings.HasPrefix(pp, modPath) || isMockPath(pp) || f.Blocks == nil {
				continue
			}
			forEachInstr(f, func(in ssa.Instruction) {
				sl, ok := in.(*ssa.Slice)
				if !ok || sl.High == nil || sl.Max != nil {
					return
				}
				if hk, isK := sl.High.(*ssa.Const); !isK || c.Path(hk, nil) != "0" {
					return
				}
				if _, isSl := sl.X.Type().Underlying().(*types.Slice); !isSl {
					return
				}
				n++
				// where the slice comes from: a parameter, or memory reachable from one
				root := sl.X
				for d := 0; d < 6; d++ {
					switch y := root.(type) {
					case *ssa.UnOp:
						root = y.X
						continue
					case *ssa.FieldAddr:
						root = y.X
						continue
					case *ssa.IndexAddr:
						root = y.X
						continue
					case *ssa.Field:
						root = y.X
						continue
					}
					break
				}
				if _, isP := root.(*ssa.Parameter); !isP {
					return
				}
				if sl.Referrers() == nil {
					return
				}
				for _, r := range *sl.Referrers() {
					if cl, isC := r.(*ssa.Call); isC {
						if b, isB := cl.Call.Value.(*ssa.Builtin); isB && b.Name() == "append" && len(cl.Call.Args) > 0 && cl.Call.Args[0] == ssa.Value(sl) {
							bad = append(bad, c.pos(sl.Pos())+": "+short(f.String())+" appends into "+c.Path(sl.X, nil)+"[:0]")
						}
					}
				}
			})
		}
		c.Check("C20.S3", "no-in-place-reuse-of-caller-slices", len(bad) == 0, 0, fmt.Sprintf("%d zero-length re-slicings in the module; none of a slice handed in by the caller is appended to", n), bad...)
		c.Min("C20.S3", 1)
	}
	c.Assume("documented concurrency-safe types: *regexp.Regexp, *slog.Logger, *log.Logger, error values; third-party state (did-go / json-gold document loaders, go-jose) and user-supplied handlers/validators are outside the claim; the effect analysis is field-based (no points-to), sound for the write check")
}

// isValueObjectMethod: stores to the receiver inside UnmarshalJSON-style decoders of plain value types
// (jwsutil.JWK, byteBuffer): the receiver is a value being filled by its owner, not a shared component.
func (c *Ctx) isValueObjectMethod(f *ssa.Function, base ssa.Value) bool {
	p, ok := rootOf(base).(*ssa.Parameter)
	if !ok || f.Signature.Recv() == nil || paramIndex(p) != 0 {
		return false
	}
	return f.Name() == "UnmarshalJSON"
}

// tagGuardedTestHook: the four setters in pkg/util/json/test_exports.go (//go:build testing) and their
// reset closures. One entry per symbol; reason: file build constraint, never part of a production build.
func tagGuardedTestHook(f *ssa.Function) bool {
	hooks := map[string]bool{
		modPkg + "util/json.SetJSONMarshaler": true, modPkg + "util/json.SetJSONUnmarshaler": true,
		modPkg + "util/json.SetJSONArrayMarshaler": true, modPkg + "util/json.SetJSONArrayUnmarshaler": true,
	}
	for g := f; g != nil; g = g.Parent() {
		if hooks[g.String()] {
			return true
		}
	}
	return false
}

// sameCriticalSection: a and b are both dominated by one Lock()/RLock() of mpath with no explicit
// unlock of mpath between that acquire and either of them.
func (c *Ctx) sameCriticalSection(f *ssa.Function, a, b ssa.Instruction, mpath string) bool {
	ls := c.lockSites(f)
	for _, l := range ls {
		if l.defer_ || l.mpath != mpath || (l.kind != "Lock" && l.kind != "RLock") {
			continue
		}
		if !instrDominates(l.in, a) || !instrDominates(l.in, b) {
			continue
		}
		released := false
		for _, u := range ls {
			if u.defer_ || u.mpath != mpath || (u.kind != "Unlock" && u.kind != "RUnlock") {
				continue
			}
			if instrDominates(l.in, u.in) && (instrDominates(u.in, a) || instrDominates(u.in, b)) {
				released = true
			}
		}
		if !released {
			return true
		}
	}
	return false
}

// receiverStateWrites: effect analysis with the fields of the given component types (read through a method
// receiver) as sources: no write reachable from the entry functions may target memory held by the component.
func (c *Ctx) receiverStateWrites(rule, label string, entries []*ssa.Function, isComponent func(types.Type) bool) {
	a := &effect{c: c, fl: map[ssa.Value]int{}, tup: map[ssa.Value]map[int]int{}, locs: map[string]bool{}, ret: map[*ssa.Function]map[int]int{}, viol: map[string]effViolation{}, ext: map[string]int{}, violInstr: map[string]ssa.Instruction{}}
	a.fieldSrc = func(fa *ssa.FieldAddr) bool {
		t := fa.X.Type().Underlying().(*types.Pointer).Elem()
		if !isComponent(t) || isFreshBase(fa.X) {
			return false
		}
		p, ok := rootOf(fa.X).(*ssa.Parameter)
		return ok && p.Parent().Signature.Recv() != nil && paramIndex(p) == 0
	}
	a.run(entries, func(f *ssa.Function) []*ssa.Parameter { return nil })
	var keys []string
	for k := range a.viol {
		keys = append(keys, k)
	}
	sort.Strings(keys)
	c.Check(rule, label+":no-write-through-component-state", len(keys) == 0, entries[0].Pos(), fmt.Sprintf("%d functions reachable from %s; %d write sites examined; none targets memory held in the component's own fields (results of one call cannot alias or disturb another call's)", len(a.order), label, a.sites))
	for _, k := range keys {
		c.Check(rule, label+":"+k, false, a.viol[k].p, "a call writes into memory held by the shared component: "+a.viol[k].what)
	}
}
