package main

// Engine G: must-pass-through on success edges (exact edge cut), interprocedural via Ensures summaries.

import (
	"fmt"
	"go/constant"
	"go/token"
	"go/types"
	"strings"

	"golang.org/x/tools/go/ssa"
)

// GCheck describes a check whose *success edge* must be crossed.
type GCheck struct {
	Name string
	// MatchCall: the call is the check itself (success edge: error result nil / bool result == BoolWant).
	MatchCall func(c *Ctx, call *ssa.Call, env Env) bool
	BoolFalse bool // success is the callee returning false
	// MatchCmp: the comparison is the check; returns (matches, successWhenTrue).
	MatchCmp func(c *Ctx, b *ssa.BinOp, env Env) (bool, bool)
	// MatchOK: a comma-ok TypeAssert / Lookup whose ok == true edge is the success edge.
	MatchOK   func(c *Ctx, v ssa.Value, env Env) bool
	NoDescend bool
	// Alts: disjunction — the success edge of any alternative suffices.
	Alts []*GCheck
}

type gsite struct {
	cut      []edge
	okVal    ssa.Value // a Return handing this value straight back is guarded by the check
	falseVal ssa.Value // a Return handing this value back answers false exactly when the check passed
	instr    ssa.Instruction
}

func inModule(f *ssa.Function) bool {
	pp := pkgPathOf(f)
	return pp != "" && strings.HasPrefix(pp, modPath) && !isMockPath(pp)
}

// pkgPathOf: the path of the package that declares f; an instance of a generic function (which go/ssa keeps
// outside any package) belongs to the package of the function it was instantiated from.
func pkgPathOf(f *ssa.Function) string {
	for f != nil {
		if f.Pkg != nil {
			return f.Pkg.Pkg.Path()
		}
		if o := f.Origin(); o != nil && o != f {
			f = o
			continue
		}
		if p := f.Parent(); p != nil {
			f = p
			continue
		}
		// wrappers (bound method values, thunks) are shared by the program: they belong with the method they wrap
		if f.Synthetic != "" && f.Object() != nil && f.Object().Pkg() != nil {
			return f.Object().Pkg().Path()
		}
		break
	}
	return ""
}

// calleeEnv builds the environment of callee g for call cc made under env.
func (c *Ctx) calleeEnv(cc *ssa.CallCommon, g *ssa.Function, env Env) Env {
	return c.calleeEnvV(cc, g, env, nil)
}

// calleeEnvV additionally names the callee's returned allocations after the caller-side call value, so
// that a check on `alloc.Field` inside a decoding helper is recognised as a check on `call#0.Field`.
func (c *Ctx) calleeEnvV(cc *ssa.CallCommon, g *ssa.Function, env Env, callVal ssa.Value) Env {
	ne := Env{}
	if callVal != nil && g.Blocks != nil {
		c.nameResults(ne, g, c.Path(callVal, env))
	}
	return c.calleeEnvRest(ne, cc, g, env, callVal)
}

// nameResults names what g hands back on its successful exits after the caller-side call value (base).
func (c *Ctx) nameResults(ne Env, g *ssa.Function, base string) {
	{
		for _, r := range returnsOf(g) {
			if !maySucceed(r) {
				continue
			}
			for i, res := range r.Results {
				switch rv := res.(type) {
				case *ssa.Alloc, *ssa.TypeAssert:
				case *ssa.Call:
					// what a helper handed back is handed on: the same value under the caller's name (only for
					// rules that ask for it: most rules name a value after the innermost call that produced it)
					if !c.nameHandedOn {
						continue
					}
				case *ssa.Extract:
					switch tv := rv.Tuple.(type) {
					case *ssa.TypeAssert:
					case *ssa.Call:
						if !c.nameHandedOn {
							continue
						}
						if rv.Index == i && len(r.Results) > 1 {
							ne[tv] = base
						}
					default:
						continue
					}
				default:
					continue
				}
				if len(r.Results) > 1 {
					ne[res] = fmt.Sprintf("%s#%d", base, i)
				} else {
					ne[res] = base
				}
			}
		}
	}
}

func (c *Ctx) calleeEnvRest(ne Env, cc *ssa.CallCommon, g *ssa.Function, env Env, callVal ssa.Value) Env {
	args := cc.Args
	if cc.IsInvoke() {
		args = append([]ssa.Value{cc.Value}, cc.Args...)
	}
	for i, a := range args {
		if i < len(g.Params) {
			ne[g.Params[i]] = c.Path(a, env)
			// a struct literal handed over by value: its fields read as what the caller put into them
			if tok := c.structLitArg(a, env); tok != "" {
				ne[g.Params[i]] = tok
			}
			// a function handed to the callee: remembered with the frame it was made in
			if _, isSig := a.Type().Underlying().(*types.Signature); isSig {
				switch fv := stripConv(a).(type) {
				case *ssa.MakeClosure, *ssa.Function:
					if c.fnArgs == nil {
						c.fnArgs = map[string]fnArg{}
					}
					key := fmt.Sprintf("%s@%p", ne[g.Params[i]], fv)
					ne[g.Params[i]] = key
					c.fnArgs[key] = fnArg{v: fv, env: env}
				}
			}
			// a test result handed to the callee as a boolean: the callee's branch on it is a branch on the test
			if isBoolType(a.Type()) {
				if o := boolOriginOf(a); o != nil {
					if c.boolOrigins == nil {
						c.boolOrigins = map[string]boolOrigin{}
					}
					if _, had := c.boolOrigins[ne[g.Params[i]]]; !had {
						c.boolOrigins[ne[g.Params[i]]] = boolOrigin{v: o, env: env}
					}
				}
			}
		}
	}
	mc, ok := cc.Value.(*ssa.MakeClosure)
	if !ok {
		// a function literal kept in the table element under consideration
		mc, ok = c.mcSubst[cc.Value]
		if ok && mc.Fn != ssa.Value(g) {
			ok = false
		}
	}
	if ok {
		for i, b := range mc.Bindings {
			if i < len(g.FreeVars) {
				ne[g.FreeVars[i]] = c.Path(b, env)
				// a captured variable lives in a cell: the closure reads it through the cell
				if al, isAl := b.(*ssa.Alloc); isAl {
					if st := singleStore(al); st != nil {
						ne[g.FreeVars[i]] = c.Path(st.Val, env)
					}
				}
			}
		}
	}
	// a validating step that hands its argument back (`return p.validate(model)` with validate returning the model it
	// was given): under the caller's name for the result, that argument IS the result (only for rules that ask for it)
	if callVal != nil && g.Blocks != nil && c.nameHandedOn {
		base := c.Path(callVal, env)
		for _, r := range returnsOf(g) {
			if !maySucceed(r) {
				continue
			}
			for i, res := range r.Results {
				if p, isP := res.(*ssa.Parameter); isP {
					if len(r.Results) > 1 {
						ne[p] = fmt.Sprintf("%s#%d", base, i)
					} else {
						ne[p] = base
					}
				}
			}
		}
	}
	return ne
}

type fnArg struct {
	v   ssa.Value // *ssa.MakeClosure or *ssa.Function
	env Env       // the frame it was made in
}

// dynCallee: call invokes a function-typed parameter of the current frame whose argument is known (env): the function
// and its environment — parameters from the call's arguments, captured variables from the frame that made the closure.
func (c *Ctx) dynCallee(call *ssa.Call, env Env) (*ssa.Function, Env, bool) {
	p, ok := call.Call.Value.(*ssa.Parameter)
	if !ok || call.Call.IsInvoke() {
		return nil, nil, false
	}
	fa, ok := c.fnArgs[env[p]]
	if !ok {
		return nil, nil, false
	}
	var fn *ssa.Function
	ne := Env{}
	switch x := fa.v.(type) {
	case *ssa.Function:
		fn = x
	case *ssa.MakeClosure:
		fn, _ = x.Fn.(*ssa.Function)
		if fn != nil {
			for i, b := range x.Bindings {
				if i < len(fn.FreeVars) {
					ne[fn.FreeVars[i]] = c.Path(b, fa.env)
					// a captured variable lives in a cell: the closure reads it through the cell
					if al, isAl := b.(*ssa.Alloc); isAl {
						if st := singleStore(al); st != nil {
							ne[fn.FreeVars[i]] = c.Path(st.Val, fa.env)
						}
					}
				}
			}
		}
	}
	if fn == nil || fn.Blocks == nil {
		return nil, nil, false
	}
	for i, a := range call.Call.Args {
		if i < len(fn.Params) {
			ne[fn.Params[i]] = c.Path(a, env)
		}
	}
	return fn, ne, true
}

type boolOrigin struct {
	v   ssa.Value // the comma-ok Lookup / TypeAssert, or the comparison
	env Env       // the frame it was made in
}

// boolOriginOf: v is the ok result of a comma-ok lookup / type assertion, or a comparison.
func boolOriginOf(v ssa.Value) ssa.Value {
	switch x := v.(type) {
	case *ssa.Extract:
		if x.Index != 1 {
			return nil
		}
		switch t := x.Tuple.(type) {
		case *ssa.Lookup:
			if t.CommaOk {
				return t
			}
		case *ssa.TypeAssert:
			if t.CommaOk {
				return t
			}
		}
	case *ssa.BinOp:
		if isCmp(x.Op) {
			return x
		}
	}
	return nil
}

// sites finds the check sites of chk in f (direct matches and calls to callees that ensure chk).
func (c *Ctx) sites(f *ssa.Function, env Env, chk *GCheck, depth int) []gsite {
	var out []gsite
	if len(chk.Alts) > 0 {
		for _, a := range chk.Alts {
			out = append(out, c.sites(f, env, a, depth)...)
		}
		// calls to callees that ensure the whole disjunction
		if !chk.NoDescend && depth < 8 {
			probe := &GCheck{Name: chk.Name}
			out = append(out, c.descendSites(f, env, chk, probe, depth)...)
		}
		return out
	}
	// a boolean read from the table element under consideration that carries the result of a test made when the table
	// was built (`{info.DidSuffix == "", "missing …"}`): the branch on it is a branch on that test
	for rv, o := range c.valSubst {
		ri, isI := rv.(ssa.Instruction)
		if !isI || ri.Parent() != f {
			continue
		}
		switch ov := o.(type) {
		case *ssa.BinOp:
			if chk.MatchCmp != nil {
				if m, onTrue := chk.MatchCmp(c, ov, env); m {
					out = append(out, gsite{cut: boolEdgesT(rv, onTrue), instr: ri})
				}
			}
		case *ssa.Lookup:
			if chk.MatchOK != nil && chk.MatchOK(c, ov, env) {
				out = append(out, gsite{cut: boolEdgesT(rv, !chk.BoolFalse), instr: ri})
			}
		case *ssa.TypeAssert:
			if chk.MatchOK != nil && chk.MatchOK(c, ov, env) {
				out = append(out, gsite{cut: boolEdgesT(rv, !chk.BoolFalse), instr: ri})
			}
		}
	}
	// boolean parameters that carry the result of a test made by the caller
	for _, p := range f.Params {
		if !isBoolType(p.Type()) || len(env) == 0 {
			continue
		}
		o, ok := c.boolOrigins[env[p]]
		if !ok {
			continue
		}
		switch ov := o.v.(type) {
		case *ssa.Lookup:
			if chk.MatchOK != nil && chk.MatchOK(c, ov, o.env) {
				out = append(out, gsite{cut: boolEdgesT(p, !chk.BoolFalse), instr: ov})
			}
		case *ssa.TypeAssert:
			if chk.MatchOK != nil && chk.MatchOK(c, ov, o.env) {
				out = append(out, gsite{cut: boolEdgesT(p, !chk.BoolFalse), instr: ov})
			}
		case *ssa.BinOp:
			if chk.MatchCmp != nil {
				if m, onTrue := chk.MatchCmp(c, ov, o.env); m {
					out = append(out, gsite{cut: boolEdgesT(p, onTrue), instr: ov})
				}
			}
		}
	}
	for _, b := range f.Blocks {
		for _, in := range b.Instrs {
			switch x := in.(type) {
			case *ssa.Call:
				match := chk.MatchCall != nil && chk.MatchCall(c, x, env)
				boolWant := !chk.BoolFalse
				// a membership accessor (`func (m set) has(k K) bool { _, ok := m[k]; return ok }`): the call is the
				// comma-ok lookup it hands back, in the accessor's frame
				if !match && chk.MatchOK != nil {
					if lk, g := membershipAccessor(x); lk != nil && chk.MatchOK(c, lk, c.calleeEnvV(&x.Call, g, env, x)) {
						match = true
					}
					// … or a lookup accessor that reports a miss as an error (`func keyFor(a) (K, error)`): it succeeds exactly when
					// the lookup found the key
					if lk, g := c.lookupAccessorErr(x); !match && lk != nil && chk.MatchOK(c, lk, c.calleeEnvV(&x.Call, g, env, x)) {
						match = true
					}
				}
				if !match && !chk.NoDescend && depth < 8 {
					cs := c.Callees(&x.Call)
					envOf := func(g *ssa.Function) Env { return c.calleeEnvV(&x.Call, g, env, x) }
					// a function handed to this frame as an argument and called here: the very function that was handed in
					// (with the variables it captured rendered in the frame it was made in)
					if fn, fenv, ok := c.dynCallee(x, env); ok {
						cs = []*ssa.Function{fn}
						if c.nameHandedOn {
							c.nameResults(fenv, fn, c.Path(x, env))
						}
						envOf = func(*ssa.Function) Env { return fenv }
					}
					if len(cs) > 0 {
						all := true
						for _, g := range cs {
							if !inModule(g) || g.Blocks == nil {
								all = false
								break
							}
							if ok, _ := c.ensures(g, envOf(g), chk, depth+1); !ok {
								all = false
								break
							}
						}
						if all {
							match = true
							boolWant = true
						} else if len(cs) == 1 && isBoolType(x.Type()) && c.ensuresFalse(cs[0], envOf(cs[0]), chk, depth+1) {
							// a predicate of the opposite sense ("seen before?"): it answers false only across the check
							match = true
							boolWant = false
						}
					}
				}
				if !match {
					continue
				}
				if ev := errResult(x); ev != nil {
					out = append(out, gsite{cut: nilTestEdges(ev, true), okVal: ev, instr: x})
				} else if isBoolType(x.Type()) {
					s := gsite{cut: boolEdgesT(x, boolWant), instr: x}
					if boolWant {
						s.okVal = x
					} else {
						s.falseVal = x
					}
					out = append(out, s)
				} else if x.Call.Signature().Results().Len() == 2 && isBoolType(x.Call.Signature().Results().At(1).Type()) {
					// (value, ok) style
					if okv := extractOf(x, 1); okv != nil {
						out = append(out, gsite{cut: boolEdgesT(okv, boolWant), instr: x})
					}
				} else if cannotFail(x.Call.Signature()) && chk.MatchCall != nil && chk.MatchCall(c, x, env) {
					// a step that cannot fail (no result): having run it is the success — every way out of its block
					var es []edge
					for _, sc := range x.Block().Succs {
						es = append(es, edge{from: x.Block(), to: sc})
					}
					out = append(out, gsite{cut: es, instr: x})
				}
			case *ssa.BinOp:
				if chk.MatchCmp == nil {
					continue
				}
				m, onTrue := chk.MatchCmp(c, x, env)
				if !m && (x.Op == token.EQL || x.Op == token.NEQ) && isBoolType(x.X.Type()) {
					// a comparison compared with a boolean that is known in this frame (`isSet != required` with
					// required = false): it is the inner comparison, with the polarity adjusted
					for _, side := range [][2]ssa.Value{{x.X, x.Y}, {x.Y, x.X}} {
						inner, isB := side[0].(*ssa.BinOp)
						kp := c.Path(side[1], env)
						if !isB || (kp != "true" && kp != "false") {
							continue
						}
						if mi, onTrueInner := chk.MatchCmp(c, inner, env); mi {
							innerWhenTrue := (kp == "true") == (x.Op == token.EQL)
							m, onTrue = true, onTrueInner == innerWhenTrue
						}
					}
				}
				if m {
					s := gsite{cut: boolEdgesT(x, onTrue), instr: x}
					// a function that hands the comparison back as its verdict
					if onTrue {
						s.okVal = x
					} else {
						s.falseVal = x
					}
					out = append(out, s)
				}
			case *ssa.TypeAssert:
				if chk.MatchOK != nil && x.CommaOk && chk.MatchOK(c, x, env) {
					if okv := extractOf2(x, 1); okv != nil {
						s := gsite{cut: boolEdgesT(okv, !chk.BoolFalse), instr: x}
						if !chk.BoolFalse {
							s.okVal = okv // `return ok`: the result is true exactly when the check passed
						}
						out = append(out, s)
					}
				}
			case *ssa.Lookup:
				if chk.MatchOK != nil && x.CommaOk && chk.MatchOK(c, x, env) {
					if okv := extractOf2(x, 1); okv != nil {
						s := gsite{cut: boolEdgesT(okv, !chk.BoolFalse), instr: x}
						if !chk.BoolFalse {
							s.okVal = okv
						}
						out = append(out, s)
					}
				}
				// set[k] on a map[K]bool into which only `true` is ever stored: the value read is the membership flag
				if chk.MatchOK != nil && !x.CommaOk && trueOnlySet(x.X) && chk.MatchOK(c, x, env) {
					s := gsite{cut: boolEdgesT(x, !chk.BoolFalse), instr: x}
					if !chk.BoolFalse {
						s.okVal = x
					}
					out = append(out, s)
				}
			}
		}
	}
	return out
}

// pruned returns the If edges that are infeasible under env (conditions evaluating to a constant).
func (c *Ctx) pruned(f *ssa.Function, env Env) map[edge]bool {
	out := map[edge]bool{}
	if len(env) == 0 && c.assumeSuffix == "" {
		return out
	}
	for _, b := range f.Blocks {
		if len(b.Instrs) == 0 {
			continue
		}
		if iff, ok := b.Instrs[len(b.Instrs)-1].(*ssa.If); ok {
			p := c.Path(iff.Cond, env)
			if c.assumeSuffix != "" {
				// a configuration flag assumed for this evaluation: the flag itself, or its negation
				neg := false
				q := p
				for strings.HasPrefix(q, "!") {
					q, neg = q[1:], !neg
				}
				if strings.HasSuffix(q, c.assumeSuffix) && !strings.ContainsAny(q, " (") {
					p = fmt.Sprint(c.assumeValue != neg)
				}
			}
			switch p {
			case "true":
				out[edge{from: b, to: b.Succs[1]}] = true
			case "false":
				out[edge{from: b, to: b.Succs[0]}] = true
			}
		}
	}
	return out
}

// Guard decides: every event instruction of f (default: every may-succeed return) is reachable from entry
// only across a success edge of chk. Returns ok, witness, number of check sites found.
func (c *Ctx) Guard(f *ssa.Function, env Env, chk *GCheck, events func(in ssa.Instruction) bool) (bool, []string, int) {
	return c.guard(f, env, chk, events, 0)
}

func (c *Ctx) guard(f *ssa.Function, env Env, chk *GCheck, events func(in ssa.Instruction) bool, depth int) (bool, []string, int) {
	if f == nil || f.Blocks == nil {
		return false, []string{"function has no body"}, 0
	}
	c.Analysed(f)
	ss := c.sites(f, env, chk, depth)
	cut := c.pruned(f, env)
	for _, e := range phiNilInfeasible(f) {
		cut[e] = true
	}
	if depth == 0 {
		for e := range c.extraCut {
			cut[e] = true
		}
	}
	okVals := map[ssa.Value]bool{}
	for _, s := range ss {
		for _, e := range s.cut {
			cut[e] = true
		}
		if s.okVal != nil {
			okVals[s.okVal] = true
			for _, d := range decoratedErrs(s.okVal) {
				okVals[d] = true
			}
		}
	}
	// steps that cannot fail: what follows them in their own block lies behind them
	passed := map[ssa.Instruction]bool{}
	for _, s := range ss {
		if cl, isC := s.instr.(*ssa.Call); isC && cannotFail(cl.Call.Signature()) {
			passed[cl] = true
		}
	}
	seen := reach(f.Blocks[0], cut)
	deepSites := 0
	for _, b := range f.Blocks {
		if _, ok := seen[b]; !ok {
			continue
		}
		for _, in := range b.Instrs {
			if passed[in] {
				break
			}
			isEv := false
			// events that lie in an unexported helper of the package called from here (a tail of the function moved into
			// a helper of its own): the helper guards them itself, or this call is the event
			if events != nil && depth < 2 {
				if cl, isC := in.(*ssa.Call); isC {
					if h := cl.Call.StaticCallee(); h != nil && h != f && inModule(h) && h.Blocks != nil && pkgPathOf(h) == pkgPathOf(f) && (h.Object() == nil || !h.Object().Exported()) && hasEventIn(h, events, 0) {
						henv := c.calleeEnvV(&cl.Call, h, env, cl)
						okh, wh, nh := c.guard(h, henv, chk, events, depth+1)
						deepSites += nh
						if !okh {
							w := append([]string{fmt.Sprintf("in %s: the call %s at %s is reachable from entry without crossing a success edge of [%s], and inside the callee:", short(f.String()), short(h.String()), c.pos(cl.Pos()), chk.Name)}, wh...)
							return false, w, len(ss) + deepSites
						}
					}
				}
			}
			if events != nil {
				isEv = events(in)
			} else if ret, ok := in.(*ssa.Return); ok {
				isEv = maySucceed(ret)
				if isEv && len(ret.Results) > 0 && okVals[ret.Results[len(ret.Results)-1]] {
					isEv = false
				}
				// the verdict handed back is "the checked step reported no error" (`return v, err == nil`)
				if isEv && len(ret.Results) > 0 {
					if bo, isB := ret.Results[len(ret.Results)-1].(*ssa.BinOp); isB && bo.Op == token.EQL {
						if (okVals[bo.X] && isNilConst(bo.Y)) || (okVals[bo.Y] && isNilConst(bo.X)) {
							isEv = false
						}
					}
				}
				// a boolean verdict assembled by short-circuit evaluation (`return ok && x != ""`): the exit accepts only when
				// it is entered along an edge that carries something other than false, from a predecessor reachable
				// without the check, and that value is not itself the check's verdict
				if isEv && len(ret.Results) == 1 {
					if phi, isPhi := ret.Results[0].(*ssa.Phi); isPhi && phi.Block() == b && isBoolType(phi.Type()) {
						isEv = false
						for i, p := range b.Preds {
							if _, reachable := seen[p]; !reachable {
								continue
							}
							if cut[edge{from: p, to: b}] {
								continue
							}
							if k, isK := phi.Edges[i].(*ssa.Const); isK && k.Value != nil && !constant.BoolVal(k.Value) {
								continue
							}
							if !okVals[phi.Edges[i]] {
								isEv = true
							}
						}
					}
				}
				// a single exit whose error result is a φ of this block (named results): the exit succeeds only when it
				// is entered along an edge that carries a possibly-nil error, from a predecessor reachable without the check
				if isEv && len(ret.Results) > 0 {
					if phi, isPhi := ret.Results[len(ret.Results)-1].(*ssa.Phi); isPhi && phi.Block() == b && isErrType(phi.Type()) {
						isEv = false
						for i, p := range b.Preds {
							if _, reachable := seen[p]; !reachable {
								continue
							}
							if cut[edge{from: p, to: b}] {
								continue
							}
							if !nonNilErr(phi.Edges[i], ret) && !okVals[phi.Edges[i]] {
								isEv = true
							}
						}
					}
				}
			}
			if isEv {
				w := c.witnessPath(seen, b)
				w = append([]string{fmt.Sprintf("in %s: %s at %s is reachable from entry without crossing a success edge of [%s] (%d check site(s) found)", short(f.String()), in.String(), c.pos(instrPos(in)), chk.Name, len(ss))}, w...)
				return false, w, len(ss) + deepSites
			}
		}
	}
	return true, nil, len(ss) + deepSites
}

// ensures: every success exit of f lies behind a success edge of chk (memoised; cycles => false).
func (c *Ctx) ensures(f *ssa.Function, env Env, chk *GCheck, depth int) (bool, []string) {
	key := f.String() + "|" + chk.Name + fmt.Sprintf("@%p", chk) + "|" + env.key() // the predicate is part of the key: two checks may share a name
	switch c.gmemo[key] {
	case 1:
		return true, nil
	case 2:
		return false, []string{"(memoised / recursive)"}
	}
	if depth > 8 {
		return false, []string{"depth bound"}
	}
	c.gmemo[key] = 2
	// a function that never succeeds (an error constructor) is not a check of anything
	canSucceed := false
	for _, r := range returnsOf(f) {
		if maySucceed(r) {
			canSucceed = true
		}
	}
	if !canSucceed {
		return false, []string{"the function has no accepting exit"}
	}
	ok, w, _ := c.guard(f, env, chk, nil, depth)
	// (a list of steps run by one loop: one of the listed steps ensures the check, and the loop cannot be bypassed)
	if !ok && len(naturalLoops(f)) > 0 && c.guardViaTable(f, env, chk) {
		ok, w = true, nil
	}
	if ok {
		c.gmemo[key] = 1
	}
	return ok, w
}

// ensuresFalse: f returns a single boolean, and every exit that may return false lies behind a success edge of chk.
func (c *Ctx) ensuresFalse(f *ssa.Function, env Env, chk *GCheck, depth int) bool {
	if f == nil || f.Blocks == nil || !inModule(f) || depth > 8 {
		return false
	}
	key := f.String() + "|" + chk.Name + fmt.Sprintf("@%p", chk) + "|" + env.key() + "|false"
	switch c.gmemo[key] {
	case 1:
		return true
	case 2:
		return false
	}
	c.gmemo[key] = 2
	n := 0
	falseVals, okVals := map[ssa.Value]bool{}, map[ssa.Value]bool{}
	for _, st := range c.sites(f, env, chk, depth) {
		if st.falseVal != nil {
			falseVals[st.falseVal] = true
		}
		if st.okVal != nil {
			okVals[st.okVal] = true
		}
	}
	ok, _, sites := c.guard(f, env, chk, func(in ssa.Instruction) bool {
		ret, isR := in.(*ssa.Return)
		if !isR || len(ret.Results) != 1 {
			return false
		}
		n++
		// the verdict handed back is the test itself (false = passed), or its negation (`return !ok`)
		rv, flip := returnedValue(ret, 0), false
		for d := 0; d < 3; d++ {
			u, isU := rv.(*ssa.UnOp)
			if !isU || u.Op != token.NOT {
				break
			}
			rv, flip = u.X, !flip
		}
		if (!flip && falseVals[rv]) || (flip && okVals[rv]) {
			return false
		}
		if k, isK := returnedValue(ret, 0).(*ssa.Const); isK && k.Value != nil && constant.BoolVal(k.Value) {
			return false
		}
		return true
	}, depth)
	if ok && sites > 0 {
		c.gmemo[key] = 1
		return true
	}
	return false
}

// Ensures is the exported form: success of f (under env) implies a success edge of chk was crossed.
func (c *Ctx) Ensures(f *ssa.Function, env Env, chk *GCheck) (bool, []string) {
	return c.ensures(f, env, chk, 0)
}

// ---- loops ---------------------------------------------------------------------------------

type loop struct {
	header *ssa.BasicBlock
	blocks map[*ssa.BasicBlock]bool
	backs  []*ssa.BasicBlock // sources of back edges
}

func naturalLoops(f *ssa.Function) []*loop {
	byHeader := map[*ssa.BasicBlock]*loop{}
	var order []*loop
	for _, b := range f.Blocks {
		for _, s := range b.Succs {
			if s.Dominates(b) { // back edge b -> s
				l := byHeader[s]
				if l == nil {
					l = &loop{header: s, blocks: map[*ssa.BasicBlock]bool{s: true}}
					byHeader[s] = l
					order = append(order, l)
				}
				l.backs = append(l.backs, b)
				stack := []*ssa.BasicBlock{b}
				for len(stack) > 0 {
					x := stack[len(stack)-1]
					stack = stack[:len(stack)-1]
					if l.blocks[x] {
						continue
					}
					l.blocks[x] = true
					for _, p := range x.Preds {
						stack = append(stack, p)
					}
				}
			}
		}
	}
	return order
}

// bodyEntries: successors of the header that belong to the loop.
func (l *loop) bodyEntries() []*ssa.BasicBlock {
	var out []*ssa.BasicBlock
	for _, s := range l.header.Succs {
		if l.blocks[s] && s != l.header {
			out = append(out, s)
		}
	}
	if len(out) == 0 && l.blocks[l.header] {
		// single-block loop
		out = append(out, l.header)
	}
	return out
}

// insideLoop: block is executed only as part of an iteration (dominated by a body entry), e.g. a
// `return` statement lexically inside the loop body.
func (l *loop) insideBody(b *ssa.BasicBlock) bool {
	for _, e := range l.bodyEntries() {
		if e != l.header && e.Dominates(b) {
			return true
		}
	}
	return false
}

// GuardLoop decides the for-all form: in every loop of f that contains a check site of chk, the next
// iteration (back edge) and the loop exit cannot be reached from the body entry without crossing a
// success edge of chk, i.e. every element is checked. Returns ok, witness, number of loops with sites.
func (c *Ctx) GuardLoop(f *ssa.Function, env Env, chk *GCheck) (bool, []string, int) {
	return c.guardLoop(f, env, chk, 0)
}

func (c *Ctx) guardLoop(f *ssa.Function, env Env, chk *GCheck, depth int) (bool, []string, int) {
	c.Analysed(f)
	ss := c.sites(f, env, chk, 0)
	if len(ss) == 0 {
		// the loop may have moved into an unexported helper of the package that is handed the list: the obligation
		// holds there (in the caller's frame), and f succeeds only if that call does
		if depth < 2 {
			for _, cl := range findCalls(f, func(cl *ssa.Call) bool {
				g := cl.Call.StaticCallee()
				return g != nil && inModule(g) && g.Blocks != nil && g != f && pkgPathOf(g) == pkgPathOf(f) && (g.Object() == nil || !g.Object().Exported())
			}) {
				g := cl.Call.StaticCallee()
				okG, wG, nG := c.guardLoop(g, c.calleeEnv(&cl.Call, g, env), chk, depth+1)
				if nG == 0 {
					continue
				}
				if !okG {
					return false, wG, nG
				}
				call := cl
				req, wR, _ := c.Guard(f, env, &GCheck{Name: "the helper holding the loop succeeds", NoDescend: true, MatchCall: func(c *Ctx, p *ssa.Call, env Env) bool { return p == call }}, nil)
				if !req {
					return false, wR, nG
				}
				return true, nil, nG
			}
		}
		return false, []string{fmt.Sprintf("no check site of [%s] in %s", chk.Name, short(f.String()))}, 0
	}
	cut := c.pruned(f, env)
	for e := range c.extraCut {
		cut[e] = true
	}
	for _, s := range ss {
		for _, e := range s.cut {
			cut[e] = true
		}
	}
	n := 0
	for _, l := range naturalLoops(f) {
		has := false
		for _, s := range ss {
			if l.blocks[s.instr.Block()] || l.insideBody(s.instr.Block()) {
				has = true
			}
		}
		if !has {
			continue
		}
		n++
		if ok, w := c.loopForall(f, l, cut, chk.Name); !ok {
			return false, w, n
		}
	}
	if n == 0 {
		return false, []string{fmt.Sprintf("check [%s] in %s is not inside a loop", chk.Name, short(f.String()))}, 0
	}
	return true, nil, n
}

// ---- check constructors ----------------------------------------------------------------------

// callTo matches static calls to fn (by object identity) with optional argument path predicates.
func callTo(name string, fn *ssa.Function, args ...func(string) bool) *GCheck {
	return &GCheck{Name: name, MatchCall: func(c *Ctx, call *ssa.Call, env Env) bool {
		if fn == nil {
			return false
		}
		g := call.Call.StaticCallee()
		if g != fn {
			// the method called through a method expression (`T.M(x, a)`): a thunk with the same argument list
			if g == nil || !strings.HasPrefix(g.Synthetic, "thunk") || funcValueOf(g) != fn {
				return false
			}
		}
		return argsMatch(c, &call.Call, env, args)
	}}
}

// invokeOf matches interface method calls by method name (+ optional args; receiver excluded).
func invokeOf(name, method string, args ...func(string) bool) *GCheck {
	return &GCheck{Name: name, MatchCall: func(c *Ctx, call *ssa.Call, env Env) bool {
		if !call.Call.IsInvoke() || call.Call.Method.Name() != method {
			return false
		}
		return argsMatch(c, &call.Call, env, args)
	}}
}

// callToAny matches static calls to fn or invoke calls of the named method (a method reachable both ways).
func callOrInvoke(name string, fn *ssa.Function, method string, args ...func(string) bool) *GCheck {
	return &GCheck{Name: name, MatchCall: func(c *Ctx, call *ssa.Call, env Env) bool {
		if call.Call.IsInvoke() {
			if call.Call.Method.Name() != method {
				return false
			}
			return argsMatch(c, &call.Call, env, args)
		}
		if fn == nil || call.Call.StaticCallee() != fn {
			return false
		}
		a := args
		// static method call: first SSA argument is the receiver; predicates describe the declared parameters
		cc := call.Call
		if fn.Signature.Recv() != nil && len(cc.Args) > 0 {
			sub := ssa.CallCommon{Value: cc.Value, Args: cc.Args[1:]}
			return argsMatch(c, &sub, env, a)
		}
		return argsMatch(c, &cc, env, a)
	}}
}

func argsMatch(c *Ctx, cc *ssa.CallCommon, env Env, preds []func(string) bool) bool {
	for i, p := range preds {
		if p == nil {
			continue
		}
		if i >= len(cc.Args) {
			return false
		}
		if !p(c.Path(cc.Args[i], env)) {
			return false
		}
	}
	return true
}

func pathIs(want string) func(string) bool { return func(s string) bool { return s == want } }
func pathHasSuffix(suf string) func(string) bool {
	return func(s string) bool { return strings.HasSuffix(s, suf) }
}
func pathAny() func(string) bool { return nil }

// cmpCheck matches a comparison `lhs op rhs` (either operand order; op normalised) where success is
// the edge on which the *rejecting* relation is false.
// rejectOp is the relation under which the code must reject, e.g. token.GTR for len(x) > max.
func cmpReject(name string, rejectOp token.Token, lhs, rhs func(string) bool) *GCheck {
	return &GCheck{Name: name, MatchCmp: func(c *Ctx, b *ssa.BinOp, env Env) (bool, bool) {
		l, r := c.Path(b.X, env), c.Path(b.Y, env)
		if l2, r2, ok := countAsParts(l, r); ok {
			l, r = l2, r2
		}
		type cand struct {
			l, r string
			op   token.Token
		}
		cands := []cand{{l, r, b.Op}, {r, l, flipOp(b.Op)}}
		// lengths are never negative: len(x) > 0 is len(x) != 0, len(x) <= 0 is len(x) == 0, and likewise
		// len(x) >= 1 / len(x) < 1
		for _, cd := range cands[:2] {
			if !strings.HasPrefix(cd.l, "len(") {
				continue
			}
			switch {
			case cd.r == "0" && cd.op == token.GTR:
				cands = append(cands, cand{cd.l, "0", token.NEQ})
			case cd.r == "0" && cd.op == token.LEQ:
				cands = append(cands, cand{cd.l, "0", token.EQL})
			case cd.r == "1" && cd.op == token.GEQ:
				cands = append(cands, cand{cd.l, "0", token.NEQ}, cand{cd.l, "0", token.GTR})
			case cd.r == "1" && cd.op == token.LSS:
				cands = append(cands, cand{cd.l, "0", token.EQL}, cand{cd.l, "0", token.LEQ})
			case cd.r == "0" && cd.op == token.NEQ:
				cands = append(cands, cand{cd.l, "0", token.GTR})
			case cd.r == "0" && cd.op == token.EQL:
				cands = append(cands, cand{cd.l, "0", token.LEQ})
			}
		}
		// a string is empty exactly when its length is zero: len(s) == 0 is s == "" (both ways)
		strOperand := func(v ssa.Value) bool {
			if cl, ok := v.(*ssa.Call); ok {
				if bi, isB := cl.Call.Value.(*ssa.Builtin); isB && bi.Name() == "len" && len(cl.Call.Args) == 1 {
					return isStringType(cl.Call.Args[0].Type())
				}
			}
			return false
		}
		for _, cd := range append([]cand{}, cands...) {
			switch {
			case strings.HasPrefix(cd.l, "len(") && strings.HasSuffix(cd.l, ")") && cd.r == "0" && (cd.op == token.EQL || cd.op == token.NEQ) && (strOperand(b.X) || strOperand(b.Y)):
				cands = append(cands, cand{cd.l[4 : len(cd.l)-1], `""`, cd.op})
			case cd.r == `""` && (cd.op == token.EQL || cd.op == token.NEQ):
				cands = append(cands, cand{"len(" + cd.l + ")", "0", cd.op})
				if cd.op == token.NEQ {
					cands = append(cands, cand{"len(" + cd.l + ")", "0", token.GTR})
				} else {
					cands = append(cands, cand{"len(" + cd.l + ")", "0", token.LEQ})
				}
			}
		}
		for _, cd := range cands {
			if !(lhs(cd.l) && rhs(cd.r)) {
				continue
			}
			// relation is  L op R  with L matching lhs
			if cd.op == rejectOp {
				return true, false // success when the rejecting relation is false
			}
			if cd.op == negOp(rejectOp) {
				return true, true
			}
		}
		return false, false
	}}
}

// cmpRejectConst is cmpReject(name, ==, lhs, the constant K), which also knows that a value found equal to some other
// constant is not K (`switch { case kty == "RSA": … case kty == "": refuse }`: the RSA arm lies behind kty != "").
func cmpRejectConst(name string, lhs func(string) bool, K string) *GCheck {
	chk := cmpReject(name, token.EQL, lhs, pathIs(K))
	inner := chk.MatchCmp
	isConstLit := func(p string) bool {
		return p != K && p != "" && (p[0] == '"' || (p[0] >= '0' && p[0] <= '9') || p[0] == '-')
	}
	chk.MatchCmp = func(c *Ctx, b *ssa.BinOp, env Env) (bool, bool) {
		if m, onTrue := inner(c, b, env); m {
			return m, onTrue
		}
		if b.Op != token.EQL && b.Op != token.NEQ {
			return false, false
		}
		_, kx := b.X.(*ssa.Const)
		_, ky := b.Y.(*ssa.Const)
		l, r := c.Path(b.X, env), c.Path(b.Y, env)
		if (ky && lhs(l) && isConstLit(r)) || (kx && lhs(r) && isConstLit(l)) {
			return true, b.Op == token.EQL
		}
		return false, false
	}
	return chk
}

func flipOp(op token.Token) token.Token {
	switch op {
	case token.LSS:
		return token.GTR
	case token.GTR:
		return token.LSS
	case token.LEQ:
		return token.GEQ
	case token.GEQ:
		return token.LEQ
	}
	return op
}

func negOp(op token.Token) token.Token {
	switch op {
	case token.LSS:
		return token.GEQ
	case token.GTR:
		return token.LEQ
	case token.LEQ:
		return token.GTR
	case token.GEQ:
		return token.LSS
	case token.EQL:
		return token.NEQ
	case token.NEQ:
		return token.EQL
	}
	return op
}

// CheckGuard is the convenience wrapper recording the obligation.
func (c *Ctx) CheckGuard(rule, key string, f *ssa.Function, env Env, chk *GCheck) bool {
	if f == nil {
		c.Unresolved(rule, key)
		return false
	}
	ok, w, n := c.Guard(f, env, chk, nil)
	if !ok && c.guardViaTable(f, env, chk) {
		c.Check(rule, key, true, f.Pos(), fmt.Sprintf("%s%s success => [%s] success edge, for every element of a table-driven loop that carries the checked value", short(f.String()), envNote(env), chk.Name))
		return true
	}
	c.Check(rule, key, ok, f.Pos(), fmt.Sprintf("%s%s success => [%s] success edge; check sites=%d", short(f.String()), envNote(env), chk.Name, n), w...)
	return ok
}

func envNote(env Env) string {
	if len(env) == 0 {
		return ""
	}
	return " | " + env.key()
}

func (c *Ctx) CheckGuardLoop(rule, key string, f *ssa.Function, env Env, chk *GCheck) bool {
	if f == nil {
		c.Unresolved(rule, key)
		return false
	}
	ok, w, n := c.GuardLoop(f, env, chk)
	c.Check(rule, key, ok, f.Pos(), fmt.Sprintf("%s: every iteration crosses [%s]; loops=%d", short(f.String()), chk.Name, n), w...)
	return ok
}

// loopForall: from each body entry of loop l, neither the next iteration (any edge back to the header)
// nor an accepting return inside the body is reachable without crossing a cut (success) edge.
func (c *Ctx) loopForall(f *ssa.Function, l *loop, cut map[edge]bool, what string) (bool, []string) {
	for _, e := range l.bodyEntries() {
		seen := reach(e, cut)
		for b := range seen {
			if l.blocks[b] {
				for _, s := range b.Succs {
					if s == l.header && !cut[edge{from: b, to: s}] {
						w := c.witnessPath(seen, b)
						w = append([]string{fmt.Sprintf("in %s: loop at %s can start its next iteration without crossing a success edge of [%s] — not every element is checked", short(f.String()), c.pos(firstPos(l.header)), what)}, w...)
						return false, w
					}
				}
			}
			if !l.insideBody(b) {
				continue
			}
			if ret, ok := b.Instrs[len(b.Instrs)-1].(*ssa.Return); ok && maySucceed(ret) {
				w := c.witnessPath(seen, b)
				w = append([]string{fmt.Sprintf("in %s: accepting return at %s inside the loop body bypasses [%s] for the remaining elements", short(f.String()), c.pos(instrPos(ret)), what)}, w...)
				return false, w
			}
		}
	}
	return true, nil
}

// anyOf: a disjunctive check — the success edge of any alternative suffices (e.g. "nonce empty" or
// "nonce has the configured size").
func anyOf(name string, alts ...*GCheck) *GCheck {
	return &GCheck{Name: name, Alts: alts}
}

// cmpAccept: success is the edge on which `lhs op rhs` holds (e.g. nonce == "" short-circuits to accept).
func cmpAccept(name string, acceptOp token.Token, lhs, rhs func(string) bool) *GCheck {
	return cmpReject(name, negOp(acceptOp), lhs, rhs)
}

// forAllDeep: starting at entry, find the function(s) in its module call tree in which chk has check
// sites inside a loop; each such loop must satisfy the for-all obligation, and entry's success must
// require that function's success. Returns the number of loops found.
func (c *Ctx) forAllDeep(rule, key string, entry *ssa.Function, env Env, chk *GCheck) int {
	if entry == nil {
		c.Unresolved(rule, key)
		return 0
	}
	type hit struct {
		f   *ssa.Function
		env Env
	}
	var hits []hit
	seen := map[string]bool{}
	var visit func(f *ssa.Function, env Env, d int)
	visit = func(f *ssa.Function, env Env, d int) {
		k := f.String() + "|" + env.key()
		if d > 5 || seen[k] || f.Blocks == nil || !inModule(f) {
			return
		}
		seen[k] = true
		ss := c.sites(f, env, chk, 0)
		inLoop := false
		for _, l := range naturalLoops(f) {
			for _, s := range ss {
				if l.blocks[s.instr.Block()] || l.insideBody(s.instr.Block()) {
					inLoop = true
				}
			}
		}
		if inLoop {
			hits = append(hits, hit{f, env})
			return
		}
		forEachInstr(f, func(in ssa.Instruction) {
			if cl, ok := in.(*ssa.Call); ok {
				for _, g := range c.Callees(&cl.Call) {
					visit(g, c.calleeEnvV(&cl.Call, g, env, cl), d+1)
				}
			}
		})
	}
	visit(entry, env, 0)
	if len(hits) == 0 {
		c.Check(rule, key, false, entry.Pos(), fmt.Sprintf("no loop in the call tree of %s applies [%s] to each element", short(entry.String()), chk.Name))
		return 0
	}
	n := 0
	for _, h := range hits {
		ok, w, nl := c.GuardLoop(h.f, h.env, chk)
		n += nl
		c.Check(rule, key+"@"+h.f.Name(), ok, h.f.Pos(), fmt.Sprintf("%s: every element crosses [%s] (loops=%d)", short(h.f.String()), chk.Name, nl), w...)
		if h.f != entry {
			hf := h.f
			req := &GCheck{Name: "call to " + short(hf.String()) + " succeeded", MatchCall: func(c *Ctx, call *ssa.Call, env Env) bool { return call.Call.StaticCallee() == hf }}
			okR, wR, _ := c.Guard(entry, env, req, nil)
			c.Check(rule, key+"@"+h.f.Name()+":required", okR, entry.Pos(), fmt.Sprintf("%s succeeds only if %s succeeds", short(entry.String()), short(hf.String())), wR...)
		}
	}
	return n
}

// ruleU: in every loop of f whose normal exit can lead to an accepting return (for-all loop), no return
// inside the loop body may be accepting. Existential loops (post-loop return rejecting) are exempt.
func (c *Ctx) ruleU(rule string, f *ssa.Function) int {
	n := 0
	res := f.Signature.Results()
	if res.Len() == 0 {
		return 0
	}
	last := res.At(res.Len() - 1).Type()
	if !isErrType(last) && !(res.Len() == 1 && isBoolType(last)) {
		return 0
	}
	for li, l := range naturalLoops(f) {
		// post-loop: blocks reachable from loop exits (edges leaving the loop from blocks in the loop)
		post := map[*ssa.BasicBlock]bool{}
		var stack []*ssa.BasicBlock
		for b := range l.blocks {
			for _, s := range b.Succs {
				if !l.blocks[s] && !l.insideBody(s) {
					stack = append(stack, s)
				}
			}
		}
		for len(stack) > 0 {
			b := stack[len(stack)-1]
			stack = stack[:len(stack)-1]
			if post[b] || l.blocks[b] {
				continue
			}
			post[b] = true
			stack = append(stack, b.Succs...)
		}
		forAll := false
		for b := range post {
			if r, ok := b.Instrs[len(b.Instrs)-1].(*ssa.Return); ok && maySucceed(r) {
				forAll = true
			}
		}
		if !forAll {
			continue
		}
		n++
		okLoop := true
		var w []string
		for _, b := range f.Blocks {
			if !l.insideBody(b) || l.blocks[b] && false {
				continue
			}
			if post[b] {
				continue
			}
			if r, ok := b.Instrs[len(b.Instrs)-1].(*ssa.Return); ok && maySucceed(r) {
				okLoop = false
				w = append(w, fmt.Sprintf("accepting return at %s inside the body of the loop at %s: only a prefix of the elements is validated", c.pos(instrPos(r)), c.pos(firstPos(l.header))))
			}
		}
		// … and a loop that turns elements away (an error return in its body) looks at every element: leaving it early
		// from inside the body (break) accepts the elements that follow unseen
		rejects := false
		for _, b := range f.Blocks {
			if l.insideBody(b) && !post[b] {
				if r, ok := b.Instrs[len(b.Instrs)-1].(*ssa.Return); ok && !maySucceed(r) {
					rejects = true
				}
			}
		}
		if rejects {
			for b := range l.blocks {
				if b == l.header {
					continue
				}
				for _, s := range b.Succs {
					if !l.blocks[s] && post[s] {
						if _, isRet := s.Instrs[len(s.Instrs)-1].(*ssa.Return); isRet && len(s.Instrs) == 1 && !maySucceedRet(s) {
							continue
						}
						okLoop = false
						w = append(w, fmt.Sprintf("the loop at %s is left from inside its body at %s: the elements that follow are accepted unseen", c.pos(firstPos(l.header)), c.pos(firstPos(b))))
					}
				}
			}
		}
		c.Check(rule, fmt.Sprintf("%s:loop%d", short(f.String()), li), okLoop, firstPos(l.header), fmt.Sprintf("for-all loop in %s rejects-only inside its body", short(f.String())), w...)
	}
	return n
}

// descendSites: call sites in f whose (module) callees all ensure chk.
func (c *Ctx) descendSites(f *ssa.Function, env Env, chk, _ *GCheck, depth int) []gsite {
	var out []gsite
	for _, b := range f.Blocks {
		for _, in := range b.Instrs {
			x, ok := in.(*ssa.Call)
			if !ok {
				continue
			}
			cs := c.Callees(&x.Call)
			if len(cs) == 0 {
				continue
			}
			all := true
			for _, g := range cs {
				if !inModule(g) || g.Blocks == nil {
					all = false
					break
				}
				if ok, _ := c.ensures(g, c.calleeEnvV(&x.Call, g, env, x), chk, depth+1); !ok {
					all = false
					break
				}
			}
			if !all {
				// a predicate of the opposite sense: it answers false only across the disjunction
				if len(cs) == 1 && isBoolType(x.Type()) && inModule(cs[0]) && cs[0].Blocks != nil && c.ensuresFalse(cs[0], c.calleeEnvV(&x.Call, cs[0], env, x), chk, depth+1) {
					out = append(out, gsite{cut: boolEdgesT(x, false), falseVal: x, instr: x})
				}
				continue
			}
			if ev := errResult(x); ev != nil {
				out = append(out, gsite{cut: nilTestEdges(ev, true), okVal: ev, instr: x})
			} else if isBoolType(x.Type()) {
				out = append(out, gsite{cut: boolEdges(x, true), okVal: x, instr: x})
			}
		}
	}
	return out
}

// ---- table-driven loops ------------------------------------------------------------------------
// `for _, e := range []T{{a1,b1},{a2,b2}} { check(e.a, e.b) }` performs check(a1,b1) and check(a2,b2). A guard
// obligation about check(X, …) that is not met by straight-line code is retried once per element of every local
// array literal that is ranged over in f: the loop element's fields are renamed to that element's stored values, and
// the obligation holds if every iteration crosses the check's success edge (for-all form) and the function cannot
// succeed without entering the loop.

// tableLoopEnvs returns, for every (array literal, element index) ranged over in f, env extended with the element's
// field loads renamed to the paths of the values stored for that element.
//
// The ranged-over table may also be chosen by the path (`fields := []string{a, b}; if c { fields = []string{x, y} }`):
// the ranged value is then a φ of literals. Each incoming edge is one alternative (alt) of the same group; an
// alternative's environments are valid only on the paths that enter the φ along its edge (cut = the other edges).
type tableEnv struct {
	env   Env
	cut   map[edge]bool
	group ssa.Value
	alt   int
	fns   map[ssa.Value]*ssa.Function    // element fields holding functions: the load -> the function stored for this element
	mcs   map[ssa.Value]*ssa.MakeClosure // … and, for function literals, the closure (its captured variables are the frame's)
	vals  map[ssa.Value]ssa.Value        // element fields holding the result of a test made when the table was built
}

// globalSliceInit: the slice literal a package-level variable is initialised with, when that is its only write.
func (c *Ctx) globalSliceInit(g *ssa.Global) *ssa.Slice {
	if g.Pkg == nil || !strings.HasPrefix(g.Pkg.Pkg.Path(), modPath) {
		return nil
	}
	if c.gsMemo == nil {
		c.gsMemo = map[*ssa.Global]*ssa.Slice{}
	}
	if sl, ok := c.gsMemo[g]; ok {
		return sl
	}
	var res *ssa.Slice
	n := 0
	for _, fn := range allFuncs(g.Pkg) {
		forEachInstr(fn, func(in ssa.Instruction) {
			st, ok := in.(*ssa.Store)
			if !ok || st.Addr != ssa.Value(g) {
				return
			}
			n++
			if fn.Name() == "init" {
				res, _ = st.Val.(*ssa.Slice)
			}
		})
	}
	if n != 1 {
		res = nil
	}
	c.gsMemo[g] = res
	return res
}

func (c *Ctx) tableLoopEnvs(f *ssa.Function, env Env) []Env {
	var out []Env
	for _, te := range c.tableLoopEnvsAlt(f, env) {
		if te.cut == nil {
			out = append(out, te.env)
		}
	}
	return out
}

func (c *Ctx) tableLoopEnvsAlt(f *ssa.Function, env Env) []tableEnv {
	var out []tableEnv
	// candidate tables: array literals sliced in f, and package-level slice literals f loads (the literal is then
	// built by the package initialiser; the global must be written nowhere else)
	type cand struct {
		sl    *ssa.Slice
		arr   *ssa.UnOp   // array form: the load of the whole local array
		loads []ssa.Value // global form: the loads of the global in f
		glob  *ssa.Global // package-level array form: arr is the load of the whole array
	}
	var cands []cand
	for _, b := range f.Blocks {
		for _, in := range b.Instrs {
			if sl, ok := in.(*ssa.Slice); ok {
				cands = append(cands, cand{sl: sl})
			}
			// an array literal ranged over by value: the loop reads a copy of the whole array
			if ld, ok := in.(*ssa.UnOp); ok && ld.Op == token.MUL {
				if al, isAl := ld.X.(*ssa.Alloc); isAl {
					if _, isArr := derefT(al.Type()).Underlying().(*types.Array); isArr {
						cands = append(cands, cand{arr: ld})
					}
				}
			}
			// a package-level array literal ranged over by value (its elements are stored by the package initialiser and
			// nowhere else)
			if ld, ok := in.(*ssa.UnOp); ok && ld.Op == token.MUL {
				if g, isG := ld.X.(*ssa.Global); isG && g.Pkg != nil {
					if _, isArr := derefT(g.Type()).Underlying().(*types.Array); isArr {
						cands = append(cands, cand{arr: ld, glob: g})
					}
				}
			}
			if ld, ok := in.(*ssa.UnOp); ok && ld.Op == token.MUL {
				if g, isG := ld.X.(*ssa.Global); isG {
					if sl := c.globalSliceInit(g); sl != nil {
						found := false
						for i := range cands {
							if cands[i].sl == sl {
								cands[i].loads = append(cands[i].loads, ld)
								found = true
							}
						}
						if !found {
							cands = append(cands, cand{sl: sl, loads: []ssa.Value{ld}})
						}
					}
				}
			}
		}
	}
	{
		for _, cd := range cands {
			sl := cd.sl
			var al ssa.Value
			var alRefs []ssa.Instruction
			var ok bool
			if cd.glob != nil {
				al, ok = cd.glob, true
				// the uses of the package-level array: element addresses with a constant index in the initialiser, whole
				// loads elsewhere — anything else (an element written later, its address handed on) and it is no constant table
				init := cd.glob.Pkg.Func("init")
				for _, fn := range allFuncs(cd.glob.Pkg) {
					forEachInstr(fn, func(i2 ssa.Instruction) {
						var ops []*ssa.Value
						for _, op := range i2.Operands(ops) {
							if *op != ssa.Value(cd.glob) {
								continue
							}
							switch y := i2.(type) {
							case *ssa.IndexAddr:
								if fn == init {
									alRefs = append(alRefs, y)
								} else {
									ok = false
								}
							case *ssa.UnOp:
								if y.Op != token.MUL {
									ok = false
								}
							case *ssa.DebugRef:
							default:
								ok = false
							}
						}
					})
				}
			} else {
				var a0 *ssa.Alloc
				if cd.arr != nil {
					a0, ok = cd.arr.X.(*ssa.Alloc)
				} else {
					a0, ok = sl.X.(*ssa.Alloc)
				}
				if ok {
					al = a0
					alRefs = *a0.Referrers()
				}
			}
			if !ok {
				continue
			}
			pt, ok := al.Type().Underlying().(*types.Pointer)
			if !ok {
				continue
			}
			arr, ok := pt.Elem().Underlying().(*types.Array)
			if !ok || arr.Len() == 0 || arr.Len() > 16 {
				continue
			}
			// stores per element: field index (-1 for a non-struct element) -> value
			stores := map[int64]map[int]ssa.Value{}
			for _, r := range alRefs {
				ia, isIA := r.(*ssa.IndexAddr)
				if !isIA {
					continue
				}
				kc, isK := ia.Index.(*ssa.Const)
				if !isK {
					continue
				}
				k, _ := constant.Int64Val(kc.Value)
				if stores[k] == nil {
					stores[k] = map[int]ssa.Value{}
				}
				for _, rr := range *ia.Referrers() {
					switch y := rr.(type) {
					case *ssa.Store:
						if y.Addr == ssa.Value(ia) {
							stores[k][-1] = y.Val
							// a struct element built in a cell of its own and copied in whole: its fields
							if ld, isLd := y.Val.(*ssa.UnOp); isLd && ld.Op == token.MUL {
								if cell, isCell := ld.X.(*ssa.Alloc); isCell && cell.Referrers() != nil {
									written := map[int]int{}
									for _, cr := range *cell.Referrers() {
										if fa, isFA := cr.(*ssa.FieldAddr); isFA {
											written[fa.Field]++
											if st := singleStoreTo(fa); st != nil && instrDominates(st, ld) {
												stores[k][fa.Field] = st.Val
											}
										}
									}
									for fld, n := range written {
										if n > 1 {
											delete(stores[k], fld)
										}
									}
								}
							}
						}
					case *ssa.FieldAddr:
						for _, r3 := range *y.Referrers() {
							if st, isS := r3.(*ssa.Store); isS && st.Addr == ssa.Value(y) {
								stores[k][y.Field] = st.Val
							}
						}
					}
				}
			}
			if int64(len(stores)) != arr.Len() {
				continue
			}
			// element reads inside range loops over the slice
			type read struct {
				v   ssa.Value
				fld int
			}
			var reads []read
			// the value ranged over: the slice itself, or a φ that selects it
			type ranged struct {
				v   ssa.Value
				cut map[edge]bool
				alt int
			}
			rs := []ranged{{v: sl}}
			if cd.arr != nil {
				rs = []ranged{{v: cd.arr}}
			}
			if len(cd.loads) > 0 {
				rs = nil
				for _, ld := range cd.loads {
					rs = append(rs, ranged{v: ld})
				}
			}
			// (a φ that selects this table among several: the local slice, or a load of the package-level one)
			srcs := []ssa.Value{sl}
			if cd.arr != nil {
				srcs = []ssa.Value{cd.arr}
			}
			if len(cd.loads) > 0 {
				srcs = cd.loads
			}
			for _, src := range srcs {
				if src.Referrers() == nil {
					continue
				}
				for _, r := range *src.Referrers() {
					phi, isPhi := r.(*ssa.Phi)
					if !isPhi {
						continue
					}
					for i, e := range phi.Edges {
						if e != src {
							continue
						}
						cut := map[edge]bool{}
						for j, p := range phi.Block().Preds {
							if j != i {
								cut[edge{from: p, to: phi.Block()}] = true
							}
						}
						rs = append(rs, ranged{v: phi, cut: cut, alt: i})
					}
				}
			}
			for _, rg := range rs {
				reads = nil
				elemValue := func(y ssa.Value) {
					if _, isStruct := y.Type().Underlying().(*types.Struct); !isStruct {
						reads = append(reads, read{y, -1})
						return
					}
					if y.Referrers() == nil {
						return
					}
					for _, r3 := range *y.Referrers() {
						switch z := r3.(type) {
						case *ssa.Field:
							reads = append(reads, read{z, z.Field})
						case *ssa.Store:
							la, isLA := z.Addr.(*ssa.Alloc)
							if !isLA || z.Val != y {
								continue
							}
							for _, r4 := range *la.Referrers() {
								if fa, isFA := r4.(*ssa.FieldAddr); isFA {
									for _, r5 := range *fa.Referrers() {
										if ld, isLd := r5.(*ssa.UnOp); isLd && ld.Op == token.MUL {
											reads = append(reads, read{ld, fa.Field})
										}
									}
								}
							}
						}
					}
				}
				for _, r := range *rg.v.Referrers() {
					if ix, isIx := r.(*ssa.Index); isIx && c.Path(ix.Index, nil) == "ι" {
						elemValue(ix)
						continue
					}
					ia, isIA := r.(*ssa.IndexAddr)
					if !isIA || c.Path(ia.Index, nil) != "ι" {
						continue
					}
					for _, rr := range *ia.Referrers() {
						switch y := rr.(type) {
						case *ssa.UnOp:
							if y.Op != token.MUL {
								continue
							}
							if _, isStruct := y.Type().Underlying().(*types.Struct); !isStruct {
								reads = append(reads, read{y, -1})
								continue
							}
							for _, r3 := range *y.Referrers() {
								switch z := r3.(type) {
								case *ssa.Field:
									reads = append(reads, read{z, z.Field})
								case *ssa.Store:
									// the element copied into the range variable's own cell
									la, isLA := z.Addr.(*ssa.Alloc)
									if !isLA || z.Val != ssa.Value(y) {
										continue
									}
									for _, r4 := range *la.Referrers() {
										if fa, isFA := r4.(*ssa.FieldAddr); isFA {
											for _, r5 := range *fa.Referrers() {
												if ld, isLd := r5.(*ssa.UnOp); isLd && ld.Op == token.MUL {
													reads = append(reads, read{ld, fa.Field})
												}
											}
										}
									}
								}
							}
						case *ssa.FieldAddr:
							for _, r3 := range *y.Referrers() {
								if ld, isLd := r3.(*ssa.UnOp); isLd && ld.Op == token.MUL {
									reads = append(reads, read{ld, y.Field})
								}
							}
						}
					}
				}
				if len(reads) == 0 {
					continue
				}
				for k := int64(0); k < arr.Len(); k++ {
					e := Env{}
					for kk, vv := range env {
						e[kk] = vv
					}
					okAll := true
					var fns map[ssa.Value]*ssa.Function
					var mcs map[ssa.Value]*ssa.MakeClosure
					var vals map[ssa.Value]ssa.Value
					for _, rd := range reads {
						sv, has := stores[k][rd.fld]
						if !has {
							okAll = false
							break
						}
						e[rd.v] = c.Path(sv, env)
						if isBoolType(sv.Type()) {
							if o := boolOriginOf(sv); o != nil {
								if vals == nil {
									vals = map[ssa.Value]ssa.Value{}
								}
								vals[rd.v] = o
							}
						}
						if _, isSig := sv.Type().Underlying().(*types.Signature); isSig {
							if fn := funcValueOf(sv); fn != nil {
								if fns == nil {
									fns = map[ssa.Value]*ssa.Function{}
								}
								fns[rd.v] = fn
								if mc, isMC := stripConv(sv).(*ssa.MakeClosure); isMC {
									if mcs == nil {
										mcs = map[ssa.Value]*ssa.MakeClosure{}
									}
									mcs[rd.v] = mc
								}
							}
						}
					}
					if okAll {
						out = append(out, tableEnv{env: e, cut: rg.cut, group: rg.v, alt: rg.alt, fns: fns, mcs: mcs, vals: vals})
					}
				}
			}
		}
	}
	return out
}

// loopBypassed: f can reach a may-succeed return without entering loop l.
func loopBypassed(f *ssa.Function, l *loop) bool {
	if f.Blocks[0] == l.header {
		return false
	}
	cutIn := map[edge]bool{}
	for _, p := range l.header.Preds {
		if !l.blocks[p] {
			cutIn[edge{from: p, to: l.header}] = true
		}
	}
	for b := range reach(f.Blocks[0], cutIn) {
		if r, isR := b.Instrs[len(b.Instrs)-1].(*ssa.Return); isR && maySucceed(r) && !l.blocks[b] {
			return true
		}
	}
	return false
}

// guardViaTable is the table-loop fallback of CheckGuard.
func (c *Ctx) guardViaTable(f *ssa.Function, env Env, chk *GCheck) bool {
	tes := c.tableLoopEnvsAlt(f, env)
	holds := func(te tableEnv) bool {
		oc, of, om, ov := c.extraCut, c.fnSubst, c.mcSubst, c.valSubst
		c.extraCut, c.fnSubst, c.mcSubst, c.valSubst = te.cut, te.fns, te.mcs, te.vals
		defer func() { c.extraCut, c.fnSubst, c.mcSubst, c.valSubst = oc, of, om, ov }()
		ok, _, n := c.GuardLoop(f, te.env, chk)
		if !ok || n == 0 {
			return false
		}
		for _, s := range c.sites(f, te.env, chk, 0) {
			for _, l := range naturalLoops(f) {
				if (l.blocks[s.instr.Block()] || l.insideBody(s.instr.Block())) && loopBypassed(f, l) {
					return false
				}
			}
		}
		return true
	}
	groups := map[ssa.Value]map[int]bool{}
	var order []ssa.Value
	for _, te := range tes {
		if te.cut == nil {
			if holds(te) {
				return true
			}
			continue
		}
		if groups[te.group] == nil {
			groups[te.group] = map[int]bool{}
			order = append(order, te.group)
		}
		if !groups[te.group][te.alt] && holds(te) {
			groups[te.group][te.alt] = true
		}
	}
	// a table chosen by the path: every alternative meets the obligation — through one of its elements, or because the
	// paths that choose it have crossed a success edge already (the obligation does not concern that alternative)
	for _, g := range order {
		phi := g.(*ssa.Phi)
		all := true
		for i := range phi.Edges {
			if groups[g][i] {
				continue
			}
			cut := map[edge]bool{}
			for j, p := range phi.Block().Preds {
				if j != i {
					cut[edge{from: p, to: phi.Block()}] = true
				}
			}
			c.extraCut = cut
			ok, _, _ := c.Guard(f, env, chk, nil)
			c.extraCut = nil
			if !ok {
				all = false
				break
			}
		}
		if all {
			return true
		}
	}
	return false
}

// trueOnlySet: m is a map with boolean elements, and every store into it that is visible in its function stores the
// constant true (a set in the map[K]bool idiom: m[k] reads "k is a member").
func trueOnlySet(m ssa.Value) bool {
	mt, ok := m.Type().Underlying().(*types.Map)
	if !ok || !isBoolType(mt.Elem()) {
		return false
	}
	base := stripConv(m)
	if base.Referrers() == nil {
		return false
	}
	n := 0
	var scan func(v ssa.Value, d int) bool
	scan = func(v ssa.Value, d int) bool {
		if d > 2 || v.Referrers() == nil {
			return true
		}
		for _, r := range *v.Referrers() {
			switch y := r.(type) {
			case *ssa.MapUpdate:
				if y.Map == v {
					n++
					if k, isK := y.Value.(*ssa.Const); !isK || c19constBool(k) != "true" {
						return false
					}
				}
			case *ssa.ChangeType:
				if !scan(y, d+1) {
					return false
				}
			}
		}
		return true
	}
	// a set kept in a captured variable: every view of the cell — what is stored into it, and its loads in the function
	// that declares it and in the function literals that capture it
	if views := cellViews(base); len(views) > 0 {
		for _, v := range views {
			if !scan(v, 0) {
				return false
			}
		}
		return n > 0
	}
	return scan(base, 0) && n > 0
}

// cellViews: v is a load of a local variable's cell (directly, or through a captured variable of a function literal);
// returns the values stored into the cell and all its loads, in the declaring function and in the literals capturing it
// (nil when the cell's address goes anywhere else).
func cellViews(v ssa.Value) []ssa.Value {
	ld, ok := v.(*ssa.UnOp)
	if !ok || ld.Op != token.MUL {
		return nil
	}
	var cell *ssa.Alloc
	switch x := ld.X.(type) {
	case *ssa.Alloc:
		cell = x
	case *ssa.FreeVar:
		lit := x.Parent()
		if lit == nil || lit.Parent() == nil {
			return nil
		}
		idx := -1
		for i, fv := range lit.FreeVars {
			if fv == x {
				idx = i
			}
		}
		forEachInstr(lit.Parent(), func(in ssa.Instruction) {
			if mc, isMC := in.(*ssa.MakeClosure); isMC && mc.Fn == ssa.Value(lit) && idx >= 0 && idx < len(mc.Bindings) {
				if al, isAl := mc.Bindings[idx].(*ssa.Alloc); isAl {
					cell = al
				}
			}
		})
	}
	if cell == nil || cell.Referrers() == nil {
		return nil
	}
	var out []ssa.Value
	okAll := true
	var visitAddr func(addr ssa.Value, d int)
	visitAddr = func(addr ssa.Value, d int) {
		if addr.Referrers() == nil || d > 2 {
			return
		}
		for _, r := range *addr.Referrers() {
			switch y := r.(type) {
			case *ssa.Store:
				if y.Addr == addr {
					out = append(out, y.Val)
				} else {
					okAll = false
				}
			case *ssa.UnOp:
				if y.Op == token.MUL {
					out = append(out, y)
				}
			case *ssa.MakeClosure:
				fn, _ := y.Fn.(*ssa.Function)
				for i, b := range y.Bindings {
					if b == addr && fn != nil && i < len(fn.FreeVars) {
						visitAddr(fn.FreeVars[i], d+1)
					}
				}
			case *ssa.DebugRef:
			default:
				okAll = false
			}
		}
	}
	visitAddr(cell, 0)
	if !okAll {
		return nil
	}
	return out
}

func c19constBool(k *ssa.Const) string {
	if k.Value == nil || k.Value.Kind() != constant.Bool {
		return ""
	}
	if constant.BoolVal(k.Value) {
		return "true"
	}
	return "false"
}

// structLitArg: a is a struct value loaded from a cell that the caller filled field by field (a composite literal, each
// field stored once, before the load; the cell's address goes nowhere else). Registers the field paths under a token
// that stands for the value in the callee's frame.
func (c *Ctx) structLitArg(a ssa.Value, env Env) string {
	// … or the struct an unexported one-exit helper builds field by field and hands back (`p, ok := parse(op)`)
	{
		var cl *ssa.Call
		idx := 0
		switch x := a.(type) {
		case *ssa.Extract:
			cl, _ = x.Tuple.(*ssa.Call)
			idx = x.Index
		case *ssa.Call:
			cl = x
		}
		if cl != nil {
			if g := cl.Call.StaticCallee(); g != nil && inModule(g) && g.Blocks != nil && g.Object() != nil && !g.Object().Exported() {
				if _, isStruct := a.Type().Underlying().(*types.Struct); isStruct {
					var srs []*ssa.Return
					for _, r := range successReturns(g) {
						// (value, ok) helpers: the "not there" exit hands back nothing of interest
						if n := len(r.Results); n > 1 && isBoolType(r.Results[n-1].Type()) && c.Path(r.Results[n-1], nil) == "false" {
							continue
						}
						srs = append(srs, r)
					}
					if len(srs) == 1 && idx < len(srs[0].Results) {
						if tok := c.structLitArg(returnedValue(srs[0], idx), c.calleeEnv(&cl.Call, g, env)); tok != "" {
							return tok
						}
					}
				}
			}
			return ""
		}
	}
	ld, ok := a.(*ssa.UnOp)
	if !ok || ld.Op != token.MUL {
		return ""
	}
	cell, ok := ld.X.(*ssa.Alloc)
	if !ok || cell.Referrers() == nil {
		return ""
	}
	st, ok := derefT(cell.Type()).Underlying().(*types.Struct)
	if !ok {
		return ""
	}
	// a local that holds, as a whole, the struct a helper handed back
	if w := wholeStore(cell); w != nil && instrDominates(w, ld) {
		return c.structLitArg(w.Val, env)
	}
	fields := map[string]string{}
	for _, r := range *cell.Referrers() {
		switch x := r.(type) {
		case *ssa.FieldAddr:
			w := singleStoreTo(x)
			if w == nil {
				// a read of the field
				if x.Referrers() != nil {
					for _, rr := range *x.Referrers() {
						if u, isU := rr.(*ssa.UnOp); !isU || u.Op != token.MUL {
							if _, isD := rr.(*ssa.DebugRef); !isD {
								return ""
							}
						}
					}
				}
				continue
			}
			if !instrDominates(w, ld) {
				return ""
			}
			name := st.Field(x.Field).Name()
			if _, dup := fields[name]; dup {
				return ""
			}
			fields[name] = c.Path(w.Val, env)
		case *ssa.UnOp:
			if x.Op != token.MUL {
				return ""
			}
		case *ssa.DebugRef:
		default:
			return ""
		}
	}
	if len(fields) == 0 {
		return ""
	}
	tok := fmt.Sprintf("lit<%s>@%p", typeShort(derefT(cell.Type())), cell)
	if c.structLits == nil {
		c.structLits = map[string]map[string]string{}
	}
	c.structLits[tok] = fields
	return tok
}

// cannotFail: the call has no way of reporting failure — no result at all, or results none of which is an error or a
// trailing boolean verdict.
func cannotFail(sig *types.Signature) bool {
	rs := sig.Results()
	if rs.Len() == 0 {
		return true
	}
	for i := 0; i < rs.Len(); i++ {
		if isErrType(rs.At(i).Type()) {
			return false
		}
	}
	return !isBoolType(rs.At(rs.Len() - 1).Type())
}

// hasEventIn: some instruction of h (or of the unexported helpers of its package it calls, two levels down) is an event.
func hasEventIn(h *ssa.Function, events func(in ssa.Instruction) bool, d int) bool {
	found := false
	forEachInstr(h, func(in ssa.Instruction) {
		if found {
			return
		}
		if events(in) {
			found = true
			return
		}
		if cl, ok := in.(*ssa.Call); ok && d < 2 {
			if g := cl.Call.StaticCallee(); g != nil && g != h && inModule(g) && g.Blocks != nil && pkgPathOf(g) == pkgPathOf(h) && (g.Object() == nil || !g.Object().Exported()) {
				if hasEventIn(g, events, d+1) {
					found = true
				}
			}
		}
	})
	return found
}

// membershipAccessor: the call is to a module function whose whole body is one comma-ok lookup of a parameter in a
// parameter (or receiver), handing back the ok flag; returns that lookup and the function.
func membershipAccessor(cl *ssa.Call) (*ssa.Lookup, *ssa.Function) {
	g := cl.Call.StaticCallee()
	if g == nil || !inModule(g) || len(g.Blocks) != 1 || !isBoolType(cl.Type()) {
		return nil, nil
	}
	var lk *ssa.Lookup
	for _, in := range g.Blocks[0].Instrs {
		switch x := in.(type) {
		case *ssa.Lookup:
			if lk != nil || !x.CommaOk {
				return nil, nil
			}
			lk = x
		case *ssa.Extract, *ssa.DebugRef:
		case *ssa.Return:
			if lk == nil || len(x.Results) != 1 {
				return nil, nil
			}
			ex, ok := x.Results[0].(*ssa.Extract)
			if !ok || ex.Tuple != ssa.Value(lk) || ex.Index != 1 {
				return nil, nil
			}
		default:
			return nil, nil
		}
	}
	if lk == nil {
		return nil, nil
	}
	if _, ok := lk.X.(*ssa.Parameter); !ok {
		return nil, nil
	}
	if _, ok := lk.Index.(*ssa.Parameter); !ok {
		return nil, nil
	}
	return lk, g
}

// lookupAccessorErr: the call is to a module function (value, error) that makes one comma-ok lookup, hands back the
// looked-up value on success and succeeds only when the lookup found the key; returns that lookup and the function.
func (c *Ctx) lookupAccessorErr(cl *ssa.Call) (*ssa.Lookup, *ssa.Function) {
	g := cl.Call.StaticCallee()
	if g == nil || !inModule(g) || g.Blocks == nil || len(g.Blocks) > 4 || !returnsError(g) || g.Signature.Results().Len() != 2 {
		return nil, nil
	}
	if r, ok := c.lookupAccMemo[g]; ok {
		return r, g
	}
	if c.lookupAccMemo == nil {
		c.lookupAccMemo = map[*ssa.Function]*ssa.Lookup{}
	}
	c.lookupAccMemo[g] = nil
	var lk *ssa.Lookup
	n := 0
	forEachInstr(g, func(in ssa.Instruction) {
		if x, ok := in.(*ssa.Lookup); ok {
			n++
			if x.CommaOk {
				lk = x
			}
		}
	})
	if lk == nil || n != 1 {
		return nil, g
	}
	srs := successReturns(g)
	if len(srs) != 1 {
		return nil, g
	}
	if ex, ok := returnedValue(srs[0], 0).(*ssa.Extract); !ok || ex.Tuple != ssa.Value(lk) || ex.Index != 0 {
		return nil, g
	}
	if okG, _, k := c.Guard(g, nil, &GCheck{Name: "the lookup found the key", NoDescend: true, MatchOK: func(c *Ctx, v ssa.Value, env Env) bool { return v == ssa.Value(lk) }}, nil); !okG || k == 0 {
		return nil, g
	}
	c.lookupAccMemo[g] = lk
	return lk, g
}

func maySucceedRet(b *ssa.BasicBlock) bool {
	r, ok := b.Instrs[len(b.Instrs)-1].(*ssa.Return)
	return ok && maySucceed(r)
}
