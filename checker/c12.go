package main

import (
	"fmt"
	"strings"

	"golang.org/x/tools/go/ssa"
)

func init() {
	props["C12"] = &propDef{extraPkgs: []string{jsonPatchPkg}, run: runC12, explanation: "C12 decided statically by a may-write effect analysis (engine E: whole call tree with interface calls resolved by class hierarchy over non-mock implementations, flow-insensitive, field-based, two-level Reach/Holds lattice): no store, map update, append, copy, delete, in-place sort or decode anywhere in the call trees of (*DocumentComposer).ApplyPatches and (*Applier).Apply targets memory reachable from their arguments (previous model and its document at any depth, anchored operation, patch values); values handed to external code go only to a reviewed read-only table; plus the atomic-failure shape: every return that may carry an error carries a nil document / nil model. Sound under the stated assumptions (no unsafe, no reflection writes; errors expose no mutable input reference). The applier-level clauses are the return-shape and provenance rules of C01, which run inside this check."}
}

func runC12(c *Ctx) {
	ap := c.Method(pComposer, "DocumentComposer", "ApplyPatches")
	apply := c.Method(pApplier, "Applier", "Apply")
	if ap == nil || apply == nil {
		c.Unresolved("C12.E1", "(*DocumentComposer).ApplyPatches / (*Applier).Apply")
		return
	}
	nonRecv := func(f *ssa.Function) []*ssa.Parameter {
		if f.Signature.Recv() != nil {
			return f.Params[1:]
		}
		return f.Params
	}
	c.runEffect("C12.E1", []*ssa.Function{ap}, nonRecv, "ApplyPatches")
	c.runEffect("C12.E2", []*ssa.Function{apply}, nonRecv, "Apply")
	// positive / negative examples for the effect engine (its expected finding count on a healthy tree is zero)
	if w, err := buildWitness(c.Fset); err == nil {
		all := func(f *ssa.Function) []*ssa.Parameter { return f.Params }
		viol := func(name string) int {
			a := &effect{c: c, fl: map[ssa.Value]int{}, tup: map[ssa.Value]map[int]int{}, locs: map[string]bool{}, ret: map[*ssa.Function]map[int]int{}, viol: map[string]effViolation{}, ext: map[string]int{}}
			a.run([]*ssa.Function{w.fns[name]}, all)
			return len(a.viol)
		}
		c.alive("C12.E1", "write into a nested map of the input / append to an input slice", viol("mutateWitness") > 0 && viol("appendWitness") > 0, viol("copyOK") == 0)
	} else {
		c.Check("C12.E1", "positive-example:build", false, 0, "built-in positive examples could not be built: "+err.Error())
	}
	c.Min("C12.E1", 3)
	c.Min("C12.E2", 2)

	// import inventory: no unsafe / reflect-based writes in module code reachable here
	bad := []string{}
	for path, p := range c.TPkg {
		if !strings.HasPrefix(path, modPath) || isMockPath(path) {
			continue
		}
		for imp := range p.Imports {
			if imp == "unsafe" {
				bad = append(bad, path+" imports unsafe")
			}
		}
	}
	c.Check("C12.E1", "no-unsafe-in-module", len(bad) == 0, 0, fmt.Sprintf("module packages importing unsafe: %v", bad))

	// ---- R1 atomic failure shape (composer): functions returning (document.Document, error)
	n := 0
	seen := map[*ssa.Function]bool{}
	var visit func(f *ssa.Function)
	isDocErr := func(f *ssa.Function) bool {
		r := f.Signature.Results()
		return r.Len() == 2 && isErrType(r.At(1).Type()) && strings.HasSuffix(typeShort(r.At(0).Type()), "document.Document")
	}
	visit = func(f *ssa.Function) {
		if seen[f] || f.Blocks == nil || !inModule(f) {
			return
		}
		seen[f] = true
		if isDocErr(f) {
			n++
			ok := true
			var bad []string
			for _, r := range returnsOf(f) {
				e := r.Results[1]
				if k, isK := e.(*ssa.Const); isK && k.IsNil() {
					continue
				}
				if c.Path(r.Results[0], nil) == "nil" {
					continue
				}
				// pass-through of a (doc, err) pair produced by one call to another checked function
				x0, ok0 := r.Results[0].(*ssa.Extract)
				x1, ok1 := r.Results[1].(*ssa.Extract)
				if ok0 && ok1 && x0.Tuple == x1.Tuple && x0.Index == 0 && x1.Index == 1 {
					if cl, isC := x0.Tuple.(*ssa.Call); isC {
						// every possible callee (a static one, or the entries of a function table) is itself checked
						cs := c.Callees(&cl.Call)
						all := len(cs) > 0
						for _, g := range cs {
							if !inModule(g) || !isDocErr(g) {
								all = false
							}
						}
						if all {
							continue
						}
					}
				}
				ok = false
				bad = append(bad, c.pos(r.Pos()))
			}
			c.Check("C12.R1", short(f.String())+":error-carries-nil-document", ok, f.Pos(), fmt.Sprintf("every return of %s that may carry an error carries a nil document %v", short(f.String()), bad))
		}
		forEachInstr(f, func(in ssa.Instruction) {
			if ci, isC := in.(ssa.CallInstruction); isC {
				for _, g := range c.Callees(ci.Common()) {
					visit(g)
				}
			}
		})
	}
	visit(ap)
	c.Min("C12.R1", 10)
	// applier: refusing returns carry a nil model (same rule as C01.R1)
	for typ, f := range c.applyFuncs("C12.R1") {
		ok := true
		for _, r := range returnsOf(f) {
			if !maySucceed(r) && c.Path(r.Results[0], nil) != "nil" && !alwaysNilResult(r.Results[0]) {
				ok = false
			}
		}
		c.Check("C12.R1", "apply-"+typ+":refusal-carries-nil-model", ok, f.Pos(), "a refused operation yields an error and no state")
	}
	c.Assume("no unsafe / cgo / reflection-based writes in module code; values of type error expose no mutable reference to an input; encoding/json.Marshal, fmt, slog and the other externals in the printed table do not write through their arguments; json-patch Apply works on its own decoded copy (it receives freshly marshalled bytes)")
	// "a refused operation yields an error and no state", and a patch list that fails leaves the previous document in
	// the degraded state: at the level of the applier these are the return-shape and field-provenance rules of the state
	// fold (C01.R1 / C01.P1: the document of an accepted model is the previous one, a fresh one, or the composer's result)
	c.apart(runC01)
}
