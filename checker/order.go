package main

// Engine O: ordering-abstract decision of loop-free integer predicates. The function's CFG (callees
// inlined) is turned into a decision tree whose atoms are comparisons between a finite set of terms;
// the tree is then evaluated on every weak ordering of those terms and compared with a reference
// predicate. The domain is finite and complete for functions that touch their integer arguments only
// through comparisons, so this decides the predicate for all inputs.

import (
	"fmt"
	"go/constant"
	"go/token"
	"go/types"
	"sort"
	"strings"

	"golang.org/x/tools/go/ssa"
)

type ocond struct {
	L, R  string
	Op    token.Token
	Truth bool
}

type opath struct {
	Conds []ocond
	Ret   []string // per result: integer term, "nil", "err", "true", "false" or opaque path
}

type oenum struct {
	c     *Ctx
	limit int
	err   error
	// stopAt: a call at which a path ends; the path's "result" is the call's argument of the returned index (used to
	// read the value a function hands to a callee the way a returned value is read)
	stopAt func(call *ssa.Call) (bool, int)
}

func isIntType(t types.Type) bool {
	b, ok := t.Underlying().(*types.Basic)
	return ok && b.Info()&types.IsInteger != 0
}

func (o *oenum) term(v ssa.Value, st map[ssa.Value]string) string {
	if s, ok := st[v]; ok {
		return s
	}
	switch x := v.(type) {
	case *ssa.Const:
		return o.c.Path(x, nil)
	case *ssa.Convert:
		if isIntType(x.Type()) && isIntType(x.X.Type()) {
			// signed -> unsigned is not order preserving (negative values wrap to huge ones): keep it opaque.
			// unsigned -> signed of the same width is accepted under the stated assumption (values < 2^63).
			db := x.Type().Underlying().(*types.Basic)
			sb := x.X.Type().Underlying().(*types.Basic)
			if db.Info()&types.IsUnsigned != 0 && sb.Info()&types.IsUnsigned == 0 {
				return "conv<" + typeShort(x.Type()) + ">(" + o.term(x.X, st) + ")"
			}
			return o.term(x.X, st)
		}
	case *ssa.ChangeType:
		return o.term(x.X, st)
	case *ssa.BinOp:
		if x.Op == token.ADD {
			return "(" + o.term(x.X, st) + " + " + o.term(x.Y, st) + ")"
		}
	case *ssa.UnOp:
		if x.Op == token.MUL {
			return o.term(x.X, st)
		}
	case *ssa.FieldAddr:
		return o.term(x.X, st) + "." + fieldName(x.X.Type(), x.Field)
	case *ssa.Field:
		return o.term(x.X, st) + "." + fieldName(x.X.Type(), x.Field)
	case *ssa.IndexAddr:
		return o.term(x.X, st) + "[" + o.term(x.Index, st) + "]"
	case *ssa.Index:
		return o.term(x.X, st) + "[" + o.term(x.Index, st) + "]"
	case *ssa.Parameter:
		return fmt.Sprintf("$%d", paramIndex(x))
	case *ssa.FreeVar:
		return o.c.Path(x, nil)
	}
	return o.c.Path(v, nil)
}

func isCmp(op token.Token) bool {
	switch op {
	case token.EQL, token.NEQ, token.LSS, token.LEQ, token.GTR, token.GEQ:
		return true
	}
	return false
}

// paths enumerates the decision paths of f with parameters bound by st0.
func (o *oenum) paths(f *ssa.Function, st0 map[ssa.Value]string, depth int) []opath {
	var out []opath
	if f.Blocks == nil || depth > 4 {
		o.err = fmt.Errorf("cannot inline %s", f)
		return nil
	}
	o.c.Analysed(f)
	// phiVal: along the current path, the value a boolean φ stands for (the incoming edge's value, chased through
	// earlier φs) — so that `return a < b || (a == b && c < d)` is decided like the if-chain it abbreviates
	phiVal := map[ssa.Value]ssa.Value{}
	resolve := func(v ssa.Value) ssa.Value {
		for d := 0; d < 8; d++ {
			nv, ok := phiVal[v]
			if !ok {
				break
			}
			v = nv
		}
		return v
	}
	var walk func(b *ssa.BasicBlock, idx int, pred *ssa.BasicBlock, st map[ssa.Value]string, conds []ocond, onPath map[*ssa.BasicBlock]bool)
	walk = func(b *ssa.BasicBlock, idx int, pred *ssa.BasicBlock, st map[ssa.Value]string, conds []ocond, onPath map[*ssa.BasicBlock]bool) {
		if o.err != nil {
			return
		}
		if len(out) > o.limit {
			o.err = fmt.Errorf("too many paths in %s", f)
			return
		}
		if idx == 0 {
			if onPath[b] {
				o.err = fmt.Errorf("loop in %s: not a loop-free predicate", f)
				return
			}
			onPath = copyBB(onPath)
			onPath[b] = true
			// phis
			pi := -1
			for i, p := range b.Preds {
				if p == pred {
					pi = i
				}
			}
			for _, in := range b.Instrs {
				phi, ok := in.(*ssa.Phi)
				if !ok {
					break
				}
				if pi >= 0 {
					st = copySt(st)
					st[phi] = o.term(phi.Edges[pi], st)
					// an error result assembled along the path (`var err error; switch { case …: err = … }; return err`)
					if isErrType(phi.Type()) {
						if _, known := st[phi.Edges[pi]]; !known {
							if k, isK := phi.Edges[pi].(*ssa.Const); isK && k.IsNil() {
								st[phi] = "nil"
							} else if nonNilErr(phi.Edges[pi], pred.Instrs[len(pred.Instrs)-1]) {
								st[phi] = "err"
							}
						}
					}
					if isBoolType(phi.Type()) {
						// path-local: restored when the walk returns to the branching point
						old, had := phiVal[phi]
						phiVal[phi] = phi.Edges[pi]
						defer func() {
							if had {
								phiVal[phi] = old
							} else {
								delete(phiVal, phi)
							}
						}()
					}
				}
			}
		}
		for i := idx; i < len(b.Instrs); i++ {
			switch x := b.Instrs[i].(type) {
			case *ssa.Call:
				if o.stopAt != nil && depth == 0 {
					if hit, k := o.stopAt(x); hit && k < len(x.Call.Args) {
						out = append(out, opath{Conds: conds, Ret: []string{o.term(x.Call.Args[k], st)}})
						return
					}
				}
				g := x.Call.StaticCallee()
				if g != nil && inModule(g) && g.Blocks != nil && inlinable(g) {
					cst := map[ssa.Value]string{}
					for k, a := range x.Call.Args {
						if k < len(g.Params) {
							cst[g.Params[k]] = o.term(a, st)
						}
					}
					sub := o.paths(g, cst, depth+1)
					for _, sp := range sub {
						nst := copySt(st)
						if len(sp.Ret) == 1 {
							nst[x] = sp.Ret[0]
						} else {
							for _, r := range *x.Referrers() {
								if e, ok := r.(*ssa.Extract); ok && e.Index < len(sp.Ret) {
									nst[e] = sp.Ret[e.Index]
								}
							}
						}
						walk(b, i+1, pred, nst, append(append([]ocond{}, conds...), sp.Conds...), onPath)
					}
					return
				}
			case *ssa.If:
				cond := resolve(x.Cond)
				truthFlip := false
				for {
					if u, ok := cond.(*ssa.UnOp); ok && u.Op == token.NOT {
						cond = resolve(u.X)
						truthFlip = !truthFlip
						continue
					}
					break
				}
				if bo, ok := cond.(*ssa.BinOp); ok && isCmp(bo.Op) {
					l, r := o.term(bo.X, st), o.term(bo.Y, st)
					// an inlined helper's error result is known on this path ("err" / "nil"): the test is decided
					if (bo.Op == token.EQL || bo.Op == token.NEQ) && isErrType(bo.X.Type()) && (l == "err" || l == "nil") && (r == "err" || r == "nil") && (l == "nil" || r == "nil") {
						k := 1
						if (l == r) == (bo.Op == token.EQL) != truthFlip {
							k = 0
						}
						walk(b.Succs[k], 0, b, st, conds, onPath)
						return
					}
					for k, truth := range []bool{true, false} {
						walk(b.Succs[k], 0, b, st, append(append([]ocond{}, conds...), ocond{l, r, bo.Op, truth != truthFlip}), onPath)
					}
					return
				}
				s := o.term(cond, st)
				if s == "true" || s == "false" {
					k := 0
					if (s == "false") != truthFlip {
						k = 1
					}
					walk(b.Succs[k], 0, b, st, conds, onPath)
					return
				}
				o.err = fmt.Errorf("branch on a non-comparison value %s in %s", s, f)
				return
			case *ssa.Jump:
				walk(b.Succs[0], 0, b, st, conds, onPath)
				return
			case *ssa.Return:
				var ret []string
				for _, r := range x.Results {
					switch {
					case isErrType(r.Type()):
						if s, ok := st[r]; ok {
							ret = append(ret, s)
						} else if k, isK := r.(*ssa.Const); isK && k.IsNil() {
							ret = append(ret, "nil")
						} else if nonNilErr(r, x) {
							ret = append(ret, "err")
						} else {
							ret = append(ret, "?err:"+o.c.Path(r, nil))
						}
					case isBoolType(r.Type()):
						flip := false
						rv := resolve(r)
						for {
							if u, ok := rv.(*ssa.UnOp); ok && u.Op == token.NOT {
								rv = resolve(u.X)
								flip = !flip
								continue
							}
							break
						}
						if k, isK := rv.(*ssa.Const); isK && k.Value != nil && len(x.Results) == 1 {
							b := constant.BoolVal(k.Value) != flip
							out = append(out, opath{Conds: conds, Ret: []string{fmt.Sprint(b)}})
							return
						}
						if bo, ok := rv.(*ssa.BinOp); ok && isCmp(bo.Op) && flip {
							l, rr := o.term(bo.X, st), o.term(bo.Y, st)
							out = append(out, opath{Conds: append(append([]ocond{}, conds...), ocond{l, rr, bo.Op, true}), Ret: []string{"false"}})
							out = append(out, opath{Conds: append(append([]ocond{}, conds...), ocond{l, rr, bo.Op, false}), Ret: []string{"true"}})
							return
						}
						if bo, ok := rv.(*ssa.BinOp); ok && isCmp(bo.Op) {
							// `return a < b`: split into two paths
							l, rr := o.term(bo.X, st), o.term(bo.Y, st)
							out = append(out, opath{Conds: append(append([]ocond{}, conds...), ocond{l, rr, bo.Op, true}), Ret: []string{"true"}})
							out = append(out, opath{Conds: append(append([]ocond{}, conds...), ocond{l, rr, bo.Op, false}), Ret: []string{"false"}})
							return
						}
						ret = append(ret, o.term(r, st))
					default:
						ret = append(ret, o.term(r, st))
					}
				}
				out = append(out, opath{Conds: conds, Ret: ret})
				return
			case *ssa.Panic:
				out = append(out, opath{Conds: conds, Ret: []string{"panic"}})
				return
			}
		}
	}
	walk(f.Blocks[0], 0, nil, copySt(st0), nil, map[*ssa.BasicBlock]bool{})
	return out
}

func inlinable(g *ssa.Function) bool {
	if len(g.Blocks) > 12 {
		return false
	}
	res := g.Signature.Results()
	if res.Len() == 0 || res.Len() > 2 {
		return false
	}
	for i := 0; i < res.Len(); i++ {
		t := res.At(i).Type()
		if !isIntType(t) && !isErrType(t) && !isBoolType(t) {
			return false
		}
	}
	// loop-free
	for _, b := range g.Blocks {
		for _, s := range b.Succs {
			if s.Dominates(b) {
				return false
			}
		}
	}
	return true
}

func copySt(m map[ssa.Value]string) map[ssa.Value]string {
	n := make(map[ssa.Value]string, len(m)+2)
	for k, v := range m {
		n[k] = v
	}
	return n
}

func copyBB(m map[*ssa.BasicBlock]bool) map[*ssa.BasicBlock]bool {
	n := make(map[*ssa.BasicBlock]bool, len(m)+1)
	for k, v := range m {
		n[k] = v
	}
	return n
}

// DecisionPaths is the entry: decision paths of f with the given symbolic parameter names.
func (c *Ctx) DecisionPaths(f *ssa.Function, params map[int]string) ([]opath, error) {
	o := &oenum{c: c, limit: 4096}
	st := map[ssa.Value]string{}
	for i, p := range f.Params {
		if s, ok := params[i]; ok {
			st[p] = s
		}
	}
	ps := o.paths(f, st, 0)
	return ps, o.err
}

// DecisionPathsToCall: like DecisionPaths, with every path ending at the first call stop selects; the path's result is
// that call's argument.
func (c *Ctx) DecisionPathsToCall(f *ssa.Function, params map[int]string, stop func(call *ssa.Call) (bool, int)) ([]opath, error) {
	o := &oenum{c: c, limit: 4096, stopAt: stop}
	st := map[ssa.Value]string{}
	for i, p := range f.Params {
		if s, ok := params[i]; ok {
			st[p] = s
		}
	}
	ps := o.paths(f, st, 0)
	return ps, o.err
}

// weakOrderings enumerates all weak orderings (rank assignments, ranks forming a prefix 0..k) of n points.
func weakOrderings(n int) [][]int {
	var out [][]int
	cur := make([]int, n)
	var rec func(i int)
	rec = func(i int) {
		if i == n {
			used := map[int]bool{}
			mx := 0
			for _, r := range cur {
				used[r] = true
				if r > mx {
					mx = r
				}
			}
			for r := 0; r <= mx; r++ {
				if !used[r] {
					return
				}
			}
			out = append(out, append([]int(nil), cur...))
			return
		}
		for r := 0; r < n; r++ {
			cur[i] = r
			rec(i + 1)
		}
	}
	rec(0)
	return out
}

func cmpRank(a, b int, op token.Token) bool {
	switch op {
	case token.EQL:
		return a == b
	case token.NEQ:
		return a != b
	case token.LSS:
		return a < b
	case token.LEQ:
		return a <= b
	case token.GTR:
		return a > b
	case token.GEQ:
		return a >= b
	}
	return false
}

// evalPaths evaluates the decision paths under a rank assignment; returns the unique consistent path.
func evalPaths(paths []opath, rank map[string]int) (*opath, error) {
	var hit *opath
	for i := range paths {
		p := &paths[i]
		ok := true
		for _, cd := range p.Conds {
			a, ha := rank[cd.L]
			b, hb := rank[cd.R]
			if !ha || !hb {
				return nil, fmt.Errorf("comparison between terms outside the ordering domain: %s %s %s", cd.L, cd.Op, cd.R)
			}
			if cmpRank(a, b, cd.Op) != cd.Truth {
				ok = false
				break
			}
		}
		if ok {
			if hit != nil {
				return nil, fmt.Errorf("decision tree is not deterministic")
			}
			hit = p
		}
	}
	if hit == nil {
		return nil, fmt.Errorf("no decision path is consistent with the ordering")
	}
	return hit, nil
}

func termsOf(paths []opath) []string {
	set := map[string]bool{}
	for _, p := range paths {
		for _, cd := range p.Conds {
			set[cd.L] = true
			set[cd.R] = true
		}
	}
	var out []string
	for s := range set {
		out = append(out, s)
	}
	sort.Strings(out)
	return out
}

func describeOrdering(points []string, ranks []int) string {
	type pr struct {
		p string
		r int
	}
	var ps []pr
	for i, p := range points {
		ps = append(ps, pr{p, ranks[i]})
	}
	sort.Slice(ps, func(i, j int) bool {
		if ps[i].r != ps[j].r {
			return ps[i].r < ps[j].r
		}
		return ps[i].p < ps[j].p
	})
	var sb strings.Builder
	for i, x := range ps {
		if i > 0 {
			if x.r == ps[i-1].r {
				sb.WriteString(" = ")
			} else {
				sb.WriteString(" < ")
			}
		}
		sb.WriteString(x.p)
	}
	return sb.String()
}
