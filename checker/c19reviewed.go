package main

// c19Reviewed registers the reviewed discharge reasons for panic-capable constructs (C19).
// Each entry: function, canonical expression, one-line reason. Entries are printed in evidence.
func c19Reviewed() {
	jc := "internal/jsoncanonicalizer."
	// Transform: every read of jsonData[index] sits under `index < jsonDataLength`, jsonDataLength = len(jsonData) assigned once
	reviewed(jc+"Transform", "$0[new<int>#1]", "loop condition `index < jsonDataLength` (jsonDataLength = len(jsonData), assigned once) guards the read in the same iteration", `(new<int>#1 < len($0))=true`)
	reviewed(jc+"Transform$4", "up:$0[up:new<int>#1]", "nextChar reads jsonData[index] only inside `if index < jsonDataLength`", `(up:new<int>#1 < up:len($0))=true`)
	reviewed(jc+"Transform$10", "up:$0[up:new<int>#1]", "parseQuotedString reads jsonData[index] only inside `if index < jsonDataLength`", `(up:new<int>#1 < up:len($0))=true`)
	reviewed(jc+"Transform$7", "up:$0[up:new<int>#1:up:new<int>#1]", "getUEscape slices [start:index] only when the four nextChar calls reported no error, i.e. index advanced 4 times within bounds (on EOF globalError is set and the function returns before slicing)", `(up:new<error>#0 == nil)=true`)
	reviewed(jc+"Transform$9", "global:internal/jsoncanonicalizer.asciiEscapes[ι]", "i ranges over binaryEscapes, which has the same length (7) as asciiEscapes — pinned by C05.T1", `(ι < len(global:internal/jsoncanonicalizer.binaryEscapes))=true`)
	reviewed(jc+"Transform$10", "global:internal/jsoncanonicalizer.binaryEscapes[ι]", "i ranges over asciiEscapes, which has the same length (7) as binaryEscapes — pinned by C05.T1", `(ι < len(global:internal/jsoncanonicalizer.asciiEscapes))=true`)
	// NumberToJSON: indices derive from the documented output format of strconv.FormatFloat
	nf := jc + "NumberToJSON"
	reviewed(nf, `phi(strconv.FormatFloat(phi($0|-$0),103,17,64)|strconv.FormatFloat(phi($0|-$0),phi(101|102),-1,64))[(strings.IndexByte(strconv.FormatFloat(phi($0|-$0),phi(101|102),-1,64),101) + 2)]`, "exponent form is d.ddde±dd: at least two characters follow 'e' (FormatFloat prints a sign and >= 2 exponent digits); gform replaces es6Formatted only when it has the same length", `(0 < strings.IndexByte(strconv.FormatFloat(phi($0|-$0),phi(101|102),-1,64),101))=true`)
	reviewed(nf, `phi(strconv.FormatFloat(phi($0|-$0),103,17,64)|strconv.FormatFloat(phi($0|-$0),phi(101|102),-1,64))[:(strings.IndexByte(strconv.FormatFloat(phi($0|-$0),phi(101|102),-1,64),101) + 2)]`, "same: exponent+2 < len", `(0 < strings.IndexByte(strconv.FormatFloat(phi($0|-$0),phi(101|102),-1,64),101))=true`)
	reviewed(nf, `phi(strconv.FormatFloat(phi($0|-$0),103,17,64)|strconv.FormatFloat(phi($0|-$0),phi(101|102),-1,64))[(strings.IndexByte(strconv.FormatFloat(phi($0|-$0),phi(101|102),-1,64),101) + 3):]`, "same: exponent+3 <= len because two exponent digits are always printed", `(0 < strings.IndexByte(strconv.FormatFloat(phi($0|-$0),phi(101|102),-1,64),101))=true`)
	reviewed(nf, `strconv.FormatFloat(phi($0|-$0),phi(101|102),-1,64)[ι]`, "i starts at len >= 12 and decreases while the digit is '0'; the leading digit of an integer >= 1e11 is not '0', so i-1 >= 0", `(12 <= len(strconv.FormatFloat(phi($0|-$0),phi(101|102),-1,64)))=true`)
	reviewed(nf, `strconv.FormatFloat(phi($0|-$0),102,0,64)[ι]`, "fix has the same number of integer digits as es6Formatted (both 'f' formats of the same integer-valued double), and i < len(es6Formatted) here", `(12 <= len(strconv.FormatFloat(phi($0|-$0),phi(101|102),-1,64)))=true`, `(len(strconv.FormatFloat(phi($0|-$0),phi(101|102),-1,64)) != ι)=true`)
	reviewed(nf, `strconv.FormatFloat(phi($0|-$0),102,0,64)[:ι]`, "i-1 >= 0 and <= len(fix), see above", `(12 <= len(strconv.FormatFloat(phi($0|-$0),phi(101|102),-1,64)))=true`, `(len(strconv.FormatFloat(phi($0|-$0),phi(101|102),-1,64)) != ι)=true`)
	reviewed(nf, `strconv.FormatFloat(phi($0|-$0),phi(101|102),-1,64)[ι:]`, "i <= len(es6Formatted)", `(12 <= len(strconv.FormatFloat(phi($0|-$0),phi(101|102),-1,64)))=true`)
	// ParseDID
	pd := "(*versions/1_0/operationparser.Parser).ParseDID"
	reviewed(pd, `$2[:strings.LastIndex($2,":")]`, "this branch is taken only when the DID with the namespace prefix removed still contains ':' — removal cannot introduce one, so the DID contains ':' and LastIndex >= 0", `contains(strings.ReplaceAll($2,($1 + ":"),""),":")=true`)
	// sortedKeys
	reviewed("patch.sortedKeys", "makeslice<[]string>[ι]", "keys has len(m) elements and i counts the iterations of `range m`, of which there are exactly len(m)", `next(range($0))#0=true`)
	// applier: SuffixData of a parsed create operation
	reviewed("(*versions/1_0/operationapplier.Applier).applyCreateOperation", "deref invoke<versions/1_0/operationapplier.OperationParser>.ParseCreateOperation[$0.OperationParser]($1.OperationRequest,true)#0.SuffixData", "ParseCreateOperation stores schema.SuffixData in the model (C03.P1 model.SuffixData) and succeeds, in batch mode too, only across ValidateSuffixData(schema.SuffixData), which rejects nil (C03.P1 ValidateSuffixData|batch=true, C07.G1 ValidateSuffixData:nil-rejected)", `(invoke<versions/1_0/operationapplier.OperationParser>.ParseCreateOperation[$0.OperationParser]($1.OperationRequest,true)#1 == nil)=true`)
	// the destination-index guard of the JSON-patch handler (copy / move beyond the end of an array)
	vdi := "versions/1_0/doccomposer.validateDestinationIndex"
	reviewed(vdi, `strings.Split(versions/1_0/doccomposer.stringMember($0,"path"),"/")[1:(len(strings.Split(versions/1_0/doccomposer.stringMember($0,"path"),"/")) - 1)]`, "tokens has at least two elements here (the function returns before when len(tokens) < 2), so 1 <= len(tokens)-1", `(2 <= len(strings.Split(versions/1_0/doccomposer.stringMember($0,"path"),"/")))=true`)
	reviewed(vdi, `new<interface{}>#0.([]interface{})#0[strconv.Atoi(strings.Split(versions/1_0/doccomposer.stringMember($0,"path"),"/")[1:(len(strings.Split(versions/1_0/doccomposer.stringMember($0,"path"),"/")) - 1)][ι])#0]`, "the index was parsed without error and lies in [0, len(container)): the function returns before when i < 0 or i >= len(container)", `(strconv.Atoi(strings.Split(versions/1_0/doccomposer.stringMember($0,"path"),"/")[1:(len(strings.Split(versions/1_0/doccomposer.stringMember($0,"path"),"/")) - 1)][ι])#0 < len(new<interface{}>#0.([]interface{})#0))=true`, `(0 <= strconv.Atoi(strings.Split(versions/1_0/doccomposer.stringMember($0,"path"),"/")[1:(len(strings.Split(versions/1_0/doccomposer.stringMember($0,"path"),"/")) - 1)][ι])#0)=true`)

}
