package main

import (
	"fmt"
	"go/token"
	"go/types"
	"sort"
	"strings"

	"golang.org/x/tools/go/ssa"
)

func init() {
	props["C01"] = &propDef{extraPkgs: []string{jsonPatchPkg}, run: runC01, explanation: "Structural clause of C01 decided statically: the applier's per-step transition function. (T1) Apply dispatches exactly the four operation types to four distinct functions and refuses everything else; (G1) create is gated on an empty previous state, the others on an existing one; (R1) every refusing return carries a nil model and every accepting return carries a model allocated in that call; (P1) per-field provenance of the returned ResolutionModel equals the Sidetree v1 table (which object of (operation, previous model) each of the 15 fields is copied from, per type); (G2) the conditional installs (update commitment, patched document) lie behind exactly the documented checks on every CFG path (delta hash, delta validation, anchoring window, patch application) and (G3) after the documented 'advance from here' point no path refuses. Because each accepted step builds a fresh model from (operation, previous model) only, the fold over any history is determined by these per-step facts. Not decided: that the callees (hashing, parser, composer) compute what they should — see C02/C03/C06/C07/C09/C10. The C09 window rules (predicate decided on all weak orderings, wiring into the apply functions) run inside this check as well. The acceptance conditions of C02 are refusal classes of the fold and run inside this check, as does the rule that ApplyPatches does not write the document it is given (C12.E1); an ApplyPatches call that sits in a helper must hand the composer's verdict back unchanged. The composer's own refusals of a validated JSON patch are the closed set of C10; the copy guard's token-count comparison is decided on the three orderings of the two counts. ApplyPatches is a left fold over the whole list (C10.P1 runs here too). All of C10 and of C07 run inside this check; a tail of an apply function moved into an unexported helper is followed (events and stores through the object it is handed)."}
}

func runC01(c *Ctx) {
	apply := c.Method(pApplier, "Applier", "Apply")
	if apply == nil {
		c.Unresolved("C01.T1", "(*Applier).Apply")
		return
	}
	af := c.applyFuncs("C01.T1")
	rmT := c.NamedType("api/protocol", "ResolutionModel")
	isValidMH := c.Fn("hashing", "IsValidModelMultihash")
	verifyJWS := c.Fn("jwsutil", "VerifyJWS")
	if rmT == nil || isValidMH == nil || verifyJWS == nil {
		c.Unresolved("C01.T1", "protocol.ResolutionModel / hashing.IsValidModelMultihash / jwsutil.VerifyJWS")
		return
	}

	// ---- T1 dispatch
	{
		distinct := map[*ssa.Function]bool{}
		for _, t := range opTypes {
			f := af[t]
			c.Check("C01.T1", "dispatch:"+t, f != nil && !distinct[f], apply.Pos(), fmt.Sprintf("operation type %q dispatches to its own apply function (%v)", t, f))
			if f != nil {
				distinct[f] = true
			}
		}
		dv := c.dispatch(apply, func(p string) bool { return p == "$1.Type" })
		c.Check("C01.T1", "dispatch:case-set", len(dv.arms) == 4, apply.Pos(), fmt.Sprintf("Apply dispatches over %d operation-type constants (expected exactly create, update, recover, deactivate)", len(dv.arms)))
		if dv.table {
			// table form: each entry is the apply function itself (or a literal handing (op, rm) on and its results back);
			// Apply returns the table function's results unchanged and refuses a type outside the table
			for _, t := range opTypes {
				a := dv.arms[`"`+t+`"`]
				okArgs := false
				if a != nil {
					for _, ac := range c.armCalls(dv, a) {
						if ac.callee == af[t] && len(ac.args) == 2 && ac.args[0] == "$1" && ac.args[1] == "$2" {
							okArgs = true
						}
					}
				}
				name := t
				if af[t] != nil {
					name = af[t].Name()
				}
				c.Check("C01.T1", "dispatch:args:"+name, okArgs, apply.Pos(), "apply function receives (operation, previous model) unchanged")
			}
			foundOnly, _ := c.tableGuards(dv)
			okRet := true
			for _, r := range returnsOf(apply) {
				if maySucceed(r) {
					e0, _ := r.Results[0].(*ssa.Extract)
					e1, _ := r.Results[1].(*ssa.Extract)
					if e0 == nil || e1 == nil || e0.Tuple != ssa.Value(dv.site) || e1.Tuple != ssa.Value(dv.site) || e0.Index != 0 || e1.Index != 1 {
						okRet = false
					}
				} else if p0 := c.Path(r.Results[0], nil); p0 != "nil" {
					okRet = false
				}
			}
			c.Check("C01.T1", "dispatch:default-refuses", foundOnly && okRet, apply.Pos(), "Apply returns the table function's results unchanged; a type outside the table yields (nil, error)")
		} else {
			// every call passes (op, rm) unchanged and its results are returned unchanged; every other return refuses
			for _, r := range returnsOf(apply) {
				p0, p1 := c.Path(r.Results[0], nil), c.Path(r.Results[1], nil)
				if strings.HasSuffix(p0, "#0") && strings.HasSuffix(p1, "#1") && p0[:len(p0)-2] == p1[:len(p1)-2] {
					ex, _ := r.Results[0].(*ssa.Extract)
					if ex != nil {
						if cl, ok := ex.Tuple.(*ssa.Call); ok && cl.Call.StaticCallee() != nil {
							a := declArgs(cl)
							c.Check("C01.T1", "dispatch:args:"+cl.Call.StaticCallee().Name(), len(a) == 2 && c.Path(a[0], nil) == "$1" && c.Path(a[1], nil) == "$2", cl.Pos(), "apply function receives (operation, previous model) unchanged")
							continue
						}
					}
				}
				// the handler picked per case into a function variable and called once: the call hands (op, rm) on, every
				// function the variable may hold is one of the four, and "none picked" is refused before the call
				if ex, _ := r.Results[0].(*ssa.Extract); ex != nil && strings.HasSuffix(p0, "#0") && strings.HasSuffix(p1, "#1") {
					if cl, ok := ex.Tuple.(*ssa.Call); ok && !cl.Call.IsInvoke() {
						if phi, isPhi := cl.Call.Value.(*ssa.Phi); isPhi {
							if ex1, _ := r.Results[1].(*ssa.Extract); ex1 != nil && ex1.Tuple == ex.Tuple {
								known := true
								hasNil := false
								for _, e := range phi.Edges {
									if k, isK := e.(*ssa.Const); isK && k.IsNil() {
										hasNil = true
										continue
									}
									fn := funcValueOf(e)
									hit := false
									for _, t := range opTypes {
										hit = hit || (fn != nil && fn == af[t])
									}
									known = known && hit
								}
								nilRefused, _, _ := c.Guard(apply, nil, cmpReject("no handler picked: refused", token.EQL, pathIs(c.Path(phi, nil)), pathIs("nil")), func(in ssa.Instruction) bool { return in == ssa.Instruction(cl) })
								if !hasNil {
									nilRefused = true // (every way to the call has picked one: the default arm refuses at once)
								}
								a := cl.Call.Args
								for _, e := range phi.Edges {
									if fn := funcValueOf(e); fn != nil {
										c.Check("C01.T1", "dispatch:args:"+fn.Name(), len(a) == 2 && c.Path(a[0], nil) == "$1" && c.Path(a[1], nil) == "$2", cl.Pos(), "apply function receives (operation, previous model) unchanged")
									}
								}
								c.Check("C01.T1", "dispatch:default-refuses", known && nilRefused, cl.Pos(), "the handler variable holds one of the four apply functions, and is not called when none was picked")
								continue
							}
						}
					}
				}
				c.Check("C01.T1", "dispatch:default-refuses", !maySucceed(r) && p0 == "nil", r.Pos(), "a return of Apply outside the four cases must be (nil, error): "+p0+", "+p1)
			}
		}
	}
	c.Min("C01.T1", 4+1+4+1)

	for _, typ := range opTypes {
		f := af[typ]
		if f == nil {
			continue
		}
		c.Analysed(f)
		objs := c.builtObjs(f, rmT)
		if len(objs) != 1 {
			c.Check("C01.P1", typ+":allocation", false, f.Pos(), fmt.Sprintf("expected exactly one ResolutionModel built in %s (a literal, or a constructor helper's), found %d", short(f.String()), len(objs)))
			continue
		}
		O := objs[0]
		A := O.v
		AI := O.instr()

		// ---- G1 first-operation guards
		if typ == "create" {
			c.CheckGuard("C01.G1", typ+":requires-empty-state", f, nil, cmpReject("rm.Doc != nil rejected", token.NEQ, pathIs("$2.Doc"), pathIs("nil")))
		} else {
			c.CheckGuard("C01.G1", typ+":requires-existing-state", f, nil, cmpReject("rm.Doc == nil rejected", token.EQL, pathIs("$2.Doc"), pathIs("nil")))
		}

		// ---- R1 refusal shape
		nAcc, nRef := 0, 0
		okShape := true
		var bad []string
		for _, r := range returnsOf(f) {
			if maySucceed(r) {
				nAcc++
				if r.Results[0] != ssa.Value(A) || c.Path(r.Results[1], nil) != "nil" {
					okShape = false
					bad = append(bad, c.pos(r.Pos())+": accepting return must be (the model allocated in this call, nil)")
				}
			} else {
				nRef++
				if c.Path(r.Results[0], nil) != "nil" && !alwaysNilResult(r.Results[0]) {
					okShape = false
					bad = append(bad, c.pos(r.Pos())+": refusing return must carry a nil model")
				}
			}
		}
		c.Check("C01.R1", typ+":return-shape", okShape && nAcc > 0, f.Pos(), fmt.Sprintf("%d accepting / %d refusing returns; %s", nAcc, nRef, strings.Join(bad, "; ")))

		// ---- anchors inside the function
		pc := c.applierParseCall("C01.P1", typ, f)
		if pc == nil {
			continue
		}
		P := pc.P(c) + "#0"
		S := ""
		if typ != "create" {
			sc := c.applierSDCall("C01.P1", typ, f, pc.P(c))
			if sc == nil {
				continue
			}
			S = sc.P(c) + "#0"
		}
		var apCall, apInner *ssa.Call
		if typ != "deactivate" {
			aps := c.treeCalls(f, nil, 0, func(cl *ssa.Call, env Env) bool { return callNamed(cl, "ApplyPatches") })
			if len(aps) != 1 {
				c.Check("C01.P1", typ+":ApplyPatches-call", false, f.Pos(), fmt.Sprintf("expected one ApplyPatches call, found %d", len(aps)))
				continue
			}
			apCall, apInner = aps[0].top, aps[0].call
			a := declArgs(aps[0].call)
			base := c.Path(a[0], aps[0].env)
			if aps[0].fn != f {
				// the call sits in a helper: the helper hands the composer's verdict back unchanged (document and error)
				through := apCall.Call.StaticCallee() == aps[0].fn
				// … or it is handed the model and installs the composer's document itself (decided by the install rules)
				installs := false
				for _, h := range c.objHelperCalls(O) {
					if h.g == aps[0].fn && h.call == apCall {
						forEachInstr(h.g, func(in ssa.Instruction) {
							if storeEvent(h.g.Params[h.k], "Doc", func(v ssa.Value) bool { return v == extractOf(aps[0].call, 0) })(in) {
								installs = true
							}
						})
					}
				}
				for _, r := range returnsOf(aps[0].fn) {
					if installs {
						break
					}
					if len(r.Results) != 2 {
						through = false
						continue
					}
					if maySucceed(r) {
						if returnedValue(r, 0) != extractOf(aps[0].call, 0) {
							through = false
						}
					} else if p0 := c.Path(returnedValue(r, 0), nil); p0 != "nil" && returnedValue(r, 0) != extractOf(aps[0].call, 0) {
						through = false
					}
				}
				c.Check("C01.P1", typ+":ApplyPatches-through-helper", through, aps[0].fn.Pos(), short(aps[0].fn.String())+" returns the composer's document on success and no document on failure")
			}
			if typ == "update" {
				c.Check("C01.P1", typ+":ApplyPatches-base", base == "$2.Doc", apCall.Pos(), "patches are applied to the previous document: "+base)
			} else {
				mm, isMM := a[0].(*ssa.MakeMap)
				fresh := isMM || (aps[0].fn != f && strings.HasPrefix(base, "makemap<"))
				if isMM {
					for _, r := range *mm.Referrers() {
						if _, w := r.(*ssa.MapUpdate); w {
							fresh = false
						}
					}
				}
				c.Check("C01.P1", typ+":ApplyPatches-base", fresh, apCall.Pos(), "patches are applied to a fresh empty document: "+base)
			}
		}

		// ---- P1 field provenance
		want := map[string][]string{
			"LastOperationTransactionTime":   {"$1.TransactionTime"},
			"LastOperationTransactionNumber": {"$1.TransactionNumber"},
			"LastOperationProtocolVersion":   {"$1.ProtocolVersion"},
			"VersionID":                      {"$1.CanonicalReference"},
			"PublishedOperations":            {"$2.PublishedOperations"},
			"UnpublishedOperations":          {"$2.UnpublishedOperations"},
		}
		switch typ {
		case "create":
			want["CreatedTime"] = []string{"$1.TransactionTime"}
			want["CanonicalReference"] = []string{"$1.CanonicalReference"}
			want["EquivalentReferences"] = []string{"$1.EquivalentReferences"}
			want["RecoveryCommitment"] = []string{P + ".SuffixData.RecoveryCommitment"}
			want["AnchorOrigin"] = []string{P + ".SuffixData.AnchorOrigin"}
			want["UpdateCommitment"] = []string{P + ".Delta.UpdateCommitment"}
			want["Doc"] = []string{"<fresh>", "<patched>"}
		case "recover":
			want["CreatedTime"] = []string{"$2.CreatedTime"}
			want["UpdatedTime"] = []string{"$1.TransactionTime"}
			want["CanonicalReference"] = []string{"$1.CanonicalReference"}
			want["EquivalentReferences"] = []string{"$1.EquivalentReferences"}
			want["RecoveryCommitment"] = []string{S + ".RecoveryCommitment"}
			want["AnchorOrigin"] = []string{S + ".AnchorOrigin"}
			want["UpdateCommitment"] = []string{P + ".Delta.UpdateCommitment"}
			want["Doc"] = []string{"<fresh>", "<patched>"}
		case "update":
			want["CreatedTime"] = []string{"$2.CreatedTime"}
			want["UpdatedTime"] = []string{"$1.TransactionTime"}
			want["CanonicalReference"] = []string{"$2.CanonicalReference"}
			want["EquivalentReferences"] = []string{"$2.EquivalentReferences"}
			want["RecoveryCommitment"] = []string{"$2.RecoveryCommitment"}
			want["AnchorOrigin"] = []string{"$2.AnchorOrigin"}
			want["UpdateCommitment"] = []string{P + ".Delta.UpdateCommitment"}
			want["Doc"] = []string{"$2.Doc", "<patched>"}
		case "deactivate":
			want["CreatedTime"] = []string{"$2.CreatedTime"}
			want["UpdatedTime"] = []string{"$1.TransactionTime"}
			want["CanonicalReference"] = []string{"$2.CanonicalReference"}
			want["EquivalentReferences"] = []string{"$2.EquivalentReferences"}
			want["AnchorOrigin"] = []string{"$2.AnchorOrigin"}
			want["Deactivated"] = []string{"true"}
			want["Doc"] = []string{"<fresh>"}
		}
		got := map[string][]string{}
		for _, fs := range c.storesIntoObj(O) {
			p := c.fsPath(fs)
			switch v := fs.Val.(type) {
			case *ssa.MakeMap:
				p = "<fresh>"
				for _, r := range *v.Referrers() {
					if _, w := r.(*ssa.MapUpdate); w {
						p = "<non-empty map>"
					}
				}
			case *ssa.Const:
				if p == `""` || p == "0" || p == "false" || p == "nil" {
					continue // explicit zero value == absent
				}
			}
			if apCall != nil && (fs.Val == extractOf(apCall, 0) || (apInner != nil && fs.Val == extractOf(apInner, 0))) {
				p = "<patched>"
			}
			got[fs.Field] = append(got[fs.Field], p)
		}
		for i := 0; i < numFields(rmT); i++ {
			fld := fieldName(rmT, i)
			g := sortedCopy(got[fld])
			w := sortedCopy(want[fld])
			c.Check("C01.P1", typ+":"+fld, eqStrs(g, w), AI.Pos(), fmt.Sprintf("%s.%s is installed from %v (Sidetree v1 table: %v)", typ, fld, g, w))
		}

		// ---- G2 conditional installs / G3 advance-from-here
		deltaHashPath := S + ".DeltaHash"
		if typ == "create" {
			deltaHashPath = P + ".SuffixData.DeltaHash"
		}
		chkHash := callTo("IsValidModelMultihash(op.Delta, bound delta hash)", isValidMH, pathIs(P+".Delta"), pathIs(deltaHashPath))
		chkVD := invokeOf("ValidateDelta(op.Delta)", "ValidateDelta", pathIs(P+".Delta"))
		chkAP := &GCheck{Name: "ApplyPatches succeeded", MatchCall: func(c *Ctx, call *ssa.Call, env Env) bool {
			return call == apCall || (apInner != nil && call == apInner && call.Parent() != f)
		}}
		chkParse := &GCheck{Name: "Parse" + typ + "Operation succeeded", MatchCall: func(c *Ctx, call *ssa.Call, env Env) bool { return call == pc.call }}
		var chkWin, chkSig, chkSD *GCheck
		if typ != "create" {
			chkWin = &GCheck{Name: "anchoring window check(signedData.AnchorFrom, signedData.AnchorUntil, anchoredOp.TransactionTime)", MatchCall: func(c *Ctx, call *ssa.Call, env Env) bool {
				g := call.Call.StaticCallee()
				if g == nil || !inModule(g) {
					return false
				}
				a := declArgs(call)
				return len(a) == 3 && c.Path(a[0], env) == S+".AnchorFrom" && c.Path(a[1], env) == S+".AnchorUntil" && c.Path(a[2], env) == "$1.TransactionTime"
			}}
			chkSig = callTo("VerifyJWS(op.SignedData, signedData."+sdKeyField[typ]+")", verifyJWS, pathIs(P+".SignedData"), pathIs(S+"."+sdKeyField[typ]))
			chkSD = invokeOf(parseSDMethod[typ]+"(op.SignedData)", parseSDMethod[typ], pathIs(P+".SignedData"))
		}
		// (the object as the unexported helpers it is handed to see it)
		var objAlso []ssa.Value
		for _, h := range c.objHelperCalls(O) {
			objAlso = append(objAlso, h.g.Params[h.k])
		}
		isPatched := func(v ssa.Value) bool {
			return apCall != nil && (v == extractOf(apCall, 0) || (apInner != nil && v == extractOf(apInner, 0)))
		}
		evUC := storeEvent(A, "UpdateCommitment", func(v ssa.Value) bool { _, k := v.(*ssa.Const); return !k }, objAlso...)
		evDocPatched := storeEvent(A, "Doc", isPatched, objAlso...)
		guardEv := func(key string, chk *GCheck, ev func(ssa.Instruction) bool) {
			ok, w, n := c.Guard(f, nil, chk, ev)
			c.Check("C01.G2", typ+":"+key, ok, f.Pos(), fmt.Sprintf("%s lies behind [%s] (sites=%d)", key, chk.Name, n), w...)
		}
		switch typ {
		case "create", "recover":
			guardEv("install-UpdateCommitment<=delta-hash", chkHash, evUC)
			guardEv("install-UpdateCommitment<=ValidateDelta", chkVD, evUC)
			guardEv("install-Doc<=delta-hash", chkHash, evDocPatched)
			guardEv("install-Doc<=ValidateDelta", chkVD, evDocPatched)
			guardEv("install-Doc<=ApplyPatches", chkAP, evDocPatched)
			// update commitment is installed before (= independently of) patch application
			c.Check("C01.G2", typ+":UpdateCommitment-not-conditional-on-ApplyPatches", c.storeOnAllPathsAfter(O, "UpdateCommitment", apCall, apInner), f.Pos(), "the update-commitment install dominates the ApplyPatches call (patch failure still advances the commitment)")
			if typ == "recover" {
				guardEv("install-Doc<=window", chkWin, evDocPatched)
				ws := c.sites(f, nil, chkWin, 0)
				okW := len(ws) == 1
				if okW {
					okW = c.storeOnAllPathsAfter(O, "UpdateCommitment", ws[0].instr)
				}
				c.Check("C01.G2", typ+":UpdateCommitment-not-conditional-on-window", okW, f.Pos(), "the update-commitment install dominates the window check (out-of-window recover still advances the commitment)")
				guardEv("model<=signature", chkSig, func(in ssa.Instruction) bool { return in == AI })
				guardEv("model<=signed-data-parse", chkSD, func(in ssa.Instruction) bool { return in == AI })
			}
			guardEv("model<=parse", chkParse, func(in ssa.Instruction) bool { return in == AI })
		case "update":
			for _, ck := range []*GCheck{chkParse, chkSD, chkHash, chkSig, chkVD} {
				c.CheckGuard("C01.G2", typ+":model<="+strings.SplitN(ck.Name, "(", 2)[0], f, nil, ck)
			}
			guardEv("install-Doc<=window", chkWin, evDocPatched)
			guardEv("install-Doc<=ApplyPatches", chkAP, evDocPatched)
			ws := c.sites(f, nil, chkWin, 0)
			c.Check("C01.G2", typ+":window-check-after-model", len(ws) == 1 && instrDominates(AI, ws[0].instr), f.Pos(), "the window check runs after the model with the advanced update commitment exists (out-of-window update still advances)")
		case "deactivate":
			for _, ck := range []*GCheck{chkParse, chkSD, chkSig, chkWin} {
				c.CheckGuard("C01.G2", typ+":model<="+strings.SplitN(ck.Name, "(", 2)[0], f, nil, ck)
			}
			// suffix equality is C02.G6
		}

		// G3: once the model exists, every reachable return hands it back with a nil error
		if typ != "deactivate" {
			seen := reach(AI.Block(), map[edge]bool{})
			okAdv := true
			var w []string
			var bs []*ssa.BasicBlock
			for b := range seen {
				bs = append(bs, b)
			}
			sort.Slice(bs, func(i, j int) bool { return bs[i].Index < bs[j].Index })
			n := 0
			for _, b := range bs {
				if r, ok := b.Instrs[len(b.Instrs)-1].(*ssa.Return); ok {
					n++
					if r.Results[0] != ssa.Value(A) || c.Path(r.Results[1], nil) != "nil" {
						okAdv = false
						w = append(w, fmt.Sprintf("return at %s does not hand back the advanced model", c.pos(r.Pos())))
					}
				}
			}
			c.Check("C01.G3", typ+":advance-from-model-creation", okAdv && n > 0, AI.Pos(), fmt.Sprintf("all %d returns reachable after the model is built return (model, nil): later failures degrade, never refuse", n), w...)
		}
	}
	c.Min("C01.G1", 4)
	c.Min("C01.R1", 4)
	c.Min("C01.P1", 4*15+3)
	c.Min("C01.G2", 6+9+8+4)
	c.Min("C01.G3", 3)
	c.Assume("each accepted step builds its model from (operation, previous model) only (C01.P1) and does not write the previous model (C12), so facts about one step extend to every history")
	// "inside its anchoring window" is the window predicate of C09 (from <= t <= until, default until = from + delta):
	// its decision on all weak orderings, the wiring of the check into the apply functions and the parser's hand-off
	// are part of this check as well
	c.apart(runC09)
	// "systematically invalidated … every failure class": an operation whose signature, reveal value, protected header
	// or delta hash is bad is refused (or degraded) — the acceptance conditions of C02 are refusal classes of this fold
	c.apart(runC02)
	// a create / recover whose patch list fails half-way keeps the empty document: that is so only if applying patches
	// does not write the document it was given (the model already holds it)
	if ap := c.Method(pComposer, "DocumentComposer", "ApplyPatches"); ap != nil {
		c.runEffect("C12.E1", []*ssa.Function{ap}, func(f *ssa.Function) []*ssa.Parameter {
			if f.Signature.Recv() != nil {
				return f.Params[1:]
			}
			return f.Params
		}, "ApplyPatches")
	} else {
		c.Unresolved("C12.E1", "(*DocumentComposer).ApplyPatches")
	}
	// "changes the document only when … applicable": which validated JSON patches are applicable is the library's
	// decision alone — the composer's own refusals are those of C10's closed set (a copy into itself)
	// … and what an applicable delta does to the document is the composer's per-action semantics: the whole of C10 (action
	// tables, handler write-sets, the left fold over the list, the handlers' decision skeletons, replace-by-id) is part of
	// "the resolved state is the fold of the history"
	c.apart(runC10)
	// the fold refuses an operation whose request is ill-formed: the applier parses every operation in batch mode, and
	// what the parser accepts there (well-formed multihashes, key and header rules, size limits) is the subject of C07
	// (run as part of C02 above)
}

func numFields(n *types.Named) int {
	st, ok := n.Underlying().(*types.Struct)
	if !ok {
		return 0
	}
	return st.NumFields()
}

// storeEvent: stores into field fld of allocation A whose value satisfies pred.
func storeEvent(A ssa.Value, fld string, pred func(v ssa.Value) bool, also ...ssa.Value) func(in ssa.Instruction) bool {
	return func(in ssa.Instruction) bool {
		st, ok := in.(*ssa.Store)
		if !ok {
			return false
		}
		fa, ok := st.Addr.(*ssa.FieldAddr)
		if !ok || fieldName(A.Type(), fa.Field) != fld {
			return false
		}
		isObj := fa.X == ssa.Value(A)
		for _, o := range also {
			isObj = isObj || fa.X == o
		}
		return isObj && pred(st.Val)
	}
}

// storeOnAllPathsAfter: every path from entry through instruction `at` to a return executes a non-constant store into
// A.fld (before or after `at`): the install does not depend on the outcome of `at`. When `at` is a call of a helper that
// is handed the object and inner is the instruction inside that helper the question is about (the ApplyPatches call in
// a tail that was moved into a helper), the helper's own stores are placed relative to inner, in the helper's frame.
func (c *Ctx) storeOnAllPathsAfter(O *builtObj, fld string, at ssa.Instruction, inner ...ssa.Instruction) bool {
	if at == nil {
		return false
	}
	var in ssa.Instruction
	if len(inner) > 0 && inner[0] != nil && inner[0] != at {
		in = inner[0]
	}
	var here, there []ssa.Instruction
	for _, fs := range c.storesIntoObj(O) {
		if fs.Field != fld {
			continue
		}
		if _, k := fs.Val.(*ssa.Const); k {
			continue
		}
		if fs.At == at && fs.Instr != nil && ssa.Instruction(fs.Instr) != at {
			// a store made inside the helper that `at` calls
			if in != nil && fs.Instr.Parent() == in.Parent() {
				there = append(there, fs.Instr)
			}
			continue
		}
		here = append(here, fs.At)
	}
	if in != nil && len(there) > 0 && onAllPathsThrough(there, in) {
		return true
	}
	return onAllPathsThrough(here, at)
}

// onAllPathsThrough: every path from entry through `at` to a return executes one of the stores (all in at's function).
func onAllPathsThrough(stores []ssa.Instruction, at ssa.Instruction) bool {
	for _, st := range stores {
		if st != at && instrDominates(st, at) {
			return true
		}
	}
	cut := map[edge]bool{}
	storeBlocks := map[*ssa.BasicBlock]bool{}
	for _, st := range stores {
		b := st.Block()
		if b == at.Block() {
			// same block: the store comes after `at` (before was handled by dominance)
			if st != at {
				return true
			}
			continue
		}
		storeBlocks[b] = true
		for _, s := range b.Succs {
			cut[edge{from: b, to: s}] = true
		}
	}
	if len(storeBlocks) == 0 {
		return false
	}
	seen := reach(at.Block(), cut)
	for b := range seen {
		if storeBlocks[b] {
			continue
		}
		if _, ok := b.Instrs[len(b.Instrs)-1].(*ssa.Return); ok {
			return false
		}
	}
	return true
}

// alwaysNilResult: v is a result of a call of an unexported helper / local function literal (a failure builder:
// `return reject(msg, err)`) that is the nil constant on every exit of that function.
func alwaysNilResult(v ssa.Value) bool {
	ex, ok := v.(*ssa.Extract)
	if !ok {
		return false
	}
	cl, ok := ex.Tuple.(*ssa.Call)
	if !ok {
		return false
	}
	f := cl.Call.StaticCallee()
	if f == nil {
		f = localLiteral(cl)
	}
	if f == nil || !inModule(f) || f.Blocks == nil || (f.Object() != nil && f.Object().Exported()) {
		return false
	}
	rs := returnsOf(f)
	for _, r := range rs {
		if ex.Index >= len(r.Results) || !isNilConst(returnedValue(r, ex.Index)) {
			return false
		}
	}
	return len(rs) > 0
}
