package main

import (
	"fmt"
	"go/token"
	"go/types"
	"regexp"
	"sort"
	"strings"

	"golang.org/x/tools/go/ssa"
)

func init() {
	props["C13"] = &propDef{extraPkgs: []string{jsonPatchPkg}, run: runC13, explanation: "Partial ('only if' direction). Decided statically on the patch validators: (K1) the numeric limits and the id pattern — len(id) > 50 rejects, len(service type) > 30 rejects, purposes longer than the 5-entry purpose table reject, ids must match the regexp literal ^[A-Za-z0-9_-]+$ compiled once; (T1) the key-type × purpose matrix extracted from the four package-level literals equals the documented matrix and the purpose table holds the five document.KeyPurpose* constants; (T2) the member-name sets of a key (required, optional, one-of) and of a replace document; (U1) every for-all loop in the validator packages rejects only inside its body (an accepting return inside such a loop validates only a prefix); (G1) per action, success lies behind each documented check for every element (for-all form through helper boundaries): array presence, id rules, duplicate ids, member rule, purposes rule, type/purpose rule, JWK rule, service id/type/endpoint rules with URI validity for a string endpoint and for every string entry of a list endpoint, also-known-as URI parse and uniqueness, replace member set, original-document id/context refusal. Not decided: the 'if' direction; what net/url accepts; JWK well-formedness beyond the presence checks. (U2) every seen-set is searched with the key expression it is filled with. Presence of a key member is tested by comma-ok lookups only; in JWK.Validate each member is demanded only of the key type it belongs to. ParsePublicKeys / ParseServices leave their entry loop only at its end. Closed set of refusals of JWK.Validate (exact: member M is empty); accessor hands back the patch's own list; validators test the payload as the document package decodes it. Replace: the document's size is no reason to refuse; JSON patch: 'path' and 'from' are judged one at a time. The JSON-patch validator reads only path / from / op of an operation. The JSON-patch validator decodes the patch's own list. A validation loop is not left from inside its body; validateJWK refuses only a missing JWK and what (document.JWK).Validate refuses; the decoded operation list is not rewritten."}
}

func constStringsOfAlloc(c *Ctx, a *ssa.Alloc) []string {
	var out []string
	for _, r := range *a.Referrers() {
		ia, ok := r.(*ssa.IndexAddr)
		if !ok {
			continue
		}
		for _, rr := range *ia.Referrers() {
			if st, isS := rr.(*ssa.Store); isS {
				if k, isK := st.Val.(*ssa.Const); isK {
					out = append(out, unquote(c.Path(k, nil)))
				}
			}
		}
	}
	sort.Strings(out)
	return out
}

// globalMapLiteral extracts key -> value(path) of a package-level map initialised by a composite literal in init.
func (c *Ctx) globalMapLiteral(g *ssa.Global) map[string]string {
	out := map[string]string{}
	if g == nil || g.Pkg == nil {
		return nil
	}
	init := g.Pkg.Func("init")
	if init == nil {
		return nil
	}
	var mm ssa.Value
	forEachInstr(init, func(in ssa.Instruction) {
		if st, ok := in.(*ssa.Store); ok && st.Addr == ssa.Value(g) {
			mm = st.Val
		}
	})
	if ct, ok := mm.(*ssa.ChangeType); ok {
		mm = ct.X
	}
	m, ok := mm.(*ssa.MakeMap)
	if !ok {
		return nil
	}
	for _, r := range *m.Referrers() {
		if mu, isU := r.(*ssa.MapUpdate); isU {
			out[unquote(c.Path(mu.Key, nil))] = unquote(c.Path(mu.Value, nil))
		}
	}
	return out
}

func keysOf(m map[string]string) []string {
	var ks []string
	for k := range m {
		ks = append(ks, k)
	}
	sort.Strings(ks)
	return ks
}

func runC13(c *Ctx) {
	c.validatorNoForeignRefusalsRule("C13.G1")
	// values are named after the expression that produced them, also when an unexported helper with one success exit
	// (a parsing phase) stands between the producer and the use
	c.inlineHelpers = true
	defer func() { c.inlineHelpers = false }()
	pv := modPkg + pPV
	sp := c.SPkg[pv]
	if sp == nil {
		c.Unresolved("C13.K1", "patchvalidator package")
		return
	}
	valOf := func(typ string) *ssa.Function { return c.Method(pPV, typ, "Validate") }
	addKeys, addSvc, rmKeys, rmSvc, aka, repl := valOf("AddPublicKeysValidator"), valOf("AddServicesValidator"), valOf("RemovePublicKeysValidator"), valOf("RemoveServicesValidator"), valOf("AlsoKnownAsValidator"), valOf("ReplaceValidator")
	for n, f := range map[string]*ssa.Function{"AddPublicKeysValidator": addKeys, "AddServicesValidator": addSvc, "RemovePublicKeysValidator": rmKeys, "RemoveServicesValidator": rmSvc, "AlsoKnownAsValidator": aka, "ReplaceValidator": repl} {
		if f == nil {
			c.Unresolved("C13.G1", "(*"+n+").Validate")
			return
		}
	}
	getValue := c.Method("patch", "Patch", "GetValue")
	V := short(getValue.String()) + "($1)#0"
	matchString := c.MethodIn("regexp", "Regexp", "MatchString")
	parseReqURI := c.ExtFn("net/url", "ParseRequestURI")
	urlParse := c.ExtFn("net/url", "Parse")
	jwkValidate := c.Method("document", "JWK", "Validate")

	// ---------------- K1 constants
	asciiRe := c.Global(pPV, "asciiRegex")
	{
		lit := ""
		if asciiRe != nil {
			forEachInstr(sp.Func("init"), func(in ssa.Instruction) {
				if st, ok := in.(*ssa.Store); ok && st.Addr == ssa.Value(asciiRe) {
					if cl, isC := st.Val.(*ssa.Call); isC && cl.Call.StaticCallee() != nil && cl.Call.StaticCallee().String() == "regexp.MustCompile" {
						lit = unquote(c.Path(cl.Call.Args[0], nil))
					}
				}
			})
		}
		c.Check("C13.K1", "id-pattern", lit == "^[A-Za-z0-9_-]+$", 0, fmt.Sprintf("id pattern compiled once with regexp.MustCompile(%q) (expected ^[A-Za-z0-9_-]+$, anchored, no flags)", lit))
	}
	ap := c.globalMapLiteral(c.Global(pPV, "allowedPurposes"))
	wantPurposes := []string{"assertionMethod", "authentication", "capabilityDelegation", "capabilityInvocation", "keyAgreement"}
	c.Check("C13.T1", "allowedPurposes", eqStrs(keysOf(ap), wantPurposes), 0, fmt.Sprintf("purpose table %v (expected the five document.KeyPurpose* constants)", keysOf(ap)))
	for _, kp := range []string{"KeyPurposeAuthentication", "KeyPurposeAssertionMethod", "KeyPurposeKeyAgreement", "KeyPurposeCapabilityDelegation", "KeyPurposeCapabilityInvocation"} {
		v, _ := c.ConstVal("document", kp)
		_, in := ap[unquote(v)]
		c.Check("C13.T1", "purpose-constant:"+kp, in, 0, "document."+kp+" = "+v+" is in the purpose table")
	}
	// matrix
	general := keysOf(c.globalMapLiteral(c.Global(pPV, "allowedKeyTypesGeneral")))
	verif := keysOf(c.globalMapLiteral(c.Global(pPV, "allowedKeyTypesVerification")))
	agree := keysOf(c.globalMapLiteral(c.Global(pPV, "allowedKeyTypesAgreement")))
	six := []string{"Bls12381G2Key2020", "EcdsaSecp256k1VerificationKey2019", "Ed25519VerificationKey2018", "Ed25519VerificationKey2020", "JsonWebKey2020", "X25519KeyAgreementKey2019"}
	c.Check("C13.T1", "matrix:general", eqStrs(general, six), 0, fmt.Sprintf("key types without purposes: %v", general))
	c.Check("C13.T1", "matrix:verification", eqStrs(verif, []string{"Bls12381G2Key2020", "EcdsaSecp256k1VerificationKey2019", "Ed25519VerificationKey2018", "Ed25519VerificationKey2020", "JsonWebKey2020"}), 0, fmt.Sprintf("verification purposes admit %v (all but X25519KeyAgreementKey2019)", verif))
	c.Check("C13.T1", "matrix:agreement", eqStrs(agree, []string{"Bls12381G2Key2020", "EcdsaSecp256k1VerificationKey2019", "JsonWebKey2020", "X25519KeyAgreementKey2019"}), 0, fmt.Sprintf("keyAgreement admits %v (all but the two Ed25519 types)", agree))
	akt := c.globalMapLiteral(c.Global(pPV, "allowedKeyTypes"))
	wantAKT := map[string]string{"authentication": "allowedKeyTypesVerification", "assertionMethod": "allowedKeyTypesVerification", "capabilityDelegation": "allowedKeyTypesVerification", "capabilityInvocation": "allowedKeyTypesVerification", "keyAgreement": "allowedKeyTypesAgreement"}
	okAKT := len(akt) == 5
	for k, w := range wantAKT {
		if !strings.HasSuffix(akt[k], "."+w) {
			okAKT = false
		}
	}
	c.Check("C13.T1", "matrix:purpose->table", okAKT, 0, fmt.Sprintf("purpose -> admitted-type table: %v", akt))
	c.Min("C13.T1", 10)

	// ---------------- U1: every for-all loop in the validator packages rejects only
	nU := 0
	for _, f := range c.Funcs {
		pp := pkgPathOf(f)
		if pp == pv || strings.HasSuffix(pp, "/docvalidator/didvalidator") || strings.HasSuffix(pp, "/docvalidator/docvalidator") || pp == modPkg+pParser {
			nU += c.ruleU("C13.U1", f)
		}
	}
	c.Min("C13.U1", 12)

	// ---- U2 duplicate detection: a local set that is both searched and filled in one function is searched with the same
	// key expression it is filled with (looking up the canonical form but storing the raw text never finds the duplicate)
	nSets := 0
	for _, f := range allFuncs(sp) {
		if c.isGenFile(f.Pos()) {
			continue
		}
		forEachInstr(f, func(in ssa.Instruction) {
			mm, ok := in.(*ssa.MakeMap)
			if !ok {
				return
			}
			look, fill := map[string]bool{}, map[string]bool{}
			c.setOps(mm, nil, 0, look, fill)
			if len(look) == 0 || len(fill) == 0 {
				return
			}
			nSets++
			same := len(look) == len(fill)
			for k := range look {
				if !fill[k] {
					same = false
				}
			}
			c.Check("C13.U2", "seen-set:"+short(f.String()), same, mm.Pos(), fmt.Sprintf("the set is searched with %v and filled with %v", keysOfBool(look), keysOfBool(fill)))
		})
	}
	c.Min("C13.U2", 3)

	// ---------------- G1 helpers
	reqArray := func(key string, f *ssa.Function, vpath string) {
		c.CheckGuard("C13.G1", key+":value-is-array", f, nil, &GCheck{Name: "value.([]interface{}) ok", MatchOK: func(c *Ctx, v ssa.Value, env Env) bool {
			ta, ok := v.(*ssa.TypeAssert)
			return ok && typeShort(ta.AssertedType) == "[]interface{}" && c.Path(ta.X, env) == vpath
		}})
		c.CheckGuard("C13.G1", key+":array-non-empty", f, nil, cmpReject("len(array) == 0 rejected", token.EQL, func(s string) bool {
			return strings.HasPrefix(s, "len(") && strings.Contains(s, vpath) && strings.HasSuffix(s, "#0)")
		}, pathIs("0")))
	}
	idRules := func(key string, entry *ssa.Function, idPath pathPred, needNonEmpty bool) {
		c.forAllDeep("C13.G1", key+":id-length<=50", entry, nil, cmpReject("len(id) > 50 rejected", token.GTR, lenP(idPath), pathIs("50")))
		c.forAllDeep("C13.G1", key+":id-charset", entry, nil, &GCheck{Name: "asciiRegex.MatchString(id)", MatchCall: func(c *Ctx, call *ssa.Call, env Env) bool {
			return call.Call.StaticCallee() == matchString && matchString != nil && c.Path(call.Call.Args[0], env) == "global:"+pPV+".asciiRegex" && idPath(c.Path(call.Call.Args[1], env))
		}})
		_ = needNonEmpty // an empty id is rejected by the pattern's '+' (K1 pins the literal); no separate obligation
	}
	// … and every entry that passes is remembered: on every way round the loop the id is put into the set (a `continue`
	// placed before the insertion lets a later entry repeat the id of one that took that way)
	recorded := map[*ssa.Function]bool{}
	recordsEveryRound := func(key string, entry *ssa.Function) {
		for _, h := range append([]*ssa.Function{entry}, c.helpersOf(entry, 3)...) {
			if recorded[h] || pkgPathOf(h) != modPkg+pPV {
				continue
			}
			for _, l := range naturalLoops(h) {
				// the loop looks ids up in a local set of strings
				usesSet := false
				var inserts []*ssa.BasicBlock
				for b := range l.blocks {
					for _, in := range b.Instrs {
						switch x := in.(type) {
						case *ssa.Lookup:
							if isLocalSet(c, x.X, nil) && isStringType(x.Index.Type()) {
								usesSet = true
							}
						case *ssa.MapUpdate:
							if isLocalSet(c, x.Map, nil) {
								inserts = append(inserts, b)
							}
						case *ssa.Call:
							// the lookup-and-insert kept in a function literal called from the loop
							if lit := localLiteral(x); lit != nil {
								hasUp, hasLk := false, false
								forEachInstr(lit, func(i2 ssa.Instruction) {
									switch y := i2.(type) {
									case *ssa.MapUpdate:
										hasUp = hasUp || trueOnlySet(y.Map) || isLocalSet(c, y.Map, c.calleeEnv(&x.Call, lit, nil))
									case *ssa.Lookup:
										hasLk = true
									}
								})
								if hasUp && hasLk {
									usesSet = true
									inserts = append(inserts, b)
								}
							}
						}
					}
				}
				if !usesSet {
					continue
				}
				recorded[h] = true
				okIns := false
				for _, b := range inserts {
					if everyIterationOf(l, b) {
						okIns = true
					}
				}
				c.Check("C13.G1", key+":id-recorded-on-every-round@"+h.Name(), okIns, firstPos(l.header), fmt.Sprintf("%s: the set of ids seen so far receives the entry's id on every way round the loop", short(h.String())))
			}
		}
	}
	noDup := func(key string, entry *ssa.Function, idPath pathPred) {
		recordsEveryRound(key, entry)
		c.forAllDeep("C13.G1", key+":duplicate-id-rejected", entry, nil, &GCheck{Name: key + ": id not seen before", BoolFalse: true, MatchOK: func(c *Ctx, v ssa.Value, env Env) bool {
			lk, ok := v.(*ssa.Lookup)
			if !ok {
				return false
			}
			return isLocalSet(c, lk.X, env) && idPath(c.Path(lk.Index, env))
		}})
	}

	// ---------------- add-public-keys
	reqArray("add-public-keys", addKeys, V)
	isV := pathIs(V)
	hasV := func(s string) bool { return strings.Contains(s, V) }
	c.keyRules("add-public-keys", addKeys, elemOfP(wrapP("document.ParsePublicKeys", isV)), idRules, noDup, jwkValidate, ap)

	// ---------------- add-services
	reqArray("add-services", addSvc, V)
	c.serviceRules("add-services", addSvc, elemOfP(wrapP("document.ParseServices", isV)), idRules, noDup, parseReqURI)

	// ---------------- remove-*
	for _, r := range []struct {
		key string
		f   *ssa.Function
	}{{"remove-public-keys", rmKeys}, {"remove-services", rmSvc}} {
		reqArray(r.key, r.f, V)
		idRules(r.key, r.f, elemOfP(wrapP("document.StringArray", hasV)), false)
	}

	// ---------------- also-known-as
	reqArray("also-known-as", aka, V)
	uri := "document.StringArray(" + V + ")[ι]"
	c.forAllDeep("C13.G1", "also-known-as:uri-parses", aka, nil, callTo("url.Parse(uri)", urlParse, pathIs(uri)))
	c.forAllDeep("C13.G1", "also-known-as:unique", aka, nil, &GCheck{Name: "uri not seen before", BoolFalse: true, MatchOK: func(c *Ctx, v ssa.Value, env Env) bool {
		lk, ok := v.(*ssa.Lookup)
		if !ok {
			return false
		}
		return isLocalSet(c, lk.X, env) && strings.Contains(c.Path(lk.Index, env), "net/url.Parse("+uri+")")
	}})

	// the key two URIs are compared by is the parsed URI's own text: nothing folds distinct URIs together (lower-casing,
	// trimming, …), which would refuse a valid list as containing duplicates
	c.alsoKnownAsKeyRule("C13.U2", aka, uri)

	// ---------------- replace
	c.CheckGuard("C13.G1", "replace:value-is-map", repl, nil, &GCheck{Name: "value.(map[string]interface{}) ok", MatchOK: func(c *Ctx, v ssa.Value, env Env) bool {
		ta, ok := v.(*ssa.TypeAssert)
		return ok && typeShort(ta.AssertedType) == "map[string]interface{}" && c.Path(ta.X, env) == V
	}})
	{
		// every member name of the replace document is tested against the constant set {publicKeys, services}, in any
		// spelling (membership function over a literal, map literal lookup, switch / equality chain); for-all form
		// (in Validate itself, or in the unexported phase helper that Validate requires to succeed)
		host := repl
		tests := c.constSetTests(repl, nil, func(p string) bool { return strings.Contains(p, "range(") })
		hostRequired := true
		if len(tests) == 0 {
			for _, g := range c.helpersOf(repl, 2) {
				if ts := c.constSetTests(g, nil, func(p string) bool { return strings.Contains(p, "range(") }); len(ts) > 0 {
					host, tests = g, ts
					hostRequired, _, _ = c.Guard(repl, nil, &GCheck{Name: "call to " + short(g.String()) + " succeeded", MatchCall: func(c *Ctx, call *ssa.Call, env Env) bool { return call.Call.StaticCallee() == g }}, nil)
					break
				}
			}
		}
		okSet, okAll := false, false
		var got [][]string
		for _, t := range tests {
			got = append(got, t.set)
			if !eqStrs(t.set, []string{"publicKeys", "services"}) {
				continue
			}
			okSet = true
			cut := map[edge]bool{}
			for _, e := range t.member {
				cut[e] = true
			}
			for _, l := range naturalLoops(host) {
				if l.blocks[t.blk] {
					if ok, _ := c.loopForall(host, l, cut, "member name ∈ allowed set"); ok && !loopBypassed(host, l) && hostRequired {
						okAll = true
					}
				}
			}
		}
		c.Check("C13.T2", "replace:member-set", okSet && len(tests) == 1, repl.Pos(), fmt.Sprintf("replace document admits exactly the members %v (expected {publicKeys, services})", got))
		D := V + ".(map[string]interface{})#0"
		c.Check("C13.G1", "replace:only-allowed-members", okAll, repl.Pos(), "every member name of the replace document must be in the allowed set (for-all loop, rejecting only, not bypassable)")
		_ = D
		RD := wrapP("document.ReplaceDocumentFromJSONLDObject", hasV)
		c.keyRules("replace", repl, elemOfP(wrapP("(document.ReplaceDocument).PublicKeys", RD)), idRules, noDup, jwkValidate, ap)
		c.serviceRules("replace", repl, elemOfP(wrapP("(document.ReplaceDocument).Services", RD)), idRules, noDup, parseReqURI)
	}

	// ---------------- original documents
	for _, v := range []struct{ pkg, key string }{{"versions/1_0/docvalidator/didvalidator", "didvalidator"}, {"versions/1_0/docvalidator/docvalidator", "docvalidator"}} {
		f := c.Method(v.pkg, "Validator", "IsValidOriginalDocument")
		if f == nil {
			c.Unresolved("C13.G1", v.key+".IsValidOriginalDocument")
			continue
		}
		// (the document looked at is the payload as the document package decodes it — a generic map, member names matched
		// exactly: a struct with json tags matches names case-insensitively and lets the last duplicate win)
		decoded := func(s string) bool { return strings.Contains(s, "FromBytes($1)#0") }
		c.CheckGuard("C13.G1", v.key+":id-refused", f, nil, cmpReject(`doc.ID() != "" rejected`, token.NEQ, func(s string) bool {
			return decoded(s) && (strings.Contains(s, ").ID(") || (strings.Contains(s, ").GetStringValue(") && strings.HasSuffix(s, `,"id")`)))
		}, pathIs(`""`)))
		if v.key == "didvalidator" {
			c.CheckGuard("C13.G1", v.key+":context-refused", f, nil, cmpReject("len(context) != 0 rejected", token.NEQ, func(s string) bool {
				return decoded(s) && strings.HasPrefix(s, "len(") && strings.Contains(s, ").Context(")
			}, pathIs("0")))
		}
	}
	// well-formed JWK (where one is required): kty present; RSA needs n and e; other key types need crv and x
	if jv := c.Method("document", "JWK", "Validate"); jv != nil {
		c.jwkValidateRules("C13.G1", "document.JWK.Validate", jv, func(m string) pathPred {
			// the member read through its accessor, or read the way the accessor reads it
			body := c.accessorBody(c.Method("document", "JWK", m))
			return func(s string) bool { return s == "(document.JWK)."+m+"($0)" || (body != "" && s == body) }
		})
	} else {
		c.Unresolved("C13.G1", "(document.JWK).Validate")
	}
	// the validators see the keys, services, ids and URIs through ParsePublicKeys / ParseServices / StringArray: every
	// entry is handed on
	c.listAccessorLoopsRule("C13.G1")
	c.Min("C13.G1", 63)
	c.Min("C13.K1", 1)
	c.Assume("net/url.ParseRequestURI / url.Parse decide URI validity; the 'if' direction (every conforming patch is accepted) is not decided")
	// "ietf-json-patch operations may not touch keys or services": the pointer rules of the JSON-patch validator (C11) are
	// part of which patches are accepted
	c.apart(runC11)
}

// setOps collects the key expressions a local map is searched with and filled with: directly, under a named type,
// and in the module helpers the map is handed to (their values rendered in the caller's frame).
func (c *Ctx) setOps(v ssa.Value, env Env, depth int, look, fill map[string]bool) {
	if v.Referrers() == nil || depth > 2 {
		return
	}
	for _, r := range *v.Referrers() {
		switch y := r.(type) {
		case *ssa.Lookup:
			if y.X == v {
				look[c.Path(y.Index, env)] = true
			}
		case *ssa.MapUpdate:
			if y.Map != v {
				continue
			}
			if _, isK := y.Key.(*ssa.Const); !isK {
				fill[c.Path(y.Key, env)] = true
			}
		case *ssa.ChangeType:
			c.setOps(y, env, depth, look, fill)
		case *ssa.Call:
			g := y.Call.StaticCallee()
			if g == nil || !inModule(g) || g.Blocks == nil {
				continue
			}
			genv := c.calleeEnv(&y.Call, g, env)
			for i, a := range y.Call.Args {
				if a == v && i < len(g.Params) {
					c.setOps(g.Params[i], genv, depth+1, look, fill)
				}
			}
		}
	}
}

// accessorBody: what a one-exit accessor method returns, rendered with its receiver as $0 (for recognising code
// that reads the member the way the accessor does instead of calling it).
func (c *Ctx) accessorBody(f *ssa.Function) string {
	if f == nil || f.Blocks == nil || len(f.Params) != 1 {
		return ""
	}
	rs := returnsOf(f)
	if len(rs) != 1 || len(rs[0].Results) != 1 {
		return ""
	}
	return c.Path(returnedValue(rs[0], 0), Env{f.Params[0]: "$0"})
}

// alsoKnownAsKeyRule: every key the also-known-as validator's seen-set is searched or filled with is url.Parse(uri).String()
// of the element (or the element itself).
func (c *Ctx) alsoKnownAsKeyRule(rule string, aka *ssa.Function, uri string) {
	if aka == nil {
		return
	}
	n, okK := 0, true
	var got []string
	for _, f := range c.reachableModuleFuncs([]*ssa.Function{aka}) {
		if pkgPathOf(f) != pkgPathOf(aka) {
			continue
		}
		forEachInstr(f, func(in ssa.Instruction) {
			mm, ok := in.(*ssa.MakeMap)
			if !ok {
				return
			}
			look, fill := map[string]bool{}, map[string]bool{}
			c.setOps(mm, nil, 0, look, fill)
			if len(look) == 0 || len(fill) == 0 {
				return
			}
			for k := range fill {
				look[k] = true
			}
			for k := range look {
				n++
				got = append(got, k)
				// (*net/url.URL).String(net/url.Parse(<element>)#0) or the element itself
				inner := strings.TrimSuffix(strings.TrimPrefix(k, "(*net/url.URL).String(net/url.Parse("), ")#0)")
				if !(strings.HasPrefix(k, "(*net/url.URL).String(net/url.Parse(") && strings.HasSuffix(inner, "[ι]")) && !strings.HasSuffix(k, "[ι]") {
					okK = false
				}
			}
		})
	}
	sort.Strings(got)
	c.Check(rule, "also-known-as:key-is-the-uri-text", okK && n > 0, aka.Pos(), fmt.Sprintf("the duplicate test compares %v (expected url.Parse(uri).String() of the element, or the element)", got))
}

// helpersOf: the unexported functions of f's package that f calls statically (transitively, up to depth levels), in
// call order.
func (c *Ctx) helpersOf(f *ssa.Function, depth int) []*ssa.Function {
	var out []*ssa.Function
	seen := map[*ssa.Function]bool{f: true}
	var visit func(g *ssa.Function, d int)
	visit = func(g *ssa.Function, d int) {
		if d >= depth {
			return
		}
		forEachInstr(g, func(in ssa.Instruction) {
			cl, ok := in.(*ssa.Call)
			if !ok {
				return
			}
			h := cl.Call.StaticCallee()
			if h == nil || seen[h] || !inModule(h) || h.Blocks == nil || pkgPathOf(h) != pkgPathOf(f) || (h.Object() != nil && h.Object().Exported()) {
				return
			}
			seen[h] = true
			out = append(out, h)
			visit(h, d+1)
		})
	}
	visit(f, 0)
	return out
}

// isLocalSet: v is a map made in the function under analysis (directly, or handed to the helper whose frame env
// renders), under any named type.
func isLocalSet(c *Ctx, v ssa.Value, env Env) bool {
	if _, isMM := stripConv(v).(*ssa.MakeMap); isMM {
		return true
	}
	return strings.HasPrefix(c.Path(v, env), "makemap<")
}

// keyRules: per-key obligations for a list of keys whose element path satisfies K.
func (c *Ctx) keyRules(key string, entry *ssa.Function, K pathPred, idRules func(string, *ssa.Function, pathPred, bool), noDup func(string, *ssa.Function, pathPred), jwkValidate *ssa.Function, purposes map[string]string) {
	k := key + ":key"
	kID := wrapP("(document.PublicKey).ID", K)
	kType := wrapP("(document.PublicKey).Type", K)
	// (the purposes of the key: through its accessor, or read from the member the accessor reads)
	kPurpA := wrapP("(document.PublicKey).Purpose", K)
	kPurpB := wrapP("document.StringArray", sufP(K, `["purposes"]`))
	kPurpC := wrapP("document.StringArray", sufP(K, `["purposes"]#0`))
	kPurp := func(s string) bool { return kPurpA(s) || kPurpB(s) || kPurpC(s) }
	idRules(k, entry, kID, false)
	noDup(k, entry, kID)
	onKey := func(call *ssa.Call, cc *Ctx, env Env) (*ssa.Function, bool) {
		g := call.Call.StaticCallee()
		if g == nil || !inModule(g) || len(call.Call.Args) != 1 || !K(cc.Path(call.Call.Args[0], env)) {
			return nil, false
		}
		return g, true
	}
	// member rule: required members present (lookup ok) and only allowed members
	var memberFn *ssa.Function
	c.forAllDeep("C13.G1", k+":member-rule", entry, nil, &GCheck{Name: "member rule function on the key", MatchCall: func(cc *Ctx, call *ssa.Call, env Env) bool {
		g, ok := onKey(call, cc, env)
		if !ok {
			return false
		}
		if sets, shape := cc.memberRuleFn(g); sets && shape {
			memberFn = g
			return true
		}
		return false
	}})
	if memberFn != nil {
		c.Check("C13.T2", "key:member-sets", true, memberFn.Pos(), "key member sets: required {type,id}, optional {purposes}, one-of {publicKeyJwk, publicKeyBase58}; every required member present, every present member allowed (for-all loops) in "+short(memberFn.String()))
	} else {
		c.Check("C13.T2", "key:member-sets@"+key, false, entry.Pos(), "no function in the call tree applies the documented member-name sets (required {type,id}, optional {purposes}, one-of {publicKeyJwk, publicKeyBase58}) to each key")
	}
	// purposes: at most len(table); non-empty if present; each known
	c.forAllDeep("C13.G1", k+":purposes<=table-size", entry, nil, cmpReject("len(purposes) > len(allowedPurposes) rejected", token.GTR, lenP(kPurp), pathIs("len(global:"+pPV+".allowedPurposes)")))
	c.forAllDeep("C13.G1", k+":purposes-non-empty-if-present", entry, nil, anyOf("purposes member absent, or non-empty",
		&GCheck{Name: "purposes member absent", BoolFalse: true, MatchOK: func(cc *Ctx, v ssa.Value, env Env) bool {
			lk, ok := v.(*ssa.Lookup)
			return ok && K(cc.Path(lk.X, env)) && cc.Path(lk.Index, env) == `"purposes"`
		}},
		cmpReject("len(purposes) == 0 rejected", token.EQL, lenP(kPurp), pathIs("0"))))
	// a helper works on the key, or on what the caller read from it (the purposes list); its values are rendered in
	// the caller's frame so that both spellings give the same paths
	onKeyData := func(call *ssa.Call, cc *Ctx, env Env) (*ssa.Function, Env, bool) {
		g := call.Call.StaticCallee()
		if g == nil || !inModule(g) || g.Blocks == nil {
			return nil, nil, false
		}
		hit := false
		for _, a := range call.Call.Args {
			if p := cc.Path(a, env); K(p) || kPurp(p) {
				hit = true
			}
		}
		if !hit {
			return nil, nil, false
		}
		return g, cc.calleeEnv(&call.Call, g, env), true
	}
	purpElem := func(s string) bool {
		i := strings.LastIndex(s, "[")
		return i > 0 && strings.HasSuffix(s, "]") && kPurp(s[:i])
	}
	c.forAllDeep("C13.G1", k+":purposes-known", entry, nil, &GCheck{Name: "every purpose ∈ allowedPurposes", MatchCall: func(cc *Ctx, call *ssa.Call, env Env) bool {
		g, genv, ok := onKeyData(call, cc, env)
		if !ok {
			return false
		}
		inTable := func(isElem func(string) bool) *GCheck {
			return &GCheck{Name: "purpose ∈ allowedPurposes", NoDescend: true, MatchOK: func(cc *Ctx, v ssa.Value, env Env) bool {
				lk, isL := v.(*ssa.Lookup)
				return isL && cc.Path(lk.X, env) == "global:"+pPV+".allowedPurposes" && isElem(strings.TrimSuffix(strings.TrimPrefix(cc.Path(lk.Index, env), "conv<document.KeyPurpose>("), ")"))
			}}
		}
		if okL, _, n := cc.GuardLoop(g, genv, inTable(purpElem)); okL && n > 0 {
			return true
		}
		// or with the standard search functions: refuse when IndexFunc / ContainsFunc finds a purpose outside the table
		return cc.forAllBySearch(g, genv, kPurp, func(elem string) *GCheck { return inTable(pathIs(elem)) })
	}})
	c.forAllDeep("C13.G1", k+":type-admitted-for-purposes", entry, nil, &GCheck{Name: "key type admitted for every purpose (and in the general table when there is none)", MatchCall: func(cc *Ctx, call *ssa.Call, env Env) bool {
		g, genv, ok := onKeyData(call, cc, env)
		if !ok || !isBoolType(call.Type()) {
			return false
		}
		ok1, _, n1 := cc.GuardLoop(g, genv, &GCheck{Name: "allowedKeyTypes[purpose] ok", NoDescend: true, MatchOK: func(cc *Ctx, v ssa.Value, env Env) bool {
			lk, isL := v.(*ssa.Lookup)
			if !isL {
				return false
			}
			if cc.Path(lk.X, env) == "global:"+pPV+".allowedKeyTypes" && purpElem(cc.Path(lk.Index, env)) {
				return true
			}
			// chained form allowedKeyTypes[purpose][type]: an unknown purpose yields a nil map in which nothing is found
			if in, isIn := lk.X.(*ssa.Lookup); isIn && !in.CommaOk && cc.Path(in.X, env) == "global:"+pPV+".allowedKeyTypes" && purpElem(cc.Path(in.Index, env)) {
				return true
			}
			// (the same through a membership accessor of the inner set: the set it is handed is that plain lookup)
			if _, isPar := lk.X.(*ssa.Parameter); isPar {
				pre := "global:" + pPV + ".allowedKeyTypes["
				if p := cc.Path(lk.X, env); strings.HasPrefix(p, pre) && strings.HasSuffix(p, "]") && purpElem(p[len(pre):len(p)-1]) {
					return true
				}
			}
			return false
		}})
		ok2, _, n2 := cc.GuardLoop(g, genv, &GCheck{Name: "admitted[type] ok", NoDescend: true, MatchOK: func(cc *Ctx, v ssa.Value, env Env) bool {
			lk, isL := v.(*ssa.Lookup)
			return isL && strings.HasPrefix(cc.Path(lk.X, env), "global:"+pPV+".allowedKeyTypes[") && kType(cc.Path(lk.Index, env))
		}})
		ok3, _, _ := cc.Guard(g, genv, anyOf("type ∈ general table, or the key has purposes",
			&GCheck{Name: "general[type] ok", NoDescend: true, MatchOK: func(cc *Ctx, v ssa.Value, env Env) bool {
				lk, isL := v.(*ssa.Lookup)
				return isL && cc.Path(lk.X, env) == "global:"+pPV+".allowedKeyTypesGeneral" && kType(cc.Path(lk.Index, env))
			}},
			cmpReject("len(purposes) == 0", token.EQL, lenP(kPurp), pathIs("0"))), nil)
		return ok1 && ok2 && ok3 && n1 > 0 && n2 > 0
	}})
	// JWK rule
	jwkOK := &GCheck{Name: "JWK present and valid", MatchCall: func(cc *Ctx, call *ssa.Call, env Env) bool {
		return call.Call.StaticCallee() == jwkValidate && jwkValidate != nil && wrapP("(document.PublicKey).PublicKeyJwk", K)(cc.Path(call.Call.Args[0], env))
	}}
	c.forAllDeep("C13.G1", k+":jwk-valid-unless-base58", entry, nil, anyOf("JWK valid, or base58 material present", jwkOK,
		cmpReject(`publicKeyBase58 == "" rejected`, token.EQL, wrapP("(document.PublicKey).PublicKeyBase58", K), pathIs(`""`))))
	c.forAllDeep("C13.G1", k+":jwk-valid-if-JsonWebKey2020", entry, nil, anyOf("JWK valid, or type is not JsonWebKey2020", jwkOK,
		cmpReject(`type == "JsonWebKey2020" rejected`, token.EQL, kType, pathIs(`"JsonWebKey2020"`))))
}

// memberRuleFn (pure): does g(key) carry the documented member-name sets, and the required/allowed loop shape?
func (c *Ctx) memberRuleFn(g *ssa.Function) (setsOK bool, shapeOK bool) {
	var sets [][]string
	forEachInstr(g, func(in ssa.Instruction) {
		if a, ok := in.(*ssa.Alloc); ok {
			if arr, isArr := a.Type().Underlying().(*types.Pointer).Elem().Underlying().(*types.Array); isArr && types.TypeString(arr.Elem(), nil) == "string" {
				if s := constStringsOfAlloc(c, a); len(s) > 0 {
					sets = append(sets, s)
				}
			}
		}
	})
	want := [][]string{{"id", "type"}, {"purposes"}, {"publicKeyBase58", "publicKeyJwk"}}
	found := 0
	for _, w := range want {
		for _, s := range sets {
			if eqStrs(s, w) {
				found++
				break
			}
		}
	}
	setsOK = found == 3 && len(sets) == 3
	if !setsOK {
		return false, false
	}
	ok1, _, n1 := c.GuardLoop(g, nil, &GCheck{Name: "required member present", NoDescend: true, MatchOK: func(c *Ctx, v ssa.Value, env Env) bool {
		lk, isL := v.(*ssa.Lookup)
		ip := c.Path(lk.Index, env)
		return isL && c.Path(lk.X, env) == "$0" && strings.HasSuffix(ip, "[ι]") && !strings.HasSuffix(ip, "[ι][ι]")
	}})
	ok2, _, n2 := c.GuardLoop(g, nil, &GCheck{Name: "member name ∈ allowed", MatchCall: func(c *Ctx, call *ssa.Call, env Env) bool {
		h := call.Call.StaticCallee()
		if h == nil || !inModule(h) || !isBoolType(call.Type()) || len(call.Call.Args) != 2 {
			return false
		}
		if _, mWanted := memberArgs(call); !strings.Contains(c.Path(mWanted, env), "range($0)") {
			return false
		}
		ok, _ := c.isMembershipFn(h)
		return ok
	}})
	// presence means "the member is there", for every member set alike: each lookup in the key object is a comma-ok
	// lookup of which only the ok is used (a value test such as m[k] != nil reads a null-valued member as absent, so
	// an object carrying both one-of members, one of them null, counts as carrying one)
	ok3, n3 := true, 0
	var walk func(fn *ssa.Function, key ssa.Value, d int)
	walk = func(fn *ssa.Function, key ssa.Value, d int) {
		if d > 2 || fn.Blocks == nil {
			return
		}
		forEachInstr(fn, func(in ssa.Instruction) {
			// a presence helper (`has(m, k)` returning the ok of m[k]) is the same test; any other helper that is handed
			// the key object is looked into
			if cl, isC := in.(*ssa.Call); isC {
				h := cl.Call.StaticCallee()
				if h == nil || !inModule(h) {
					return
				}
				for i, a := range cl.Call.Args {
					if stripConv(a) != key || i >= len(h.Params) {
						continue
					}
					if si, isMM := c.isMapMembershipFn(h); isMM && si == i {
						n3++
					} else if h != fn {
						walk(h, h.Params[i], d+1)
					}
				}
				return
			}
			lk, isL := in.(*ssa.Lookup)
			if !isL || stripConv(lk.X) != key {
				return
			}
			n3++
			if !lk.CommaOk {
				ok3 = false
			} else if v := extractOf2(lk, 0); v != nil && v.Referrers() != nil {
				for _, r := range *v.Referrers() {
					if _, dbg := r.(*ssa.DebugRef); !dbg {
						ok3 = false
					}
				}
			}
		})
	}
	if len(g.Params) > 0 {
		walk(g, g.Params[0], 0)
	}
	return true, ok1 && ok2 && ok3 && n1 > 0 && n2 > 0 && n3 >= 2
}

// serviceRules: per-service obligations for elements satisfying S.
func (c *Ctx) serviceRules(key string, entry *ssa.Function, S pathPred, idRules func(string, *ssa.Function, pathPred, bool), noDup func(string, *ssa.Function, pathPred), parseReqURI *ssa.Function) {
	k := key + ":service"
	sID := wrapP("(document.Service).ID", S)
	idRules(k, entry, sID, true)
	noDup(k, entry, sID)
	T := wrapP("(document.Service).Type", S)
	c.forAllDeep("C13.G1", k+":type-non-empty", entry, nil, cmpReject(`type == "" rejected`, token.EQL, T, pathIs(`""`)))
	c.forAllDeep("C13.G1", k+":type-length<=30", entry, nil, cmpReject("len(type) > 30 rejected", token.GTR, lenP(T), pathIs("30")))
	E := wrapP("(document.Service).ServiceEndpoint", S)
	c.forAllDeep("C13.G1", k+":endpoint-present", entry, nil, cmpReject("endpoint == nil rejected", token.EQL, E, pathIs("nil")))
	uriOK := func(u pathPred) []*GCheck {
		return []*GCheck{
			cmpReject(`uri == "" rejected`, token.EQL, u, pathIs(`""`)),
			callTo("url.ParseRequestURI(uri)", parseReqURI, u),
		}
	}
	notString := func(x pathPred) *GCheck {
		return &GCheck{Name: "not a string", BoolFalse: true, MatchOK: func(cc *Ctx, v ssa.Value, env Env) bool {
			ta, ok := v.(*ssa.TypeAssert)
			return ok && typeShort(ta.AssertedType) == "string" && x(cc.Path(ta.X, env))
		}}
	}
	for i, ck := range uriOK(sufP(E, ".(string)#0")) {
		c.forAllDeep("C13.G1", fmt.Sprintf("%s:string-endpoint-uri-%d", k, i), entry, nil, anyOf("endpoint is not a string, or "+ck.Name, notString(E), ck))
	}
	c.endpointListRule(k, entry, E, uriOK, notString)
}

// endpointListRule: wherever the call tree loops over a list endpoint (endpoint.([]string) / endpoint.([]interface{}),
// in a handler function of its own or inline in the type switch), every iteration crosses (entry not a string) or
// (uri rules); the accepting early return (validate only the first) is a failure.
func (c *Ctx) endpointListRule(k string, entry *ssa.Function, E pathPred, uriOK func(pathPred) []*GCheck, notString func(pathPred) *GCheck) {
	n := 0
	type variant struct {
		ts        string
		el, u     pathPred
		orNotText bool
	}
	var vs []variant
	for _, ts := range []string{"[]string", "[]interface{}"} {
		el := elemOfP(sufP(E, ".("+ts+")#0"))
		if ts == "[]interface{}" {
			vs = append(vs, variant{ts, el, sufP(el, ".(string)#0"), true})
			// the string entries picked out by the document package's accessor (which keeps every string entry: C10.P1 /
			// C13.G1 list-accessor rules) and validated as a list of texts
			sa := elemOfP(wrapP("document.StringArray", sufP(E, ".("+ts+")#0")))
			vs = append(vs, variant{ts, sa, sa, false})
		} else {
			vs = append(vs, variant{ts, el, el, false})
		}
	}
	foundTs := map[string]bool{}
	for _, vr := range vs {
		ts, el, u := vr.ts, vr.el, vr.u
		if foundTs[ts] {
			continue
		}
		found := false
		for i, ck := range uriOK(u) {
			var chk *GCheck = ck
			if vr.orNotText {
				chk = anyOf("entry is not a string, or "+ck.Name, notString(el), ck)
			}
			seen := map[string]bool{}
			var visit func(f *ssa.Function, env Env, d int)
			visit = func(f *ssa.Function, env Env, d int) {
				key := f.String() + "|" + env.key()
				if d > 6 || seen[key] || f.Blocks == nil || !inModule(f) {
					return
				}
				seen[key] = true
				inLoop := false
				ss := c.sites(f, env, chk, 0)
				for _, l := range naturalLoops(f) {
					for _, st := range ss {
						if l.blocks[st.instr.Block()] || l.insideBody(st.instr.Block()) {
							inLoop = true
						}
					}
				}
				if inLoop {
					found = true
					ok, w, nl := c.GuardLoop(f, env, chk)
					c.Check("C13.G1", fmt.Sprintf("%s:list-endpoint(%s)-uri-%d@%s", k, ts, i, f.Name()), ok && nl > 0, f.Pos(), fmt.Sprintf("%s: every string entry of a list endpoint is a non-empty valid URI [%s]", short(f.String()), chk.Name), w...)
					return
				}
				forEachInstr(f, func(in ssa.Instruction) {
					if cl, ok := in.(*ssa.Call); ok {
						for _, g := range c.Callees(&cl.Call) {
							visit(g, c.calleeEnvV(&cl.Call, g, env, cl), d+1)
						}
					}
				})
			}
			visit(entry, nil, 0)
		}
		if found {
			n++
			foundTs[ts] = true
		}
	}
	c.Check("C13.G1", k+":list-endpoint-handlers", n >= 2, entry.Pos(), fmt.Sprintf("%d list-endpoint loops ([]string and []interface{}) found in the call tree of %s", n, short(entry.String())))
}

type pathPred = func(string) bool

func wrapP(prefix string, inner pathPred) pathPred {
	return func(s string) bool {
		return strings.HasPrefix(s, prefix+"(") && strings.HasSuffix(s, ")") && inner(s[len(prefix)+1:len(s)-1])
	}
}
func elemOfP(list pathPred) pathPred {
	return func(s string) bool { return strings.HasSuffix(s, "[ι]") && list(s[:len(s)-len("[ι]")]) }
}
func lenP(p pathPred) pathPred { return wrapP("len", p) }
func sufP(p pathPred, suf string) pathPred {
	return func(s string) bool { return strings.HasSuffix(s, suf) && p(s[:len(s)-len(suf)]) }
}

// jwkValidateRules: Validate rejects a missing kty; for kty RSA a missing n or e; otherwise a missing crv or x.
func (c *Ctx) jwkValidateRules(rule, key string, f *ssa.Function, member func(string) pathPred) {
	c.CheckGuard(rule, key+":kty-required", f, nil, cmpRejectConst(`kty == "" rejected`, member("Kty"), `""`))
	isRSA := cmpReject(`kty == "RSA"`, token.EQL, member("Kty"), pathIs(`"RSA"`))  // success edge: kty != RSA
	notRSA := cmpAccept(`kty == "RSA"`, token.EQL, member("Kty"), pathIs(`"RSA"`)) // success edge: kty == RSA
	for _, m := range []string{"N", "E"} {
		c.CheckGuard(rule, key+":rsa-"+strings.ToLower(m)+"-required", f, nil, anyOf("not RSA, or "+m+" present", isRSA, cmpReject(m+` == "" rejected`, token.EQL, member(m), pathIs(`""`))))
	}
	for _, m := range []string{"Crv", "X"} {
		c.CheckGuard(rule, key+":"+strings.ToLower(m)+"-required-unless-rsa", f, nil, anyOf("RSA, or "+m+" present", notRSA, cmpReject(m+` == "" rejected`, token.EQL, member(m), pathIs(`""`))))
	}
	// closed set of refusals: the function says no only because kty, n, e, crv or x is missing — a further demand (say, a
	// y coordinate of every key that is not Ed25519) refuses keys the constructors accept and the protocol admits
	{
		reasons := c.rejectionReasons(f, nil, false, 2)
		// (a check written as a loop over a table of required members: the reasons of each row)
		{
			var concrete []string
			tabled := false
			for _, r := range reasons {
				if strings.Contains(r, "[ι]") {
					tabled = true
				} else {
					concrete = append(concrete, r)
				}
			}
			if tabled {
				seenR := map[string]bool{}
				for _, r := range concrete {
					seenR[r] = true
				}
				for _, te := range c.tableLoopEnvsAlt(f, nil) {
					of, om, ov := c.fnSubst, c.mcSubst, c.valSubst
					c.fnSubst, c.mcSubst, c.valSubst = te.fns, te.mcs, te.vals
					for _, r := range c.rejectionReasons(f, te.env, false, 2) {
						if !seenR[r] {
							seenR[r] = true
							concrete = append(concrete, r)
						}
					}
					c.fnSubst, c.mcSubst, c.valSubst = of, om, ov
				}
				reasons = concrete // (a row that stays unresolved is reported as it stands)
			}
		}
		// each deciding condition is "member M is empty" for one of the five members, in any spelling of emptiness
		empt := regexp.MustCompile(`^\((.+) (?:==|!=) ""\)=(?:true|false)$`)
		emptLen := regexp.MustCompile(`^\(len\((.+)\) (?:==|!=|<=|>|<|>=) (?:0|1)\)=(?:true|false)$`)
		var extra []string
		for _, r := range reasons {
			ok := false
			m := empt.FindStringSubmatch(r)
			if m == nil {
				m = emptLen.FindStringSubmatch(r)
			}
			if m != nil {
				for _, name := range []string{"Kty", "N", "E", "Crv", "X"} {
					if member(name)(m[1]) {
						ok = true
					}
				}
			}
			if !ok {
				extra = append(extra, r)
			}
		}
		c.Check(rule, key+":closed-set-of-refusals", len(reasons) > 0 && len(extra) == 0, f.Pos(), fmt.Sprintf("the JWK check refuses only for a missing kty, n, e, crv or x; other reasons: %v", extra))
	}
	// and the other way round: a member is demanded only of the key type it belongs to — the emptiness test of crv / x is
	// reached only by keys that are not RSA, that of n / e only by RSA keys (a well-formed RSA key has no crv)
	emptyTest := func(m string) func(in ssa.Instruction) bool {
		return func(in ssa.Instruction) bool {
			bo, ok := in.(*ssa.BinOp)
			if !ok || (bo.Op != token.EQL && bo.Op != token.NEQ) {
				return false
			}
			l, r := c.Path(bo.X, nil), c.Path(bo.Y, nil)
			return (member(m)(l) && r == `""`) || (member(m)(r) && l == `""`)
		}
	}
	for _, m := range []string{"Crv", "X"} {
		ok, w, _ := c.Guard(f, nil, isRSA, emptyTest(m))
		c.Check(rule, key+":"+strings.ToLower(m)+"-demanded-of-non-rsa-only", ok, f.Pos(), m+` is tested only on the paths where kty != "RSA"`, w...)
	}
	for _, m := range []string{"N", "E"} {
		ok, w, _ := c.Guard(f, nil, notRSA, emptyTest(m))
		c.Check(rule, key+":"+strings.ToLower(m)+"-demanded-of-rsa-only", ok, f.Pos(), m+` is tested only on the paths where kty == "RSA"`, w...)
	}
}

// validatorNoForeignRefusalsRule: two things the validators do not refuse, because the patches the constructors build
// from valid input have them: (a) a replace document without members — the document map's size is no reason to say no;
// (b) a move / copy whose pointers resemble each other — the JSON-patch validator judges "path" and "from" one at a
// time (each against the protected members), never against each other (telling "/a" inside "/ab" from "/a/b" needs the
// reference tokens; the composer's copy guard does that, on tokens).
func (c *Ctx) validatorNoForeignRefusalsRule(rule string) {
	rv := c.Method(pPV, "ReplaceValidator", "Validate")
	jv := c.Method(pPV, "JSONValidator", "Validate")
	if rv == nil || jv == nil {
		c.Unresolved(rule, "ReplaceValidator.Validate / JSONValidator.Validate")
		return
	}
	// a key's JWK is judged by (document.JWK).Validate alone (key material present for its type): the patch validator
	// adds no demand of its own on the JWK's members — a list of admitted member names turns away keys exported with
	// key_ops / x5c / ext, and the library's own keys with a nonce
	if vj := c.Fn(pPV, "validateJWK"); vj != nil {
		var extra []string
		rs := c.rejectionReasons(vj, nil, false, 3)
		for _, r := range rs {
			if strings.HasPrefix(r, "($0 == nil)=true") || strings.HasPrefix(r, "($0 != nil)=false") || strings.HasPrefix(r, "(len($0) == 0)=true") || strings.HasPrefix(r, "((document.JWK).Validate($0) != nil)=true") {
				continue
			}
			extra = append(extra, r)
		}
		c.Check(rule, "validateJWK:closed-set-of-refusals", len(rs) >= 1 && len(extra) == 0, vj.Pos(), fmt.Sprintf("validateJWK refuses only a missing JWK and what (document.JWK).Validate refuses; other reasons: %v", extra))
	} else {
		c.Unresolved(rule, "patchvalidator.validateJWK")
	}
	var bad []string
	reasons := c.rejectionReasons(rv, nil, false, 0)
	for _, r := range reasons {
		if strings.Contains(r, "len((patch.Patch).GetValue($1)#0.(map[string]interface{})#0)") {
			bad = append(bad, r)
		}
	}
	c.Check(rule, "replace:document:size-is-no-reason-to-refuse", len(reasons) >= 3 && len(bad) == 0, rv.Pos(), fmt.Sprintf("%d ways the replace validator says no; about the number of members of the document itself: %v", len(reasons), bad))
	var pairs []string
	n := 0
	for _, g := range c.reachableModuleFuncs([]*ssa.Function{jv}) {
		if pkgPathOf(g) != modPkg+pPV {
			continue
		}
		n++
		forEachInstr(g, func(in ssa.Instruction) {
			iff, ok := in.(*ssa.If)
			if !ok {
				return
			}
			p := c.Path(iff.Cond, nil)
			if strings.Contains(p, `"from"`) && strings.Contains(p, `"path"`) {
				pairs = append(pairs, c.pos(iff.Pos())+": "+short(g.String())+" decides on "+p)
			}
		})
	}
	// … and it looks at the pointers only: of an operation's members it reads "path" and "from" (and "op" to tell the
	// kinds apart); which other members an operation must carry ("value" for add / replace / test, none for move / copy /
	// remove) is the library's business — a demand of its own refuses operations the constructor builds from valid input
	{
		var other []string
		nk := 0
		for _, g := range c.reachableModuleFuncs([]*ssa.Function{jv}) {
			if pkgPathOf(g) != modPkg+pPV {
				continue
			}
			forEachInstr(g, func(in ssa.Instruction) {
				lk, ok := in.(*ssa.Lookup)
				if !ok {
					return
				}
				mt, isM := lk.X.Type().Underlying().(*types.Map)
				if !isM || !strings.HasSuffix(mt.Elem().String(), "json.RawMessage") {
					return
				}
				k, isK := lk.Index.(*ssa.Const)
				if !isK {
					return
				}
				nk++
				switch unquote(c.Path(k, nil)) {
				case "path", "from", "op":
				default:
					other = append(other, c.pos(lk.Pos())+": "+short(g.String())+" reads member "+c.Path(k, nil)+" of an operation")
				}
			})
		}
		c.Check(rule, "json-patch:operation-members-read", nk >= 2 && len(other) == 0, jv.Pos(), fmt.Sprintf("%d member reads of RFC 6902 operations in the validator; only \"path\", \"from\" and \"op\"", nk), other...)
	}
	// … and it looks at every operation of the list the patch carries: what it decodes and walks is json.Marshal of the
	// patch's own value (the required array as GetValue hands it back) — a list thinned out first (one operation per
	// path) leaves operations the composer applies uninspected
	{
		nM := 0
		okList := true
		what := ""
		for _, g := range c.reachableModuleFuncs([]*ssa.Function{jv}) {
			if pkgPathOf(g) != modPkg+pPV {
				continue
			}
			forEachInstr(g, func(in ssa.Instruction) {
				cl, ok := in.(*ssa.Call)
				if !ok || cl.Call.StaticCallee() == nil || cl.Call.StaticCallee().String() != "encoding/json.Marshal" {
					return
				}
				nM++
				p := c.InlPath(cl.Call.Args[0], nil)
				what = p
				// the required array of the patch's value, through conversions and the type assertion only
				ok2 := regexp.MustCompile(`^(\$\d+|[A-Za-z0-9_/.()*]*getRequiredArray\(\(patch\.Patch\)\.GetValue\(\$1\)#0\)#0|\(patch\.Patch\)\.GetValue\(\$1\)#0(\.\(\[\]interface\{\}\)(#0)?)?)$`).MatchString(p)
				if !ok2 {
					okList = false
				}
			})
		}
		c.Check(rule, "json-patch:every-operation-inspected", nM >= 1 && okList, jv.Pos(), fmt.Sprintf("the JSON-patch validator decodes json.Marshal of the patch's own list (%s)", what))
		// … and the decoded list stays as decoded while it is walked: no function of the validator stores into a list of
		// operations or appends onto a slice of one (the in-place filter `ops[:0]` overwrites the operations that the
		// walk has yet to see)
		var writes []string
		nOps := 0
		isOps := func(t types.Type) bool {
			ts := types.TypeString(t, nil)
			return strings.HasSuffix(ts, "json-patch.Patch") || strings.HasSuffix(ts, "[]github.com/evanphx/json-patch.Operation") || strings.HasSuffix(ts, "json-patch.Operation")
		}
		for _, g := range c.reachableModuleFuncs([]*ssa.Function{jv}) {
			if pkgPathOf(g) != modPkg+pPV {
				continue
			}
			forEachInstr(g, func(in ssa.Instruction) {
				switch x := in.(type) {
				case *ssa.Range, *ssa.Index, *ssa.IndexAddr:
					var xs ssa.Value
					switch y := x.(type) {
					case *ssa.Index:
						xs = y.X
					case *ssa.IndexAddr:
						xs = y.X
					}
					if xs != nil && isOps(xs.Type()) {
						nOps++
					}
				case *ssa.Store:
					if ia, isIA := x.Addr.(*ssa.IndexAddr); isIA && isOps(ia.X.Type()) {
						writes = append(writes, c.pos(x.Pos())+": "+short(g.String())+" stores into a list of operations")
					}
				case *ssa.Call:
					if bi, isB := x.Call.Value.(*ssa.Builtin); isB && bi.Name() == "append" && len(x.Call.Args) > 0 && isOps(x.Call.Args[0].Type()) {
						if sl, isSl := x.Call.Args[0].(*ssa.Slice); isSl {
							writes = append(writes, c.pos(x.Pos())+": "+short(g.String())+" appends onto "+c.Path(sl, nil))
						} else if ph, isPhi := x.Call.Args[0].(*ssa.Phi); isPhi {
							for _, e := range ph.Edges {
								if sl, isSl := e.(*ssa.Slice); isSl {
									writes = append(writes, c.pos(x.Pos())+": "+short(g.String())+" appends onto "+c.Path(sl, nil))
								}
							}
						}
					}
				}
			})
		}
		sort.Strings(writes)
		c.Check(rule, "json-patch:every-operation-inspected:list-not-rewritten", nOps >= 1 && len(writes) == 0, jv.Pos(), fmt.Sprintf("%d read(s) of the decoded operation list in the validator, no write into it", nOps), uniqStrs(writes)...)
	}
	c.Check(rule, "json-patch:pointers-judged-one-at-a-time", n >= 2 && len(pairs) == 0, jv.Pos(), fmt.Sprintf("%d functions of the JSON-patch validator; none branches on a condition over both \"path\" and \"from\"", n), pairs...)
}
