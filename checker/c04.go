package main

import (
	"fmt"
	"go/token"
	"go/types"
	"reflect"
	"sort"
	"strings"

	"golang.org/x/tools/go/ssa"
)

func init() {
	props["C04"] = &propDef{extraPkgs: []string{jsonPatchPkg}, run: runC04, explanation: "Structural clause of C04 decided statically: the success terms (def-use reconstruction with repo callees inlined, rewritten into the algebra {JCS,H,mhEnc,mhDec,b64,b64dec}) of GetRevealValue, GetCommitment and GetCommitmentFromRevealValue equal the documented normal forms for a symbolic hash code, and substituting the reveal term into commitment-from-reveal rewrites (axiom mhDec(b64dec(b64(mhEnc(x,c)))) = (c,x)) to the commitment term; leaf contracts of the hash primitives (code table, one Write of the data, Sum(nil)); every jws.JWK field is serialised (so every member incl. nonce is hashed); the parser's reveal/commitment extraction table per operation type. Not decided: injectivity of JCS∘Marshal and collision resistance (needed for 'different keys ⇒ different commitments'). (T3) the reveal value an update / recover / deactivate reports is the RevealValue member of the decoded request (one store) and is the value handed to IsValidModelMultihash together with the signing key. The parser's reveal-value rule (C02.G3) runs inside this check; both accessors parse anchored operations in batch mode. IsValidModelMultihash's contract is part of the reveal rule; the canonical order's prefix case is decided on the three orderings of the two key lengths. All of C07 runs inside this check. The members of jws.JWK are the key material and the nonce only (closed set); the parser's closed set of refusals for signed data runs here."}
}

const (
	tJCS0 = "JCS($0)"
)

// hashLeafContracts checks the local contracts of the opaque term leaves (shared by C04 and C06).
func (c *Ctx) hashLeafContracts(rule string) {
	// GetHashFromMultihash: code table
	f := c.Fn("hashing", "GetHashFromMultihash")
	if f == nil {
		c.Unresolved(rule, "hashing.GetHashFromMultihash")
	} else {
		c.Analysed(f)
		tbl := c.caseTable(f, nil, func(p string) bool { return p == "$0" })
		got := map[string]string{}
		for k, blk := range tbl {
			// value of result h on the path through blk: the phi edge coming from blk (or a store)
			got[k] = c.phiConstFrom(f, blk)
		}
		okDefaultTbl := false
		if len(got) == 0 {
			// table form: a package-level map literal code -> hash looked up with the code; the hash is handed out (with a
			// nil error) only on the found edge
			if g, lk := c.globalTableLookup(f, func(p string) bool { return p == "$0" || p == "conv<uint>($0)" }); g != nil {
				for _, mu := range c.globalMapUpdates(g) {
					got[c.Path(mu.Key, nil)] = c.Path(mu.Value, nil)
				}
				if lk.CommaOk {
					okDefaultTbl, _, _ = c.Guard(f, nil, &GCheck{Name: "table lookup found the code", NoDescend: true, MatchOK: func(c *Ctx, v ssa.Value, env Env) bool { return v == ssa.Value(lk) }}, nil)
					// and what is returned on success is the looked-up value
					for _, r := range successReturns(f) {
						if ex, isEx := r.Results[0].(*ssa.Extract); !isEx || ex.Tuple != ssa.Value(lk) || ex.Index != 0 {
							okDefaultTbl = false
						}
					}
				}
			}
		}
		want := map[string]string{"18": "5", "19": "7"} // multihash.SHA2_256=0x12 -> crypto.SHA256(5); SHA2_512=0x13 -> crypto.SHA512(7)
		c.Check(rule, "GetHashFromMultihash:table", reflect.DeepEqual(got, want), f.Pos(), fmt.Sprintf("multihash code -> crypto.Hash table %v (expected {SHA2_256(18)->SHA256(5), SHA2_512(19)->SHA512(7)})", got))
		// any other code: error. The default path must produce a non-nil error: decide by guard on "code == known"
		chk := &GCheck{Name: "code is one of the table's cases", NoDescend: true, MatchCmp: func(c *Ctx, b *ssa.BinOp, env Env) (bool, bool) {
			if b.Op != token.EQL {
				return false, false
			}
			if c.Path(b.X, env) == "$0" || c.Path(b.Y, env) == "$0" {
				return true, true
			}
			return false, false
		}}
		_ = chk
		// named-result form: the error result is a phi; success exits are those where the phi edge is nil.
		okDefault := c.defaultIsError(f) || okDefaultTbl
		c.Check(rule, "GetHashFromMultihash:default-error", okDefault, f.Pos(), "a code outside the table yields a non-nil error")
	}
	// GetHash(h, data): h.New(); Write(data); Sum(nil)
	g := c.Fn("hashing", "GetHash")
	if g == nil {
		c.Unresolved(rule, "hashing.GetHash")
	} else {
		c.Analysed(g)
		var newC, writeC, sumC *ssa.Call
		forEachInstr(g, func(in ssa.Instruction) {
			cl, ok := in.(*ssa.Call)
			if !ok {
				return
			}
			switch {
			case cl.Call.StaticCallee() != nil && cl.Call.StaticCallee().String() == "(crypto.Hash).New":
				newC = cl
			case cl.Call.IsInvoke() && cl.Call.Method.Name() == "Write":
				writeC = cl
			case cl.Call.IsInvoke() && cl.Call.Method.Name() == "Sum":
				sumC = cl
			}
		})
		ok := newC != nil && writeC != nil && sumC != nil
		detail := "expected h.New(), one Write(data), Sum(nil)"
		if ok {
			ok = c.Path(newC.Call.Args[0], nil) == "$0" &&
				writeC.Call.Value == ssa.Value(newC) && c.Path(writeC.Call.Args[0], nil) == "$1" &&
				sumC.Call.Value == ssa.Value(newC) && c.Path(sumC.Call.Args[0], nil) == "nil" &&
				instrDominates(writeC, sumC)
			for _, r := range successReturns(g) {
				if r.Results[0] != ssa.Value(sumC) {
					ok = false
				}
			}
			n := 0
			forEachInstr(g, func(in ssa.Instruction) {
				if cl, isC := in.(*ssa.Call); isC && cl.Call.IsInvoke() && cl.Call.Method.Name() == "Write" {
					n++
				}
			})
			if n != 1 {
				ok = false
			}
		}
		c.Check(rule, "GetHash:contract", ok, g.Pos(), detail)
	}
	// MarshalCanonical: every success return is Transform(bytes) where bytes is the []byte input or json.Marshal(value)
	mc := c.Fn("canonicalizer", "MarshalCanonical")
	tr := c.Fn("internal/jsoncanonicalizer", "Transform")
	if mc == nil || tr == nil {
		c.Unresolved(rule, "canonicalizer.MarshalCanonical / jsoncanonicalizer.Transform")
	} else {
		tt := c.SuccessTerm(mc, 0, nil)
		t := tt.String()
		ok := termIs(tt, "Transform(assert<[]byte>($0))", "Transform(jsonMarshal($0))")
		c.Check(rule, "MarshalCanonical:contract", ok, mc.Pos(), "success term of MarshalCanonical = "+t+" (expected Transform of the []byte input or of encoding/json.Marshal(value))")
	}
}

// phiConstFrom: the constant that flows into a phi (of any successor chain) from block b, or a stored const.
func (c *Ctx) phiConstFrom(f *ssa.Function, b *ssa.BasicBlock) string {
	// follow single-successor chain to the join
	cur := b
	for steps := 0; steps < 4; steps++ {
		if len(cur.Succs) != 1 {
			break
		}
		nxt := cur.Succs[0]
		idx := -1
		for i, p := range nxt.Preds {
			if p == cur {
				idx = i
			}
		}
		for _, in := range nxt.Instrs {
			phi, ok := in.(*ssa.Phi)
			if !ok {
				break
			}
			if isErrType(phi.Type()) {
				continue
			}
			if k, ok := phi.Edges[idx].(*ssa.Const); ok {
				return c.Path(k, nil)
			}
		}
		cur = nxt
	}
	// direct return in the case block
	if r, ok := b.Instrs[len(b.Instrs)-1].(*ssa.Return); ok && len(r.Results) > 0 {
		return c.Path(r.Results[0], nil)
	}
	return "?"
}

// defaultIsError: on the path taking the false edge of every `$0 == const` test, the returned error is non-nil.
func (c *Ctx) defaultIsError(f *ssa.Function) bool {
	cut := map[edge]bool{}
	for _, b := range f.Blocks {
		for _, in := range b.Instrs {
			if bo, ok := in.(*ssa.BinOp); ok && bo.Op == token.EQL && (c.Path(bo.X, nil) == "$0" || c.Path(bo.Y, nil) == "$0") {
				for _, e := range boolEdges(bo, true) {
					cut[e] = true
				}
			}
		}
	}
	seen := reach(f.Blocks[0], cut)
	// path-sensitive phi resolution: walk the unique remaining path
	for b := range seen {
		r, ok := b.Instrs[len(b.Instrs)-1].(*ssa.Return)
		if !ok {
			continue
		}
		ev := r.Results[len(r.Results)-1]
		if phi, isPhi := ev.(*ssa.Phi); isPhi {
			for i, p := range phi.Block().Preds {
				if _, live := seen[p]; live {
					if !nonNilErr(phi.Edges[i], p.Instrs[len(p.Instrs)-1]) {
						return false
					}
				}
			}
			continue
		}
		if !nonNilErr(ev, r) {
			return false
		}
	}
	return true
}

func runC04(c *Ctx) {
	// the chain clause speaks of the reveal value "the parser reports": it is the hash of the signing key because the
	// parser refuses any other, in both batch modes (the rule of C02.G3)
	c.revealValueRules()
	// … and that refusal is IsValidModelMultihash's: it accepts a reveal value only if it is the whole multihash of the
	// canonical key
	c.isValidModelMultihashContract("C02.G3")
	// … and "for any well-formed chain the parser reports": it reports at all only for what it accepts — the parser's
	// acceptance conditions (C07: every configured key algorithm, every configured hash algorithm) are part of this check
	c.apart(runC07)
	getC := c.Fn("commitment", "GetCommitment")
	getR := c.Fn("commitment", "GetRevealValue")
	fromR := c.Fn("commitment", "GetCommitmentFromRevealValue")
	if getC == nil || getR == nil || fromR == nil {
		c.Unresolved("C04.P1", "commitment.GetCommitment / GetRevealValue / GetCommitmentFromRevealValue")
		return
	}
	// ---- P1 terms
	tR := normalize(c.SuccessTerm(getR, 0, nil))
	tC := normalize(c.SuccessTerm(getC, 0, nil))
	tF := normalize(c.SuccessTerm(fromR, 0, nil))
	wantR := "b64(mhEnc(H($1,JCS($0)),$1))"
	wantC := "b64(mhEnc(H($1,H($1,JCS($0))),$1))"
	d := "mhDec(b64dec($0))"
	wantF := "b64(mhEnc(H(.Code(" + d + "),.Digest(" + d + ")),.Code(" + d + ")))"
	c.Check("C04.P1", "GetRevealValue:term", termIs(tR, wantR), getR.Pos(), "reveal(k,c) = "+tR.String()+" (expected "+wantR+")")
	c.Check("C04.P1", "GetCommitment:term", termIs(tC, wantC), getC.Pos(), "commitment(k,c) = "+tC.String()+" (expected "+wantC+")")
	c.Check("C04.P1", "GetCommitmentFromRevealValue:term", termIs(tF, wantF), fromR.Pos(), "commitmentFromReveal(r) = "+tF.String()+" (expected "+wantF+")")
	// identity: commitmentFromReveal(reveal(k,c)) == commitment(k,c) by rewriting
	sub := substitute(tF, "$0", tR)
	rw := rewriteDecEnc(sub)
	c.Check("C04.P1", "identity:commitment(reveal(k))=commitment(k)", rw.String() == tC.String(), fromR.Pos(), "commitmentFromReveal(reveal(k,c)) rewrites to "+rw.String()+"; commitment(k,c) = "+tC.String())
	c.Min("C04.P1", 4)

	// ---- K1 leaf contracts
	c.hashLeafContracts("C04.K1")
	// ComputeMultihash uses one code for hash choice and prefix
	if cm := c.Fn("hashing", "ComputeMultihash"); cm != nil {
		tt := normalize(c.SuccessTerm(cm, 0, nil))
		t := tt.String()
		c.Check("C04.K1", "ComputeMultihash:term", termIs(tt, "mhEnc(H($0,$1),$0)"), cm.Pos(), "ComputeMultihash(code,data) = "+t+" (expected mhEnc(H($0,$1),$0))")
	} else {
		c.Unresolved("C04.K1", "hashing.ComputeMultihash")
	}
	c.Min("C04.K1", 5)

	// ---- T1 every field of jws.JWK is serialised
	if jwk := c.NamedType("jws", "JWK"); jwk != nil {
		st := jwk.Underlying().(*types.Struct)
		names := map[string]bool{}
		for i := 0; i < st.NumFields(); i++ {
			tag := reflect.StructTag(st.Tag(i)).Get("json")
			name := strings.Split(tag, ",")[0]
			ok := st.Field(i).Exported() && name != "-" && name != "" && !names[name]
			names[name] = true
			c.Check("C04.T1", "jws.JWK."+st.Field(i).Name(), ok, st.Field(i).Pos(), fmt.Sprintf("field %s is part of the canonical JSON that is hashed (json tag %q, exported, unique name)", st.Field(i).Name(), tag))
		}
		// … and nothing else is: the members that are hashed are the key material of RFC 7517 / 7518 (kty, crv, x, y, n, e)
		// and the nonce — a member added to the struct (kid, use, alg, …) is carried from the signed key into the
		// canonical bytes, and the reveal value of a key exported with it no longer maps to the commitment made for the key
		{
			spec := map[string]bool{"kty": true, "crv": true, "x": true, "y": true, "n": true, "e": true, "nonce": true}
			var more []string
			for nm := range names {
				if !spec[nm] {
					more = append(more, nm)
				}
			}
			sort.Strings(more)
			c.Check("C04.T1", "jws.JWK:members-are-key-material-and-nonce", len(more) == 0, jwk.Obj().Pos(), fmt.Sprintf("members of jws.JWK beyond kty, crv, x, y, n, e, nonce: %v", more))
		}
		// no custom MarshalJSON that could drop members
		hasCustom := c.Method("jws", "JWK", "MarshalJSON") != nil
		c.Check("C04.T1", "jws.JWK:no-custom-marshal", !hasCustom, jwk.Obj().Pos(), "jws.JWK has no custom MarshalJSON (all tagged fields are emitted)")
	} else {
		c.Unresolved("C04.T1", "jws.JWK")
	}
	c.Min("C04.T1", 8)

	// ---- T2 parser extraction table
	grv := c.Method(pParser, "Parser", "GetRevealValue")
	gcm := c.Method(pParser, "Parser", "GetCommitment")
	po := c.Method(pParser, "Parser", "ParseOperation")
	if grv == nil || gcm == nil || po == nil {
		c.Unresolved("C04.T2", "(*Parser).GetRevealValue / GetCommitment / ParseOperation")
		return
	}
	// the parse call may sit in a shared unexported helper; values are named after the expression that produced them
	c.inlineHelpers = true
	defer func() { c.inlineHelpers = false }()
	for _, f := range []*ssa.Function{grv, gcm} {
		c.Analysed(f)
		tcs := c.treeCalls(f, nil, 0, func(cl *ssa.Call, env Env) bool { return cl.Call.StaticCallee() == po })
		if len(tcs) != 1 {
			c.Check("C04.T2", f.Name()+":parse-call", false, f.Pos(), fmt.Sprintf("expected one ParseOperation call, found %d", len(tcs)))
			continue
		}
		pcs := []*ssa.Call{tcs[0].call}
		penv := tcs[0].env
		a := declArgs(pcs[0])
		c.Check("C04.T2", f.Name()+":parses-its-argument", c.Path(a[1], penv) == "$1", pcs[0].Pos(), "ParseOperation is applied to the operation bytes parameter ("+c.Path(a[1], penv)+")")
		// both accessors read anchored operations: batch mode (request-time validators — anchoring window against the
		// clock, anchor origin, delta validation — would make the reported values depend on when and where they are read)
		c.Check("C04.T2", f.Name()+":parses-in-batch-mode", len(a) == 3 && c.Path(a[2], penv) == "true", pcs[0].Pos(), "ParseOperation is called in batch mode ("+c.Path(a[len(a)-1], penv)+")")
		X := c.Path(pcs[0], penv) + "#0"
		chkParse := &GCheck{Name: "ParseOperation succeeded", MatchCall: func(c *Ctx, call *ssa.Call, env Env) bool { return call == pcs[0] }}
		c.CheckGuard("C04.T2", f.Name()+":requires-parse", f, nil, chkParse)
		if f == grv {
			c.CheckGuard("C04.T2", "GetRevealValue:create-rejected", f, nil, cmpReject(`op.Type == "create" rejected`, token.EQL, pathIs(X+".Type"), pathIs(`"create"`)))
			ok := true
			for _, r := range successReturns(f) {
				if c.Path(r.Results[0], nil) != X+".RevealValue" {
					ok = false
				}
			}
			c.Check("C04.T2", "GetRevealValue:returns-op.RevealValue", ok, f.Pos(), "every success return hands back the parsed operation's RevealValue (the value checked against the signing key, C02.G3)")
			continue
		}
		tbl := c.caseTable(f, nil, func(p string) bool { return p == X+".Type" })
		want := map[string]string{`"update"`: X + ".Delta.UpdateCommitment", `"deactivate"`: `""`}
		if len(tbl) == 0 {
			// table form: the operation type is looked up in a package-level map of functions; each entry is read in
			// GetCommitment's frame (its parameters are the arguments of the one call of the looked-up function)
			if dv := c.dispatch(f, func(p string) bool { return p == X+".Type" }); dv != nil && dv.table && dv.site != nil {
				var keys []string
				for k := range dv.arms {
					keys = append(keys, k)
				}
				sort.Strings(keys)
				c.Check("C04.T2", "GetCommitment:case-set", eqStrs(keys, []string{`"deactivate"`, `"recover"`, `"update"`}), f.Pos(), fmt.Sprintf("GetCommitment dispatches over %v (expected update, recover, deactivate; create and unknown types fall through to an error)", keys))
				for _, k := range keys {
					a := dv.arms[k]
					var rets []string
					if a.fn != nil && a.fn.Blocks != nil {
						c.Analysed(a.fn)
						genv := c.calleeEnv(&dv.site.Call, a.fn, nil)
						if a.fn.Signature.Recv() != nil && len(dv.site.Call.Args) == len(a.fn.Params) {
							// method expression: the first argument is the receiver
							genv = Env{}
							for i, p := range a.fn.Params {
								genv[p] = c.Path(dv.site.Call.Args[i], nil)
							}
						}
						for _, r := range successReturns(a.fn) {
							rets = append(rets, c.Path(returnedValue(r, 0), genv))
						}
					}
					switch k {
					case `"recover"`:
						ok := len(rets) == 1 && strings.HasSuffix(rets[0], ".ParseSignedDataForRecover($0,"+X+".SignedData)#0.RecoveryCommitment")
						c.Check("C04.T2", "GetCommitment:recover", ok, f.Pos(), fmt.Sprintf("recover reports %v (expected RecoveryCommitment of ParseSignedDataForRecover(op.SignedData))", rets))
					default:
						ok := len(rets) == 1 && rets[0] == want[k]
						c.Check("C04.T2", "GetCommitment:"+unquote(k), ok, f.Pos(), fmt.Sprintf("%s reports %v (expected %s)", k, rets, want[k]))
					}
				}
				foundOnly, callReq := c.tableGuards(dv)
				okRet := true
				for _, r := range successReturns(f) {
					e0, _ := r.Results[0].(*ssa.Extract)
					if e0 == nil || e0.Tuple != ssa.Value(dv.site) || e0.Index != 0 {
						okRet = false
					}
				}
				c.Check("C04.T2", "GetCommitment:other-types-error", foundOnly && callReq && okRet, f.Pos(), "create and unknown types yield an error; what the table's function reports is handed back unchanged")
				continue
			}
		}
		var keys []string
		for k := range tbl {
			keys = append(keys, k)
		}
		sort.Strings(keys)
		c.Check("C04.T2", "GetCommitment:case-set", eqStrs(keys, []string{`"deactivate"`, `"recover"`, `"update"`}), f.Pos(), fmt.Sprintf("GetCommitment switches over %v (expected update, recover, deactivate; create and unknown types fall through to an error)", keys))
		for _, k := range keys {
			blk := tbl[k]
			var rets []string
			for _, r := range successReturns(f) {
				if blk.Dominates(r.Block()) {
					rets = append(rets, c.Path(r.Results[0], nil))
				}
			}
			switch k {
			case `"recover"`:
				ok := len(rets) == 1 && strings.HasSuffix(rets[0], ".ParseSignedDataForRecover($0,"+X+".SignedData)#0.RecoveryCommitment")
				c.Check("C04.T2", "GetCommitment:recover", ok, firstPos(blk), fmt.Sprintf("recover reports %v (expected RecoveryCommitment of ParseSignedDataForRecover(op.SignedData))", rets))
			default:
				ok := len(rets) == 1 && rets[0] == want[k]
				c.Check("C04.T2", "GetCommitment:"+unquote(k), ok, firstPos(blk), fmt.Sprintf("%s reports %v (expected %s)", k, rets, want[k]))
			}
		}
		// every success return lies in one of the three cases
		okAll := true
		for _, r := range successReturns(f) {
			in := false
			for _, blk := range tbl {
				if blk.Dominates(r.Block()) {
					in = true
				}
			}
			if !in {
				okAll = false
			}
		}
		c.Check("C04.T2", "GetCommitment:other-types-error", okAll, f.Pos(), "create and unknown types yield an error")
	}
	c.Min("C04.T2", 4+6)

	// ---- T3 the reveal value an operation reports is the request's own (envelope) reveal value — the one that
	// links to the previous commitment — and it is that very value which is checked against the signing key
	opModel := c.NamedType(pModel, "Operation")
	ivm := c.Fn("hashing", "IsValidModelMultihash")
	for _, t := range []string{"update", "recover", "deactivate"} {
		pf := c.parseFuncs()[t]
		if pf == nil || opModel == nil || ivm == nil {
			c.Unresolved("C04.T3", "Parse<"+t+">Operation / model.Operation / hashing.IsValidModelMultihash")
			continue
		}
		c.Analysed(pf)
		var stored []ssa.Value
		for _, a := range allocsOf(pf, opModel) {
			for _, fs := range storesInto(a) {
				if fs.Field == "RevealValue" {
					stored = append(stored, fs.Val)
				}
			}
		}
		okSrc := len(stored) == 1
		src := ""
		if okSrc {
			src = c.Path(stored[0], nil)
			okSrc = false
			if ld, isLd := stored[0].(*ssa.UnOp); isLd && ld.Op == token.MUL {
				if fa, isFA := ld.X.(*ssa.FieldAddr); isFA {
					if pt, isP := fa.X.Type().Underlying().(*types.Pointer); isP {
						if nt, isN := pt.Elem().(*types.Named); isN && strings.HasSuffix(nt.Obj().Name(), "Request") && fieldName(fa.X.Type(), fa.Field) == "RevealValue" {
							okSrc = true
						}
					}
				}
			}
		}
		c.Check("C04.T3", t+":reported-reveal-value-is-the-request's", okSrc, pf.Pos(), "model.Operation.RevealValue = "+src+" (expected the RevealValue member of the decoded "+t+" request, one store)")
		okChk := false
		for _, cl := range callsTo(pf, ivm) {
			if len(cl.Call.Args) == 2 && okSrc && c.Path(cl.Call.Args[1], nil) == src {
				okChk = true
			}
		}
		c.Check("C04.T3", t+":reported-reveal-value-is-the-checked-one", okChk, pf.Pos(), "the value handed to IsValidModelMultihash(signing key, ·) is the reveal value the operation reports")
	}
	c.Min("C04.T3", 6)
	// commitments and reveal values hash the canonical JWK: the JCS constant/table rules are part of this check
	c.jcsRules()
	c.Assume("axioms: go-multihash Decode(Encode(x,c)) = (c,x); base64 decode(encode(x)) = x; hash functions are collision resistant; encoding/json emits every tagged field of jws.JWK")
}

func substitute(t *Term, v string, by *Term) *Term {
	if t.Op == v && len(t.Args) == 0 {
		return by
	}
	n := &Term{Op: t.Op}
	for _, a := range t.Args {
		n.Args = append(n.Args, substitute(a, v, by))
	}
	return n
}

// rewriteDecEnc applies mhDec(b64dec(b64(mhEnc(x,c)))) -> (Code=c, Digest=x).
func rewriteDecEnc(t *Term) *Term {
	n := &Term{Op: t.Op}
	for _, a := range t.Args {
		n.Args = append(n.Args, rewriteDecEnc(a))
	}
	if (n.Op == ".Code" || n.Op == ".Digest") && len(n.Args) == 1 {
		a := n.Args[0]
		if a.Op == "mhDec" && len(a.Args) == 1 && a.Args[0].Op == "b64dec" && len(a.Args[0].Args) == 1 {
			e := a.Args[0].Args[0]
			if e.Op == "b64" && len(e.Args) == 1 && e.Args[0].Op == "mhEnc" && len(e.Args[0].Args) == 2 {
				if n.Op == ".Code" {
					return e.Args[0].Args[1]
				}
				return e.Args[0].Args[0]
			}
		}
	}
	return n
}
