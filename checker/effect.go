package main

// Engine E: may-write effect analysis (whole call tree, flow-insensitive, field-based, two-level lattice).
//   Reach (R): value may alias / point into memory reachable from an entry argument — writes are violations.
//   Holds (H): value is a container allocated inside the call tree that may contain such pointers — writes
//              to its top level are fine, values loaded out of it are Reach.

import (
	"fmt"
	"go/token"
	"go/types"
	"os"
	"runtime/debug"
	"sort"
	"strings"

	"golang.org/x/tools/go/ssa"
)

const (
	flR = 1
	flH = 2
)

type effViolation struct {
	key, pos, what string
	p              token.Pos
}

type effect struct {
	c     *Ctx
	fl    map[ssa.Value]int
	tup   map[ssa.Value]map[int]int
	locs  map[string]bool
	ret   map[*ssa.Function]map[int]int
	work  bool
	viol  map[string]effViolation
	ext   map[string]int
	order []*ssa.Function
	sites int // write sites examined

	// shared-state mode (C20): sources are loads of package-level variables and of component fields
	globalSrc func(g *ssa.Global) bool
	fieldSrc  func(fa *ssa.FieldAddr) bool
	violInstr map[string]ssa.Instruction
	cell      map[*ssa.Alloc]int
	fvCell    map[*ssa.FreeVar]*ssa.Alloc // captured variables: the cell of the enclosing function a literal reads and writes
}

func isRefT(t types.Type) bool {
	switch u := t.Underlying().(type) {
	case *types.Pointer, *types.Map, *types.Slice, *types.Interface, *types.Chan, *types.Signature:
		return true
	case *types.Struct:
		for i := 0; i < u.NumFields(); i++ {
			if isRefT(u.Field(i).Type()) {
				return true
			}
		}
	case *types.Array:
		return isRefT(u.Elem())
	case *types.Tuple:
		for i := 0; i < u.Len(); i++ {
			if isRefT(u.At(i).Type()) {
				return true
			}
		}
	}
	return false
}

func (a *effect) add(v ssa.Value, f int) {
	if v == nil || f == 0 {
		return
	}
	if !isRefT(v.Type()) || isErrType(v.Type()) {
		return
	}
	if _, isConst := v.(*ssa.Const); isConst {
		return
	}
	if a.fl[v]|f != a.fl[v] {
		if dbg := os.Getenv("STCHECK_EFFDBG"); dbg != "" && v.Parent() != nil && strings.Contains(v.Parent().String(), dbg) {
			fmt.Printf("EFFDBG %s %s gets %d\n%s\n", v.Parent().Name(), v.Name(), f, debug.Stack())
		}
		a.fl[v] |= f
		a.work = true
	}
}

func content(f int) int {
	if f != 0 {
		return flR
	}
	return 0
}

func locOfAddr(v ssa.Value) string {
	switch x := v.(type) {
	case *ssa.FieldAddr:
		st := x.X.Type().Underlying().(*types.Pointer).Elem()
		return fmt.Sprintf("F:%s.%d", st.String(), x.Field)
	case *ssa.IndexAddr:
		return "E:" + x.X.Type().String()
	}
	return ""
}

func rootOf(v ssa.Value) ssa.Value {
	for {
		switch x := v.(type) {
		case *ssa.FieldAddr:
			v = x.X
		case *ssa.IndexAddr:
			v = x.X
		case *ssa.Slice:
			v = x.X
		case *ssa.ChangeType:
			v = x.X
		default:
			return v
		}
	}
}

// read-only externals: functions that do not write through their arguments (reviewed table).
var readOnlyExt = []string{
	"encoding/json.Marshal", "fmt.", "errors.", "github.com/pkg/errors.", "log/slog.", "(*log/slog.Logger).",
	"strings.", "encoding/base64.", "(*encoding/base64.Encoding).", "strconv.", "net/url.", "(*net/url.URL).",
	"github.com/go-jose/go-jose/v3/json.Marshal", "(error).Error", "invoke.Error", "(*regexp.Regexp).MatchString",
	"github.com/evanphx/json-patch.DecodePatch", "(github.com/evanphx/json-patch.Patch).Apply",
	"github.com/multiformats/go-multihash.", "(crypto.Hash).", "crypto/ecdsa.Verify", "crypto/ed25519.Verify",
	"(*math/big.Int).SetBytes", "math/big.NewInt", "invoke.Write", "invoke.Sum", "reflect.TypeOf", "unicode/utf8.", "unicode/utf16.", "bytes.",
	"(*github.com/go-jose/go-jose/v3.JSONWebKey).UnmarshalJSON", "github.com/go-jose/go-jose/v3/json.Unmarshal:0", "encoding/json.Unmarshal:0",
	"slices.Contains", "slices.Index", "(*net/http.Client).Do", "invoke.AuthToken", "time.", "(time.Time).", "github.com/btcsuite/btcd/btcec/v2.", "crypto/elliptic.", "invoke.IsOnCurve", "invoke.Params", "math.", "(*strings.Builder).", "sort.Strings:fresh",
	// strings.Replacer is documented "safe for concurrent use by multiple goroutines" (its tables are built under a sync.Once)
	"(*strings.Replacer).Replace",
	// serialisers of third-party value types, read: they only read their receiver
	// (did-go endpoint.go:157 returns json.Marshal of its raw fields; kms-go jwk.go:154 dispatches to marshal helpers)
	"(*github.com/trustbloc/did-go/doc/did/endpoint.Endpoint).MarshalJSON", "(*github.com/trustbloc/kms-go/doc/jose/jwk.JWK).MarshalJSON",
}

func (a *effect) report(in ssa.Instruction, what string) {
	f := in.Parent()
	key := fmt.Sprintf("%s: %s", short(f.String()), what)
	// make the key stable but distinct per instruction kind + operand path
	var ops []*ssa.Value
	opnd := ""
	for _, op := range in.Operands(ops) {
		if *op != nil {
			opnd = a.c.Path(*op, nil)
			break
		}
	}
	key += " [" + opnd + "]"
	a.viol[key] = effViolation{key: key, pos: a.c.pos(instrPos(in)), what: what, p: instrPos(in)}
	if a.violInstr != nil {
		a.violInstr[key] = in
	}
}

func (a *effect) run(entries []*ssa.Function, srcParams func(f *ssa.Function) []*ssa.Parameter) {
	if a.cell == nil {
		a.cell = map[*ssa.Alloc]int{}
	}
	reachF := map[*ssa.Function]bool{}
	var dfs func(f *ssa.Function)
	dfs = func(f *ssa.Function) {
		if reachF[f] || f.Blocks == nil {
			return
		}
		reachF[f] = true
		a.order = append(a.order, f)
		a.c.Analysed(f)
		for _, b := range f.Blocks {
			for _, in := range b.Instrs {
				if ci, ok := in.(ssa.CallInstruction); ok {
					for _, g := range a.c.Callees(ci.Common()) {
						dfs(g)
					}
				}
				if mc, ok := in.(*ssa.MakeClosure); ok {
					dfs(mc.Fn.(*ssa.Function))
				}
			}
		}
	}
	for _, e := range entries {
		dfs(e)
		for _, p := range srcParams(e) {
			a.add(p, flR)
		}
	}
	for iter := 0; iter < 200; iter++ {
		a.work = false
		a.sites = 0
		for _, f := range a.order {
			a.step(f)
		}
		if !a.work {
			break
		}
	}
}

func (a *effect) locFlag(l string) int {
	if a.locs[l] {
		return flR
	}
	return 0
}
func (a *effect) setLoc(l string) {
	if l != "" && !a.locs[l] {
		a.locs[l] = true
		a.work = true
	}
}

func (a *effect) step(f *ssa.Function) {
	for _, b := range f.Blocks {
		for _, in := range b.Instrs {
			switch x := in.(type) {
			case *ssa.FieldAddr:
				a.add(x, a.fl[x.X])
			case *ssa.IndexAddr:
				a.add(x, a.fl[x.X])
			case *ssa.Slice:
				a.add(x, a.fl[x.X])
			case *ssa.ChangeType:
				a.add(x, a.fl[x.X])
			case *ssa.ChangeInterface:
				a.add(x, a.fl[x.X])
			case *ssa.MakeInterface:
				a.add(x, a.fl[x.X])
			case *ssa.TypeAssert:
				a.add(x, a.fl[x.X])
			case *ssa.Field:
				a.add(x, content(a.fl[x.X]))
			case *ssa.Index:
				a.add(x, content(a.fl[x.X]))
			case *ssa.Lookup:
				a.add(x, content(a.fl[x.X])|a.locFlag("M:"+x.X.Type().String()))
			case *ssa.UnOp:
				if x.Op == token.MUL {
					if al, isCell := x.X.(*ssa.Alloc); isCell {
						// a local variable's cell: the load yields exactly what was stored into the cell
						a.add(x, a.cell[al])
						break
					}
					if fv, isFV := x.X.(*ssa.FreeVar); isFV {
						if al := a.fvCell[fv]; al != nil {
							a.add(x, a.cell[al])
							break
						}
					}
					a.add(x, content(a.fl[x.X])|a.locFlag(locOfAddr(x.X)))
					if g, ok := x.X.(*ssa.Global); ok {
						a.add(x, a.locFlag("G:"+g.String()))
						if a.globalSrc != nil && a.globalSrc(g) {
							a.add(x, flR)
						}
					}
					if fa, ok := x.X.(*ssa.FieldAddr); ok && a.fieldSrc != nil && a.fieldSrc(fa) {
						a.add(x, flR)
					}
				}
			case *ssa.Convert:
				if _, ok := x.Type().Underlying().(*types.Basic); ok {
					break
				}
				if _, ok := x.X.Type().Underlying().(*types.Basic); ok {
					break
				}
				a.add(x, a.fl[x.X])
			case *ssa.Extract:
				a.add(x, a.fl[x.Tuple]|a.tup[x.Tuple][x.Index])
			case *ssa.Phi:
				for _, e := range x.Edges {
					a.add(x, a.fl[e])
				}
			case *ssa.Range:
				if cf := content(a.fl[x.X]) | a.locFlag("M:"+x.X.Type().String()); cf != 0 {
					if a.fl[x]|cf != a.fl[x] {
						a.fl[x] |= cf
						a.work = true
					}
				}
			case *ssa.Next:
				if a.fl[x.Iter] != 0 {
					if a.fl[x]|flR != a.fl[x] {
						a.fl[x] |= flR
						a.work = true
					}
				}
			case *ssa.MakeClosure:
				fn := x.Fn.(*ssa.Function)
				for i, bnd := range x.Bindings {
					a.add(fn.FreeVars[i], a.fl[bnd])
					if al, isCell := bnd.(*ssa.Alloc); isCell && i < len(fn.FreeVars) {
						if a.fvCell == nil {
							a.fvCell = map[*ssa.FreeVar]*ssa.Alloc{}
						}
						if a.fvCell[fn.FreeVars[i]] != al {
							a.fvCell[fn.FreeVars[i]] = al
							a.work = true
						}
					}
				}
			case *ssa.Store:
				a.sites++
				if a.fl[x.Addr]&flR != 0 {
					a.report(in, "STORE through an address reachable from an input argument")
				}
				if al, isCell := x.Addr.(*ssa.Alloc); isCell {
					if a.cell[al]|a.fl[x.Val] != a.cell[al] {
						a.cell[al] |= a.fl[x.Val]
						a.work = true
					}
					break
				}
				if fv, isFV := x.Addr.(*ssa.FreeVar); isFV {
					if al := a.fvCell[fv]; al != nil {
						if a.cell[al]|a.fl[x.Val] != a.cell[al] {
							a.cell[al] |= a.fl[x.Val]
							a.work = true
						}
						break
					}
				}
				if a.fl[x.Val] != 0 {
					a.setLoc(locOfAddr(x.Addr))
					if g, ok := x.Addr.(*ssa.Global); ok {
						a.setLoc("G:" + g.String())
					}
					a.add(rootOf(x.Addr), flH)
					a.add(x.Addr, flH)
				}
			case *ssa.MapUpdate:
				a.sites++
				if a.fl[x.Map]&flR != 0 {
					a.report(in, "MAP UPDATE on a map reachable from an input argument")
				}
				if a.fl[x.Value] != 0 || a.fl[x.Key] != 0 {
					a.setLoc("M:" + x.Map.Type().String())
					a.add(x.Map, flH)
				}
			case ssa.CallInstruction:
				a.call(x)
			case *ssa.Return:
				for i, r := range x.Results {
					if a.fl[r] != 0 {
						if a.ret[f] == nil {
							a.ret[f] = map[int]int{}
						}
						if a.ret[f][i]|a.fl[r] != a.ret[f][i] {
							a.ret[f][i] |= a.fl[r]
							a.work = true
						}
					}
				}
			}
		}
	}
}

func (a *effect) call(ci ssa.CallInstruction) {
	cc := ci.Common()
	v, _ := ci.(ssa.Value)
	if b, ok := cc.Value.(*ssa.Builtin); ok {
		switch b.Name() {
		case "append":
			a.sites++
			if a.fl[cc.Args[0]]&flR != 0 {
				a.report(ci, "APPEND to a slice reachable from an input argument (may write its backing array)")
			}
			f := a.fl[cc.Args[0]]
			if len(cc.Args) > 1 && a.fl[cc.Args[1]] != 0 {
				f |= flH
				a.setLoc("E:" + cc.Args[0].Type().String())
			}
			a.add(v, f)
		case "copy":
			a.sites++
			if a.fl[cc.Args[0]]&flR != 0 {
				a.report(ci, "COPY into a slice reachable from an input argument")
			}
			if a.fl[cc.Args[1]] != 0 {
				a.add(cc.Args[0], flH)
			}
		case "delete", "clear":
			a.sites++
			if a.fl[cc.Args[0]]&flR != 0 {
				a.report(ci, "DELETE/CLEAR on a map reachable from an input argument")
			}
		}
		return
	}
	cs := a.c.Callees(cc)
	anyBody := false
	for _, g := range cs {
		if g.Blocks == nil {
			continue
		}
		anyBody = true
		args := cc.Args
		if cc.IsInvoke() {
			args = append([]ssa.Value{cc.Value}, cc.Args...)
		}
		for i, ar := range args {
			if i < len(g.Params) {
				a.add(g.Params[i], a.fl[ar])
			}
		}
		if mc, ok := cc.Value.(*ssa.MakeClosure); ok {
			for i, bnd := range mc.Bindings {
				if i < len(g.FreeVars) {
					a.add(g.FreeVars[i], a.fl[bnd])
				}
			}
		}
		if v != nil {
			for i, t := range a.ret[g] {
				if _, ok := v.Type().(*types.Tuple); ok {
					if a.tup[v] == nil {
						a.tup[v] = map[int]int{}
					}
					if a.tup[v][i]|t != a.tup[v][i] {
						a.tup[v][i] |= t
						a.work = true
					}
				} else {
					a.add(v, t)
				}
			}
		}
	}
	if anyBody {
		return
	}
	name := ""
	if f := cc.StaticCallee(); f != nil {
		name = f.String()
	} else if cc.IsInvoke() {
		name = "invoke." + cc.Method.Name()
	} else {
		name = "dynamic:" + a.c.Path(cc.Value, nil)
	}
	anyT := false
	for _, ar := range cc.Args {
		if a.fl[ar] != 0 {
			anyT = true
		}
	}
	if cc.IsInvoke() && a.fl[cc.Value] != 0 {
		anyT = true
	}
	if !anyT {
		return
	}
	a.sites++
	if name == "encoding/json.Unmarshal" || name == "github.com/go-jose/go-jose/v3/json.Unmarshal" {
		if a.fl[cc.Args[1]]&flR != 0 {
			a.report(ci, "json.Unmarshal into a target reachable from an input argument")
		}
		a.ext[name+" (source argument only)"]++
		return
	}
	// maps.Copy(dst, src) / copy-like library functions: write their first argument, read the second (the values
	// stored are shared with src: dst then holds what src holds)
	if strings.HasPrefix(name, "maps.Copy") || strings.HasPrefix(name, "maps.Insert") {
		if a.fl[cc.Args[0]]&flR != 0 {
			a.report(ci, "maps.Copy into a map reachable from an input argument")
		}
		if len(cc.Args) > 1 && a.fl[cc.Args[1]] != 0 {
			a.add(cc.Args[0], flH)
			a.setLoc("E:" + cc.Args[0].Type().String())
		}
		a.ext[name+" (destination written, source read)"]++
		return
	}
	if strings.HasPrefix(name, "maps.Clone") || strings.HasPrefix(name, "slices.Clone") || strings.HasPrefix(name, "maps.Keys") || strings.HasPrefix(name, "maps.Values") || strings.HasPrefix(name, "slices.Equal") || strings.HasPrefix(name, "maps.Equal") || strings.HasPrefix(name, "slices.Compare") {
		if v, isV := ci.(ssa.Value); isV && strings.Contains(name, "Clone") {
			a.add(v, flH) // a shallow copy: its elements are the input's
		}
		a.ext[name]++
		return
	}
	if strings.HasPrefix(name, "sort.") || strings.HasPrefix(name, "slices.Sort") {
		if a.fl[cc.Args[0]]&flR != 0 {
			a.report(ci, "in-place sort of a slice reachable from an input argument")
		}
		return
	}
	for _, p := range readOnlyExt {
		if strings.HasPrefix(name, p) {
			a.ext[name]++
			return
		}
	}
	a.report(ci, "input-reachable value passed to an external function not in the reviewed read-only table: "+name)
}

func (c *Ctx) runEffect(rule string, entries []*ssa.Function, srcParams func(f *ssa.Function) []*ssa.Parameter, label string) {
	a := &effect{c: c, fl: map[ssa.Value]int{}, tup: map[ssa.Value]map[int]int{}, locs: map[string]bool{}, ret: map[*ssa.Function]map[int]int{}, viol: map[string]effViolation{}, ext: map[string]int{}}
	a.run(entries, srcParams)
	var keys []string
	for k := range a.viol {
		keys = append(keys, k)
	}
	sort.Strings(keys)
	c.Check(rule, label+":call-tree", len(a.order) > 10, entries[0].Pos(), fmt.Sprintf("%d functions in the call tree of %s; %d write sites / external hand-offs examined; abstract locations holding input-reachable values: %d", len(a.order), label, a.sites, len(a.locs)))
	c.Check(rule, label+":no-write-through-inputs", len(keys) == 0, entries[0].Pos(), fmt.Sprintf("no store / map update / append / copy / delete / sort / decode targets memory reachable from the inputs of %s (%d sites examined)", label, a.sites))
	for _, k := range keys {
		v := a.viol[k]
		c.Check(rule, label+":"+k, false, v.p, v.what)
	}
	var es []string
	for e, n := range a.ext {
		es = append(es, fmt.Sprintf("%s x%d", short(e), n))
	}
	sort.Strings(es)
	c.extra["read_only_externals_receiving_input_reachable_values:"+label] = es
	c.extra["write_sites_examined:"+label] = a.sites
}

// runEffectQuiet is runEffect with its own lower bound on the size of the call tree (small validators).
func (c *Ctx) runEffectQuiet(rule string, entries []*ssa.Function, srcParams func(f *ssa.Function) []*ssa.Parameter, label string, minFuncs int) {
	a := &effect{c: c, fl: map[ssa.Value]int{}, tup: map[ssa.Value]map[int]int{}, locs: map[string]bool{}, ret: map[*ssa.Function]map[int]int{}, viol: map[string]effViolation{}, ext: map[string]int{}}
	a.run(entries, srcParams)
	var keys []string
	for k := range a.viol {
		keys = append(keys, k)
	}
	sort.Strings(keys)
	c.Check(rule, label+":call-tree", len(a.order) >= minFuncs, entries[0].Pos(), fmt.Sprintf("%d functions in the call tree of %s; %d write sites / external hand-offs examined", len(a.order), label, a.sites))
	c.Check(rule, label+":no-write-through-inputs", len(keys) == 0, entries[0].Pos(), fmt.Sprintf("no store / map update / append / copy / delete / sort / decode targets memory reachable from the inputs of %s (%d sites examined)", label, a.sites))
	for _, k := range keys {
		v := a.viol[k]
		c.Check(rule, label+":"+k, false, v.p, v.what)
	}
}
