package main

import (
	"fmt"
	"go/constant"
	"go/token"
	"go/types"
	"regexp"
	"sort"
	"strings"

	"golang.org/x/tools/go/ssa"
)

func init() {
	props["C05"] = &propDef{run: runC05, explanation: "Partial (thin): that the 377-line recursive-descent re-serialiser and the number formatter produce the RFC 8785 form for every I-JSON value (fixed point, value preservation, spelling independence) is value-level and NOT decided. Decided statically — the constants and tables the RFC fixes, each a necessary condition: (T1) the two escape tables hold the seven RFC 8785 two-character escapes pairwise aligned, and reader and writer index both tables with one loop variable; (K1) the writer emits the remaining control characters (< 0x20) with the format \\u%04x (lower-case hex) and the reader rejects raw control bytes inside strings; (K2) NumberToJSON rejects NaN/Infinity by the exponent mask 0x7ff0000000000000, maps ±0 to \"0\", and selects fixed notation exactly for 1e-6 ≤ |x| < 1e21; (P1) the member sort key is unicode/utf16.Encode of the runes of the parsed member name, the ordering function reads only sort keys, equal keys raise an error, and a preceding key is inserted before the compared element; (P2) MarshalCanonical hands every value to Transform (json.Marshal first unless it already is []byte); (K3) the whitespace set is {0x20,0x0a,0x0d,0x09} and the literal table {true,false,null}. (K2) every string-valued call the accepted number text depends on is strconv.FormatFloat; (P2) canonicalisation, hashing and commitment functions read no package-level state that changes after initialisation. A string token is emitted as writer(reader()) (P4). With no differing code unit the shorter sort key precedes, equal keys raise the duplicate error, a longer key does not precede (three orderings of the two lengths). (K4) the value of a \\uXXXX escape is the library's base-16 parse of its digits; (K3) no byte cut from a wider integer is written, every byte set that mentions whitespace holds all four whitespace characters. Nothing orders two strings as strings; scanner rules K5 (escape values uncompared, string bytes not through the ASCII-only reader, table searches found/not-found only, structural characters through the skipping scanner, position loops advance). (K5f) closed set of scanner refusals; (K5g) every exit of Transform behind the trailing-input loop; C19.A/B on the canonicalizer's functions. (K5h) per-level state of the recursion; (K5i) look-ahead restores the position; (K5j) string bytes read as they are. The \\uhhhh form is written for bytes below 0x20 only."}
}

// globalByteSlice: constants of a package-level []byte / []string literal initialised in init.
func (c *Ctx) globalSliceLiteral(g *ssa.Global) []string {
	if g == nil || g.Pkg == nil {
		return nil
	}
	init := g.Pkg.Func("init")
	var out []string
	forEachInstr(init, func(in ssa.Instruction) {
		st, ok := in.(*ssa.Store)
		if !ok || st.Addr != ssa.Value(g) {
			return
		}
		sl, ok := st.Val.(*ssa.Slice)
		if !ok {
			return
		}
		al, ok := sl.X.(*ssa.Alloc)
		if !ok {
			return
		}
		type kv struct {
			i int64
			v string
		}
		var kvs []kv
		for _, r := range *al.Referrers() {
			if ia, isIA := r.(*ssa.IndexAddr); isIA {
				idx, _ := constant.Int64Val(ia.Index.(*ssa.Const).Value)
				for _, rr := range *ia.Referrers() {
					if s2, isS := rr.(*ssa.Store); isS {
						kvs = append(kvs, kv{idx, unquote(c.Path(s2.Val, nil))})
					}
				}
			}
		}
		sort.Slice(kvs, func(i, j int) bool { return kvs[i].i < kvs[j].i })
		for _, e := range kvs {
			out = append(out, e.v)
		}
	})
	return out
}

// closuresOf: the function literals of f, nested ones included, and the functions of f's own package they call (a
// literal that captures nothing may as well be written as a package-level function), with their literals
func closuresOf(f *ssa.Function) []*ssa.Function {
	var out []*ssa.Function
	seen := map[*ssa.Function]bool{f: true}
	var walk func(g *ssa.Function)
	walk = func(g *ssa.Function) {
		for _, a := range g.AnonFuncs {
			if !seen[a] {
				seen[a] = true
				out = append(out, a)
				walk(a)
			}
		}
		forEachInstr(g, func(in ssa.Instruction) {
			cl, ok := in.(ssa.CallInstruction)
			if !ok {
				return
			}
			if h := cl.Common().StaticCallee(); h != nil && h.Pkg != nil && h.Pkg == f.Pkg && h.Parent() == nil && !seen[h] && len(h.Blocks) > 0 && h.Object() != nil && !h.Object().Exported() {
				seen[h] = true
				out = append(out, h)
				walk(h)
			}
		})
	}
	walk(f)
	return out
}

func runC05(c *Ctx) {
	c.jcsRules()
}

// jcsRules: the RFC 8785 constant/table rules, shared with the properties that hash JCS output.
func isPhiOrSlice(v ssa.Value) bool {
	switch v.(type) {
	case *ssa.Phi, *ssa.Slice, *ssa.BinOp:
		return true
	}
	return false
}

func (c *Ctx) jcsRules() {
	// these rules name values in the function's own frame: no helper inlining, whatever the calling check uses
	savedInl := c.inlineHelpers
	c.inlineHelpers = false
	defer func() { c.inlineHelpers = savedInl }()
	// canonical bytes and hashes are functions of the value: no memo, pooled hasher or other package-level state that
	// changes after initialisation takes part in computing them
	{
		var entries []*ssa.Function
		for _, e := range []*ssa.Function{c.Fn("canonicalizer", "MarshalCanonical"), c.Fn("hashing", "ComputeMultihash"), c.Fn("hashing", "CalculateModelMultihash"), c.Fn("hashing", "IsValidModelMultihash"), c.Fn("commitment", "GetCommitment"), c.Fn("commitment", "GetRevealValue")} {
			if e != nil {
				entries = append(entries, e)
			}
		}
		if len(entries) >= 4 {
			c.statelessRule("C05.P2", "canonicalisation and hashing", entries)
		} else {
			c.Unresolved("C05.P2", "canonicalizer.MarshalCanonical / hashing.* / commitment.*")
		}
	}
	const pJC = "internal/jsoncanonicalizer"
	tr := c.Fn(pJC, "Transform")
	ntj := c.Fn(pJC, "NumberToJSON")
	if tr == nil || ntj == nil {
		c.Unresolved("C05.T1", "jsoncanonicalizer.Transform / NumberToJSON")
		return
	}
	cls := closuresOf(tr)
	c.Analysed(tr)
	for _, f := range cls {
		c.Analysed(f)
	}
	// ---- T1 escape tables
	ascii := c.globalSliceLiteral(c.Global(pJC, "asciiEscapes"))
	bin := c.globalSliceLiteral(c.Global(pJC, "binaryEscapes"))
	wantA := []string{"92", "34", "98", "102", "110", "114", "116"} // \ " b f n r t
	wantB := []string{"92", "34", "8", "12", "10", "13", "9"}       // \ " BS FF LF CR TAB
	c.Check("C05.T1", "asciiEscapes", eqStrs(ascii, wantA), 0, fmt.Sprintf("asciiEscapes = %v (expected \\ \" b f n r t)", ascii))
	c.Check("C05.T1", "binaryEscapes", eqStrs(bin, wantB), 0, fmt.Sprintf("binaryEscapes = %v (expected \\ \" BS FF LF CR TAB, aligned with asciiEscapes)", bin))
	// reader and writer: the table looked up after a match is indexed by the same value as the table compared
	aligned := 0
	for _, f := range cls {
		forEachInstr(f, func(in ssa.Instruction) {
			bo, ok := in.(*ssa.BinOp)
			if !ok || bo.Op != token.EQL {
				return
			}
			var cmpIdx ssa.Value
			var cmpTbl string
			for _, side := range []ssa.Value{bo.X, bo.Y} {
				if ld, isLd := side.(*ssa.UnOp); isLd {
					if ia, isIA := ld.X.(*ssa.IndexAddr); isIA {
						p := c.Path(ia.X, nil)
						if strings.HasSuffix(p, "asciiEscapes") || strings.HasSuffix(p, "binaryEscapes") {
							cmpIdx, cmpTbl = ia.Index, p
						}
					}
				}
			}
			if cmpIdx == nil {
				return
			}
			for _, e := range boolEdges(bo, true) {
				for _, i2 := range e.to.Instrs {
					if ia, isIA := i2.(*ssa.IndexAddr); isIA {
						p := c.Path(ia.X, nil)
						if (strings.HasSuffix(p, "asciiEscapes") || strings.HasSuffix(p, "binaryEscapes")) && p != cmpTbl {
							ok := ia.Index == cmpIdx
							c.Check("C05.T1", "aligned-lookup:"+short(f.String()), ok, ia.Pos(), "after matching entry i of one escape table the other table is read at the same i")
							if ok {
								aligned++
							}
						}
					}
				}
			}
		})
	}
	// the same pairing written with a search function: i := bytes.IndexByte(tableA, x); i >= 0 ⇒ tableB[i]
	for _, f := range cls {
		forEachInstr(f, func(in ssa.Instruction) {
			ia, ok := in.(*ssa.IndexAddr)
			if !ok {
				return
			}
			p := c.Path(ia.X, nil)
			if !(strings.HasSuffix(p, "asciiEscapes") || strings.HasSuffix(p, "binaryEscapes")) {
				return
			}
			cl, isC := ia.Index.(*ssa.Call)
			if !isC || !isIndexSearch(cl) || len(cl.Call.Args) < 2 {
				return
			}
			other := c.Path(cl.Call.Args[0], nil)
			if (strings.HasSuffix(other, "asciiEscapes") || strings.HasSuffix(other, "binaryEscapes")) && other != p {
				c.Check("C05.T1", "aligned-lookup:"+short(f.String()), true, ia.Pos(), "the other table is read at the position the search function found the entry in the first table")
				aligned++
			}
		})
	}
	c.Check("C05.T1", "aligned-lookup:both-directions", aligned == 2, tr.Pos(), fmt.Sprintf("%d aligned cross-table lookups (reader and writer)", aligned))
	c.Min("C05.T1", 5)

	// ---- T2 writer exits: the string writer returns its builder; a fast path that returns the raw string
	// unescaped is admissible only behind a guard that tests every byte for '"', '\\' and < 0x20.
	{
		var writer *ssa.Function
		for _, f := range cls {
			forEachInstr(f, func(in ssa.Instruction) {
				if cl, ok := in.(*ssa.Call); ok && cl.Call.StaticCallee() != nil && cl.Call.StaticCallee().String() == "fmt.Sprintf" && c.Path(cl.Call.Args[0], nil) == `"\\u%04x"` {
					writer = f
				}
			})
		}
		if writer == nil {
			c.Check("C05.T2", "writer-exits", false, tr.Pos(), "string writer closure not found")
		} else {
			ok := true
			var notes []string
			for _, r := range returnsOf(writer) {
				p := c.Path(r.Results[0], nil)
				if strings.HasPrefix(p, "(*strings.Builder).String(") {
					continue
				}
				// fast path: must be dominated by the false edge of a per-byte scan for '"', '\\' and < 0x20
				guarded := false
				for b := r.Block(); b != nil; b = b.Idom() {
					id := b.Idom()
					if id == nil || len(b.Preds) != 1 {
						continue
					}
					iff, isIf := id.Instrs[len(id.Instrs)-1].(*ssa.If)
					if !isIf {
						continue
					}
					cond := iff.Cond
					neg := false
					if u, isU := cond.(*ssa.UnOp); isU && u.Op == token.NOT {
						cond, neg = u.X, true
					}
					cl, isC := cond.(*ssa.Call)
					if !isC {
						continue
					}
					truth := (id.Succs[0] == b) != neg // value of the scan result on this edge
					for _, h := range c.Callees(&cl.Call) {
						got := map[string]bool{}
						forEachInstr(h, func(in ssa.Instruction) {
							if bo, isB := in.(*ssa.BinOp); isB {
								if k, isK := bo.Y.(*ssa.Const); isK && strings.Contains(c.Path(bo.X, nil), "[ι]") {
									if bo.Op == token.EQL {
										got[c.Path(k, nil)] = true
									}
									if bo.Op == token.LSS && c.Path(k, nil) == "32" {
										got["<32"] = true
									}
								}
							}
						})
						if !truth && got["34"] && got["92"] && got["<32"] {
							guarded = true
						}
						notes = append(notes, fmt.Sprintf("fast path guarded by %s testing %v", h.Name(), keysOfBool(got)))
					}
				}
				if !guarded {
					ok = false
					notes = append(notes, "exit returning "+p+" is not behind a scan for '\"', '\\' and control bytes")
				}
			}
			c.Check("C05.T2", "writer-exits", ok, writer.Pos(), "every exit of the string writer returns the escaped builder (or an unescaped fast path behind a complete per-byte scan) "+strings.Join(notes, "; "))
		}
	}
	c.Min("C05.T2", 1)

	// ---- P4 string tokens are re-serialised: in the element dispatcher, the arm for '"' returns the string writer applied
	// to the string reader's result and nothing else — no verbatim pass-through of the input text (the input may spell
	// a character in a way the canonical form does not: "\/" for "/")
	{
		var writer, elem *ssa.Function
		for _, f := range cls {
			forEachInstr(f, func(in ssa.Instruction) {
				if cl, ok := in.(*ssa.Call); ok && cl.Call.StaticCallee() != nil && cl.Call.StaticCallee().String() == "fmt.Sprintf" && c.Path(cl.Call.Args[0], nil) == `"\\u%04x"` {
					writer = f
				}
			})
			tbl := c.caseTable(f, nil, func(p string) bool { return true })
			if tbl["34"] != nil && tbl["123"] != nil && tbl["91"] != nil {
				elem = f
			}
		}
		okStr, detail := false, "no element dispatcher (a function with arms for '{', '[' and '\"') found"
		if elem != nil && writer != nil {
			arm := c.caseTable(elem, nil, func(p string) bool { return true })["34"]
			okStr, detail = true, ""
			nRet := 0
			for b := range reach(arm, nil) {
				// only the arm's own blocks: those it dominates
				if !arm.Dominates(b) {
					continue
				}
				r, isR := b.Instrs[len(b.Instrs)-1].(*ssa.Return)
				if !isR {
					continue
				}
				nRet++
				good := false
				if cl, isC := r.Results[0].(*ssa.Call); isC && len(cl.Call.Args) == 1 {
					cs := c.Callees(&cl.Call)
					if len(cs) == 1 && cs[0] == writer {
						if in, isIn := cl.Call.Args[0].(*ssa.Call); isIn && len(in.Call.Args) == 0 {
							if ics := c.Callees(&in.Call); len(ics) == 1 && ics[0].Parent() == tr {
								good = true
							}
						}
					}
				}
				if !good {
					okStr = false
					detail = "exit at " + c.pos(r.Pos()) + " returns " + c.Path(r.Results[0], nil)
				}
			}
			if _, self := reach(arm, nil)[arm]; !self {
				if r, isR := arm.Instrs[len(arm.Instrs)-1].(*ssa.Return); isR {
					_ = r
				}
			}
			if nRet == 0 {
				// the arm itself ends in the return
				if r, isR := arm.Instrs[len(arm.Instrs)-1].(*ssa.Return); isR {
					nRet = 1
					okStr = false
					if cl, isC := r.Results[0].(*ssa.Call); isC && len(cl.Call.Args) == 1 {
						if cs := c.Callees(&cl.Call); len(cs) == 1 && cs[0] == writer {
							if in, isIn := cl.Call.Args[0].(*ssa.Call); isIn && len(in.Call.Args) == 0 {
								if ics := c.Callees(&in.Call); len(ics) == 1 && ics[0].Parent() == tr {
									okStr = true
								}
							}
						}
					}
					if !okStr {
						detail = "the arm returns " + c.Path(r.Results[0], nil)
					}
				} else {
					okStr, detail = false, "the arm has no exit of its own"
				}
			}
		}
		c.Check("C05.P4", "string-tokens-through-reader-and-writer", okStr, tr.Pos(), "a string value is emitted as writer(reader()) — the parsed string re-escaped, never the input text "+detail)
	}
	c.Min("C05.P4", 1)

	// ---- K1 control characters
	{
		okW, okR := false, false
		for _, f := range cls {
			forEachInstr(f, func(in ssa.Instruction) {
				bo, ok := in.(*ssa.BinOp)
				if !ok || !((bo.Op == token.LSS && c.Path(bo.Y, nil) == "32") || (bo.Op == token.LEQ && c.Path(bo.Y, nil) == "31")) {
					return
				}
				for _, e := range boolEdges(bo, true) {
					for _, i2 := range e.to.Instrs {
						cl, isC := i2.(*ssa.Call)
						if !isC {
							continue
						}
						if g := cl.Call.StaticCallee(); g != nil && g.String() == "fmt.Sprintf" && c.Path(cl.Call.Args[0], nil) == `"\\u%04x"` {
							okW = true
						}
						if g := cl.Call.StaticCallee(); g == nil && len(cl.Call.Args) == 1 {
							if _, isK := cl.Call.Args[0].(*ssa.Const); isK && types.TypeString(cl.Call.Args[0].Type(), nil) == "string" {
								okR = true // error setter invoked on the `< 0x20` edge of the string reader
							}
						}
					}
				}
			})
		}
		// … and only those: RFC 8785 writes every other character as it is (U+007F included), so each site of the
		// \uhhhh form lies behind the test "< 0x20" on every way in
		{
			var wide []string
			n := 0
			for _, f := range cls {
				forEachInstr(f, func(in ssa.Instruction) {
					cl, isC := in.(*ssa.Call)
					if !isC || cl.Call.StaticCallee() == nil || cl.Call.StaticCallee().String() != "fmt.Sprintf" || c.Path(cl.Call.Args[0], nil) != `"\\u%04x"` {
						return
					}
					n++
					isBehind := func(b *ssa.BasicBlock) bool {
						for _, cnd := range c.condsOf(b) {
							if strings.HasSuffix(cnd, " < 32)=true") || strings.HasSuffix(cnd, " <= 31)=true") || strings.HasSuffix(cnd, " >= 32)=false") || strings.HasSuffix(cnd, " > 31)=false") {
								return true
							}
						}
						return false
					}
					behind := isBehind(cl.Block())
					if !behind {
						// (the form written by a small helper: every call of the helper lies behind the test)
						calls := 0
						all := true
						for _, g := range append([]*ssa.Function{tr}, cls...) {
							for _, hc := range callsTo(g, f) {
								calls++
								if !isBehind(hc.Block()) {
									all = false
								}
							}
						}
						behind = calls > 0 && all
					}
					if !behind {
						wide = append(wide, c.pos(cl.Pos()))
					}
				})
			}
			c.Check("C05.K1", "writer:\\uhhhh-for-control-chars-only", n > 0 && len(wide) == 0, tr.Pos(), fmt.Sprintf("%d site(s) of the \\uhhhh form, each reached only for a byte < 0x20 (not so: %v)", n, wide))
		}
		c.Check("C05.K1", "writer:control-chars-as-\\u%04x", okW, tr.Pos(), "bytes < 0x20 without a two-character escape are written with fmt.Sprintf(\"\\\\u%04x\", c)")
		c.Check("C05.K1", "reader:raw-control-bytes-rejected", okR, tr.Pos(), "a raw byte < 0x20 inside a string literal raises an error")
	}
	c.Min("C05.K1", 2)

	// ---- K2 numbers
	{
		c.Analysed(ntj)
		okMask, okZero := false, false
		forEachInstr(ntj, func(in ssa.Instruction) {
			bo, ok := in.(*ssa.BinOp)
			if !ok || bo.Op != token.EQL {
				return
			}
			p := c.Path(bo, nil)
			if p == "((math.Float64bits($0) & 9218868437227405312) == 9218868437227405312)" {
				for _, e := range boolEdges(bo, true) {
					if r, isR := e.to.Instrs[len(e.to.Instrs)-1].(*ssa.Return); isR && !maySucceed(r) {
						okMask = true
					}
				}
			}
			if p == "($0 == 0)" {
				for _, e := range boolEdges(bo, true) {
					if r, isR := e.to.Instrs[len(e.to.Instrs)-1].(*ssa.Return); isR && c.Path(r.Results[0], nil) == `"0"` && c.Path(r.Results[1], nil) == "nil" {
						okZero = true
					}
				}
			}
		})
		c.Check("C05.K2", "NaN-Inf-rejected", okMask, ntj.Pos(), "(bits & 0x7ff0000000000000) == 0x7ff0000000000000 returns an error")
		c.Check("C05.K2", "zero-and-minus-zero", okZero, ntj.Pos(), "x == 0 (which holds for -0 too) returns \"0\"")
		// format selection
		okFmt := false
		detail := ""
		// the function that selects the format: NumberToJSON, or an unexported helper it hands the magnitude to (every
		// call passes x or -x; the magnitude is then the helper's parameter)
		host, isMag := ntj, func(p string) bool { return strings.HasPrefix(p, "phi($0|-$0)") }
		hasSel := func(f *ssa.Function) bool {
			found := false
			forEachInstr(f, func(in ssa.Instruction) {
				if phi, ok := in.(*ssa.Phi); ok && c.Path(phi, nil) == "phi(101|102)" {
					found = true
				}
			})
			return found
		}
		if !hasSel(ntj) {
			for _, g := range c.helpersOf(ntj, 1) {
				if !hasSel(g) || len(g.Params) != 1 {
					continue
				}
				okArgs := true
				for _, cl := range callsTo(ntj, g) {
					if a := c.Path(cl.Call.Args[0], nil); a != "$0" && a != "-$0" && a != "phi($0|-$0)" && a != "phi(-$0|$0)" {
						okArgs = false
					}
				}
				if okArgs {
					host, isMag = g, func(p string) bool { return p == "$0" }
				}
			}
		}
		forEachInstr(host, func(in ssa.Instruction) {
			phi, ok := in.(*ssa.Phi)
			if !ok || c.Path(phi, nil) != "phi(101|102)" {
				return
			}
			for i, e := range phi.Edges {
				if c.Path(e, nil) != "102" {
					continue
				}
				// conditions on the way to the predecessor that selects 'f'
				var conds []string
				for b := phi.Block().Preds[i]; b != nil; b = b.Idom() {
					id := b.Idom()
					if id == nil || len(b.Preds) != 1 {
						continue
					}
					if iff, isIf := id.Instrs[len(id.Instrs)-1].(*ssa.If); isIf {
						bo, isB := iff.Cond.(*ssa.BinOp)
						if !isB {
							continue
						}
						// the magnitude on the left, the constant on the right, the relation as it holds on this edge
						// (`1e-6 <= x` is `x >= 1e-6`; `x < c` being false is `x >= c`)
						mag, kv, op := bo.X, bo.Y, bo.Op
						if _, isKx := mag.(*ssa.Const); isKx {
							mag, kv, op = bo.Y, bo.X, flipOp(op)
						}
						k, isK := kv.(*ssa.Const)
						if !isK || !isMag(c.Path(mag, nil)) || !isCmp(op) {
							continue
						}
						if id.Succs[0] != b {
							op = negOp(op)
						}
						f64, _ := constant.Float64Val(k.Value)
						conds = append(conds, fmt.Sprintf("|x| %s %g = true", op, f64))
					}
				}
				sort.Strings(conds)
				detail = strings.Join(conds, " ∧ ")
				okFmt = eqStrs(conds, []string{"|x| < 1e+21 = true", "|x| >= 1e-06 = true"})
			}
		})
		c.Check("C05.K2", "fixed-notation-range", okFmt, ntj.Pos(), "format 'f' is selected exactly under: "+detail+" (expected |x| < 1e21 ∧ |x| ≥ 1e-6)")
		// sign handled separately, result = sign + digits
		okSign := false
		neg, pos := false, false
		for _, r := range successReturns(ntj) {
			p := c.Path(r.Results[0], nil)
			if strings.HasPrefix(p, `(phi(""|"-") + `) {
				okSign = true
			}
			// or two exits: "-" + format(-x) where x < 0, format(x) otherwise
			if host != ntj {
				hn := short(host.String())
				conds := c.condsOf(r.Block())
				has := func(w string) bool {
					for _, cnd := range conds {
						if cnd == w {
							return true
						}
					}
					return false
				}
				if p == `("-" + `+hn+`(-$0))` && has("($0 < 0)=true") {
					neg = true
				}
				if p == hn+"($0)" && has("(0 <= $0)=true") {
					pos = true
				}
			}
		}
		okSign = okSign || (neg && pos)
		c.Check("C05.K2", "sign-prefix", okSign, ntj.Pos(), "the result is the sign followed by the formatted magnitude")
		// the digits come from strconv.FormatFloat (shortest round-trip form) and from nothing else: every string-valued
		// call the accepted result depends on is FormatFloat — pieces are cut and joined by index, not produced or
		// rewritten by another formatter (an integer formatter prints exact digits, a textual replace depends on the sign)
		{
			var foreign []string
			nFF := 0
			seenV := map[ssa.Value]bool{}
			var walk func(f *ssa.Function, v ssa.Value, d int)
			walk = func(f *ssa.Function, v ssa.Value, d int) {
				if v == nil || seenV[v] || d > 40 {
					return
				}
				seenV[v] = true
				if cl, isC := v.(*ssa.Call); isC {
					g := cl.Call.StaticCallee()
					switch {
					case g != nil && g.String() == "strconv.FormatFloat":
						nFF++
						return
					case g != nil && inModule(g) && g.Blocks != nil && pkgPathOf(g) == pkgPathOf(ntj):
						for _, r := range returnsOf(g) {
							if len(r.Results) > 0 {
								walk(g, returnedValue(r, 0), d+1)
							}
						}
						return
					case isStringType(cl.Type()):
						foreign = append(foreign, calleeName(&cl.Call)+" at "+c.pos(cl.Pos()))
						return
					default:
						return // integers (positions, lengths) computed from the text
					}
				}
				if in, isI := v.(ssa.Instruction); isI {
					for _, op := range in.Operands(nil) {
						if *op != nil && (isStringType((*op).Type()) || isPhiOrSlice(*op)) {
							walk(f, *op, d+1)
						}
					}
				}
			}
			for _, r := range successReturns(ntj) {
				walk(ntj, returnedValue(r, 0), 0)
			}
			c.Check("C05.K2", "digits-from-FormatFloat-only", len(foreign) == 0 && nFF >= 1, ntj.Pos(), fmt.Sprintf("the accepted result is assembled from %d FormatFloat result(s); other string-producing calls it depends on: %v", nFF, foreign))
		}
	}
	c.Min("C05.K2", 5)

	// ---- P1 sort key
	{
		nvT := c.NamedType(pJC, "nameValueType")
		okKey := false
		var cmpFn *ssa.Function
		// (the name kept and ordered is the parsed one, not its written form: nothing the string writer produced flows
		// into it — escapes and the quotes order differently from the characters they stand for)
		var strWriter *ssa.Function
		for _, f := range cls {
			forEachInstr(f, func(in ssa.Instruction) {
				if cl, ok := in.(*ssa.Call); ok && cl.Call.StaticCallee() != nil && cl.Call.StaticCallee().String() == "fmt.Sprintf" && c.Path(cl.Call.Args[0], nil) == `"\\u%04x"` {
					strWriter = f
				}
			})
		}
		fromWriter := func(v ssa.Value) bool {
			for w := range backSlice(v) {
				if cl, ok := w.(*ssa.Call); ok && strWriter != nil {
					if cl.Call.StaticCallee() == strWriter {
						return true
					}
					// (a closure kept in a variable: the call goes through the cell that holds it)
					if p := c.Path(cl.Call.Value, nil); strings.HasSuffix(p, strWriter.Name()) || strings.Contains(p, strWriter.Name()+")") {
						return true
					}
				}
			}
			return false
		}
		for _, f := range cls {
			for _, a := range allocsOf(f, nvT) {
				ft := c.fieldTable(a, nil)
				if len(ft["sortKey"]) == 1 && len(ft["name"]) == 1 {
					if ft["sortKey"][0] == "unicode/utf16.Encode(conv<[]rune>("+ft["name"][0]+"))" {
						okName := true
						for _, fs := range storesInto(a) {
							if fs.Field != "name" {
								continue
							}
							if fromWriter(fs.Val) {
								okName = false
							}
							// a constructor handed the name: judged at its call sites
							if prm, isP := fs.Val.(*ssa.Parameter); isP {
								for pi, fp := range f.Params {
									if fp != prm {
										continue
									}
									for _, g := range append([]*ssa.Function{tr}, cls...) {
										for _, hc := range callsTo(g, f) {
											if pi < len(hc.Call.Args) && fromWriter(hc.Call.Args[pi]) {
												okName = false
											}
										}
									}
								}
							}
						}
						if okName {
							okKey = true
						}
					}
				}
			}
			// the ordering function: takes ([]uint16, *list.Element) and returns bool
			if f.Signature.Params().Len() == 2 && types.TypeString(f.Signature.Params().At(0).Type(), nil) == "[]uint16" {
				cmpFn = f
			}
		}
		c.Check("C05.P1", "sortKey=utf16(runes(name))", okKey, tr.Pos(), "the member's sort key is unicode/utf16.Encode([]rune(name)) of the same parsed name that is emitted")
		// member order is decided on the UTF-16 keys only: nothing in the canonicalizer orders two texts as texts (Go's
		// < on strings, strings.Compare, sorting of strings order by UTF-8 bytes = code points, which differs from
		// UTF-16 code units for U+E000..U+FFFF against supplementary characters)
		{
			var bad []string
			for _, f := range c.reachableModuleFuncs([]*ssa.Function{tr}) {
				if pkgPathOf(f) != modPkg+pJC {
					continue
				}
				forEachInstr(f, func(in ssa.Instruction) {
					switch x := in.(type) {
					case *ssa.BinOp:
						if (x.Op == token.LSS || x.Op == token.GTR || x.Op == token.LEQ || x.Op == token.GEQ) && isStringType(x.X.Type()) {
							bad = append(bad, c.pos(x.Pos())+": "+c.Path(x, nil))
						}
					case *ssa.Call:
						g := x.Call.StaticCallee()
						if g == nil {
							return
						}
						if o := g.Origin(); o != nil {
							g = o
						}
						n := g.String()
						switch n {
						case "strings.Compare", "sort.Strings", "sort.StringsAreSorted", "sort.SearchStrings", "bytes.Compare":
							bad = append(bad, c.pos(x.Pos())+": "+n)
						case "cmp.Compare", "cmp.Less", "slices.Sort", "slices.Max", "slices.Min", "slices.BinarySearch", "slices.IsSorted":
							if len(x.Call.Args) > 0 {
								t := x.Call.Args[0].Type()
								if sl, isSl := t.Underlying().(*types.Slice); isSl {
									t = sl.Elem()
								}
								if isStringType(t) {
									bad = append(bad, c.pos(x.Pos())+": "+n+" on strings")
								}
							}
						}
					}
				})
			}
			c.Check("C05.P1", "no-ordering-of-texts-as-texts", len(bad) == 0, tr.Pos(), fmt.Sprintf("the canonicalizer orders member names by their UTF-16 sort keys only; orderings of strings found: %v", bad))
		}
		if cmpFn == nil {
			c.Check("C05.P1", "ordering-function", false, tr.Pos(), "no ordering function over []uint16 sort keys found")
		} else {
			okOnlyKeys := true
			var bad []string
			forEachInstr(cmpFn, func(in ssa.Instruction) {
				ia, ok := in.(*ssa.IndexAddr)
				if !ok {
					return
				}
				p := c.Path(ia.X, nil)
				if p != "$0" && !strings.HasSuffix(p, ".sortKey") {
					okOnlyKeys = false
					bad = append(bad, p)
				}
			})
			// comparisons only between code units / lengths of the two keys
			forEachInstr(cmpFn, func(in ssa.Instruction) {
				bo, ok := in.(*ssa.BinOp)
				if !ok || !isCmp(bo.Op) {
					return
				}
				p := c.Path(bo, nil)
				if strings.Contains(p, ").name") {
					okOnlyKeys = false
					bad = append(bad, p)
				}
			})
			c.Check("C05.P1", "ordering-reads-only-sort-keys", okOnlyKeys, cmpFn.Pos(), fmt.Sprintf("the ordering function indexes only the two UTF-16 sort keys %v", bad))
			// code-unit difference: precedes on diff < 0, stops on diff > 0
			okDiff := false
			precedesOnTrue := func(lt *ssa.BinOp) {
				for _, e := range boolEdges(lt, true) {
					if ret, isR := e.to.Instrs[len(e.to.Instrs)-1].(*ssa.Return); isR && c.Path(ret.Results[0], nil) == "true" {
						okDiff = true
					}
				}
			}
			forEachInstr(cmpFn, func(in ssa.Instruction) {
				bo, ok := in.(*ssa.BinOp)
				if !ok {
					return
				}
				// the two code units compared directly: new[q] < old[q] (or old[q] > new[q])
				isNew := func(v ssa.Value) bool { return c.Path(v, nil) == "$0[ι]" }
				isOld := func(v ssa.Value) bool { return strings.HasSuffix(c.Path(v, nil), ".sortKey[ι]") }
				if (bo.Op == token.LSS && isNew(bo.X) && isOld(bo.Y)) || (bo.Op == token.GTR && isOld(bo.X) && isNew(bo.Y)) {
					precedesOnTrue(bo)
					return
				}
				if bo.Op != token.SUB {
					return
				}
				// the difference form needs a signed difference (an unsigned one is never negative)
				if bt, isB := bo.Type().Underlying().(*types.Basic); !isB || bt.Info()&types.IsUnsigned != 0 {
					return
				}
				if strings.Contains(c.Path(bo.X, nil), "$0[ι]") && strings.Contains(c.Path(bo.Y, nil), ".sortKey[ι]") {
					for _, r := range *bo.Referrers() {
						if lt, isB := r.(*ssa.BinOp); isB && lt.Op == token.LSS && c.Path(lt.Y, nil) == "0" {
							for _, e := range boolEdges(lt, true) {
								if ret, isR := e.to.Instrs[len(e.to.Instrs)-1].(*ssa.Return); isR && c.Path(ret.Results[0], nil) == "true" {
									okDiff = true
								}
							}
						}
					}
				}
			})
			// or the library's lexicographic comparison of the two []uint16 keys (unsigned code units, shorter prefix first)
			var libCmp *ssa.Call
			forEachInstr(cmpFn, func(in ssa.Instruction) {
				cl, ok := in.(*ssa.Call)
				if !ok || cl.Call.StaticCallee() == nil || len(cl.Call.Args) != 2 {
					return
				}
				o := cl.Call.StaticCallee().Origin()
				if o == nil || pkgPathOf(o) != "slices" || o.Name() != "Compare" {
					return
				}
				if c.Path(cl.Call.Args[0], nil) == "$0" && strings.HasSuffix(c.Path(cl.Call.Args[1], nil), ".sortKey") {
					libCmp = cl
				}
			})
			if libCmp != nil {
				for _, r := range *libCmp.Referrers() {
					if lt, isB := r.(*ssa.BinOp); isB && lt.Op == token.LSS && lt.X == ssa.Value(libCmp) && c.Path(lt.Y, nil) == "0" {
						precedesOnTrue(lt)
					}
					// (the library answers exactly -1, 0 or +1)
					if eq, isB := r.(*ssa.BinOp); isB && eq.Op == token.EQL && eq.X == ssa.Value(libCmp) && c.Path(eq.Y, nil) == "-1" {
						precedesOnTrue(eq)
					}
				}
			}
			c.Check("C05.P1", "ordering-by-code-unit-difference", okDiff, cmpFn.Pos(), "new key precedes when its first differing UTF-16 code unit is smaller")
			// duplicate keys raise an error
			okDup := false
			forEachInstr(cmpFn, func(in ssa.Instruction) {
				bo, ok := in.(*ssa.BinOp)
				if !ok || bo.Op != token.EQL {
					return
				}
				if c.Path(bo.X, nil) == "len($0)" && strings.HasPrefix(c.Path(bo.Y, nil), "len(") && strings.HasSuffix(c.Path(bo.Y, nil), ".sortKey)") {
					for _, e := range boolEdges(bo, true) {
						for _, i2 := range e.to.Instrs {
							if cl, isC := i2.(*ssa.Call); isC && cl.Call.StaticCallee() == nil && len(cl.Call.Args) == 1 {
								okDup = true
							}
						}
					}
				}
			})
			if libCmp != nil {
				for _, r := range *libCmp.Referrers() {
					if eq, isB := r.(*ssa.BinOp); isB && eq.Op == token.EQL && eq.X == ssa.Value(libCmp) && c.Path(eq.Y, nil) == "0" {
						for _, e := range boolEdges(eq, true) {
							for _, i2 := range e.to.Instrs {
								if cl, isC := i2.(*ssa.Call); isC && cl.Call.StaticCallee() == nil && len(cl.Call.Args) == 1 {
									okDup = true
								}
							}
						}
					}
				}
			}
			c.Check("C05.P1", "duplicate-key-error", okDup, cmpFn.Pos(), "keys equal in every code unit and in length raise an error")
			if libCmp == nil {
				c.prefixCaseRule("C05.P1", cmpFn)
			}
		}
		// insertion before the first element the new key precedes; otherwise append
		okIns := false
		for _, f := range cls {
			forEachInstr(f, func(in ssa.Instruction) {
				cl, ok := in.(*ssa.Call)
				if !ok || cl.Call.StaticCallee() != nil || !isBoolType(cl.Type()) || len(cl.Call.Args) != 2 {
					return
				}
				for _, e := range boolEdges(cl, true) {
					for _, i2 := range e.to.Instrs {
						if ib, isC := i2.(*ssa.Call); isC && ib.Call.StaticCallee() != nil && ib.Call.StaticCallee().String() == "(*container/list.List).InsertBefore" && (ib.Call.Args[2] == cl.Call.Args[1] || backSlice(cl.Call.Args[1])[ib.Call.Args[2]]) {
							okIns = true
						}
					}
				}
			})
		}
		c.Check("C05.P1", "insert-before-first-greater", okIns, tr.Pos(), "a member whose key precedes element e is inserted before e")
	}
	c.Min("C05.P1", 5)

	// ---- P3 every non-literal primitive token goes through ParseFloat -> NumberToJSON
	{
		var stp *ssa.Function
		for _, f := range cls {
			if len(callsTo(f, ntj)) > 0 {
				stp = f
			}
		}
		if stp == nil {
			c.Check("C05.P3", "number-tokens-through-NumberToJSON", false, tr.Pos(), "no closure of Transform calls NumberToJSON")
		} else {
			ok := true
			tokenLit := false
			var rets []string
			for _, r := range returnsOf(stp) {
				p := c.Path(r.Results[0], nil)
				rets = append(rets, p)
				isLit := p == "global:internal/jsoncanonicalizer.literals[ι]"
				isNum := strings.HasPrefix(p, "internal/jsoncanonicalizer.NumberToJSON(strconv.ParseFloat(") && strings.HasSuffix(p, ",64)#0)#0")
				// or the token itself, handed back only where it was found in the literal table (slices.Contains etc.)
				isTok := false
				for _, t := range c.constSetTests(stp, nil, func(q string) bool { return q == p }) {
					if !eqStrs(t.set, []string{"false", "null", "true"}) {
						continue
					}
					for _, e := range t.member {
						if e.via == nil && len(e.to.Preds) == 1 && e.to.Dominates(r.Block()) {
							isTok = true
							tokenLit = true
						}
					}
				}
				// or the table entry at the position an index search found the token
				if ld, isLd := r.Results[0].(*ssa.UnOp); isLd && !isLit {
					if ia, isIA := ld.X.(*ssa.IndexAddr); isIA && c.Path(ia.X, nil) == "global:internal/jsoncanonicalizer.literals" {
						if sc, isC := ia.Index.(*ssa.Call); isC && isIndexSearch(sc) && len(sc.Call.Args) == 2 && c.Path(sc.Call.Args[0], nil) == "global:internal/jsoncanonicalizer.literals" {
							isLit, tokenLit = true, true
						}
					}
				}
				if !isLit && !isNum && !isTok {
					ok = false
				}
			}
			// the literal is returned only on equality with the token
			okLit := false
			forEachInstr(stp, func(in ssa.Instruction) {
				if bo, isB := in.(*ssa.BinOp); isB && bo.Op == token.EQL && c.Path(bo.X, nil) == "global:internal/jsoncanonicalizer.literals[ι]" {
					for _, e := range boolEdges(bo, true) {
						if r, isR := e.to.Instrs[len(e.to.Instrs)-1].(*ssa.Return); isR && c.Path(r.Results[0], nil) == "global:internal/jsoncanonicalizer.literals[ι]" {
							okLit = true
						}
					}
				}
			})
			sort.Strings(rets)
			c.Check("C05.P3", "number-tokens-through-NumberToJSON", ok && (okLit || tokenLit) && len(rets) >= 2, stp.Pos(), fmt.Sprintf("a primitive token is emitted either as the matching literal or as NumberToJSON(ParseFloat(token)) — no textual pass-through: %v", rets))
		}
	}
	c.Min("C05.P3", 1)

	// ---- K4 surrogate pairs in \u escapes: the first unit of an escape starts a pair exactly when it is a
	// surrogate; either decided by unicode/utf16.IsSurrogate or by comparisons whose constants delimit
	// exactly the high-surrogate range D800..DBFF or the whole surrogate range D800..DFFF.
	{
		okS, detail := false, "no utf16.DecodeRune call found in the string reader"
		for _, f := range cls {
			forEachInstr(f, func(in ssa.Instruction) {
				cl, ok := in.(*ssa.Call)
				if !ok || cl.Call.StaticCallee() == nil || cl.Call.StaticCallee().String() != "unicode/utf16.DecodeRune" {
					return
				}
				first := cl.Call.Args[0]
				// conditions on `first` dominating the DecodeRune call
				lo, hi := int64(-1), int64(-1)
				viaLib := false
				for b := cl.Block(); b != nil; b = b.Idom() {
					id := b.Idom()
					if id == nil || len(b.Preds) != 1 {
						continue
					}
					iff, isIf := id.Instrs[len(id.Instrs)-1].(*ssa.If)
					if !isIf {
						continue
					}
					truth := id.Succs[0] == b
					switch x := iff.Cond.(type) {
					case *ssa.Call:
						if g := x.Call.StaticCallee(); g != nil && g.String() == "unicode/utf16.IsSurrogate" && x.Call.Args[0] == first && truth {
							viaLib = true
						}
					case *ssa.BinOp:
						l, r, op := x.X, x.Y, x.Op
						if r == first {
							l, r, op = r, l, flipOp(op)
						}
						k, isK := r.(*ssa.Const)
						if l != first || !isK {
							continue
						}
						if !truth {
							op = negOp(op)
						}
						v, _ := constant.Int64Val(k.Value)
						switch op {
						case token.GEQ:
							lo = v
						case token.GTR:
							lo = v + 1
						case token.LEQ:
							hi = v
						case token.LSS:
							hi = v - 1
						}
					}
				}
				if viaLib {
					okS, detail = true, "pair detection by unicode/utf16.IsSurrogate on the first escaped unit"
				} else {
					okS = lo == 0xD800 && (hi == 0xDBFF || hi == 0xDFFF)
					detail = fmt.Sprintf("hand-written surrogate range [%#x, %#x] (must be [0xd800, 0xdbff] or [0xd800, 0xdfff])", lo, hi)
				}
			})
		}
		c.Check("C05.K4", "surrogate-pair-detection", okS, tr.Pos(), detail)
	}
	// the four hex digits of a \uXXXX escape are turned into a number by the standard library's base-16 parser (or
	// encoding/hex): a hand-written digit table is where 'a'-'f' / 'A'-'F' go wrong for exactly the escapes the tests
	// do not contain
	{
		var reader *ssa.Function
		for _, f := range append([]*ssa.Function{tr}, tr.AnonFuncs...) {
			if f.Signature.Params().Len() != 0 || f.Signature.Results().Len() != 1 {
				continue
			}
			if bt, isB := f.Signature.Results().At(0).Type().Underlying().(*types.Basic); !isB || bt.Kind() != types.Int32 {
				continue
			}
			reader = f
		}
		okHex, detail := false, "no closure of Transform returns a rune read from the input"
		if reader != nil {
			c.Analysed(reader)
			okHex = true
			n := 0
			for _, r := range returnsOf(reader) {
				p := c.Path(returnedValue(r, 0), nil)
				if p == "0" {
					continue
				}
				n++
				detail = p
				lib := (strings.Contains(p, "strconv.ParseUint(") || strings.Contains(p, "strconv.ParseInt(")) && strings.Contains(p, ",16,")
				if !lib && !strings.Contains(p, "encoding/hex.Decode") {
					okHex = false
				}
				if strings.Contains(p, " - 48)") || strings.Contains(p, " - 87)") || strings.Contains(p, " - 55)") || strings.Contains(p, " - 97)") || strings.Contains(p, " - 65)") || strings.Contains(p, " << 4)") {
					okHex = false
				}
			}
			okHex = okHex && n >= 1
		}
		c.Check("C05.K4", "u-escape:decoded-by-library-hex-parser", okHex, tr.Pos(), "the value of a \\uXXXX escape is strconv.ParseUint(digits, 16, …) of the four characters read: "+detail)
	}
	c.Min("C05.K4", 2)
	c.jcsScannerRules(tr)

	// ---- P2
	c.hashLeafContracts("C05.P2")

	// ---- K3
	{
		okWS := false
		// the predicate may be a function literal of Transform or a function of its own that Transform's code calls
		for _, f := range c.reachableModuleFuncs([]*ssa.Function{tr}) {
			if pkgPathOf(f) != pkgPathOf(tr) {
				continue
			}
			if f.Signature.Params().Len() != 1 || f.Signature.Results().Len() != 1 || !isBoolType(f.Signature.Results().At(0).Type()) || types.TypeString(f.Signature.Params().At(0).Type(), nil) != "byte" {
				continue
			}
			var ks []string
			forEachInstr(f, func(in ssa.Instruction) {
				if bo, ok := in.(*ssa.BinOp); ok && bo.Op == token.EQL && c.Path(bo.X, nil) == "$0" {
					ks = append(ks, c.Path(bo.Y, nil))
				}
			})
			sort.Strings(ks)
			if eqStrs(ks, []string{"10", "13", "32", "9"}) {
				okWS = true
			}
		}
		c.Check("C05.K3", "whitespace-set", okWS, tr.Pos(), "insignificant whitespace is exactly {0x20, 0x0a, 0x0d, 0x09}")
		lits := c.globalSliceLiteral(c.Global(pJC, "literals"))
		c.Check("C05.K3", "literal-table", eqStrs(lits, []string{"true", "false", "null"}), 0, fmt.Sprintf("literals = %v", lits))
	}
	// every other place of the package that tells whitespace from other bytes tells all of it: a set of bytes (a string
	// constant searched for a byte, or the constants one value is compared with) that holds two or more of the four
	// whitespace characters holds all four — a token terminator set without CR ends a token at LF but not at CR
	{
		ws := map[string]bool{" ": true, "\t": true, "\n": true, "\r": true}
		wsCode := map[string]string{"32": " ", "9": "\t", "10": "\n", "13": "\r"}
		n := 0
		var bad []string
		for _, f := range c.Funcs {
			if pkgPathOf(f) != pkgPathOf(tr) {
				continue
			}
			// string constants
			forEachInstr(f, func(in ssa.Instruction) {
				var ops []*ssa.Value
				for _, op := range in.Operands(ops) {
					k, isK := (*op).(*ssa.Const)
					if !isK || k.Value == nil || k.Value.Kind() != constant.String {
						continue
					}
					got := map[string]bool{}
					for _, r := range constant.StringVal(k.Value) {
						if ws[string(r)] {
							got[string(r)] = true
						}
					}
					if len(got) >= 2 {
						n++
						if len(got) != 4 {
							bad = append(bad, fmt.Sprintf("%s at %s: the byte set %q holds %d of the 4 whitespace characters", short(f.String()), c.pos(in.Pos()), constant.StringVal(k.Value), len(got)))
						}
					}
				}
			})
			// constants one value is compared with for equality
			by := map[string]map[string]bool{}
			forEachInstr(f, func(in ssa.Instruction) {
				bo, isB := in.(*ssa.BinOp)
				if !isB || (bo.Op != token.EQL && bo.Op != token.NEQ) {
					return
				}
				v, k := bo.X, bo.Y
				if _, isK := v.(*ssa.Const); isK {
					v, k = k, v
				}
				kc, isK := k.(*ssa.Const)
				if !isK || kc.Value == nil || kc.Value.Kind() != constant.Int {
					return
				}
				if w, isWS := wsCode[kc.Value.ExactString()]; isWS {
					p := c.Path(v, nil)
					if by[p] == nil {
						by[p] = map[string]bool{}
					}
					by[p][w] = true
				}
			})
			for p, got := range by {
				if len(got) >= 2 {
					n++
					if len(got) != 4 {
						bad = append(bad, fmt.Sprintf("%s: %s is compared with %d of the 4 whitespace characters", short(f.String()), p, len(got)))
					}
				}
			}
		}
		sort.Strings(bad)
		c.Check("C05.K3", "whitespace-sets-complete", len(bad) == 0 && n >= 1, tr.Pos(), fmt.Sprintf("%d byte set(s) of the package mention whitespace; each holds all of {0x20, 0x09, 0x0a, 0x0d}", n), bad...)
	}
	// a decoded code unit or code point reaches the output as UTF-8 (WriteRune / string conversion), never as one byte
	// cut out of a wider integer: `WriteByte(byte(u))` of a value above 0x7f writes a byte that is not UTF-8
	{
		var bad []string
		n := 0
		for _, f := range c.Funcs {
			if pkgPathOf(f) != pkgPathOf(tr) {
				continue
			}
			forEachInstr(f, func(in ssa.Instruction) {
				cl, isC := in.(*ssa.Call)
				if !isC || cl.Call.StaticCallee() == nil || !strings.HasSuffix(cl.Call.StaticCallee().String(), ").WriteByte") || len(cl.Call.Args) != 2 {
					return
				}
				n++
				if cv, isCv := cl.Call.Args[1].(*ssa.Convert); isCv {
					if bt, isB := cv.X.Type().Underlying().(*types.Basic); isB && bt.Info()&types.IsInteger != 0 && bt.Kind() != types.Uint8 && bt.Kind() != types.Int8 {
						bad = append(bad, fmt.Sprintf("%s at %s: WriteByte(byte(%s)) of a %s", short(f.String()), c.pos(cl.Pos()), c.Path(cv.X, nil), bt.Name()))
					}
				}
			})
		}
		c.Check("C05.K3", "no-byte-cut-from-wider-integer", len(bad) == 0 && n >= 1, tr.Pos(), fmt.Sprintf("%d WriteByte call(s) in the package; none writes a byte converted from a wider integer", n), bad...)
	}
	c.Min("C05.K3", 4)
	c.Assume("strconv.FormatFloat(-1 precision) yields the shortest round-trip digits; correctness of the re-serialiser as a whole (fixed point, value preservation) is not decided")
	// "any JSON object or array": the canonicalizer answers every input with bytes or an error — its index expressions,
	// slices and type assertions are bounded or reviewed (the C19 rules on the canonicalizer's own functions)
	c.only(runC19, "C19.B::internal/jsoncanonicalizer.", "C19.A::internal/jsoncanonicalizer.")
	c.Min("C19.B", 5)
}

func keysOfBool(m map[string]bool) []string {
	var ks []string
	for k := range m {
		ks = append(ks, k)
	}
	sort.Strings(ks)
	return ks
}

// isIndexSearch: a standard-library search returning the position of the first match or -1.
func isIndexSearch(cl *ssa.Call) bool {
	g := cl.Call.StaticCallee()
	if g == nil {
		return false
	}
	switch g.String() {
	case "bytes.IndexByte", "strings.IndexByte", "bytes.IndexRune", "strings.IndexRune":
		return true
	}
	// (an instance of a generic function has no package of its own)
	if pkgPathOf(g) == "slices" && strings.HasPrefix(g.Name(), "Index") {
		return true
	}
	return isModuleIndexFn(g)
}

// isModuleIndexFn: a module function g(list, v) int (possibly generic) that answers the loop index i only on the edge
// on which list[i] == v, and a negative constant otherwise — a hand-written index search.
func isModuleIndexFn(g *ssa.Function) bool {
	if g == nil || g.Blocks == nil || len(g.Params) != 2 || g.Signature.Results().Len() != 1 || !isIntType(g.Signature.Results().At(0).Type()) {
		return false
	}
	o := g
	if g.Origin() != nil {
		o = g.Origin()
	}
	if !strings.HasPrefix(pkgPathOf(o), modPkg) {
		return false
	}
	if _, isSl := g.Params[0].Type().Underlying().(*types.Slice); !isSl {
		return false
	}
	nIdx, nNeg := 0, 0
	for _, r := range returnsOf(g) {
		v := r.Results[0]
		if k, isK := v.(*ssa.Const); isK && k.Value != nil {
			if k.Int64() >= 0 {
				return false
			}
			nNeg++
			continue
		}
		if !isInduction(v) && !isInductionExpr(v) {
			return false
		}
		// entered on the true edge of list[i] == v
		ok := false
		for x := r.Block(); x != nil && !ok; x = x.Idom() {
			id := x.Idom()
			if id == nil || len(x.Preds) != 1 {
				continue
			}
			iff, isIf := id.Instrs[len(id.Instrs)-1].(*ssa.If)
			if !isIf || id.Succs[0] != x {
				continue
			}
			bo, isB := iff.Cond.(*ssa.BinOp)
			if !isB || bo.Op != token.EQL {
				continue
			}
			for _, side := range [][2]ssa.Value{{bo.X, bo.Y}, {bo.Y, bo.X}} {
				ld, isLd := side[0].(*ssa.UnOp)
				if !isLd || side[1] != ssa.Value(g.Params[1]) {
					continue
				}
				if ia, isIA := ld.X.(*ssa.IndexAddr); isIA && ia.X == ssa.Value(g.Params[0]) && ia.Index == v {
					ok = true
				}
			}
		}
		if !ok {
			return false
		}
		nIdx++
	}
	return nIdx >= 1 && nNeg >= 1
}

// prefixCaseRule: once the code-unit loop of the ordering function has found no difference (one key is a prefix of the
// other, or they are equal), the answer depends on the two lengths only. Decided on the three orderings of
// (len(new key), len(old key)) by following the branches after the loop: shorter new key => precedes; equal => the
// duplicate error and no insertion; longer => does not precede.
func (c *Ctx) prefixCaseRule(rule string, cmpFn *ssa.Function) {
	var start *ssa.BasicBlock
	for _, l := range naturalLoops(cmpFn) {
		// the loop's own exit: the branch on "index against bound" (at the head, or — range-over-int loops are rotated —
		// at the foot of the body) that leaves the loop
		for b := range l.blocks {
			iff, isIf := b.Instrs[len(b.Instrs)-1].(*ssa.If)
			if !isIf {
				continue
			}
			bo, isB := iff.Cond.(*ssa.BinOp)
			if !isB || !isCmp(bo.Op) || (c.Path(bo.X, nil) != "ι" && c.Path(bo.Y, nil) != "ι") {
				continue
			}
			for _, sc := range b.Succs {
				if !l.blocks[sc] {
					start = sc
				}
			}
		}
		if start != nil {
			continue
		}
		if _, isIf := l.header.Instrs[len(l.header.Instrs)-1].(*ssa.If); !isIf {
			continue
		}
		for _, sc := range l.header.Succs {
			if !l.blocks[sc] {
				start = sc
			}
		}
	}
	if start == nil {
		c.Check(rule, "prefix-case:shorter-key-first", false, cmpFn.Pos(), "no code-unit loop with an exit at its head in the ordering function: shape not understood")
		return
	}
	// lenSym: which of the two lengths v is under ordering o (sign of len(new) - len(old)): "N", "O"
	var lenSym func(v ssa.Value, o, d int) string
	var cmpVal func(bo *ssa.BinOp, o, d int) (bool, bool)
	lenSym = func(v ssa.Value, o, d int) string {
		if d > 6 {
			return ""
		}
		p := c.Path(v, nil)
		switch {
		case p == "len($0)":
			return "N"
		case strings.HasPrefix(p, "len(") && strings.HasSuffix(p, ".sortKey)"):
			return "O"
		}
		switch x := v.(type) {
		case *ssa.Phi:
			// min / max of the two lengths: the edge taken under this ordering
			id := x.Block().Idom()
			if id == nil || len(x.Edges) != 2 {
				return ""
			}
			iff, isIf := id.Instrs[len(id.Instrs)-1].(*ssa.If)
			if !isIf {
				return ""
			}
			bo, isB := iff.Cond.(*ssa.BinOp)
			if !isB {
				return ""
			}
			t, ok := cmpVal(bo, o, d+1)
			if !ok {
				return ""
			}
			taken := id.Succs[1]
			if t {
				taken = id.Succs[0]
			}
			for i, pred := range x.Block().Preds {
				if (pred == id && taken == x.Block()) || pred == taken {
					return lenSym(x.Edges[i], o, d+1)
				}
			}
			return ""
		case *ssa.Call:
			// min(a, b) / max(a, b)
			if bi, isB := x.Call.Value.(*ssa.Builtin); isB && len(x.Call.Args) == 2 && (bi.Name() == "min" || bi.Name() == "max") {
				a, b := lenSym(x.Call.Args[0], o, d+1), lenSym(x.Call.Args[1], o, d+1)
				if a == "" || b == "" {
					return ""
				}
				if a == b || o == 0 {
					return a
				}
				small := "N"
				if o > 0 {
					small = "O"
				}
				if bi.Name() == "min" {
					return small
				}
				if small == "N" {
					return "O"
				}
				return "N"
			}
		}
		return ""
	}
	cmpVal = func(bo *ssa.BinOp, o, d int) (bool, bool) {
		x, y := lenSym(bo.X, o, d), lenSym(bo.Y, o, d)
		if x == "" || y == "" || !isCmp(bo.Op) {
			return false, false
		}
		diff := 0 // x - y
		switch {
		case x == "N" && y == "O":
			diff = o
		case x == "O" && y == "N":
			diff = -o
		}
		switch bo.Op {
		case token.LSS:
			return diff < 0, true
		case token.LEQ:
			return diff <= 0, true
		case token.GTR:
			return diff > 0, true
		case token.GEQ:
			return diff >= 0, true
		case token.EQL:
			return diff == 0, true
		case token.NEQ:
			return diff != 0, true
		}
		return false, false
	}
	want := map[int]string{-1: "true", 0: "false+error", 1: "false"}
	name := map[int]string{-1: "new key shorter", 0: "same length", 1: "new key longer"}
	var bad []string
	for _, o := range []int{-1, 0, 1} {
		b := start
		got, raised := "", false
		for steps := 0; steps < 32 && got == ""; steps++ {
			for _, in := range b.Instrs {
				if cl, isC := in.(*ssa.Call); isC && cl.Call.StaticCallee() == nil && len(cl.Call.Args) == 1 && isStringType(cl.Call.Args[0].Type()) {
					raised = true
				}
			}
			switch t := b.Instrs[len(b.Instrs)-1].(type) {
			case *ssa.Return:
				got = c.Path(t.Results[0], nil)
				if got == "true" || got == "false" {
					break
				}
				// the comparison itself returned
				if bo, isB := t.Results[0].(*ssa.BinOp); isB {
					if v, ok := cmpVal(bo, o, 0); ok {
						got = fmt.Sprint(v)
					}
				}
			case *ssa.If:
				bo, isB := t.Cond.(*ssa.BinOp)
				v, ok := false, false
				if isB {
					v, ok = cmpVal(bo, o, 0)
				}
				if !ok {
					got = "undecided at " + c.Path(t.Cond, nil)
					break
				}
				if v {
					b = b.Succs[0]
				} else {
					b = b.Succs[1]
				}
			case *ssa.Jump:
				b = b.Succs[0]
			default:
				got = "undecided"
			}
		}
		if raised {
			got += "+error"
		}
		if got != want[o] {
			bad = append(bad, fmt.Sprintf("%s: %s (expected %s)", name[o], got, want[o]))
		}
	}
	c.Check(rule, "prefix-case:shorter-key-first", len(bad) == 0, start.Instrs[0].Pos(), "with no differing code unit: the shorter key precedes, equal keys raise the duplicate error, a longer key does not precede", bad...)
}

// jcsScannerRules: small rules on how the canonicalizer's closures read the input.
//
//	K5a  the value of a \uXXXX escape is never compared with a constant (zero is U+0000, not "no escape")
//	K5b  the ordinary bytes of a string reach the output as they are read from the input buffer — not through the
//	     reader that refuses bytes above 0x7f outside strings
//	K5c  results of index searches are tested for found / not found only (`> 0` forgets the first entry of a table)
//	K5d  structural characters are compared on what the whitespace-skipping scanner returns, never on the raw reader
//	K5e  every loop governed by the input position moves the position on every way round
func (c *Ctx) jcsScannerRules(tr *ssa.Function) {
	fns := append([]*ssa.Function{tr}, closuresOf(tr)...)
	pkgFns := []*ssa.Function{}
	for _, f := range c.reachableModuleFuncs([]*ssa.Function{tr}) {
		if pkgPathOf(f) == pkgPathOf(tr) {
			pkgFns = append(pkgFns, f)
		}
	}
	seenF := map[*ssa.Function]bool{}
	for _, f := range fns {
		seenF[f] = true
	}
	for _, f := range pkgFns {
		if !seenF[f] {
			fns = append(fns, f)
			seenF[f] = true
		}
	}
	isByteFn := func(f *ssa.Function) bool {
		if f.Signature.Params().Len() != 0 || f.Signature.Results().Len() != 1 {
			return false
		}
		bt, isB := f.Signature.Results().At(0).Type().Underlying().(*types.Basic)
		return isB && bt.Kind() == types.Uint8
	}
	isRuneFn := func(f *ssa.Function) bool {
		if f.Signature.Params().Len() != 0 || f.Signature.Results().Len() != 1 {
			return false
		}
		bt, isB := f.Signature.Results().At(0).Type().Underlying().(*types.Basic)
		return isB && bt.Kind() == types.Int32
	}
	// the raw reader: func() byte without a loop that reads the input buffer; the skipping scanner: func() byte with a loop
	var raw, reader *ssa.Function
	for _, f := range fns {
		if f.Blocks == nil || f.Parent() == nil {
			continue
		}
		if isByteFn(f) && len(naturalLoops(f)) == 0 {
			readsInput := false
			forEachInstr(f, func(in ssa.Instruction) {
				if _, ok := in.(*ssa.IndexAddr); ok {
					readsInput = true
				}
			})
			if readsInput {
				raw = f
			}
		}
		if isRuneFn(f) {
			reader = f
		}
	}
	if raw == nil || reader == nil {
		c.Check("C05.K5", "scanner-closures", false, tr.Pos(), "no raw byte reader (func() byte without a loop that indexes the input) / escape reader (func() rune) among Transform's closures: shape not understood")
		c.Min("C05.K5", 1)
		return
	}
	callsOf := func(f *ssa.Function, target *ssa.Function) []*ssa.Call {
		var out []*ssa.Call
		forEachInstr(f, func(in ssa.Instruction) {
			cl, ok := in.(*ssa.Call)
			if !ok {
				return
			}
			for _, g := range c.Callees(&cl.Call) {
				if g == target {
					out = append(out, cl)
				}
			}
		})
		return out
	}
	// values derived from v by conversions and φ
	var derived func(v ssa.Value, seen map[ssa.Value]bool) []ssa.Value
	derived = func(v ssa.Value, seen map[ssa.Value]bool) []ssa.Value {
		if seen[v] || v.Referrers() == nil {
			return nil
		}
		seen[v] = true
		out := []ssa.Value{v}
		for _, r := range *v.Referrers() {
			switch x := r.(type) {
			case *ssa.Convert:
				out = append(out, derived(x, seen)...)
			case *ssa.ChangeType:
				out = append(out, derived(x, seen)...)
			case *ssa.Phi:
				out = append(out, derived(x, seen)...)
			}
		}
		return out
	}
	// K5a
	{
		var bad []string
		n := 0
		for _, f := range fns {
			for _, cl := range callsOf(f, reader) {
				n++
				for _, v := range derived(cl, map[ssa.Value]bool{}) {
					for _, r := range *v.Referrers() {
						if bo, ok := r.(*ssa.BinOp); ok && isCmp(bo.Op) {
							if _, k1 := bo.X.(*ssa.Const); k1 {
								bad = append(bad, c.pos(bo.Pos())+": "+c.Path(bo, nil))
							} else if _, k2 := bo.Y.(*ssa.Const); k2 {
								bad = append(bad, c.pos(bo.Pos())+": "+c.Path(bo, nil))
							}
						}
					}
				}
			}
		}
		c.Check("C05.K5", "u-escape:value-not-compared-with-constants", n > 0 && len(bad) == 0, reader.Pos(), fmt.Sprintf("%d read(s) of an escape's value; none is compared with a constant (every value 0x0000-0xFFFF is a code unit)", n), bad...)
	}
	// K5b
	{
		var bad []string
		n := 0
		for _, f := range fns {
			if len(callsOf(f, reader)) == 0 {
				continue
			}
			forEachInstr(f, func(in ssa.Instruction) {
				cl, ok := in.(*ssa.Call)
				if !ok || cl.Call.StaticCallee() == nil || cl.Call.StaticCallee().String() != "(*strings.Builder).WriteByte" || len(cl.Call.Args) != 2 {
					return
				}
				n++
				for _, v := range derived0(cl.Call.Args[1]) {
					if x, isC := v.(*ssa.Call); isC {
						for _, g := range c.Callees(&x.Call) {
							if g == raw {
								bad = append(bad, c.pos(cl.Pos())+": the byte written comes from "+short(raw.String()))
							}
						}
					}
				}
			})
		}
		c.Check("C05.K5", "string-bytes:read-from-the-buffer", n > 0 && len(bad) == 0, tr.Pos(), fmt.Sprintf("%d byte write(s) in the string reader; none takes its byte from the reader that refuses non-ASCII bytes", n), bad...)
	}
	// K5c
	{
		var bad []string
		for _, f := range fns {
			forEachInstr(f, func(in ssa.Instruction) {
				cl, ok := in.(*ssa.Call)
				if !ok || !isIndexSearch(cl) || cl.Referrers() == nil || len(cl.Call.Args) == 0 {
					return
				}
				// (searches in the package's own tables: in a formatted number the exponent mark is never first)
				if !strings.HasPrefix(c.Path(cl.Call.Args[0], nil), "global:") {
					return
				}
				for _, v := range derived(cl, map[ssa.Value]bool{}) {
					for _, r := range *v.Referrers() {
						bo, isB := r.(*ssa.BinOp)
						if !isB || !isCmp(bo.Op) {
							continue
						}
						op, k := bo.Op, bo.Y
						if bo.Y == v {
							op, k = flipOp(bo.Op), bo.X
						}
						kc, isK := k.(*ssa.Const)
						if !isK {
							continue
						}
						kv := c.Path(kc, nil)
						okT := (kv == "0" && (op == token.GEQ || op == token.LSS)) || (kv == "-1" && (op == token.EQL || op == token.NEQ || op == token.GTR || op == token.LEQ))
						if !okT {
							bad = append(bad, c.pos(bo.Pos())+": "+c.Path(bo, nil))
						}
					}
				}
			})
		}
		c.Check("C05.K5", "index-search:found-or-not-only", len(bad) == 0, tr.Pos(), "results of index searches are compared only as found (>= 0, != -1) / not found (< 0, == -1)", bad...)
	}
	// K5d
	{
		structural := map[string]bool{"58": true, "44": true, "91": true, "93": true, "123": true, "125": true}
		var bad []string
		for _, f := range fns {
			if len(naturalLoops(f)) > 0 && isByteFn(f) {
				continue // the skipping scanner itself
			}
			for _, cl := range callsOf(f, raw) {
				for _, v := range derived(cl, map[ssa.Value]bool{}) {
					for _, r := range *v.Referrers() {
						bo, isB := r.(*ssa.BinOp)
						if !isB || !isCmp(bo.Op) {
							continue
						}
						k := bo.Y
						if bo.Y == v {
							k = bo.X
						}
						if kc, isK := k.(*ssa.Const); isK && structural[c.Path(kc, nil)] {
							bad = append(bad, c.pos(bo.Pos())+": "+c.Path(bo, nil))
						}
					}
				}
			}
		}
		c.Check("C05.K5", "structural-characters:read-through-the-skipping-scanner", len(bad) == 0, raw.Pos(), "no structural character (: , [ ] { }) is expected on the raw reader's result (whitespace may precede it)", bad...)
	}
	// K5e
	{
		// the position: the int cell of Transform that the raw reader stores into
		var pos *ssa.Alloc
		forEachInstr(raw, func(in ssa.Instruction) {
			if st, ok := in.(*ssa.Store); ok {
				if fv, isFV := st.Addr.(*ssa.FreeVar); isFV {
					if b, isAl := bindingOfFV(fv).(*ssa.Alloc); isAl && isIntType(derefT(b.Type())) {
						pos = b
					}
				}
			}
		})
		var bad []string
		n := 0
		governedIn := map[*ssa.Function][]*ssa.BasicBlock{}
		defer func() {
			// K5g nothing but white space after the value: every exit of Transform lies behind the loop that walks what is
			// left of the input (in Transform itself, or in a closure without parameters or results that it calls) — an
			// exit that skips it accepts `[1,2]]`, two different byte strings with one canonical form and one hash
			var heads []*ssa.BasicBlock
			heads = append(heads, governedIn[tr]...)
			forEachInstr(tr, func(in ssa.Instruction) {
				if cl, ok := in.(*ssa.Call); ok {
					for _, g := range c.Callees(&cl.Call) {
						if len(governedIn[g]) > 0 && g.Parent() != nil && g.Signature.Params().Len() == 0 && g.Signature.Results().Len() == 0 {
							heads = append(heads, cl.Block())
						}
					}
				}
			})
			okT := len(heads) > 0
			var skipped []string
			for _, r := range returnsOf(tr) {
				dom := false
				for _, h := range heads {
					dom = dom || h.Dominates(r.Block())
				}
				if !dom {
					okT = false
					skipped = append(skipped, c.pos(r.Pos())+": exit of Transform not behind the trailing-input loop")
				}
			}
			c.Check("C05.K5", "trailing-input:walked-before-every-exit", okT, tr.Pos(), fmt.Sprintf("%d loop(s) over the rest of the input at Transform's top level; every exit lies behind one", len(heads)), skipped...)
		}()
		if pos != nil {
			isPos := func(v ssa.Value) bool {
				switch x := v.(type) {
				case *ssa.Alloc:
					return x == pos
				case *ssa.FreeVar:
					return bindingOfFV(x) == ssa.Value(pos)
				}
				return false
			}
			// the functions that move the position: they store into it, or call one that does
			movers := map[*ssa.Function]bool{}
			for changed := true; changed; {
				changed = false
				for _, f := range fns {
					if movers[f] {
						continue
					}
					mv := false
					forEachInstr(f, func(in ssa.Instruction) {
						switch x := in.(type) {
						case *ssa.Store:
							if f != tr && isPos(x.Addr) {
								mv = true
							}
						case *ssa.Call:
							for _, g := range c.Callees(&x.Call) {
								if movers[g] {
									mv = true
								}
							}
						}
					})
					if mv {
						movers[f] = true
						changed = true
					}
				}
			}
			for _, f := range fns {
				for _, l := range naturalLoops(f) {
					// governed by the position: the header's condition reads it
					governed := false
					for b := range l.blocks {
						iff, isIf := b.Instrs[len(b.Instrs)-1].(*ssa.If)
						if !isIf {
							continue
						}
						exits := false
						for _, sc := range b.Succs {
							if !l.blocks[sc] {
								exits = true
							}
						}
						if !exits {
							continue
						}
						for v := range backSlice(iff.Cond) {
							if ld, isLd := v.(*ssa.UnOp); isLd && ld.Op == token.MUL && isPos(ld.X) {
								governed = true
							}
						}
					}
					if !governed {
						continue
					}
					n++
					governedIn[f] = append(governedIn[f], l.header)
					// blocks that move the position: a store to it, or a call (the readers move it)
					cut := map[edge]bool{}
					moves := map[*ssa.BasicBlock]bool{}
					for b := range l.blocks {
						for _, in := range b.Instrs {
							mv := false
							switch x := in.(type) {
							case *ssa.Store:
								mv = isPos(x.Addr)
							case *ssa.Call:
								if _, isBuiltin := x.Call.Value.(*ssa.Builtin); !isBuiltin {
									for _, g := range c.Callees(&x.Call) {
										if movers[g] {
											mv = true
										}
									}
								}
							}
							if mv {
								moves[b] = true
							}
						}
					}
					for b := range moves {
						for _, sc := range b.Succs {
							cut[edge{from: b, to: sc}] = true
						}
					}
					for _, e := range l.bodyEntries() {
						if moves[e] {
							continue
						}
						for x := range reach(e, cut) {
							if !l.blocks[x] || moves[x] {
								continue
							}
							for _, sc := range x.Succs {
								if sc == l.header {
									bad = append(bad, c.pos(firstPos(l.header))+": a way round the loop does not move the input position")
								}
							}
						}
					}
				}
			}
		}
		c.Check("C05.K5", "position-loops:advance-on-every-round", pos != nil && n > 0 && len(bad) == 0, tr.Pos(), fmt.Sprintf("%d loop(s) governed by the input position; each moves it (a store, or a call of one of the readers) on every way back to its head", n), bad...)
	}
	// K5f closed set of refusals: "any JSON object or array" has a canonical form — the scanner says no for the syntax
	// errors of the grammar (and for what strconv's number and hex readers refuse) and for nothing else: every error that
	// can reach the error variable Transform hands back is one of the documented ones. A refusal of its own (a nesting
	// limit, a number grammar narrower than strconv's) takes valid JSON away from "any".
	{
		var cell *ssa.Alloc
		forEachInstr(tr, func(in ssa.Instruction) {
			if al, ok := in.(*ssa.Alloc); ok && isErrType(derefT(al.Type())) {
				for _, r := range returnsOf(tr) {
					if len(r.Results) == 2 {
						if ld, isLd := r.Results[1].(*ssa.UnOp); isLd && ld.X == ssa.Value(al) {
							cell = al
						}
					}
				}
			}
		})
		got := map[string]bool{}
		if cell != nil {
			var origins func(v ssa.Value, f *ssa.Function, msg bool, d int)
			origins = func(v ssa.Value, f *ssa.Function, msg bool, d int) {
				if d > 5 {
					got["?:"+c.Path(v, nil)] = true
					return
				}
				switch x := v.(type) {
				case *ssa.Const:
					if x.IsNil() {
						return
					}
				case *ssa.Parameter:
					i := paramIndex(x)
					n := 0
					for _, g := range fns {
						for _, cl := range callsOf(g, f) {
							if i < len(cl.Call.Args) {
								n++
								origins(cl.Call.Args[i], g, msg, d+1)
							}
						}
					}
					if n > 0 {
						return
					}
				case *ssa.Call:
					if g := x.Call.StaticCallee(); g != nil && (g.String() == "errors.New" || g.String() == "fmt.Errorf") {
						origins(x.Call.Args[0], f, true, d+1)
						return
					}
				case *ssa.Extract:
					if cl, isC := x.Tuple.(*ssa.Call); isC {
						if g := cl.Call.StaticCallee(); g != nil {
							got["err:"+short(g.String())] = true
							return
						}
					}
				case *ssa.Phi:
					for _, e := range x.Edges {
						origins(e, f, msg, d+1)
					}
					return
				case *ssa.MakeInterface:
					origins(x.X, f, msg, d+1)
					return
				}
				if msg {
					first := strings.Split(c.concatForm(v, nil), " ++ ")[0]
					got["msg:"+first] = true
					return
				}
				got["?:"+c.Path(v, nil)] = true
			}
			for _, f := range fns {
				if f.Blocks == nil {
					continue
				}
				forEachInstr(f, func(in ssa.Instruction) {
					st, ok := in.(*ssa.Store)
					if !ok {
						return
					}
					target := st.Addr
					if fv, isFV := target.(*ssa.FreeVar); isFV {
						target = bindingOfFV(fv)
					}
					if target != ssa.Value(cell) {
						return
					}
					origins(st.Val, f, false, 0)
				})
			}
		}
		want := []string{
			`err:internal/jsoncanonicalizer.NumberToJSON`, `err:strconv.ParseFloat`, `err:strconv.ParseUint`,
			`msg:"Duplicate key: "`, `msg:"Expected '"`, `msg:"Improperly terminated JSON object"`, `msg:"Missing argument"`, `msg:"Missing surrogate"`,
			`msg:"Unexpected EOF reached"`, `msg:"Unexpected escape: \\"`, `msg:"Unexpected non-ASCII character"`, `msg:"Unterminated string literal"`,
		}
		var gs []string
		for g := range got {
			gs = append(gs, g)
		}
		sort.Strings(gs)
		var extra []string
		for _, g := range gs {
			known := false
			for _, w := range want {
				known = known || w == g
			}
			if !known {
				extra = append(extra, g)
			}
		}
		c.Check("C05.K5", "scanner:closed-set-of-refusals", cell != nil && len(gs) >= 9 && len(extra) == 0, tr.Pos(), fmt.Sprintf("errors that reach the error Transform hands back: %v; outside the documented syntax errors: %v", gs, extra))
	}
	// K5h–K5j: state of the scanner
	{
		var pos, errCell *ssa.Alloc
		forEachInstr(raw, func(in ssa.Instruction) {
			if st, ok := in.(*ssa.Store); ok {
				if fv, isFV := st.Addr.(*ssa.FreeVar); isFV {
					if b, isAl := bindingOfFV(fv).(*ssa.Alloc); isAl && isIntType(derefT(b.Type())) {
						pos = b
					}
				}
			}
		})
		forEachInstr(tr, func(in ssa.Instruction) {
			if al, ok := in.(*ssa.Alloc); ok && isErrType(derefT(al.Type())) {
				for _, r := range returnsOf(tr) {
					if len(r.Results) == 2 {
						if ld, isLd := r.Results[1].(*ssa.UnOp); isLd && ld.X == ssa.Value(al) {
							errCell = al
						}
					}
				}
			}
		})
		cellOf := func(v ssa.Value) ssa.Value {
			if fv, isFV := v.(*ssa.FreeVar); isFV {
				return bindingOfFV(fv)
			}
			return v
		}
		// K5h every nesting level has its own state: a closure that takes part in the recursion (it can reach itself
		// through the calls of Transform's closures) stores into no variable of Transform but the input position and the
		// error — a "first element" flag kept outside is shared by an array and the arrays inside it
		{
			calls := map[*ssa.Function][]*ssa.Function{}
			for _, f := range fns {
				if f.Blocks == nil {
					continue
				}
				forEachInstr(f, func(in ssa.Instruction) {
					if cl, ok := in.(*ssa.Call); ok {
						for _, g := range c.Callees(&cl.Call) {
							calls[f] = append(calls[f], g)
						}
					}
				})
			}
			reaches := func(from, to *ssa.Function) bool {
				seen := map[*ssa.Function]bool{}
				var walk func(f *ssa.Function) bool
				walk = func(f *ssa.Function) bool {
					for _, g := range calls[f] {
						if g == to {
							return true
						}
						if !seen[g] {
							seen[g] = true
							if walk(g) {
								return true
							}
						}
					}
					return false
				}
				return walk(from)
			}
			var bad []string
			n := 0
			// (the closures of the recursion, and the closures they call: a flag kept by a pair of helper closures is shared
			// just the same)
			var rec []*ssa.Function
			for _, f := range fns {
				if f.Parent() != nil && f.Blocks != nil && reaches(f, f) {
					rec = append(rec, f)
				}
			}
			for _, f := range fns {
				if f.Parent() == nil || f.Blocks == nil {
					continue
				}
				inRec := false
				for _, r := range rec {
					if r == f || reaches(r, f) {
						inRec = true
					}
				}
				if !inRec {
					continue
				}
				if reaches(f, f) {
					n++
				}
				forEachInstr(f, func(in ssa.Instruction) {
					st, ok := in.(*ssa.Store)
					if !ok {
						return
					}
					al, isAl := cellOf(st.Addr).(*ssa.Alloc)
					if !isAl || al.Parent() != tr || al == pos || al == errCell {
						return
					}
					bad = append(bad, fmt.Sprintf("%s: %s, part of the recursion, stores into Transform's variable %s, shared by every nesting level", c.pos(st.Pos()), f.Name(), c.Path(al, nil)))
				})
			}
			c.Check("C05.K5", "recursion:per-level-state-stays-in-the-level", pos != nil && errCell != nil && n >= 3 && len(bad) == 0, tr.Pos(), fmt.Sprintf("%d closures take part in the recursion; none stores into a variable of Transform other than the position and the error", n), bad...)
		}
		// K5i looking ahead leaves the position where it was: a closure that calls the skipping scanner and then writes the
		// position writes back what it read from the position before that call
		{
			var bad []string
			n := 0
			for _, f := range fns {
				if f.Parent() == nil || f.Blocks == nil || f == raw || !isByteFn(f) || len(f.Params) != 0 {
					continue
				}
				var scans []*ssa.Call
				forEachInstr(f, func(in ssa.Instruction) {
					if cl, ok := in.(*ssa.Call); ok {
						for _, g := range c.Callees(&cl.Call) {
							if g != raw && g.Parent() != nil && isByteFn(g) && len(naturalLoops(g)) > 0 {
								scans = append(scans, cl)
							}
						}
					}
				})
				if len(scans) == 0 {
					continue
				}
				forEachInstr(f, func(in ssa.Instruction) {
					st, ok := in.(*ssa.Store)
					if !ok || cellOf(st.Addr) != ssa.Value(pos) {
						return
					}
					n++
					ld, isLd := st.Val.(*ssa.UnOp)
					saved := isLd && ld.Op == token.MUL && cellOf(ld.X) == ssa.Value(pos)
					if saved {
						for _, sc := range scans {
							if !instrDominates(ld, sc) {
								saved = false
							}
						}
					}
					if !saved {
						bad = append(bad, fmt.Sprintf("%s: %s moves the position to %s after looking ahead (expected: the position read before the scan)", c.pos(st.Pos()), f.Name(), c.Path(st.Val, nil)))
					}
				})
			}
			c.Check("C05.K5", "look-ahead:position-restored", pos != nil && n >= 1 && len(bad) == 0, tr.Pos(), fmt.Sprintf("%d write(s) of the position in look-ahead closures; each puts back the position saved before the scan", n), bad...)
		}
		// K5j inside a string the bytes are read from the input as they are: the structural reader (which refuses bytes
		// above 0x7f) is called by the string reader only behind a backslash or at the end of the input
		{
			var bad []string
			n := 0
			for _, f := range fns {
				if f.Parent() == nil || f.Blocks == nil || len(callsOf(f, reader)) == 0 || len(naturalLoops(f)) == 0 || f == reader {
					continue
				}
				behindBackslash := func(b *ssa.BasicBlock) bool {
					for _, cnd := range c.condsOf(b) {
						if strings.HasSuffix(cnd, " == 92)=true") || strings.HasSuffix(cnd, " != 92)=false") || regexp.MustCompile(`^\(.* < .*\)=false$|^\(.* >= .*\)=true$|^\(.* <= .*\)=true$`).MatchString(cnd) && strings.Contains(cnd, "len(") {
							return true
						}
					}
					return false
				}
				// (the handler of an escape sequence written as a closure of its own: every call of it lies behind the backslash)
				sites, allBehind := 0, true
				for _, g := range fns {
					if g == f || g.Blocks == nil {
						continue
					}
					for _, hc := range callsOf(g, f) {
						sites++
						if !behindBackslash(hc.Block()) {
							allBehind = false
						}
					}
				}
				if sites > 0 && allBehind {
					n += len(callsOf(f, raw))
					continue
				}
				for _, cl := range callsOf(f, raw) {
					n++
					okC := behindBackslash(cl.Block())
					if !okC {
						bad = append(bad, fmt.Sprintf("%s: %s reads a byte of a string through the structural reader %s (not behind a backslash, not at the end of the input)", c.pos(cl.Pos()), f.Name(), raw.Name()))
					}
				}
			}
			c.Check("C05.K5", "strings:bytes-read-as-they-are", n >= 2 && len(bad) == 0, tr.Pos(), fmt.Sprintf("%d call(s) of the structural reader in the string reader, each behind a backslash or at the end of the input", n), bad...)
		}
	}
	c.Min("C05.K5", 10)
}

// derived0: v and what it is converted from (conversions, φ), backwards.
func derived0(v ssa.Value) []ssa.Value {
	out := []ssa.Value{v}
	seen := map[ssa.Value]bool{v: true}
	for i := 0; i < len(out) && i < 16; i++ {
		switch x := out[i].(type) {
		case *ssa.Convert:
			if !seen[x.X] {
				seen[x.X] = true
				out = append(out, x.X)
			}
		case *ssa.ChangeType:
			if !seen[x.X] {
				seen[x.X] = true
				out = append(out, x.X)
			}
		case *ssa.Phi:
			for _, e := range x.Edges {
				if !seen[e] {
					seen[e] = true
					out = append(out, e)
				}
			}
		}
	}
	return out
}

// bindingOfFV: what the enclosing function binds to the captured variable fv (the cell), through nested literals.
func bindingOfFV(fv *ssa.FreeVar) ssa.Value {
	lit := fv.Parent()
	for d := 0; d < 4 && lit != nil && lit.Parent() != nil; d++ {
		idx := -1
		for i, x := range lit.FreeVars {
			if x == fv {
				idx = i
			}
		}
		var b ssa.Value
		forEachInstr(lit.Parent(), func(in ssa.Instruction) {
			if mc, ok := in.(*ssa.MakeClosure); ok && mc.Fn == ssa.Value(lit) && idx >= 0 && idx < len(mc.Bindings) {
				b = mc.Bindings[idx]
			}
		})
		if b == nil {
			return nil
		}
		if nfv, isFV := b.(*ssa.FreeVar); isFV {
			fv, lit = nfv, nfv.Parent()
			continue
		}
		return b
	}
	return nil
}
