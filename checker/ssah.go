package main

// SSA helpers: canonical access paths, callee resolution, error/bool success edges, edge conditions.

import (
	"fmt"
	"go/constant"
	"go/token"
	"go/types"
	"regexp"
	"sort"
	"strconv"
	"strings"

	"golang.org/x/tools/go/ssa"
)

var errT = types.Universe.Lookup("error").Type()

func isErrType(t types.Type) bool { return types.Identical(t, errT) }

func isBoolType(t types.Type) bool {
	b, ok := t.Underlying().(*types.Basic)
	return ok && b.Kind() == types.Bool
}

// Env maps parameters (and free variables) of the function under analysis to caller-side paths.
type Env map[ssa.Value]string

func (e Env) key() string {
	if len(e) == 0 {
		return ""
	}
	var ks []string
	for k, v := range e {
		ks = append(ks, k.Name()+"="+v)
	}
	sort.Strings(ks)
	return strings.Join(ks, ";")
}

func paramIndex(p *ssa.Parameter) int {
	for i, q := range p.Parent().Params {
		if q == p {
			return i
		}
	}
	return -1
}

func fieldName(t types.Type, i int) string {
	if p, ok := t.Underlying().(*types.Pointer); ok {
		t = p.Elem()
	}
	st, ok := t.Underlying().(*types.Struct)
	if !ok || i >= st.NumFields() {
		return fmt.Sprintf("f%d", i)
	}
	name := st.Field(i).Name()
	// a field that was merely renamed keeps its reference name
	if ref := refTypeName(t); ref != "" {
		if old, ok := fieldAlias[ref][name]; ok {
			return old
		}
	}
	return name
}

func typeShort(t types.Type) string {
	s := types.TypeString(t, nil)
	for cur, ref := range typeAlias {
		if strings.Contains(s, cur) {
			s = strings.ReplaceAll(s, cur, ref)
		}
	}
	return short(s)
}

func allocOrdinal(a *ssa.Alloc) int {
	n := 0
	f := a.Parent()
	if f == nil {
		return 0
	}
	for _, b := range f.Blocks {
		for _, in := range b.Instrs {
			if x, ok := in.(*ssa.Alloc); ok {
				if x == a {
					return n
				}
				if types.Identical(x.Type(), a.Type()) {
					n++
				}
			}
		}
	}
	return n
}

// Path renders the canonical access path of an SSA value. It is def-use reconstruction only: no path
// conditions. Loads are transparent; conversions to interfaces are transparent.
func (c *Ctx) Path(v ssa.Value, env Env) string { return c.path(v, env, 0) }

func (c *Ctx) path(v ssa.Value, env Env, d int) string {
	if d > 12 {
		return "…"
	}
	if env != nil {
		if s, ok := env[v]; ok {
			return s
		}
	}
	switch x := v.(type) {
	case *ssa.Parameter:
		if s, ok := c.baseEnv[x]; ok {
			return s // (the body of a thin wrapper is read in the wrapper's frame)
		}
		if s, ok := c.paramRefName(x); ok {
			return s
		}
		return fmt.Sprintf("$%d", paramIndex(x))
	case *ssa.FreeVar:
		for i, fv := range x.Parent().FreeVars {
			if fv == x {
				// resolve through the unique MakeClosure in the parent
				if par := x.Parent().Parent(); par != nil {
					for _, b := range par.Blocks {
						for _, in := range b.Instrs {
							if mc, ok := in.(*ssa.MakeClosure); ok && mc.Fn == x.Parent() && i < len(mc.Bindings) {
								return "up:" + c.path(mc.Bindings[i], nil, d+1)
							}
						}
					}
				}
				return fmt.Sprintf("free%d", i)
			}
		}
		return "free?"
	case *ssa.Const:
		if x.Value == nil {
			return "nil"
		}
		if x.Value.Kind() == constant.String {
			return fmt.Sprintf("%q", constant.StringVal(x.Value))
		}
		return x.Value.ExactString()
	case *ssa.Global:
		if a := c.globalAlias(x); a != nil {
			return "global:" + short(a.String())
		}
		return "global:" + short(x.String())
	case *ssa.Function:
		return "func:" + short(x.String())
	case *ssa.Builtin:
		return x.Name()
	case *ssa.MakeInterface:
		return c.path(x.X, env, d)
	case *ssa.ChangeInterface:
		return c.path(x.X, env, d)
	case *ssa.ChangeType:
		return c.path(x.X, env, d)
	case *ssa.Convert:
		return fmt.Sprintf("conv<%s>(%s)", typeShort(x.Type()), c.path(x.X, env, d+1))
	case *ssa.UnOp:
		switch x.Op {
		case token.MUL:
			if al, ok := x.X.(*ssa.Alloc); ok {
				if src := decodedFrom(al); src != nil {
					return "decoded(" + c.path(src, env, d+1) + ")"
				}
				// a variable captured by a closure lives in a cell; assigned once, a load of it is that value
				if sv := singleAssignment(al, x); sv != nil && d < 40 {
					return c.path(sv, env, d+1)
				}
			}
			if fv, ok := x.X.(*ssa.FreeVar); ok && d < 40 {
				if _, renamed := env[fv]; !renamed {
					if sv := capturedValue(fv); sv != nil {
						return "up:" + c.path(sv, nil, d+1)
					}
				}
			}
			return c.path(x.X, env, d)
		case token.NOT:
			s := c.path(x.X, env, d+1)
			if s == "true" {
				return "false"
			}
			if s == "false" {
				return "true"
			}
			return "!" + s
		}
		return x.Op.String() + c.path(x.X, env, d+1)
	case *ssa.FieldAddr:
		// a field of the result struct of an unexported helper (`r, err := parseVerified(req); use r.op`): the value the
		// helper stored into that field of the struct it returns
		if p, ok := c.resultField(x.X, x.Field, env, d); ok {
			return p
		}
		// a struct value kept in a local cell that is written once, as a whole (v := f(); use v.field)
		if al, ok := x.X.(*ssa.Alloc); ok && d < 40 {
			if _, renamed := env[al]; !renamed {
				if st := wholeStore(al); st != nil && instrBefore(st, x) {
					if p, ok := c.resultField(st.Val, x.Field, env, d+1); ok {
						return p
					}
					return c.litField(c.path(st.Val, env, d+1), fieldName(x.X.Type(), x.Field))
				}
			}
		}
		return c.litField(c.path(x.X, env, d), fieldName(x.X.Type(), x.Field))
	case *ssa.Field:
		if p, ok := c.resultField(x.X, x.Field, env, d); ok {
			return p
		}
		return c.litField(c.path(x.X, env, d), fieldName(x.X.Type(), x.Field))
	case *ssa.IndexAddr:
		if src, ok := c.subsequenceSource(x.X); ok && c.path(x.Index, env, d+1) == "ι" {
			return c.path(src, env, d+1) + "[ι]"
		}
		return c.path(x.X, env, d) + "[" + c.path(x.Index, env, d+1) + "]"
	case *ssa.Index:
		if src, ok := c.subsequenceSource(x.X); ok && c.path(x.Index, env, d+1) == "ι" {
			return c.path(src, env, d+1) + "[ι]"
		}
		return c.path(x.X, env, d) + "[" + c.path(x.Index, env, d+1) + "]"
	case *ssa.Lookup:
		return c.path(x.X, env, d) + "[" + c.path(x.Index, env, d+1) + "]"
	case *ssa.Slice:
		lo, hi := "", ""
		if x.Low != nil {
			lo = c.path(x.Low, env, d+1)
			if lo == "0" {
				lo = "" // x[0:h] and x[:h] are one expression
			}
		}
		if x.High != nil {
			hi = c.path(x.High, env, d+1)
		}
		return c.path(x.X, env, d) + "[" + lo + ":" + hi + "]"
	case *ssa.BinOp:
		if x.Op == token.EQL || x.Op == token.NEQ {
			// constant folding for comparisons of two string literals (environment specialisation)
			l, r := c.path(x.X, env, d+1), c.path(x.Y, env, d+1)
			if len(l) >= 2 && len(r) >= 2 && l[0] == '"' && r[0] == '"' {
				if (l == r) == (x.Op == token.EQL) {
					return "true"
				}
				return "false"
			}
		}
		if isInduction(x.X) || isInduction(x.Y) {
			if x.Op == token.ADD || x.Op == token.SUB {
				return "ι"
			}
		}
		if isCmp(x.Op) {
			// the number of parts is the number of separators plus one: strings.Count(s, sep) OP k reads as
			// len(strings.Split(s, sep)) OP k+1
			if l, r, ok := countAsParts(c.path(x.X, env, d+1), c.path(x.Y, env, d+1)); ok {
				return "(" + l + " " + x.Op.String() + " " + r + ")"
			}
		}
		return "(" + c.path(x.X, env, d+1) + " " + x.Op.String() + " " + c.path(x.Y, env, d+1) + ")"
	case *ssa.Extract:
		// v, err := asArrayOrError(x): a module helper that hands its argument back (type-asserted) on success
		if x.Index == 0 {
			if cl, ok := x.Tuple.(*ssa.Call); ok {
				if g := cl.Call.StaticCallee(); g != nil && inModule(g) {
					if pi := c.identityParam(g); pi >= 0 && pi < len(cl.Call.Args) {
						return c.path(cl.Call.Args[pi], env, d+1)
					}
				}
			}
		}
		if c.inlineHelpers || c.inlineFns != nil {
			if cl, ok := x.Tuple.(*ssa.Call); ok {
				if p, ok2 := c.inlinedResult(cl, x.Index, env, d); ok2 {
					return p
				}
			}
		}
		return c.path(x.Tuple, env, d) + fmt.Sprintf("#%d", x.Index)
	case *ssa.Call:
		if c.inlineHelpers {
			if p, ok := c.inlinedResult(x, 0, env, d); ok && x.Call.Signature().Results().Len() == 1 {
				return p
			}
		}
		return c.callPath(&x.Call, env, d)
	case *ssa.Phi:
		if isInduction(x) {
			return "ι"
		}
		set := map[string]bool{}
		for _, e := range x.Edges {
			set[c.path(e, env, d+3)] = true
		}
		var alts []string
		for s := range set {
			alts = append(alts, s)
		}
		sort.Strings(alts)
		if len(alts) == 1 {
			return alts[0]
		}
		return "phi(" + strings.Join(alts, "|") + ")"
	case *ssa.Alloc:
		return fmt.Sprintf("new<%s>#%d", typeShort(x.Type().Underlying().(*types.Pointer).Elem()), allocOrdinal(x))
	case *ssa.MakeMap:
		return "makemap<" + typeShort(x.Type()) + ">"
	case *ssa.MakeSlice:
		return "makeslice<" + typeShort(x.Type()) + ">"
	case *ssa.MakeClosure:
		return "closure:" + short(x.Fn.String())
	case *ssa.TypeAssert:
		return c.path(x.X, env, d) + ".(" + typeShort(x.AssertedType) + ")"
	case *ssa.Range:
		return "range(" + c.path(x.X, env, d+1) + ")"
	case *ssa.Next:
		return "next(" + c.path(x.Iter, env, d+1) + ")"
	}
	return fmt.Sprintf("?%T", v)
}

func (c *Ctx) callPath(cc *ssa.CallCommon, env Env, d int) string {
	var args []string
	for _, a := range cc.Args {
		args = append(args, c.path(a, env, d+1))
	}
	if cc.IsInvoke() {
		return fmt.Sprintf("invoke<%s>.%s[%s](%s)", typeShort(cc.Value.Type()), cc.Method.Name(), c.path(cc.Value, env, d+1), strings.Join(args, ","))
	}
	if f := cc.StaticCallee(); f != nil {
		return fname(f) + "(" + strings.Join(args, ",") + ")"
	}
	if b, ok := cc.Value.(*ssa.Builtin); ok {
		return b.Name() + "(" + strings.Join(args, ",") + ")"
	}
	// a function handed to this helper by its caller (`key(item)` with key a function literal of the caller): a
	// literal that only computes and returns a value reads as that value, in the frame it was made in
	if p, isP := cc.Value.(*ssa.Parameter); isP && env != nil {
		if fa, known := c.fnArgs[env[p]]; known {
			// a method value (`s.Parser.ParseX`) handed in: the call is that method's, on the receiver bound where the
			// value was made
			if mc, isMC := fa.v.(*ssa.MakeClosure); isMC && len(mc.Bindings) == 1 {
				if bf, _ := mc.Fn.(*ssa.Function); bf != nil && strings.HasPrefix(bf.Synthetic, "bound method") {
					recv := c.path(mc.Bindings[0], fa.env, d+1)
					name := strings.TrimSuffix(bf.Name(), "$bound")
					if types.IsInterface(mc.Bindings[0].Type()) {
						return fmt.Sprintf("invoke<%s>.%s[%s](%s)", typeShort(mc.Bindings[0].Type()), name, recv, strings.Join(args, ","))
					}
					if m := funcValueOf(mc); m != nil && m != bf {
						return fname(m) + "(" + strings.Join(append([]string{recv}, args...), ",") + ")"
					}
				}
			}
			var fn *ssa.Function
			switch y := fa.v.(type) {
			case *ssa.Function:
				fn = y
			case *ssa.MakeClosure:
				fn, _ = y.Fn.(*ssa.Function)
			}
			if fn != nil && len(fn.Blocks) == 1 && len(fn.FreeVars) == 0 && fn.Parent() != nil && d < 8 {
				if ret, isR := fn.Blocks[0].Instrs[len(fn.Blocks[0].Instrs)-1].(*ssa.Return); isR && len(ret.Results) == 1 {
					genv := Env{}
					for i, a := range args {
						if i < len(fn.Params) {
							genv[fn.Params[i]] = a
						}
					}
					return c.path(ret.Results[0], genv, d+2)
				}
			}
		}
	}
	// the function field of the table row under consideration: the call reads as a call of that function
	if f, ok := c.fnSubst[cc.Value]; ok && f != nil {
		return fname(f) + "(" + strings.Join(args, ",") + ")"
	}
	return "dyn:" + c.path(cc.Value, env, d+1) + "(" + strings.Join(args, ",") + ")"
}

// ---- callee resolution ---------------------------------------------------------------------

// Callees resolves a call to the set of possible callees with bodies in the analysed program.
// Dynamic calls: class hierarchy over non-mock repo methods; calls through package-level function
// variables resolve to the unique init-time initialiser.
func (c *Ctx) Callees(cc *ssa.CallCommon) []*ssa.Function {
	if f := cc.StaticCallee(); f != nil {
		return []*ssa.Function{f}
	}
	// the function field of the table element under consideration (table-driven loops, one element at a time)
	if f, ok := c.fnSubst[cc.Value]; ok && !cc.IsInvoke() {
		return []*ssa.Function{f}
	}
	if cc.IsInvoke() {
		iface, ok := cc.Value.Type().Underlying().(*types.Interface)
		if !ok {
			return nil
		}
		var out []*ssa.Function
		for _, f := range c.impls[cc.Method.Name()] {
			if types.Implements(f.Signature.Recv().Type(), iface) {
				out = append(out, f)
			}
		}
		return out
	}
	if u, ok := cc.Value.(*ssa.UnOp); ok && u.Op == token.MUL {
		if g, ok := u.X.(*ssa.Global); ok {
			if f := c.globalInit(g); f != nil {
				return []*ssa.Function{f}
			}
		}
	}
	if mc, ok := cc.Value.(*ssa.MakeClosure); ok {
		if f, ok := mc.Fn.(*ssa.Function); ok {
			return []*ssa.Function{f}
		}
	}
	// a function variable assigned per branch and called after the branches merge: any of the functions it may hold
	// (a nil edge is not a callee: calling it panics, which the nil-dereference rules look at)
	if phi, ok := cc.Value.(*ssa.Phi); ok {
		var out []*ssa.Function
		for _, e := range phi.Edges {
			switch x := e.(type) {
			case *ssa.Const:
				if !x.IsNil() {
					return nil
				}
			case *ssa.MakeClosure:
				f, _ := x.Fn.(*ssa.Function)
				if f == nil {
					return nil
				}
				out = append(out, f)
			case *ssa.Function:
				out = append(out, x)
			default:
				return nil
			}
		}
		if len(out) > 0 {
			return out
		}
	}
	// a function looked up in a package-level table (map literal of function values): any entry
	if _, tbl := c.tableCallees(cc.Value); len(tbl) > 0 {
		var ks []string
		for k := range tbl {
			ks = append(ks, k)
		}
		sort.Strings(ks)
		var out []*ssa.Function
		for _, k := range ks {
			out = append(out, tbl[k])
		}
		return out
	}
	// a function-valued field of a row of a package-level table (slice literal of structs), the row chosen by a loop:
	// any row's function
	if fs := c.tableFieldFuncs(cc.Value); len(fs) > 0 {
		return fs
	}
	// a function-typed parameter of an unexported function: what its call sites in the module pass
	if p, ok := cc.Value.(*ssa.Parameter); ok {
		if fs := c.funcArgsOf(p); len(fs) > 0 {
			return fs
		}
	}
	// local function variables (closures assigned once to a local, possibly captured)
	if f := resolveFuncVar(cc.Value, 0); f != nil {
		return []*ssa.Function{f}
	}
	// function values of a named module func type (functional options, handler selectors): every function value that
	// a module function returns as that named type — a function literal, a named function, or a method value (the
	// bound-method wrapper, whose parameters line up with the call's arguments)
	if nt, ok := cc.Value.Type().(*types.Named); ok {
		if _, isSig := nt.Underlying().(*types.Signature); isSig && nt.Obj().Pkg() != nil && strings.HasPrefix(nt.Obj().Pkg().Path(), modPath) {
			return c.valuesOfFuncType(nt)
		}
	}
	return nil
}

// funcArgsOf: p is a function-typed parameter of an unexported module function that is only ever called statically;
// returns the functions its call sites pass for p (nil when one of them passes something that is not a known function).
func (c *Ctx) funcArgsOf(p *ssa.Parameter) []*ssa.Function {
	f := p.Parent()
	if _, isSig := p.Type().Underlying().(*types.Signature); !isSig || f == nil || f.Object() == nil || f.Object().Exported() || !inModule(f) {
		return nil
	}
	if c.faMemo == nil {
		c.faMemo = map[*ssa.Parameter][]*ssa.Function{}
	}
	if out, ok := c.faMemo[p]; ok {
		return out
	}
	idx := paramIndex(p)
	var out []*ssa.Function
	seen := map[*ssa.Function]bool{}
	bad := false
	for _, g := range c.Funcs {
		forEachInstr(g, func(in ssa.Instruction) {
			ci, ok := in.(ssa.CallInstruction)
			if !ok {
				for _, op := range in.Operands(nil) {
					if *op == ssa.Value(f) {
						bad = true // used as a value: other callers are possible
					}
				}
				return
			}
			cm := ci.Common()
			for _, a := range cm.Args {
				if a == ssa.Value(f) {
					bad = true
				}
			}
			if cm.StaticCallee() != f || idx >= len(cm.Args) {
				return
			}
			var h *ssa.Function
			switch x := stripConv(cm.Args[idx]).(type) {
			case *ssa.Function:
				h = x
			case *ssa.MakeClosure:
				h, _ = x.Fn.(*ssa.Function)
			}
			if h == nil {
				bad = true
				return
			}
			if !seen[h] {
				seen[h] = true
				out = append(out, h)
			}
		})
	}
	if bad {
		out = nil
	}
	c.faMemo[p] = out
	return out
}

// valuesOfFuncType: the functions returned as the named function type nt anywhere in the module.
func (c *Ctx) valuesOfFuncType(nt *types.Named) []*ssa.Function {
	if c.ftMemo == nil {
		c.ftMemo = map[*types.Named][]*ssa.Function{}
	}
	if out, ok := c.ftMemo[nt]; ok {
		return out
	}
	var out []*ssa.Function
	seen := map[*ssa.Function]bool{}
	for _, f := range c.Funcs {
		res := f.Signature.Results()
		for i := 0; i < res.Len(); i++ {
			if !types.Identical(res.At(i).Type(), nt) {
				continue
			}
			for _, r := range returnsOf(f) {
				if i >= len(r.Results) {
					continue
				}
				var g *ssa.Function
				switch x := stripConv(returnedValue(r, i)).(type) {
				case *ssa.Function:
					g = x
				case *ssa.MakeClosure:
					g, _ = x.Fn.(*ssa.Function)
				}
				if g != nil && !seen[g] {
					seen[g] = true
					out = append(out, g)
				}
			}
		}
	}
	c.ftMemo[nt] = out
	return out
}

// singleAssignment: al is the cell of a local variable (or spilled parameter) that is written exactly once, by a
// store that comes before the load ld on every path (it dominates ld); the address is used only by loads, that store
// and closures that capture it without writing it. Returns the stored value, nil otherwise.
func singleAssignment(al *ssa.Alloc, ld *ssa.UnOp) ssa.Value {
	st := singleStore(al)
	if st == nil || ld.Block() == nil || !instrBefore(st, ld) {
		return nil
	}
	return st.Val
}

// instrBefore: a comes before b on every path to b (same function).
func instrBefore(a, b ssa.Instruction) bool {
	if a.Parent() != b.Parent() || a.Block() == nil || b.Block() == nil {
		return false
	}
	if a.Block() == b.Block() {
		for _, in := range a.Block().Instrs {
			if in == a {
				return true
			}
			if in == b {
				return false
			}
		}
	}
	return a.Block().Dominates(b.Block())
}

// singleStore: the only store into the cell al, provided the address is otherwise only loaded from (here and in
// closures that capture it).
func singleStore(al *ssa.Alloc) *ssa.Store {
	if _, isPtr := al.Type().Underlying().(*types.Pointer); !isPtr || al.Referrers() == nil {
		return nil
	}
	switch al.Type().Underlying().(*types.Pointer).Elem().Underlying().(type) {
	case *types.Struct, *types.Array:
		return nil // aggregates are written through field addresses
	}
	var st *ssa.Store
	var onlyReads func(addr ssa.Value, depth int) bool
	onlyReads = func(addr ssa.Value, depth int) bool {
		if addr.Referrers() == nil || depth > 3 {
			return false
		}
		for _, r := range *addr.Referrers() {
			switch x := r.(type) {
			case *ssa.UnOp:
				if x.Op != token.MUL {
					return false
				}
			case *ssa.Store:
				if x.Addr != addr || depth > 0 || st != nil {
					return false
				}
				st = x
			case *ssa.MakeClosure:
				fn, _ := x.Fn.(*ssa.Function)
				if fn == nil {
					return false
				}
				for i, b := range x.Bindings {
					if b == addr && (i >= len(fn.FreeVars) || !onlyReads(fn.FreeVars[i], depth+1)) {
						return false
					}
				}
			case *ssa.DebugRef:
			default:
				return false
			}
		}
		return true
	}
	if !onlyReads(al, 0) {
		return nil
	}
	return st
}

// wholeStore: al is the cell of a local struct that is written exactly once, as a whole, and otherwise only read
// (through field addresses that are only loaded from).
func wholeStore(al *ssa.Alloc) *ssa.Store {
	pt, isPtr := al.Type().Underlying().(*types.Pointer)
	if !isPtr || al.Referrers() == nil {
		return nil
	}
	if _, isStruct := pt.Elem().Underlying().(*types.Struct); !isStruct {
		return nil
	}
	var st *ssa.Store
	for _, r := range *al.Referrers() {
		switch x := r.(type) {
		case *ssa.Store:
			if x.Addr != ssa.Value(al) || st != nil {
				return nil
			}
			st = x
		case *ssa.FieldAddr:
			if x.Referrers() == nil {
				return nil
			}
			for _, rr := range *x.Referrers() {
				if ld, isLd := rr.(*ssa.UnOp); !isLd || ld.Op != token.MUL {
					if _, isDbg := rr.(*ssa.DebugRef); !isDbg {
						return nil
					}
				}
			}
		case *ssa.UnOp:
			if x.Op != token.MUL {
				return nil
			}
		case *ssa.DebugRef:
		default:
			return nil
		}
	}
	return st
}

// capturedValue: fv is a captured variable whose cell is assigned once in the enclosing function, before the closure
// is made; returns that value (nil otherwise).
func capturedValue(fv *ssa.FreeVar) ssa.Value {
	fn := fv.Parent()
	par := fn.Parent()
	if par == nil {
		return nil
	}
	idx := -1
	for i, x := range fn.FreeVars {
		if x == fv {
			idx = i
		}
	}
	var out ssa.Value
	n := 0
	forEachInstr(par, func(in ssa.Instruction) {
		mc, ok := in.(*ssa.MakeClosure)
		if !ok || mc.Fn != ssa.Value(fn) || idx < 0 || idx >= len(mc.Bindings) {
			return
		}
		n++
		if al, isAl := mc.Bindings[idx].(*ssa.Alloc); isAl {
			if st := singleStore(al); st != nil && instrBefore(st, mc) {
				out = st.Val
			}
		}
	})
	if n != 1 {
		return nil
	}
	return out
}

func (c *Ctx) globalInit(g *ssa.Global) *ssa.Function {
	if f, ok := c.ginitCache[g]; ok {
		return f
	}
	var res *ssa.Function
	n := 0
	if g.Pkg != nil {
		init := g.Pkg.Func("init")
		for _, fn := range allFuncs(g.Pkg) {
			for _, b := range fn.Blocks {
				for _, in := range b.Instrs {
					if st, ok := in.(*ssa.Store); ok && st.Addr == g {
						n++
						if fn == init {
							switch v := st.Val.(type) {
							case *ssa.Function:
								res = v
							case *ssa.MakeClosure:
								res, _ = v.Fn.(*ssa.Function)
							}
						}
					}
				}
			}
		}
	}
	if n != 1 {
		res = nil
	}
	c.ginitCache[g] = res
	return res
}

func calleeName(cc *ssa.CallCommon) string {
	if f := cc.StaticCallee(); f != nil {
		return f.String()
	}
	if cc.IsInvoke() {
		return "invoke." + cc.Method.Name()
	}
	if b, ok := cc.Value.(*ssa.Builtin); ok {
		return "builtin." + b.Name()
	}
	return "dynamic"
}

// ---- error / bool results and their success edges --------------------------------------------

// edge is a CFG edge; with via != nil it stands for "from -> to when from was entered from via" (a short-circuit
// boolean materialised as a φ in from and branched on there: the branch is decided per incoming edge).
type edge struct{ from, to, via *ssa.BasicBlock }

// errResult returns the SSA value holding the error result of a call (nil if none).
func errResult(call *ssa.Call) ssa.Value {
	sig := call.Call.Signature()
	n := sig.Results().Len()
	if n == 0 || !isErrType(sig.Results().At(n-1).Type()) {
		return nil
	}
	if n == 1 {
		return call
	}
	for _, r := range *call.Referrers() {
		if e, ok := r.(*ssa.Extract); ok && e.Index == n-1 {
			return e
		}
	}
	return nil
}

func extractOf(call *ssa.Call, idx int) ssa.Value {
	sig := call.Call.Signature()
	if sig.Results().Len() == 1 && idx == 0 {
		return call
	}
	for _, r := range *call.Referrers() {
		if e, ok := r.(*ssa.Extract); ok && e.Index == idx {
			return e
		}
	}
	return nil
}

// nilTestEdges returns, for a value v, the CFG edges taken when v == nil (eq=true) or v != nil (eq=false).
func nilTestEdges(v ssa.Value, wantNil bool) []edge {
	var out []edge
	if v.Referrers() == nil {
		return nil
	}
	// an error handed to a decorating helper that answers nil exactly when it is handed nil: a nil test of the
	// decorated error is a nil test of this one
	for _, d := range decoratedErrs(v) {
		out = append(out, nilTestEdges(d, wantNil)...)
	}
	for _, r := range *v.Referrers() {
		b, ok := r.(*ssa.BinOp)
		if !ok || (b.Op != token.NEQ && b.Op != token.EQL) {
			continue
		}
		other := b.Y
		if b.Y == v {
			other = b.X
		}
		k, ok := other.(*ssa.Const)
		if !ok || !k.IsNil() {
			continue
		}
		isNilOnTrue := b.Op == token.EQL
		out = append(out, boolEdges(b, isNilOnTrue == wantNil)...)
	}
	// a result kept in a cell (a named result that a deferred closure captures): `docBytes, err = f(); if err != nil` stores
	// v and tests the load that follows in the same block, no other store to the cell in between
	for _, r := range *v.Referrers() {
		st, ok := r.(*ssa.Store)
		if !ok || st.Val != v {
			continue
		}
		after := false
		for _, in := range st.Block().Instrs {
			if in == ssa.Instruction(st) {
				after = true
				continue
			}
			if !after {
				continue
			}
			if s2, isS := in.(*ssa.Store); isS && s2.Addr == st.Addr {
				break
			}
			if ld, isLd := in.(*ssa.UnOp); isLd && ld.Op == token.MUL && ld.X == st.Addr {
				out = append(out, nilTestEdges(ld, wantNil)...)
			}
		}
	}
	// chained error handling (`if err == nil { err = next() }; if err != nil { fail }`): v flows into φ p of block B along
	// the edge P -> B and B branches on a nil test of p: entering B from P, the branch taken is decided by v
	for _, r := range *v.Referrers() {
		phi, ok := r.(*ssa.Phi)
		if !ok {
			continue
		}
		nilSucc, otherSucc := phiNilBranch(phi)
		if nilSucc == nil {
			continue
		}
		to := otherSucc
		if wantNil {
			to = nilSucc
		}
		for i, e := range phi.Edges {
			if e == v {
				out = append(out, edge{from: phi.Block(), to: to, via: phi.Block().Preds[i]})
			}
		}
	}
	return out
}

// phiNilBranch: the block of φ ends in a branch on `φ == nil` / `φ != nil`: the successor taken when φ is nil and the other.
func phiNilBranch(phi *ssa.Phi) (nilSucc, otherSucc *ssa.BasicBlock) {
	B := phi.Block()
	if len(B.Instrs) == 0 || len(B.Succs) != 2 || B.Succs[0] == B.Succs[1] {
		return nil, nil
	}
	iff, ok := B.Instrs[len(B.Instrs)-1].(*ssa.If)
	if !ok {
		return nil, nil
	}
	cond, pol := iff.Cond, true
	for d := 0; d < 4; d++ {
		u, isU := cond.(*ssa.UnOp)
		if !isU || u.Op != token.NOT || u.Block() != B {
			break
		}
		cond, pol = u.X, !pol
	}
	b, ok := cond.(*ssa.BinOp)
	if !ok || b.Block() != B || (b.Op != token.EQL && b.Op != token.NEQ) {
		return nil, nil
	}
	other := b.Y
	if b.Y == ssa.Value(phi) {
		other = b.X
	} else if b.X != ssa.Value(phi) {
		return nil, nil
	}
	if k, isK := other.(*ssa.Const); !isK || !k.IsNil() {
		return nil, nil
	}
	nilOnTrue := (b.Op == token.EQL) == pol
	if nilOnTrue {
		return B.Succs[0], B.Succs[1]
	}
	return B.Succs[1], B.Succs[0]
}

// phiNilInfeasible: the edges B -> (successor taken when φ is nil), entered from a predecessor along whose edge the
// incoming value of φ is known not to be nil (the predecessor, or the single-entry chain above it, branched on it).
func phiNilInfeasible(f *ssa.Function) []edge {
	var out []edge
	for _, B := range f.Blocks {
		for _, in := range B.Instrs {
			phi, ok := in.(*ssa.Phi)
			if !ok {
				break
			}
			nilSucc, _ := phiNilBranch(phi)
			// (a φ of errors that is what the block returns: entering along an edge whose value is known non-nil is a
			// failing exit, whatever the other edges bring — the single-exit form `if err == nil { … err = … }; return err`)
			returned := false
			if r, isR := B.Instrs[len(B.Instrs)-1].(*ssa.Return); isR && len(r.Results) > 0 && r.Results[len(r.Results)-1] == ssa.Value(phi) && isErrType(phi.Type()) {
				returned = true
			}
			if nilSucc == nil && !returned {
				continue
			}
			for i, v := range phi.Edges {
				if i >= len(B.Preds) {
					continue
				}
				cur, next := B.Preds[i], B
				known := false
				for d := 0; d < 4 && !known; d++ {
					if len(cur.Instrs) > 0 {
						if iff, isIf := cur.Instrs[len(cur.Instrs)-1].(*ssa.If); isIf && len(cur.Succs) == 2 && cur.Succs[0] != cur.Succs[1] {
							if b, isB := iff.Cond.(*ssa.BinOp); isB && (b.Op == token.EQL || b.Op == token.NEQ) {
								var other ssa.Value
								if b.X == v {
									other = b.Y
								} else if b.Y == v {
									other = b.X
								}
								if k, isK := other.(*ssa.Const); other != nil && isK && k.IsNil() {
									nonNilSucc := cur.Succs[0]
									if b.Op == token.EQL {
										nonNilSucc = cur.Succs[1]
									}
									known = nonNilSucc == next
									break
								}
							}
						}
					}
					if len(cur.Preds) != 1 {
						break
					}
					cur, next = cur.Preds[0], cur
				}
				if !known && len(B.Preds[i].Instrs) > 0 {
					known = nonNilErr(v, B.Preds[i].Instrs[len(B.Preds[i].Instrs)-1])
				}
				if known && nilSucc != nil {
					out = append(out, edge{from: B, to: nilSucc, via: B.Preds[i]})
				}
				if known && returned {
					out = append(out, edge{from: B.Preds[i], to: B})
				}
			}
		}
	}
	return out
}

// boolEdgesT is boolEdges plus the threaded edges through short-circuit φs: v flows into φ p of block B along the
// edge P -> B and B branches on p (or !p): entering B from P, the branch taken is decided by v.
func boolEdgesT(v ssa.Value, want bool) []edge {
	out := boolEdges(v, want)
	if v.Referrers() == nil {
		return out
	}
	for _, r := range *v.Referrers() {
		switch x := r.(type) {
		case *ssa.UnOp:
			if x.Op == token.NOT {
				for _, e := range boolEdgesT(x, !want) {
					if e.via != nil {
						out = append(out, e)
					}
				}
			}
		case *ssa.Phi:
			B := x.Block()
			iff, ok := B.Instrs[len(B.Instrs)-1].(*ssa.If)
			if !ok {
				continue
			}
			pol, found := true, false
			cond := iff.Cond
			for d := 0; d < 4 && !found; d++ {
				if cond == ssa.Value(x) {
					found = true
					break
				}
				u, isU := cond.(*ssa.UnOp)
				if !isU || u.Op != token.NOT || u.Block() != B {
					break
				}
				cond, pol = u.X, !pol
			}
			if !found {
				continue
			}
			for i, e := range x.Edges {
				if e != v {
					continue
				}
				// v == want  ⇒  p == want  ⇒  cond == (want == pol)
				to := B.Succs[1]
				if want == pol {
					to = B.Succs[0]
				}
				out = append(out, edge{from: B, to: to, via: B.Preds[i]})
			}
		}
	}
	return out
}

// boolEdges returns the CFG edges on which boolean value v has the given truth value (follows ! and
// simple short-circuit phis are not followed).
func boolEdges(v ssa.Value, want bool) []edge {
	var out []edge
	if v.Referrers() == nil {
		return nil
	}
	for _, r := range *v.Referrers() {
		switch x := r.(type) {
		case *ssa.UnOp:
			if x.Op == token.NOT {
				out = append(out, boolEdges(x, !want)...)
			}
		case *ssa.If:
			blk := x.Block()
			if want {
				out = append(out, edge{from: blk, to: blk.Succs[0]})
			} else {
				out = append(out, edge{from: blk, to: blk.Succs[1]})
			}
		}
	}
	return out
}

var errCtors = map[string]bool{
	"fmt.Errorf": true, "errors.New": true,
	"github.com/pkg/errors.New": true, "github.com/pkg/errors.Errorf": true,
	"github.com/pkg/errors.Wrap": false, // Wrap(nil) == nil
}

// nonNilErr reports whether error value v is provably non-nil when used at instruction `at`.
func nonNilErr(v ssa.Value, at ssa.Instruction) bool {
	return nonNilErrD(v, at, 0)
}

func nonNilErrD(v ssa.Value, at ssa.Instruction, d int) bool {
	if d > 6 {
		return false
	}
	switch x := v.(type) {
	case *ssa.Const:
		return false
	case *ssa.Call:
		if f := x.Call.StaticCallee(); f != nil && errCtors[f.String()] {
			return true
		}
		// an error-building helper of the module: each of its exits returns an error that is never nil
		if f := x.Call.StaticCallee(); f != nil && inModule(f) && f.Blocks != nil && f.Signature.Results().Len() == 1 && isErrType(f.Signature.Results().At(0).Type()) {
			all := true
			for _, r := range returnsOf(f) {
				if !nonNilErrD(returnedValue(r, 0), r, d+2) {
					all = false
				}
			}
			if all && len(returnsOf(f)) > 0 {
				return true
			}
		}
	case *ssa.MakeInterface:
		if _, ok := x.X.Type().Underlying().(*types.Pointer); ok {
			if _, isAlloc := x.X.(*ssa.Alloc); isAlloc {
				return true
			}
		}
		if _, ok := x.X.Type().Underlying().(*types.Struct); ok {
			return true
		}
	case *ssa.UnOp:
		if x.Op == token.MUL {
			if g, ok := x.X.(*ssa.Global); ok && isErrType(g.Type().(*types.Pointer).Elem()) {
				return true // package-level sentinel errors (initialised once with errors.New)
			}
		}
	case *ssa.Extract:
		// the error result of a failure-building helper or local function literal (`return fail(err)`): on each of its
		// exits that result is never nil
		if cl, ok := x.Tuple.(*ssa.Call); ok && isErrType(x.Type()) {
			f := cl.Call.StaticCallee()
			if f == nil {
				f = localLiteral(cl)
			}
			if f != nil && inModule(f) && f.Blocks != nil && (f.Object() == nil || !f.Object().Exported()) {
				rs := returnsOf(f)
				all := len(rs) > 0
				for _, r := range rs {
					if x.Index >= len(r.Results) || !nonNilErrD(returnedValue(r, x.Index), r, d+2) {
						all = false
					}
				}
				if all {
					return true
				}
			}
		}
	case *ssa.Phi:
		all := len(x.Edges) > 0
		for i, e := range x.Edges {
			// use the predecessor's terminator as the use point
			pred := x.Block().Preds[i]
			if !nonNilErrD(e, pred.Instrs[len(pred.Instrs)-1], d+1) {
				all = false
			}
		}
		if all {
			return true
		}
	}
	if at != nil && at.Block() != nil {
		for _, e := range nilTestEdges(v, false) {
			if len(e.to.Preds) == 1 && e.to.Dominates(at.Block()) {
				return true
			}
		}
	}
	// a load of a local error cell (named result spilled because of a defer): another load of the same cell was found
	// non-nil on a dominating edge and the cell is not written in between
	if ld, ok := v.(*ssa.UnOp); ok && ld.Op == token.MUL {
		if al, isAl := ld.X.(*ssa.Alloc); isAl && ld.Block() != nil {
			for _, r := range *al.Referrers() {
				ld2, isLd := r.(*ssa.UnOp)
				if !isLd || ld2 == ld || ld2.Op != token.MUL {
					continue
				}
				for _, e := range nilTestEdges(ld2, false) {
					if len(e.to.Preds) != 1 || !e.to.Dominates(ld.Block()) {
						continue
					}
					clean := true
					for _, r2 := range *al.Referrers() {
						st, isS := r2.(*ssa.Store)
						if !isS || st.Addr != ssa.Value(al) {
							continue
						}
						sb := st.Block()
						if sb == ld.Block() {
							// only stores before the load matter
							before := false
							for _, in := range sb.Instrs {
								if in == ssa.Instruction(st) {
									before = true
									break
								}
								if in == ssa.Instruction(ld) {
									break
								}
							}
							if before && e.to.Dominates(sb) {
								clean = false
							}
							continue
						}
						if e.to.Dominates(sb) {
							if _, reaches := reach(sb, nil)[ld.Block()]; reaches {
								clean = false
							}
						}
					}
					if clean {
						return true
					}
				}
			}
		}
	}
	return false
}

// maySucceed reports whether a Return may be a "success" exit: last result of type error that may be
// nil; for bool-only functions, a result that may be true; otherwise always.
func maySucceed(ret *ssa.Return) bool {
	n := len(ret.Results)
	if n == 0 {
		return true
	}
	last := returnedValue(ret, n-1) // looks through `*err = e; rundefers; return *err`
	if isErrType(last.Type()) {
		// the landing pad after a recovered panic returns what the deferred function stored: an error
		if f := ret.Parent(); f != nil && f.Recover != nil && ret.Block() == f.Recover && recoverSetsError(f) {
			return false
		}
		return !nonNilErr(last, ret)
	}
	if n == 1 && isBoolType(last.Type()) {
		if k, ok := last.(*ssa.Const); ok && k.Value != nil && !constant.BoolVal(k.Value) {
			return false
		}
	}
	return true
}

func returnsOf(f *ssa.Function) []*ssa.Return {
	var out []*ssa.Return
	for _, b := range f.Blocks {
		if len(b.Instrs) == 0 {
			continue
		}
		if r, ok := b.Instrs[len(b.Instrs)-1].(*ssa.Return); ok {
			out = append(out, r)
		}
	}
	return out
}

func firstPos(b *ssa.BasicBlock) token.Pos {
	for _, in := range b.Instrs {
		if in.Pos().IsValid() {
			return in.Pos()
		}
	}
	return token.NoPos
}

// instrPos returns a usable position for an instruction (falls back to operands / block).
func instrPos(in ssa.Instruction) token.Pos {
	if in.Pos().IsValid() {
		return in.Pos()
	}
	if v, ok := in.(ssa.Value); ok {
		_ = v
	}
	var ops []*ssa.Value
	for _, op := range in.Operands(ops) {
		if *op != nil && (*op).Pos().IsValid() {
			return (*op).Pos()
		}
	}
	if in.Block() != nil {
		return firstPos(in.Block())
	}
	return token.NoPos
}

// reach computes blocks reachable from `from` without crossing any edge in `cut`.
func reach(from *ssa.BasicBlock, cut map[edge]bool) map[*ssa.BasicBlock]*ssa.BasicBlock {
	seen := map[*ssa.BasicBlock]*ssa.BasicBlock{from: nil}
	type st struct{ b, via *ssa.BasicBlock }
	// blocks that have per-predecessor (threaded) cut edges are explored once per predecessor
	threaded := map[*ssa.BasicBlock]bool{}
	for e := range cut {
		if e.via != nil {
			threaded[e.from] = true
		}
	}
	done := map[st]bool{}
	stack := []st{{from, nil}}
	for len(stack) > 0 {
		cur := stack[len(stack)-1]
		stack = stack[:len(stack)-1]
		if done[cur] {
			continue
		}
		done[cur] = true
		b := cur.b
		for _, s := range b.Succs {
			if cut[edge{from: b, to: s}] {
				continue
			}
			if cur.via != nil && cut[edge{from: b, to: s, via: cur.via}] {
				continue
			}
			// a φ-branch entered along an edge that carries a constant takes only the matching successor
			if cur.via != nil && constBranchExcludes(b, cur.via, s) {
				continue
			}
			if _, ok := seen[s]; !ok {
				seen[s] = b
			}
			nx := st{s, nil}
			if threaded[s] || phiConstBranch(s) {
				nx.via = b
			}
			if !done[nx] {
				stack = append(stack, nx)
			}
		}
	}
	return seen
}

// phiConstBranch: block b ends in a branch on a boolean φ of b (or its negation) that has a constant edge — the branch
// taken depends on the edge along which b is entered (short-circuit evaluation stored in a variable).
func phiConstBranch(b *ssa.BasicBlock) bool {
	if len(b.Instrs) == 0 || len(b.Succs) != 2 || b.Succs[0] == b.Succs[1] {
		return false
	}
	iff, ok := b.Instrs[len(b.Instrs)-1].(*ssa.If)
	if !ok {
		return false
	}
	cond := iff.Cond
	for d := 0; d < 4; d++ {
		u, isU := cond.(*ssa.UnOp)
		if !isU || u.Op != token.NOT || u.Block() != b {
			break
		}
		cond = u.X
	}
	phi, ok := cond.(*ssa.Phi)
	if !ok || phi.Block() != b {
		return false
	}
	for _, e := range phi.Edges {
		if k, isK := e.(*ssa.Const); isK && k.Value != nil && k.Value.Kind() == constant.Bool {
			return true
		}
	}
	return false
}

// constBranchExcludes: block b ends in `if p` (or !p) with p a φ of b whose edge from via is a boolean constant, and
// that constant sends control to the other successor.
func constBranchExcludes(b, via, s *ssa.BasicBlock) bool {
	iff, ok := b.Instrs[len(b.Instrs)-1].(*ssa.If)
	if !ok || len(b.Succs) != 2 || b.Succs[0] == b.Succs[1] {
		return false
	}
	cond, pol := iff.Cond, true
	for d := 0; d < 4; d++ {
		u, isU := cond.(*ssa.UnOp)
		if !isU || u.Op != token.NOT || u.Block() != b {
			break
		}
		cond, pol = u.X, !pol
	}
	phi, ok := cond.(*ssa.Phi)
	if !ok || phi.Block() != b {
		return false
	}
	for i, p := range b.Preds {
		if p != via {
			continue
		}
		k, isK := phi.Edges[i].(*ssa.Const)
		if !isK || k.Value == nil || k.Value.Kind() != constant.Bool {
			return false
		}
		taken := b.Succs[1]
		if constant.BoolVal(k.Value) == pol {
			taken = b.Succs[0]
		}
		return s != taken
	}
	return false
}

func (c *Ctx) witnessPath(seen map[*ssa.BasicBlock]*ssa.BasicBlock, to *ssa.BasicBlock) []string {
	var path []string
	for x := to; x != nil; x = seen[x] {
		path = append([]string{fmt.Sprintf("block %d (%s)", x.Index, c.pos(firstPos(x)))}, path...)
	}
	return path
}

// instrBefore reports whether a executes before b on every path reaching b (same block order or dominance).
func instrDominates(a, b ssa.Instruction) bool {
	if a.Block() == b.Block() {
		for _, in := range a.Block().Instrs {
			if in == a {
				return true
			}
			if in == b {
				return false
			}
		}
		return false
	}
	return a.Block().Dominates(b.Block())
}

// caseTable extracts "scrutinee == const" dispatch edges: for every If on (x == K) with x matching
// scrut, maps K's exact string to the block entered when equal.
func (c *Ctx) caseTable(f *ssa.Function, env Env, scrut func(path string) bool) map[string]*ssa.BasicBlock {
	out := map[string]*ssa.BasicBlock{}
	for _, b := range f.Blocks {
		for _, in := range b.Instrs {
			bo, ok := in.(*ssa.BinOp)
			if !ok || bo.Op != token.EQL {
				continue
			}
			x, k := bo.X, bo.Y
			if _, isK := x.(*ssa.Const); isK {
				x, k = k, x
			}
			kc, ok := k.(*ssa.Const)
			if !ok || kc.Value == nil {
				continue
			}
			// the scrutinee as written, or as the single-exit helper that produced it wrote it
			if !scrut(c.Path(x, env)) && !scrut(c.InlPath(x, env)) {
				continue
			}
			for _, e := range boolEdges(bo, true) {
				out[c.Path(kc, nil)] = e.to
			}
		}
	}
	return out
}

// callsIn lists call instructions of a block in order.
func callsIn(b *ssa.BasicBlock) []*ssa.Call {
	var out []*ssa.Call
	for _, in := range b.Instrs {
		if cl, ok := in.(*ssa.Call); ok {
			out = append(out, cl)
		}
	}
	return out
}

func forEachInstr(f *ssa.Function, fn func(in ssa.Instruction)) {
	for _, b := range f.Blocks {
		for _, in := range b.Instrs {
			fn(in)
		}
	}
}

func unquote(s string) string {
	if len(s) >= 2 && s[0] == '"' {
		if u, err := strconvUnquote(s); err == nil {
			return u
		}
	}
	return s
}

// isInduction: v is a loop induction variable phi (one of its edges is an arithmetic update of itself).
func isInduction(v ssa.Value) bool {
	phi, ok := v.(*ssa.Phi)
	if !ok {
		return false
	}
	for _, e := range phi.Edges {
		if b, ok := e.(*ssa.BinOp); ok && (b.Op == token.ADD || b.Op == token.SUB) && (b.X == ssa.Value(phi) || b.Y == ssa.Value(phi)) {
			return true
		}
	}
	return false
}

// decodedFrom: for a local variable of basic type that is filled by exactly one json.Unmarshal(src, &v)
// and never assigned otherwise, returns src ("the value decoded from src").
func decodedFrom(al *ssa.Alloc) ssa.Value {
	if _, ok := al.Type().Underlying().(*types.Pointer).Elem().Underlying().(*types.Basic); !ok {
		return nil
	}
	var src ssa.Value
	n := 0
	for _, r := range *al.Referrers() {
		switch y := r.(type) {
		case *ssa.Store:
			if y.Addr == ssa.Value(al) {
				return nil
			}
		case *ssa.MakeInterface:
			for _, rr := range *y.Referrers() {
				if cl, ok := rr.(*ssa.Call); ok {
					if g := cl.Call.StaticCallee(); g != nil && (g.String() == "encoding/json.Unmarshal" || g.String() == "github.com/go-jose/go-jose/v3/json.Unmarshal") && len(cl.Call.Args) == 2 && cl.Call.Args[1] == ssa.Value(y) {
						src = cl.Call.Args[0]
						n++
					}
				}
			}
		}
	}
	if n == 1 {
		return src
	}
	return nil
}

// resolveFuncVar: v is (a load of) a local variable cell — possibly reached through closure free variables —
// that is assigned exactly one function value; returns that function.
func resolveFuncVar(v ssa.Value, d int) *ssa.Function {
	if d > 4 {
		return nil
	}
	if u, ok := v.(*ssa.UnOp); ok && u.Op == token.MUL {
		v = u.X
	} else {
		return nil
	}
	// follow free variables up to the defining alloc
	for {
		fv, ok := v.(*ssa.FreeVar)
		if !ok {
			break
		}
		fn := fv.Parent()
		par := fn.Parent()
		if par == nil {
			return nil
		}
		idx := -1
		for i, x := range fn.FreeVars {
			if x == fv {
				idx = i
			}
		}
		var bound ssa.Value
		for _, b := range par.Blocks {
			for _, in := range b.Instrs {
				if mc, isMC := in.(*ssa.MakeClosure); isMC && mc.Fn == ssa.Value(fn) && idx >= 0 && idx < len(mc.Bindings) {
					bound = mc.Bindings[idx]
				}
			}
		}
		if bound == nil {
			return nil
		}
		v = bound
	}
	al, ok := v.(*ssa.Alloc)
	if !ok {
		return nil
	}
	var res *ssa.Function
	n := 0
	var scan func(g *ssa.Function)
	scan = func(g *ssa.Function) {
		for _, b := range g.Blocks {
			for _, in := range b.Instrs {
				st, isSt := in.(*ssa.Store)
				if !isSt {
					continue
				}
				// stores to the alloc itself or to a free variable bound to it
				target := st.Addr
				if fv, isFV := target.(*ssa.FreeVar); isFV {
					if r := resolveFreeVarAlloc(fv); r != nil {
						target = r
					}
				}
				if target != ssa.Value(al) {
					continue
				}
				if k, isK := st.Val.(*ssa.Const); isK && k.IsNil() {
					continue
				}
				n++
				switch fv := st.Val.(type) {
				case *ssa.MakeClosure:
					res, _ = fv.Fn.(*ssa.Function)
				case *ssa.Function:
					res = fv
				}
			}
		}
		for _, a := range g.AnonFuncs {
			scan(a)
		}
	}
	root := al.Parent()
	scan(root)
	if n == 1 {
		return res
	}
	return nil
}

func resolveFreeVarAlloc(fv *ssa.FreeVar) ssa.Value {
	var v ssa.Value = fv
	for i := 0; i < 4; i++ {
		f, ok := v.(*ssa.FreeVar)
		if !ok {
			return v
		}
		fn := f.Parent()
		par := fn.Parent()
		if par == nil {
			return nil
		}
		idx := -1
		for k, x := range fn.FreeVars {
			if x == f {
				idx = k
			}
		}
		var bound ssa.Value
		for _, b := range par.Blocks {
			for _, in := range b.Instrs {
				if mc, isMC := in.(*ssa.MakeClosure); isMC && mc.Fn == ssa.Value(fn) && idx >= 0 && idx < len(mc.Bindings) {
					bound = mc.Bindings[idx]
				}
			}
		}
		if bound == nil {
			return nil
		}
		v = bound
	}
	return v
}

// varargPaths: the element paths of a variadic argument built as `new [n]T` + stores + slice.
func (c *Ctx) varargPaths(v ssa.Value, env Env) []string {
	sl, ok := v.(*ssa.Slice)
	if !ok {
		return nil
	}
	al, ok := sl.X.(*ssa.Alloc)
	if !ok {
		return nil
	}
	type kv struct {
		i int64
		p string
	}
	var kvs []kv
	for _, r := range *al.Referrers() {
		ia, isIA := r.(*ssa.IndexAddr)
		if !isIA {
			continue
		}
		k, isK := ia.Index.(*ssa.Const)
		if !isK {
			continue
		}
		for _, rr := range *ia.Referrers() {
			if st, isS := rr.(*ssa.Store); isS {
				kvs = append(kvs, kv{k.Int64(), c.Path(st.Val, env)})
			}
		}
	}
	sort.Slice(kvs, func(i, j int) bool { return kvs[i].i < kvs[j].i })
	var out []string
	for _, e := range kvs {
		out = append(out, e.p)
	}
	return out
}

// identityParam: g returns (value, error) and on every may-succeed exit the value is one and the same parameter of g,
// possibly type-asserted or converted to an interface — a checking helper that hands its argument back. Returns the
// parameter index, -1 otherwise.
func (c *Ctx) identityParam(g *ssa.Function) int {
	if v, ok := c.identMemo[g]; ok {
		return v
	}
	if c.identMemo == nil {
		c.identMemo = map[*ssa.Function]int{}
	}
	c.identMemo[g] = -1
	res := g.Signature.Results()
	if g.Blocks == nil || res.Len() != 2 || !isErrType(res.At(1).Type()) {
		return -1
	}
	pi := -1
	n := 0
	for _, r := range returnsOf(g) {
		if !maySucceed(r) {
			continue
		}
		n++
		v := r.Results[0]
		for d := 0; d < 4; d++ {
			switch y := v.(type) {
			case *ssa.TypeAssert:
				v = y.X
			case *ssa.Extract:
				if ta, isTA := y.Tuple.(*ssa.TypeAssert); isTA && y.Index == 0 {
					v = ta.X
				}
			case *ssa.MakeInterface:
				v = y.X
			case *ssa.ChangeType:
				v = y.X
			case *ssa.ChangeInterface:
				v = y.X
			}
		}
		p, isP := v.(*ssa.Parameter)
		if !isP {
			return -1
		}
		i := paramIndex(p)
		if pi >= 0 && pi != i {
			return -1
		}
		pi = i
	}
	if n == 0 {
		return -1
	}
	c.identMemo[g] = pi
	return pi
}

// inlinedResult (only while c.inlineHelpers is set): the call is to an unexported module helper with exactly one
// may-succeed return; its result idx is rendered as the helper's own expression with parameters renamed to the
// caller's arguments — `x := helper(a)` reads like the code the helper was extracted from.
func (c *Ctx) inlinedResult(cl *ssa.Call, idx int, env Env, d int) (string, bool) {
	g := cl.Call.StaticCallee()
	if g == nil || !inModule(g) || g.Blocks == nil || d > 8 {
		return "", false
	}
	// (a function literal called where it is written has no object; it is inlined when it hosts an anchor call)
	if lit := g.Object() == nil && g.Parent() != nil && c.inlineFns[g]; !lit && (g.Object() == nil || g.Object().Exported()) {
		return "", false
	}
	if !c.inlineHelpers && !c.inlineFns[g] {
		return "", false
	}
	if _, leaf := termLeaves[g.String()]; leaf {
		return "", false
	}
	srs := successReturns(g)
	if len(srs) != 1 || idx >= len(srs[0].Results) {
		return "", false
	}
	// (a loop-carried value handed to the helper whose result it is: the call is not entered while it is being rendered)
	if c.inlining[cl] {
		return "", false
	}
	if c.inlining == nil {
		c.inlining = map[*ssa.Call]bool{}
	}
	c.inlining[cl] = true
	defer delete(c.inlining, cl)
	genv := c.calleeEnv(&cl.Call, g, env)
	return c.path(returnedValue(srs[0], idx), genv, d+2), true
}

// InlPath renders v with unexported single-exit helpers inlined.
func (c *Ctx) InlPath(v ssa.Value, env Env) string {
	old := c.inlineHelpers
	c.inlineHelpers = true
	defer func() { c.inlineHelpers = old }()
	return c.path(v, env, 0)
}

// concatForm renders a string built by concatenation in a canonical flat form — parts joined by " ++ ", adjacent
// constants merged — whatever the association of the + operators and whether it was written with + or with
// fmt.Sprintf and a format made only of %s / %v verbs and literal text. Non-string values render as their path.
func (c *Ctx) concatForm(v ssa.Value, env Env) string {
	var parts []string // constants are kept quoted: `"…"`
	var flat func(v ssa.Value, d int)
	add := func(p string) {
		if n := len(parts); n > 0 && strings.HasPrefix(p, `"`) && strings.HasPrefix(parts[n-1], `"`) {
			parts[n-1] = parts[n-1][:len(parts[n-1])-1] + p[1:]
			return
		}
		parts = append(parts, p)
	}
	flat = func(v ssa.Value, d int) {
		if d > 10 {
			add(c.Path(v, env))
			return
		}
		if env != nil {
			if s, ok := env[v]; ok {
				// a value handed down in concatenation form keeps its parts
				for _, part := range strings.Split(s, " ++ ") {
					if part != `""` {
						add(part)
					}
				}
				return
			}
		}
		switch x := v.(type) {
		case *ssa.MakeInterface:
			flat(x.X, d+1)
			return
		case *ssa.ChangeType:
			if isStringType(x.X.Type()) {
				flat(x.X, d+1)
				return
			}
		case *ssa.BinOp:
			if x.Op == token.ADD && isStringType(x.Type()) {
				flat(x.X, d+1)
				flat(x.Y, d+1)
				return
			}
		case *ssa.Const:
			if x.Value != nil && x.Value.Kind() == constant.String {
				if constant.StringVal(x.Value) != "" {
					add(strconv.Quote(constant.StringVal(x.Value)))
				}
				return
			}
		case *ssa.UnOp:
			// a captured variable read through its cell: what the frame says the variable holds
			if fv, isFV := x.X.(*ssa.FreeVar); isFV && x.Op == token.MUL && env != nil {
				if s, ok := env[fv]; ok {
					for _, part := range strings.Split(s, " ++ ") {
						if part != `""` {
							add(part)
						}
					}
					return
				}
			}
		case *ssa.Call:
			// a function made by an unexported factory and called here (`id := t.idFunc(did); … id(x)`): the literal's one
			// reachable exit, its parameters bound to this call's arguments and its captured variables to what they hold
			// when the factory makes the literal (under the factory call's arguments)
			if fc, isFC := x.Call.Value.(*ssa.Call); isFC && !x.Call.IsInvoke() && d < 6 {
				if g := fc.Call.StaticCallee(); g != nil && inModule(g) && g.Blocks != nil && g.Object() != nil && !g.Object().Exported() {
					if p, ok := c.factoryCallForm(x, fc, g, env); ok {
						for _, part := range strings.Split(p, " ++ ") {
							if part != "" && part != `""` {
								add(part)
							}
						}
						return
					}
				}
			}
			// an unexported helper that composes the string: under the arguments of this call, the value of the one
			// exit that stays reachable
			if g := x.Call.StaticCallee(); g != nil && inModule(g) && g.Blocks != nil && g.Object() != nil && !g.Object().Exported() && (isStringType(x.Type()) || isEmptyInterface(x.Type())) && d < 6 {
				genv := c.concatEnv(&x.Call, g, env)
				live := reach(g.Blocks[0], c.pruned(g, genv))
				var rets []*ssa.Return
				for _, r := range returnsOf(g) {
					if _, l := live[r.Block()]; l {
						rets = append(rets, r)
					}
				}
				if len(rets) == 1 && len(rets[0].Results) == 1 {
					for _, part := range strings.Split(c.concatForm(returnedValue(rets[0], 0), genv), " ++ ") {
						if part != "" {
							add(part)
						}
					}
					return
				}
			}
			if g := x.Call.StaticCallee(); g != nil && g.String() == "strings.Join" && len(x.Call.Args) == 2 {
				// strings.Join over a slice whose elements are each written once, with a constant separator
				if k, ok := x.Call.Args[1].(*ssa.Const); ok && k.Value != nil && k.Value.Kind() == constant.String {
					if els, ok2 := c.varargValues(x.Call.Args[0]); ok2 && len(els) > 0 {
						for i, e := range els {
							if i > 0 && constant.StringVal(k.Value) != "" {
								add(strconv.Quote(constant.StringVal(k.Value)))
							}
							flat(e, d+1)
						}
						return
					}
				}
			}
			if g := x.Call.StaticCallee(); g != nil && g.String() == "fmt.Sprintf" && len(x.Call.Args) == 2 {
				if k, ok := x.Call.Args[0].(*ssa.Const); ok && k.Value != nil && k.Value.Kind() == constant.String {
					if args, ok2 := c.varargValues(x.Call.Args[1]); ok2 {
						format := constant.StringVal(k.Value)
						var segs []string
						okF := true
						ai := 0
						lit := ""
						for i := 0; i < len(format); i++ {
							if format[i] != '%' {
								lit += string(format[i])
								continue
							}
							if i+1 >= len(format) {
								okF = false
								break
							}
							i++
							switch format[i] {
							case '%':
								lit += "%"
							case 's', 'v':
								if ai >= len(args) || !isStringType(args[ai].Type()) {
									okF = false
								}
								if lit != "" {
									segs = append(segs, strconv.Quote(lit))
									lit = ""
								}
								segs = append(segs, fmt.Sprintf("\x00%d", ai))
								ai++
							default:
								okF = false
							}
						}
						if lit != "" {
							segs = append(segs, strconv.Quote(lit))
						}
						if okF && ai == len(args) {
							for _, sg := range segs {
								if strings.HasPrefix(sg, "\x00") {
									var idx int
									fmt.Sscanf(sg[1:], "%d", &idx)
									flat(args[idx], d+1)
								} else {
									add(sg)
								}
							}
							return
						}
					}
				}
			}
		case *ssa.Phi:
			if !isInduction(x) {
				set := map[string]bool{}
				for i, e := range x.Edges {
					if c.phiEdgeLive != nil && !c.phiEdgeLive(x, i) {
						continue
					}
					set[c.concatForm(e, env)] = true
				}
				var alts []string
				for s := range set {
					alts = append(alts, s)
				}
				sort.Strings(alts)
				if len(alts) == 1 {
					add(alts[0])
				} else {
					add("phi(" + strings.Join(alts, "|") + ")")
				}
				return
			}
		}
		add(c.Path(v, env))
	}
	flat(v, 0)
	return strings.Join(parts, " ++ ")
}

// concatEnv: the callee's environment with string arguments in concatenation form.
func (c *Ctx) concatEnv(cc *ssa.CallCommon, g *ssa.Function, env Env) Env {
	ne := c.calleeEnv(cc, g, env)
	for i, a := range cc.Args {
		if i < len(g.Params) && isStringType(a.Type()) {
			if cf := c.concatForm(a, env); cf != "" {
				ne[g.Params[i]] = cf
			} else {
				ne[g.Params[i]] = `""`
			}
		}
	}
	return ne
}

func isStringType(t types.Type) bool {
	b, ok := t.Underlying().(*types.Basic)
	return ok && b.Info()&types.IsString != 0
}

// varargValues: the values stored into the variadic slice argument `new [n]any (varargs)`, unwrapped from their
// interface conversion, in order.
func (c *Ctx) varargValues(v ssa.Value) ([]ssa.Value, bool) {
	if k, ok := v.(*ssa.Const); ok && k.IsNil() {
		return nil, true
	}
	sl, ok := v.(*ssa.Slice)
	if !ok {
		return nil, false
	}
	al, ok := sl.X.(*ssa.Alloc)
	if !ok {
		return nil, false
	}
	arr, ok := al.Type().Underlying().(*types.Pointer).Elem().Underlying().(*types.Array)
	if !ok {
		return nil, false
	}
	out := make([]ssa.Value, arr.Len())
	// element cells: of the backing array (a literal) or of the slice itself (make + indexed assignments)
	refs := append([]ssa.Instruction{}, *al.Referrers()...)
	wholeHigh := sl.High == nil
	if k, isK := sl.High.(*ssa.Const); isK && k.Value != nil {
		if n, exact := constant.Int64Val(k.Value); exact && n == arr.Len() {
			wholeHigh = true
		}
	}
	if sl.Low == nil && wholeHigh && sl.Referrers() != nil {
		refs = append(refs, *sl.Referrers()...)
	}
	for _, r := range refs {
		ia, isIA := r.(*ssa.IndexAddr)
		if !isIA {
			continue
		}
		kc, isK := ia.Index.(*ssa.Const)
		if !isK {
			return nil, false
		}
		i, _ := constant.Int64Val(kc.Value)
		for _, rr := range *ia.Referrers() {
			if st, isS := rr.(*ssa.Store); isS && st.Addr == ssa.Value(ia) {
				val := st.Val
				if mi, isMI := val.(*ssa.MakeInterface); isMI {
					val = mi.X
				}
				if i >= 0 && int(i) < len(out) {
					out[i] = val
				}
			}
		}
	}
	for _, o := range out {
		if o == nil {
			return nil, false
		}
	}
	return out, true
}

// returnedValue: result idx of the return, looking through the spill of named results that a deferred call forces
// (`*result = v; rundefers; return *result`): the value last stored into the result cell in the return's own block.
func returnedValue(r *ssa.Return, idx int) ssa.Value {
	v := r.Results[idx]
	ld, ok := v.(*ssa.UnOp)
	if !ok || ld.Op != token.MUL {
		return v
	}
	al, ok := ld.X.(*ssa.Alloc)
	if !ok {
		return v
	}
	var last ssa.Value
	for _, in := range r.Block().Instrs {
		if in == ssa.Instruction(ld) {
			break
		}
		if st, isS := in.(*ssa.Store); isS && st.Addr == ssa.Value(al) {
			last = st.Val
		}
	}
	if last != nil {
		return last
	}
	return v
}

// resultField: base is the result (pointer or value) of a call of an unexported module helper with one accepting exit
// that returns a struct it builds itself; field names a field that is written exactly once there. The field of the
// result then is that value, in the caller's frame — a result struct is only a way of returning several values.
func (c *Ctx) resultField(base ssa.Value, field int, env Env, d int) (string, bool) {
	if d > 40 {
		return "", false
	}
	var cl *ssa.Call
	idx := 0
	switch b := base.(type) {
	case *ssa.Extract:
		cl, _ = b.Tuple.(*ssa.Call)
		idx = b.Index
	case *ssa.Call:
		cl = b
	}
	if cl == nil {
		return "", false
	}
	g := cl.Call.StaticCallee()
	if g == nil || !inModule(g) || g.Blocks == nil || g.Object() == nil || g.Object().Exported() {
		return "", false
	}
	srs := successReturns(g)
	if len(srs) != 1 || idx >= len(srs[0].Results) {
		return "", false
	}
	var al *ssa.Alloc
	switch rv := returnedValue(srs[0], idx).(type) {
	case *ssa.Alloc:
		al = rv
	case *ssa.UnOp:
		if rv.Op == token.MUL {
			al, _ = rv.X.(*ssa.Alloc)
		}
	}
	if al == nil {
		return "", false
	}
	if _, isStruct := derefT(al.Type()).Underlying().(*types.Struct); !isStruct {
		return "", false
	}
	var val ssa.Value
	n := 0
	for _, r := range *al.Referrers() {
		switch y := r.(type) {
		case *ssa.FieldAddr:
			if y.Field != field {
				continue
			}
			for _, rr := range *y.Referrers() {
				if st, isS := rr.(*ssa.Store); isS && st.Addr == ssa.Value(y) {
					val = st.Val
					n++
				}
			}
		case *ssa.Store:
			if y.Addr == ssa.Value(al) {
				return "", false // written as a whole
			}
		}
	}
	if n != 1 {
		return "", false
	}
	return c.path(val, c.calleeEnv(&cl.Call, g, env), d+2), true
}

// thinWrapperTarget: f does nothing but hand its own parameters to one unexported module function g and return g's
// results unchanged (`func (c *T) Do(a, b) (R, error) { return do(a, b) }`). Returns g and the frame that names g's
// parameters the way f names them.
func (c *Ctx) thinWrapperTarget(f *ssa.Function) (*ssa.Function, Env) {
	if f == nil || len(f.Blocks) != 1 {
		return nil, nil
	}
	var call *ssa.Call
	for _, in := range f.Blocks[0].Instrs {
		switch x := in.(type) {
		case *ssa.Call:
			if call != nil {
				return nil, nil
			}
			call = x
		case *ssa.Extract, *ssa.Return, *ssa.DebugRef:
		default:
			return nil, nil
		}
	}
	if call == nil {
		return nil, nil
	}
	g := call.Call.StaticCallee()
	if g == nil || !inModule(g) || g.Blocks == nil || g.Object() == nil || g.Object().Exported() {
		return nil, nil
	}
	ret, ok := f.Blocks[0].Instrs[len(f.Blocks[0].Instrs)-1].(*ssa.Return)
	if !ok {
		return nil, nil
	}
	for i, r := range ret.Results {
		if len(ret.Results) == 1 {
			if r != ssa.Value(call) {
				return nil, nil
			}
			continue
		}
		ex, isEx := r.(*ssa.Extract)
		if !isEx || ex.Tuple != ssa.Value(call) || ex.Index != i {
			return nil, nil
		}
	}
	env := Env{}
	for i, a := range call.Call.Args {
		p, isP := a.(*ssa.Parameter)
		if !isP || i >= len(g.Params) {
			return nil, nil
		}
		env[g.Params[i]] = c.Path(p, nil)
	}
	return g, env
}

var countCallRe = regexp.MustCompile(`^strings\.Count\((.*),("[^"]+")\)$`)

// countAsParts: one of the two rendered operands is strings.Count(s, "sep") (non-empty constant separator) and the other
// an integer constant k: the pair is rewritten to (len(strings.Split(s,"sep")), k+1), operands kept in their order.
func countAsParts(l, r string) (string, string, bool) {
	conv := func(cnt, k string) (string, string, bool) {
		m := countCallRe.FindStringSubmatch(cnt)
		if m == nil {
			return "", "", false
		}
		n, err := strconv.Atoi(k)
		if err != nil {
			return "", "", false
		}
		return "len(strings.Split(" + m[1] + "," + m[2] + "))", strconv.Itoa(n + 1), true
	}
	if a, b, ok := conv(l, r); ok {
		return a, b, true
	}
	if a, b, ok := conv(r, l); ok {
		return b, a, true
	}
	return "", "", false
}

// globalAlias: g is an unexported package-level variable of the module that is initialised with the value of another
// package-level variable (`var encoding = base64.RawURLEncoding`) and is never assigned or address-taken afterwards:
// reading it is reading that variable.
func (c *Ctx) globalAlias(g *ssa.Global) *ssa.Global {
	if a, done := c.aliasMemo[g]; done {
		return a
	}
	if c.aliasMemo == nil {
		c.aliasMemo = map[*ssa.Global]*ssa.Global{}
	}
	c.aliasMemo[g] = nil
	if g.Pkg == nil || !strings.HasPrefix(g.Pkg.Pkg.Path(), modPkg) || g.Object() == nil || g.Object().Exported() {
		return nil
	}
	var src *ssa.Global
	stores := 0
	okUse := true
	for _, f := range c.Funcs {
		if f.Pkg != g.Pkg {
			continue
		}
		forEachInstr(f, func(in ssa.Instruction) {
			var ops []*ssa.Value
			for _, op := range in.Operands(ops) {
				if *op != ssa.Value(g) {
					continue
				}
				switch y := in.(type) {
				case *ssa.UnOp:
					if y.Op != token.MUL {
						okUse = false
					}
				case *ssa.Store:
					if y.Addr != ssa.Value(g) {
						okUse = false
						continue
					}
					stores++
					if f.Name() != "init" {
						okUse = false
					}
					if ld, isLd := y.Val.(*ssa.UnOp); isLd && ld.Op == token.MUL {
						src, _ = ld.X.(*ssa.Global)
					}
				case *ssa.DebugRef:
				default:
					okUse = false
				}
			}
		})
	}
	if okUse && stores == 1 && src != nil {
		c.aliasMemo[g] = src
	}
	return c.aliasMemo[g]
}

// decoratedErrs: the results of nil-preserving error decorators applied to the error value v
// (`err := wrap("section", validate(x))`).
func decoratedErrs(v ssa.Value) []ssa.Value {
	if v.Referrers() == nil || !isErrType(v.Type()) {
		return nil
	}
	var out []ssa.Value
	for _, r := range *v.Referrers() {
		cl, ok := r.(*ssa.Call)
		if !ok || !isErrType(cl.Type()) {
			continue
		}
		h := cl.Call.StaticCallee()
		if h == nil || !inModule(h) || h.Blocks == nil {
			continue
		}
		for i, a := range cl.Call.Args {
			if a == v && i < len(h.Params) && nilPreservingDecorator(h, i) {
				out = append(out, cl)
			}
		}
	}
	return out
}

var nilPreservingMemo = map[*ssa.Function]map[int]bool{}

// nilPreservingDecorator: h returns one error; it returns nil only where its i-th parameter is known to be nil, and
// where that parameter is known to be nil it returns nil (or the parameter itself).
func nilPreservingDecorator(h *ssa.Function, i int) bool {
	if m, ok := nilPreservingMemo[h]; ok {
		if v, done := m[i]; done {
			return v
		}
	} else {
		nilPreservingMemo[h] = map[int]bool{}
	}
	nilPreservingMemo[h][i] = false
	if h.Signature.Results().Len() != 1 || i >= len(h.Params) || !isErrType(h.Params[i].Type()) {
		return false
	}
	p := h.Params[i]
	nNil, nOther := 0, 0
	for _, r := range returnsOf(h) {
		res := r.Results[0]
		known := knownNilAt(p, r.Block(), 0) != nil
		switch {
		case res == ssa.Value(p):
			// handed back as it is
		case isNilConst(res):
			if !known {
				return false // answers nil for a non-nil error
			}
			nNil++
		default:
			if known {
				return false // builds an error out of nothing
			}
			if !nonNilErr(res, r) {
				return false
			}
			nOther++
		}
	}
	ok := nNil+nOther > 0
	nilPreservingMemo[h][i] = ok
	return ok
}

func isNilConst(v ssa.Value) bool {
	k, ok := v.(*ssa.Const)
	return ok && k.IsNil()
}

// tableFieldFuncs: v is the function-valued field fld of an element of a package-level slice literal of structs (read
// directly, or through the range variable's own copy of the element; the table possibly selected by a φ among several):
// the functions stored in that field across all rows of the candidate tables. Nil when v has another shape.
func (c *Ctx) tableFieldFuncs(v ssa.Value) []*ssa.Function {
	ld, ok := v.(*ssa.UnOp)
	if !ok || ld.Op != token.MUL {
		return nil
	}
	fa, ok := ld.X.(*ssa.FieldAddr)
	if !ok {
		return nil
	}
	// the element address
	var elem *ssa.IndexAddr
	switch b := fa.X.(type) {
	case *ssa.IndexAddr:
		elem = b
	case *ssa.Alloc:
		if st := wholeStore(b); st != nil {
			if l2, isLd := st.Val.(*ssa.UnOp); isLd && l2.Op == token.MUL {
				elem, _ = l2.X.(*ssa.IndexAddr)
			}
		}
	}
	if elem == nil {
		return nil
	}
	var tables []*ssa.Global
	var collect func(x ssa.Value, d int) bool
	collect = func(x ssa.Value, d int) bool {
		if d > 3 {
			return false
		}
		switch y := x.(type) {
		case *ssa.UnOp:
			if g, isG := y.X.(*ssa.Global); isG && y.Op == token.MUL {
				tables = append(tables, g)
				return true
			}
		case *ssa.Phi:
			for _, e := range y.Edges {
				if !collect(e, d+1) {
					return false
				}
			}
			return len(y.Edges) > 0
		}
		return false
	}
	if !collect(elem.X, 0) {
		return nil
	}
	seen := map[*ssa.Function]bool{}
	var out []*ssa.Function
	for _, g := range tables {
		sl := c.globalSliceInit(g)
		if sl == nil {
			return nil
		}
		al, isAl := sl.X.(*ssa.Alloc)
		if !isAl {
			return nil
		}
		for _, r := range *al.Referrers() {
			ia, isIA := r.(*ssa.IndexAddr)
			if !isIA {
				continue
			}
			for _, rr := range *ia.Referrers() {
				f2, isFA := rr.(*ssa.FieldAddr)
				if !isFA || f2.Field != fa.Field {
					continue
				}
				for _, r3 := range *f2.Referrers() {
					if st, isS := r3.(*ssa.Store); isS && st.Addr == ssa.Value(f2) {
						fn := funcValueOf(st.Val)
						if fn == nil {
							return nil
						}
						if !seen[fn] {
							seen[fn] = true
							out = append(out, fn)
						}
					}
				}
			}
		}
	}
	sort.Slice(out, func(i, j int) bool { return out[i].String() < out[j].String() })
	return out
}

// subsequenceSource: v is the result of an unexported module helper that returns a sub-sequence of one of its slice
// arguments — a result built only by appending elements of that parameter (a filter, a de-duplication): an element of
// the result is an element of that argument. Returns the argument.
func (c *Ctx) subsequenceSource(v ssa.Value) (ssa.Value, bool) {
	var cl *ssa.Call
	switch y := v.(type) {
	case *ssa.Call:
		cl = y
	case *ssa.Extract:
		if y.Index == 0 {
			cl, _ = y.Tuple.(*ssa.Call)
		}
	}
	if cl == nil {
		return nil, false
	}
	g := cl.Call.StaticCallee()
	if g == nil || !inModule(g) || g.Blocks == nil {
		return nil, false
	}
	pi, done := c.subseqMemo[g]
	if !done {
		if c.subseqMemo == nil {
			c.subseqMemo = map[*ssa.Function]int{}
		}
		pi = subsequenceParam(g)
		c.subseqMemo[g] = pi
	}
	if pi < 0 || pi >= len(cl.Call.Args) {
		return nil, false
	}
	return cl.Call.Args[pi], true
}

// subsequenceParam: the index of the slice parameter of which g returns a sub-sequence, -1 if g is not of that shape:
// every return hands back a slice accumulator (a φ of nil and appends onto itself), every append adds exactly one
// element, and each appended element is the range element of one and the same parameter.
func subsequenceParam(g *ssa.Function) int {
	if g.Signature.Results().Len() < 1 {
		return -1
	}
	if _, isSl := g.Signature.Results().At(0).Type().Underlying().(*types.Slice); !isSl {
		return -1
	}
	pi := -1
	nApp := 0
	ok := true
	forEachInstr(g, func(in ssa.Instruction) {
		cl, isC := in.(*ssa.Call)
		if !isC {
			return
		}
		bi, isB := cl.Call.Value.(*ssa.Builtin)
		if !isB || bi.Name() != "append" || len(cl.Call.Args) != 2 || !types.Identical(cl.Type(), g.Signature.Results().At(0).Type()) {
			return
		}
		nApp++
		// append(acc, elem): the vararg slice holds one element
		sl, isSl := cl.Call.Args[1].(*ssa.Slice)
		if !isSl {
			ok = false
			return
		}
		al, isAl := sl.X.(*ssa.Alloc)
		if !isAl {
			ok = false
			return
		}
		n := 0
		for _, r := range *al.Referrers() {
			ia, isIA := r.(*ssa.IndexAddr)
			if !isIA {
				continue
			}
			for _, rr := range *ia.Referrers() {
				st, isS := rr.(*ssa.Store)
				if !isS || st.Addr != ssa.Value(ia) {
					continue
				}
				n++
				// the stored value: a load of param[i] with i the range induction
				ld, isLd := st.Val.(*ssa.UnOp)
				if !isLd || ld.Op != token.MUL {
					ok = false
					continue
				}
				ea, isEA := ld.X.(*ssa.IndexAddr)
				if !isEA {
					ok = false
					continue
				}
				p, isP := ea.X.(*ssa.Parameter)
				if !isP || !isInduction(ea.Index) && !isInductionExpr(ea.Index) {
					ok = false
					continue
				}
				k := paramIndex(p)
				if pi >= 0 && pi != k {
					ok = false
				}
				pi = k
			}
		}
		if n != 1 {
			ok = false
		}
	})
	if !ok || nApp == 0 || pi < 0 {
		return -1
	}
	// every return hands back the accumulator
	for _, r := range returnsOf(g) {
		if len(r.Results) == 0 {
			return -1
		}
		acc := false
		for v := range backSlice(r.Results[0]) {
			if cl, isC := v.(*ssa.Call); isC {
				if bi, isB := cl.Call.Value.(*ssa.Builtin); isB && bi.Name() == "append" {
					acc = true
				}
			}
		}
		if k, isK := r.Results[0].(*ssa.Const); isK && k.IsNil() {
			acc = true
		}
		if !acc {
			return -1
		}
	}
	return pi
}

// isInductionExpr: phi(-1, i) + 1 — the index of a range loop over a slice.
func isInductionExpr(v ssa.Value) bool {
	b, ok := v.(*ssa.BinOp)
	return ok && b.Op == token.ADD && isInduction(b.X)
}

// singleStoreTo: the only store through the field address fa (which is otherwise only loaded from).
func singleStoreTo(fa *ssa.FieldAddr) *ssa.Store {
	if fa.Referrers() == nil {
		return nil
	}
	var st *ssa.Store
	for _, r := range *fa.Referrers() {
		switch x := r.(type) {
		case *ssa.Store:
			if x.Addr != ssa.Value(fa) || st != nil {
				return nil
			}
			st = x
		case *ssa.UnOp:
			if x.Op != token.MUL {
				return nil
			}
		case *ssa.DebugRef:
		default:
			return nil
		}
	}
	return st
}

// litField renders base.field; a base that stands for a struct literal of the caller reads as what was put into the field.
func (c *Ctx) litField(base, field string) string {
	if fs, ok := c.structLits[base]; ok {
		if p, has := fs[field]; has {
			return p
		}
	}
	return base + "." + field
}

// factoryCallForm: call invokes the function literal that factory g (called at fc) hands back; returns the concatenation
// form of the literal's result.
func (c *Ctx) factoryCallForm(call, fc *ssa.Call, g *ssa.Function, env Env) (string, bool) {
	genv := c.concatEnv(&fc.Call, g, env)
	cut := c.pruned(g, genv)
	live := reach(g.Blocks[0], cut)
	var mc *ssa.MakeClosure
	n := 0
	for _, r := range returnsOf(g) {
		if _, l := live[r.Block()]; !l || len(r.Results) != 1 {
			continue
		}
		n++
		mc, _ = stripConv(r.Results[0]).(*ssa.MakeClosure)
	}
	if n != 1 || mc == nil {
		return "", false
	}
	lit, _ := mc.Fn.(*ssa.Function)
	if lit == nil || lit.Blocks == nil {
		return "", false
	}
	lenv := Env{}
	for i, p := range lit.Params {
		if i < len(call.Call.Args) {
			if isStringType(p.Type()) {
				lenv[p] = c.concatForm(call.Call.Args[i], env)
				if lenv[p] == "" {
					lenv[p] = `""`
				}
			} else {
				lenv[p] = c.Path(call.Call.Args[i], env)
			}
		}
	}
	for i, b := range mc.Bindings {
		if i >= len(lit.FreeVars) {
			break
		}
		cell, isCell := b.(*ssa.Alloc)
		if !isCell {
			lenv[lit.FreeVars[i]] = c.Path(b, genv)
			continue
		}
		// the stores into the cell that may still be what it holds when the literal is made
		var stores []*ssa.Store
		okCell := true
		for _, r := range *cell.Referrers() {
			switch y := r.(type) {
			case *ssa.Store:
				if y.Addr == ssa.Value(cell) {
					if _, l := live[y.Block()]; l {
						stores = append(stores, y)
					}
				} else {
					okCell = false
				}
			case *ssa.UnOp, *ssa.MakeClosure, *ssa.DebugRef:
			default:
				okCell = false
			}
		}
		if !okCell {
			return "", false
		}
		var reaching []*ssa.Store
		for _, st := range stores {
			// a later store in the same block overrides this one
			overridden := false
			for _, o := range stores {
				if o != st && o.Block() == st.Block() && instrBefore(st, o) && (o.Block() != mc.Block() || instrBefore(o, mc)) {
					overridden = true
				}
			}
			if overridden {
				continue
			}
			if st.Block() == mc.Block() {
				if instrBefore(st, mc) {
					reaching = append(reaching, st)
				}
				continue
			}
			kcut := map[edge]bool{}
			for e := range cut {
				kcut[e] = true
			}
			for _, o := range stores {
				if o.Block() != st.Block() && (o.Block() != mc.Block() || instrBefore(o, mc)) {
					// entering another store's block kills this one
					for _, p := range o.Block().Preds {
						kcut[edge{from: p, to: o.Block()}] = true
					}
				}
			}
			killedInTarget := false
			for _, o := range stores {
				if o.Block() == mc.Block() && instrBefore(o, mc) {
					killedInTarget = true
				}
			}
			if _, r := reach(st.Block(), kcut)[mc.Block()]; r && !killedInTarget {
				reaching = append(reaching, st)
			}
		}
		if len(reaching) != 1 {
			return "", false
		}
		v := reaching[0].Val
		if isStringType(v.Type()) {
			lenv[lit.FreeVars[i]] = c.concatForm(v, genv)
			if lenv[lit.FreeVars[i]] == "" {
				lenv[lit.FreeVars[i]] = `""`
			}
		} else {
			lenv[lit.FreeVars[i]] = c.Path(v, genv)
		}
	}
	var rets []*ssa.Return
	lcut := c.pruned(lit, lenv)
	llive := reach(lit.Blocks[0], lcut)
	for _, r := range returnsOf(lit) {
		if _, l := llive[r.Block()]; l {
			rets = append(rets, r)
		}
	}
	if len(rets) != 1 || len(rets[0].Results) != 1 {
		return "", false
	}
	return c.concatForm(returnedValue(rets[0], 0), lenv), true
}

// uniqStrs drops the repetitions of a sorted list of strings.
func uniqStrs(in []string) []string {
	var out []string
	for i, s := range in {
		if i == 0 || s != in[i-1] {
			out = append(out, s)
		}
	}
	return out
}

// usesValue: in has v among its operands
func usesValue(in ssa.Instruction, v ssa.Value) bool {
	var buf [8]*ssa.Value
	for _, op := range in.Operands(buf[:0]) {
		if op != nil && *op == v {
			return true
		}
	}
	return false
}
