package main

// Anchor discovery shared by several properties: per-type apply functions, parser entry points,
// calls by method name, struct-literal provenance tables, backward slices.

import (
	"fmt"
	"go/constant"
	"go/token"
	"go/types"
	"sort"
	"strings"

	"golang.org/x/tools/go/ssa"
)

const (
	pApplier  = "versions/1_0/operationapplier"
	pParser   = "versions/1_0/operationparser"
	pModel    = "versions/1_0/model"
	pComposer = "versions/1_0/doccomposer"
	pPV       = "versions/1_0/operationparser/patchvalidator"
	pClient   = "versions/1_0/client"
)

var opTypes = []string{"create", "update", "recover", "deactivate"}

// applyFuncs discovers the per-type apply functions from the dispatch in (*Applier).Apply:
// the callee entered on `op.Type == <const>`.
func (c *Ctx) applyFuncs(rule string) map[string]*ssa.Function {
	out := map[string]*ssa.Function{}
	apply := c.Method(pApplier, "Applier", "Apply")
	if apply == nil {
		c.Unresolved(rule, "(*operationapplier.Applier).Apply")
		return out
	}
	c.Analysed(apply)
	dv := c.dispatch(apply, func(p string) bool { return p == "$1.Type" })
	for k, a := range dv.arms {
		for _, ac := range c.armCalls(dv, a) {
			if inModule(ac.callee) {
				out[unquote(k)] = ac.callee
				break
			}
		}
	}
	return out
}

func (c *Ctx) parseFuncs() map[string]*ssa.Function {
	return map[string]*ssa.Function{
		"create":     c.Method(pParser, "Parser", "ParseCreateOperation"),
		"update":     c.Method(pParser, "Parser", "ParseUpdateOperation"),
		"recover":    c.Method(pParser, "Parser", "ParseRecoverOperation"),
		"deactivate": c.Method(pParser, "Parser", "ParseDeactivateOperation"),
	}
}

func (c *Ctx) signedDataFuncs() map[string]*ssa.Function {
	return map[string]*ssa.Function{
		"update":     c.Method(pParser, "Parser", "ParseSignedDataForUpdate"),
		"recover":    c.Method(pParser, "Parser", "ParseSignedDataForRecover"),
		"deactivate": c.Method(pParser, "Parser", "ParseSignedDataForDeactivate"),
	}
}

var parseOpMethod = map[string]string{"create": "ParseCreateOperation", "update": "ParseUpdateOperation", "recover": "ParseRecoverOperation", "deactivate": "ParseDeactivateOperation"}
var parseSDMethod = map[string]string{"update": "ParseSignedDataForUpdate", "recover": "ParseSignedDataForRecover", "deactivate": "ParseSignedDataForDeactivate"}
var sdKeyField = map[string]string{"update": "UpdateKey", "recover": "RecoveryKey", "deactivate": "RecoveryKey"}

// findCalls returns the calls in f (in block order) satisfying pred.
func findCalls(f *ssa.Function, pred func(cl *ssa.Call) bool) []*ssa.Call {
	var out []*ssa.Call
	if f == nil {
		return nil
	}
	for _, b := range f.Blocks {
		for _, in := range b.Instrs {
			if cl, ok := in.(*ssa.Call); ok && pred(cl) {
				out = append(out, cl)
			}
		}
	}
	return out
}

// callsNamed: calls (static or invoke) whose callee/method has the given name.
func callsNamed(f *ssa.Function, name string) []*ssa.Call {
	return findCalls(f, func(cl *ssa.Call) bool {
		if cl.Call.IsInvoke() {
			return cl.Call.Method.Name() == name
		}
		if g := cl.Call.StaticCallee(); g != nil {
			return g.Name() == name
		}
		return false
	})
}

func callsTo(f *ssa.Function, g *ssa.Function) []*ssa.Call {
	return findCalls(f, func(cl *ssa.Call) bool { return g != nil && cl.Call.StaticCallee() == g })
}

// declArgs returns the arguments of a call corresponding to declared parameters (receiver stripped).
func declArgs(cl *ssa.Call) []ssa.Value {
	if cl.Call.IsInvoke() {
		return cl.Call.Args
	}
	if g := cl.Call.StaticCallee(); g != nil && g.Signature.Recv() != nil && len(cl.Call.Args) > 0 {
		return cl.Call.Args[1:]
	}
	return cl.Call.Args
}

// ---- struct allocation provenance ------------------------------------------------------------

type fieldStore struct {
	Field string
	Val   ssa.Value
	Instr *ssa.Store
	At    ssa.Instruction // where the store takes effect in the analysed function: the store itself, or the call of the constructor helper that performs it
	Env   Env             // frame in which Val is to be rendered (helper parameters renamed to the caller's arguments)
	Sel   string          // the store copies a whole struct value (Val): this entry stands for its field Sel
}

// fsPath renders what a field store installs.
func (c *Ctx) fsPath(fs fieldStore) string {
	if fs.Sel != "" {
		return c.Path(fs.Val, fs.Env) + "." + fs.Sel
	}
	return c.Path(fs.Val, fs.Env)
}

// wholeCopies: stores of a whole struct value into the cell a (`x := *p`), as one entry per field — except the fields
// that the same block assigns afterwards (straight-line initialisation: the copied value of those is gone).
func wholeCopies(a *ssa.Alloc, explicit []fieldStore) []fieldStore {
	var out []fieldStore
	st, ok := derefT(a.Type()).Underlying().(*types.Struct)
	if !ok || a.Referrers() == nil {
		return nil
	}
	for _, r := range *a.Referrers() {
		w, isS := r.(*ssa.Store)
		if !isS || w.Addr != ssa.Value(a) {
			continue
		}
		ld, isLd := w.Val.(*ssa.UnOp)
		if !isLd || ld.Op != token.MUL {
			continue
		}
		for i := 0; i < st.NumFields(); i++ {
			name := st.Field(i).Name()
			killed := false
			for _, e := range explicit {
				if e.Field == name && e.Instr != nil && e.Instr.Block() == w.Block() && instrBefore(w, e.Instr) {
					killed = true
				}
			}
			if !killed {
				out = append(out, fieldStore{Field: name, Val: ld.X, Instr: w, At: w, Sel: name})
			}
		}
	}
	return out
}

// allocsOf returns allocations in f of struct type named (pointer allocations `&T{}` / new(T) / local T).
func allocsOf(f *ssa.Function, named *types.Named) []*ssa.Alloc {
	var out []*ssa.Alloc
	forEachInstr(f, func(in ssa.Instruction) {
		if a, ok := in.(*ssa.Alloc); ok {
			if types.Identical(a.Type().Underlying().(*types.Pointer).Elem(), named) {
				out = append(out, a)
			}
		}
	})
	return out
}

// storesInto lists the field stores into allocation a (composite literal and later assignments).
func storesInto(a *ssa.Alloc) []fieldStore {
	var out []fieldStore
	for _, r := range *a.Referrers() {
		fa, ok := r.(*ssa.FieldAddr)
		if !ok {
			continue
		}
		for _, rr := range *fa.Referrers() {
			if st, ok := rr.(*ssa.Store); ok && st.Addr == fa {
				out = append(out, fieldStore{Field: fieldName(a.Type(), fa.Field), Val: st.Val, Instr: st, At: st})
			}
		}
	}
	return out
}

// fieldTable renders field -> sorted set of stored paths for an allocation.
func (c *Ctx) fieldTable(a *ssa.Alloc, env Env) map[string][]string {
	out := map[string][]string{}
	for _, fs := range storesInto(a) {
		out[fs.Field] = append(out[fs.Field], c.Path(fs.Val, env))
	}
	for k := range out {
		sort.Strings(out[k])
	}
	return out
}

// ---- backward slices -------------------------------------------------------------------------

// backSlice computes the backward def-use closure of v inside its function, through loads of local
// allocations (values stored into them and arguments of calls that receive their address), phis and
// calls' arguments. It is an over-approximation of "what v may depend on" (data dependence only).
func backSlice(v ssa.Value) map[ssa.Value]bool {
	seen := map[ssa.Value]bool{}
	var visit func(x ssa.Value)
	visitAlloc := func(a ssa.Value) {}
	visit = func(x ssa.Value) {
		if x == nil || seen[x] {
			return
		}
		seen[x] = true
		if in, ok := x.(ssa.Instruction); ok {
			var ops []*ssa.Value
			for _, op := range in.Operands(ops) {
				if *op != nil {
					visit(*op)
				}
			}
		}
		switch y := x.(type) {
		case *ssa.Alloc:
			visitAlloc(y)
		case *ssa.Call, *ssa.Extract, *ssa.MakeMap, *ssa.MakeSlice:
			// a heap object obtained from a call / make may be filled by later calls that receive it
			// (hasher.Write(msg), map updates): include what flows into it
			if isRefLike(x.Type()) {
				visitAlloc(x)
			}
		}
	}
	visitAlloc = func(a ssa.Value) {
		// everything stored through a (or addresses derived from it), and args of calls receiving it
		var walk func(addr ssa.Value, d int)
		walk = func(addr ssa.Value, d int) {
			if d > 6 || addr.Referrers() == nil {
				return
			}
			for _, r := range *addr.Referrers() {
				switch y := r.(type) {
				case *ssa.Store:
					if y.Addr == addr {
						visit(y.Val)
					}
				case *ssa.FieldAddr:
					walk(y, d+1)
				case *ssa.IndexAddr:
					walk(y, d+1)
				case *ssa.MakeInterface:
					walk(y, d+1)
				case *ssa.MapUpdate:
					if y.Map == addr {
						visit(y.Key)
						visit(y.Value)
					}
				case ssa.CallInstruction:
					// the standard search / comparison functions read their arguments only
					if g := y.Common().StaticCallee(); g != nil && readOnlyStd(g) {
						continue
					}
					// a module callee that only reads the object (a membership test on a set) puts nothing into it
					if g := y.Common().StaticCallee(); g != nil && inModule(g) && g.Blocks != nil {
						fills := false
						for i, arg := range y.Common().Args {
							if arg == addr && (i >= len(g.Params) || mayFill(g.Params[i], 0)) {
								fills = true
							}
						}
						if !fills {
							continue
						}
					}
					for _, arg := range y.Common().Args {
						visit(arg)
					}
					if y.Common().IsInvoke() {
						visit(y.Common().Value)
					}
				}
			}
		}
		walk(a, 0)
	}
	visit(v)
	return seen
}

// readOnlyStd: standard-library functions that only read what they are handed.
func readOnlyStd(g *ssa.Function) bool {
	o := g.Origin()
	if o == nil {
		o = g
	}
	switch pkgPathOf(o) {
	case "slices":
		switch o.Name() {
		case "Contains", "ContainsFunc", "Index", "IndexFunc", "Equal", "EqualFunc", "Compare", "CompareFunc", "Max", "Min", "BinarySearch", "BinarySearchFunc", "IsSorted", "IsSortedFunc":
			return true
		}
	case "strings", "bytes":
		switch o.Name() {
		case "Contains", "ContainsRune", "ContainsAny", "Index", "IndexByte", "IndexRune", "LastIndex", "HasPrefix", "HasSuffix", "EqualFold", "Equal", "Compare", "Count":
			return true
		}
	case "maps":
		switch o.Name() {
		case "Equal", "EqualFunc":
			return true
		}
	}
	return false
}

// mayFill: something may be written into the object v refers to (map update, store through a derived address,
// append / copy / delete / clear, or handing it to a function that may do so).
func mayFill(v ssa.Value, depth int) bool {
	if v.Referrers() == nil {
		return false
	}
	if depth > 3 {
		return true
	}
	for _, r := range *v.Referrers() {
		switch y := r.(type) {
		case *ssa.MapUpdate:
			if y.Map == v {
				return true
			}
		case *ssa.Store:
			if y.Addr == v {
				return true
			}
		case *ssa.FieldAddr, *ssa.IndexAddr, *ssa.ChangeType, *ssa.MakeInterface, *ssa.Slice, *ssa.Phi:
			if mayFill(y.(ssa.Value), depth+1) {
				return true
			}
		case ssa.CallInstruction:
			cm := y.Common()
			if b, isB := cm.Value.(*ssa.Builtin); isB {
				switch b.Name() {
				case "len", "cap":
					continue
				case "append", "copy":
					// the source operand is only read
					if len(cm.Args) == 2 && cm.Args[0] != v {
						continue
					}
				}
				return true
			}
			g := cm.StaticCallee()
			if g == nil || !inModule(g) || g.Blocks == nil {
				return true
			}
			for i, a := range cm.Args {
				if a == v && (i >= len(g.Params) || mayFill(g.Params[i], depth+1)) {
					return true
				}
			}
		}
	}
	return false
}

func sliceHas(sl map[ssa.Value]bool, pred func(v ssa.Value) bool) bool {
	for v := range sl {
		if pred(v) {
			return true
		}
	}
	return false
}

func isParam(f *ssa.Function, idx int) func(v ssa.Value) bool {
	return func(v ssa.Value) bool {
		p, ok := v.(*ssa.Parameter)
		return ok && p.Parent() == f && paramIndex(p) == idx
	}
}

// fieldLoadsIn: names of fields of struct type `named` that are read (FieldAddr/Field) among values.
func fieldsOfTypeIn(sl map[ssa.Value]bool, named *types.Named) []string {
	set := map[string]bool{}
	for v := range sl {
		var xt types.Type
		var idx int
		switch y := v.(type) {
		case *ssa.FieldAddr:
			xt, idx = y.X.Type(), y.Field
		case *ssa.Field:
			xt, idx = y.X.Type(), y.Field
		default:
			continue
		}
		if p, ok := xt.Underlying().(*types.Pointer); ok {
			xt = p.Elem()
		}
		if types.Identical(xt, named) {
			set[fieldName(xt, idx)] = true
		}
	}
	var out []string
	for k := range set {
		out = append(out, k)
	}
	sort.Strings(out)
	return out
}

// constStringSetOfMap: for a local map literal (MakeMap + MapUpdate with constant keys) returns keys.
func (c *Ctx) mapLiteralKeys(m *ssa.MakeMap) ([]string, bool) {
	var keys []string
	for _, r := range *m.Referrers() {
		switch y := r.(type) {
		case *ssa.MapUpdate:
			k, ok := y.Key.(*ssa.Const)
			if !ok {
				return nil, false
			}
			keys = append(keys, unquote(c.Path(k, nil)))
		case *ssa.Lookup, *ssa.DebugRef:
		case *ssa.MakeInterface, *ssa.ChangeType:
		default:
		}
	}
	sort.Strings(keys)
	return keys, true
}

func eqStrs(a, b []string) bool {
	if len(a) != len(b) {
		return false
	}
	for i := range a {
		if a[i] != b[i] {
			return false
		}
	}
	return true
}

func sortedCopy(a []string) []string {
	b := append([]string(nil), a...)
	sort.Strings(b)
	return b
}

func fmtSet(a []string) string { return "{" + strings.Join(a, ",") + "}" }

// isMembershipFn checks that bool function f(list, elem) returns true only behind `list[i] == elem`.
func (c *Ctx) isMembershipFn(f *ssa.Function) (bool, []string) {
	if f != nil && isSlicesContains(f) {
		return true, nil
	}
	if f == nil || f.Blocks == nil || len(f.Params) < 2 {
		return false, []string{"not a 2-parameter function"}
	}
	// a helper that only hands its two parameters to a membership function and returns its answer
	if len(f.Blocks) == 1 && len(f.Params) == 2 {
		var inner *ssa.Call
		n := 0
		for _, in := range f.Blocks[0].Instrs {
			if cl, ok := in.(*ssa.Call); ok {
				inner = cl
				n++
			}
		}
		if ret, ok := f.Blocks[0].Instrs[len(f.Blocks[0].Instrs)-1].(*ssa.Return); ok && n == 1 && len(ret.Results) == 1 && ret.Results[0] == ssa.Value(inner) && len(inner.Call.Args) == 2 {
			fromParams := true
			for _, a := range inner.Call.Args {
				if _, isP := a.(*ssa.Parameter); !isP {
					fromParams = false
				}
			}
			if g := inner.Call.StaticCallee(); g != nil && g != f && fromParams {
				if ok2, _ := c.isMembershipFn(g); ok2 {
					return true, nil
				}
			}
		}
	}
	lp := len(f.Params)
	// (list, wanted) in either order: the list is the slice-typed one of the last two parameters
	li, ei := lp-2, lp-1
	if _, isSl := f.Params[li].Type().Underlying().(*types.Slice); !isSl {
		if _, isSl2 := f.Params[ei].Type().Underlying().(*types.Slice); isSl2 {
			li, ei = ei, li
		}
	}
	listP, elemP := c.Path(f.Params[li], nil), c.Path(f.Params[ei], nil)
	partial := false
	chk := &GCheck{Name: "element == wanted", NoDescend: true, MatchCmp: func(c *Ctx, b *ssa.BinOp, env Env) (bool, bool) {
		if b.Op != token.EQL && b.Op != token.NEQ {
			return false, false
		}
		l, r := c.Path(b.X, env), c.Path(b.Y, env)
		isElem := func(s string) bool { return strings.HasPrefix(s, listP+"[") || strings.Contains(s, "("+listP+"[") }
		isWanted := func(s string) bool { return s == elemP || strings.HasSuffix(s, "("+elemP+")") }
		if (isElem(l) && isWanted(r)) || (isElem(r) && isWanted(l)) {
			// the element compared: its index must run over the whole list (every element is looked at — a search that
			// starts at 1 or stops before 0 answers "not a member" for the element it skips)
			for _, side := range []ssa.Value{b.X, b.Y} {
				v := side
				for d := 0; d < 3; d++ {
					switch y := v.(type) {
					case *ssa.Convert:
						v = y.X
					case *ssa.ChangeType:
						v = y.X
					}
				}
				if ld, isLd := v.(*ssa.UnOp); isLd && ld.Op == token.MUL {
					if ia, isIA := ld.X.(*ssa.IndexAddr); isIA && ia.X == ssa.Value(f.Params[li]) {
						if !ascendingFromZero(ia) && !c.descendingToZero(ia) {
							partial = true
						}
					}
				}
			}
			return true, b.Op == token.EQL
		}
		return false, false
	}}
	ok, w, _ := c.Guard(f, nil, chk, nil)
	if partial {
		return false, []string{"the search does not look at every element of the list"}
	}
	return ok, w
}

// isMapMembershipFn: bool function f(set, key) (set may be the receiver) that returns exactly "key is in set": the ok
// of set[key], or the value of a bool-valued set[key]. Returns the index of the set parameter.
func (c *Ctx) isMapMembershipFn(f *ssa.Function) (int, bool) {
	if f == nil || f.Blocks == nil || len(f.Params) != 2 || !boolResult(f) || !inModule(f) {
		return 0, false
	}
	setIdx := -1
	for _, r := range returnsOf(f) {
		if len(r.Results) != 1 {
			return 0, false
		}
		var lk *ssa.Lookup
		switch y := returnedValue(r, 0).(type) {
		case *ssa.Extract:
			if l, isLk := y.Tuple.(*ssa.Lookup); isLk && y.Index == 1 {
				lk = l
			}
		case *ssa.Lookup:
			if mt, isM := y.X.Type().Underlying().(*types.Map); isM && !y.CommaOk {
				if bt, isB := mt.Elem().Underlying().(*types.Basic); isB && bt.Kind() == types.Bool {
					lk = y
				}
			}
		}
		if lk == nil {
			return 0, false
		}
		sp, isSP := stripConv(lk.X).(*ssa.Parameter)
		kp, isKP := lk.Index.(*ssa.Parameter)
		if !isSP || !isKP || sp == kp {
			return 0, false
		}
		if setIdx >= 0 && setIdx != paramIndex(sp) {
			return 0, false
		}
		setIdx = paramIndex(sp)
	}
	return setIdx, setIdx >= 0
}

// forAllBySearch: "every element of the list passes elemCheck" written with the standard search functions: g rejects
// when slices.IndexFunc(list, bad) finds a position (or slices.ContainsFunc(list, bad) answers true), and the closure
// bad(e) answers false only across a success edge of elemCheck on e. listIs selects the list by its path in genv.
func (c *Ctx) forAllBySearch(g *ssa.Function, genv Env, listIs func(string) bool, elemCheck func(elem string) *GCheck) bool {
	ok := false
	forEachInstr(g, func(in ssa.Instruction) {
		cl, isC := in.(*ssa.Call)
		if !isC || cl.Call.StaticCallee() == nil || len(cl.Call.Args) != 2 || ok {
			return
		}
		o := cl.Call.StaticCallee().Origin()
		if o == nil {
			o = cl.Call.StaticCallee()
		}
		if pkgPathOf(o) != "slices" || (o.Name() != "IndexFunc" && o.Name() != "ContainsFunc") {
			return
		}
		lp := c.Path(cl.Call.Args[0], genv)
		if !listIs(lp) {
			return
		}
		fn := funcValueOf(cl.Call.Args[1])
		if fn == nil || fn.Blocks == nil || len(fn.Params) != 1 {
			return
		}
		cenv := Env{fn.Params[0]: lp + "[ι]"}
		if mc, isMC := cl.Call.Args[1].(*ssa.MakeClosure); isMC {
			for i, b := range mc.Bindings {
				if i < len(fn.FreeVars) {
					cenv[fn.FreeVars[i]] = c.Path(b, genv)
				}
			}
		}
		if !c.ensuresFalse(fn, cenv, elemCheck(lp+"[ι]"), 1) {
			return
		}
		// the caller refuses when the search finds something
		ip := c.Path(cl, genv)
		var found *GCheck
		if o.Name() == "ContainsFunc" {
			found = &GCheck{Name: "no offending element", BoolFalse: true, NoDescend: true, MatchCall: func(c *Ctx, call *ssa.Call, env Env) bool { return call == cl }}
		} else {
			found = anyOf("no offending element", cmpReject("i >= 0 rejected", token.GEQ, pathIs(ip), pathIs("0")), cmpAccept("i < 0", token.LSS, pathIs(ip), pathIs("0")), cmpAccept("i == -1", token.EQL, pathIs(ip), pathIs("-1")), cmpReject("i != -1 rejected", token.NEQ, pathIs(ip), pathIs("-1")))
		}
		if okG, _, n := c.Guard(g, genv, found, nil); okG && n > 0 {
			ok = true
		}
	})
	return ok
}

// decodeTargetTypes: the static types a JSON decoder call may decode into: the pointer handed to it, or — when the
// target is an interface-typed parameter of an unexported helper — what the helper's call sites hand over.
func (c *Ctx) decodeTargetTypes(v ssa.Value, depth int) []types.Type {
	switch x := v.(type) {
	case *ssa.MakeInterface:
		return []types.Type{x.X.Type()}
	case *ssa.Parameter:
		f := x.Parent()
		if depth > 3 || f == nil || f.Object() == nil || f.Object().Exported() {
			return nil
		}
		var out []types.Type
		idx := paramIndex(x)
		for _, g := range c.Funcs {
			for _, cl := range callsTo(g, f) {
				if idx < len(cl.Call.Args) {
					out = append(out, c.decodeTargetTypes(cl.Call.Args[idx], depth+1)...)
				}
			}
		}
		return out
	}
	return nil
}

func isRefLike(t types.Type) bool {
	switch t.Underlying().(type) {
	case *types.Pointer, *types.Interface, *types.Map, *types.Slice:
		return true
	}
	return false
}

// isSlicesContains: the standard library's slices.Contains (any instantiation).
func isSlicesContains(f *ssa.Function) bool {
	o := f.Origin()
	if o == nil {
		o = f
	}
	return pkgPathOf(o) == "slices" && o.Name() == "Contains"
}

// equalityClosureSearch: the call is slices.ContainsFunc / slices.IndexFunc (list, func(e) bool { return X == conv(e) })
// — a membership test by equality written with a predicate. Returns the closure and the value the element is
// compared with (as seen inside the closure), nil if the call has another shape.
func equalityClosureSearch(cl *ssa.Call) (*ssa.Function, ssa.Value) {
	g := cl.Call.StaticCallee()
	if g == nil {
		return nil, nil
	}
	o := g.Origin()
	if o == nil {
		o = g
	}
	if (pkgPathOf(o) != "slices" || (o.Name() != "ContainsFunc" && o.Name() != "IndexFunc")) && !containsFuncLike(g) || len(cl.Call.Args) != 2 {
		return nil, nil
	}
	var fn *ssa.Function
	switch x := cl.Call.Args[1].(type) {
	case *ssa.MakeClosure:
		fn, _ = x.Fn.(*ssa.Function)
	case *ssa.Function:
		fn = x
	}
	if fn == nil || len(fn.Params) != 1 || fn.Blocks == nil {
		return nil, nil
	}
	var other ssa.Value
	for _, r := range returnsOf(fn) {
		bo, ok := r.Results[0].(*ssa.BinOp)
		if !ok || bo.Op != token.EQL {
			return nil, nil
		}
		isElem := func(v ssa.Value) bool {
			for d := 0; d < 3; d++ {
				switch y := v.(type) {
				case *ssa.Convert:
					v = y.X
				case *ssa.ChangeType:
					v = y.X
				}
			}
			return v == ssa.Value(fn.Params[0])
		}
		switch {
		case isElem(bo.X) && !isElem(bo.Y):
			other = bo.Y
		case isElem(bo.Y) && !isElem(bo.X):
			other = bo.X
		default:
			return nil, nil
		}
	}
	return fn, other
}

// globalMapUpdates: the (key, value) stores of the composite literal a package-level map variable is initialised
// with (the variable must be assigned exactly once, in the package initialiser).
func (c *Ctx) globalMapUpdates(g *ssa.Global) []*ssa.MapUpdate {
	if g == nil || g.Pkg == nil {
		return nil
	}
	init := g.Pkg.Func("init")
	if init == nil {
		return nil
	}
	var mm ssa.Value
	n := 0
	for _, f := range c.Funcs {
		forEachInstr(f, func(in ssa.Instruction) {
			if st, ok := in.(*ssa.Store); ok && st.Addr == ssa.Value(g) {
				n++
				if f == init {
					mm = st.Val
				}
			}
		})
	}
	if n == 0 {
		forEachInstr(init, func(in ssa.Instruction) {
			if st, ok := in.(*ssa.Store); ok && st.Addr == ssa.Value(g) {
				n++
				mm = st.Val
			}
		})
	}
	if n != 1 {
		return nil
	}
	if ct, ok := mm.(*ssa.ChangeType); ok {
		mm = ct.X
	}
	m, ok := mm.(*ssa.MakeMap)
	if !ok {
		return nil
	}
	var out []*ssa.MapUpdate
	for _, r := range *m.Referrers() {
		if mu, isU := r.(*ssa.MapUpdate); isU {
			out = append(out, mu)
		}
	}
	return out
}

// globalTableLookup: f looks key (path accepted by scrut) up in a package-level map literal; returns the global and
// the lookup instruction, nil if f has no such lookup.
func (c *Ctx) globalTableLookup(f *ssa.Function, scrut func(path string) bool) (*ssa.Global, *ssa.Lookup) {
	var g *ssa.Global
	var lk *ssa.Lookup
	forEachInstr(f, func(in ssa.Instruction) {
		x, ok := in.(*ssa.Lookup)
		if !ok || !scrut(c.Path(x.Index, nil)) {
			return
		}
		if ld, isLd := x.X.(*ssa.UnOp); isLd && ld.Op == token.MUL {
			if gg, isG := ld.X.(*ssa.Global); isG && len(c.globalMapUpdates(gg)) > 0 {
				g, lk = gg, x
			}
		}
	})
	return g, lk
}

// structOfValue: the allocation a struct value stored into a map literal was built in (`*new T (complit)`).
func structOfValue(v ssa.Value) *ssa.Alloc {
	if ld, ok := v.(*ssa.UnOp); ok && ld.Op == token.MUL {
		if a, isA := ld.X.(*ssa.Alloc); isA {
			return a
		}
	}
	return nil
}

// rejectionReasons lists, for every failing exit of f (error result non-nil, or a false boolean result when
// wantFalse), the branch condition that decides it, as "<canonical condition>=<truth>" in f's frame. A condition
// that is a call of a module predicate / checker is replaced by that function's own reasons (parameters renamed to
// the caller's arguments), so a check may sit in a helper. Reasons are the closed set of ways f can say no.
func (c *Ctx) rejectionReasons(f *ssa.Function, env Env, boolFalse bool, depth int) []string {
	set := map[string]bool{}
	var fromEdge func(p, x *ssa.BasicBlock, d int)
	addCond := func(cond ssa.Value, truth bool) {
		for d := 0; d < 4; d++ {
			u, ok := cond.(*ssa.UnOp)
			if !ok || u.Op != token.NOT {
				break
			}
			cond, truth = u.X, !truth
		}
		// a module function deciding: descend
		if cl, ok := cond.(*ssa.Call); ok && depth < 3 {
			if g := cl.Call.StaticCallee(); g != nil && inModule(g) && g.Blocks != nil && boolResult(g) && !truth {
				for _, r := range c.rejectionReasons(g, c.calleeEnv(&cl.Call, g, env), true, depth+1) {
					set[r] = true
				}
				return
			}
		}
		// err != nil: the error tested, looked through a named-result cell (`err = f(); if err != nil` with a defer);
		// an error produced by a module checker is replaced by that checker's own reasons
		if bo, ok := cond.(*ssa.BinOp); ok && (bo.Op == token.NEQ || bo.Op == token.EQL) {
			var ev ssa.Value
			if k, isK := bo.Y.(*ssa.Const); isK && k.IsNil() {
				ev = bo.X
			} else if k, isK := bo.X.(*ssa.Const); isK && k.IsNil() {
				ev = bo.Y
			}
			if ev != nil && isErrType(ev.Type()) {
				ev = cellValue(ev)
				if (bo.Op == token.NEQ) == truth && depth < 3 {
					var cl *ssa.Call
					switch y := ev.(type) {
					case *ssa.Call:
						cl = y
					case *ssa.Extract:
						cl, _ = y.Tuple.(*ssa.Call)
					}
					if cl != nil {
						if g := cl.Call.StaticCallee(); g != nil && inModule(g) && g.Blocks != nil {
							sub := c.rejectionReasons(g, c.calleeEnv(&cl.Call, g, env), false, depth+1)
							for _, r := range sub {
								set[r] = true
							}
							if len(sub) > 0 {
								return
							}
							// (a callee that only hands a library's verdict on has no reasons of its own: the condition
							// itself is the reason)
						}
					}
				}
				set[fmt.Sprintf("(%s %s nil)=%v", c.Path(ev, env), bo.Op.String(), truth)] = true
				return
			}
		}
		set[fmt.Sprintf("%s=%v", c.Path(cond, env), truth)] = true
	}
	fromEdge = func(p, x *ssa.BasicBlock, d int) {
		if d > 8 {
			set["?=undetermined"] = true
			return
		}
		if iff, ok := p.Instrs[len(p.Instrs)-1].(*ssa.If); ok && p.Succs[0] != p.Succs[1] {
			addCond(iff.Cond, p.Succs[0] == x)
			return
		}
		if len(p.Preds) == 0 {
			set["unconditional=true"] = true
			return
		}
		for _, pp := range p.Preds {
			fromEdge(pp, p, d+1)
		}
	}
	for _, b := range f.Blocks {
		r, ok := b.Instrs[len(b.Instrs)-1].(*ssa.Return)
		if !ok || len(r.Results) == 0 {
			continue
		}
		failing := false
		last := r.Results[len(r.Results)-1]
		if boolFalse {
			if k, isK := last.(*ssa.Const); isK && k.Value != nil && k.Value.Kind() == constant.Bool {
				failing = !constant.BoolVal(k.Value)
			} else if !isConstTrue(last) {
				// a computed boolean result: the computation itself is the reason
				addCond(last, false)
				continue
			}
		} else if isErrType(last.Type()) {
			failing = !maySucceed(r)
		}
		if !failing {
			continue
		}
		if f.Recover != nil && b == f.Recover {
			continue // the landing pad after a recovered panic: not a decision of this function
		}
		if len(b.Preds) == 0 {
			set["unconditional=true"] = true
		}
		for _, p := range b.Preds {
			fromEdge(p, b, 0)
		}
	}
	var out []string
	for k := range set {
		// (`a && b` decided in one tagless switch arm is the φ of b and false: the refusal is on b, behind a)
		if strings.HasPrefix(k, "phi(") && strings.HasSuffix(k, "|false)=true") {
			k = k[len("phi("):len(k)-len("|false)=true")] + "=true"
		} else if strings.HasPrefix(k, "phi(false|") && strings.HasSuffix(k, ")=true") {
			k = k[len("phi(false|"):len(k)-len(")=true")] + "=true"
		}
		out = append(out, k)
	}
	sort.Strings(out)
	return uniqStrs(out)
}

func isConstTrue(v ssa.Value) bool {
	k, ok := v.(*ssa.Const)
	return ok && k.Value != nil && k.Value.Kind() == constant.Bool && constant.BoolVal(k.Value)
}

// constSetTest is one test "value ∈ {constants}" found in a function, whatever its spelling: a lookup in a map
// literal (comma-ok or bool-valued; local or package-level), a switch / chain of equality comparisons with
// constants, or a membership function over a slice literal.
type constSetTest struct {
	set    []string  // sorted, unquoted
	member []edge    // edges on which the value is known to be in the set
	pos    token.Pos // where the test is
	blk    *ssa.BasicBlock
}

// constSetTests finds the tests of values whose path (under env) satisfies isX against constant string sets in g.
func (c *Ctx) constSetTests(g *ssa.Function, env Env, isX func(path string) bool) []constSetTest {
	var out []constSetTest
	literalOf := func(v ssa.Value) ([]string, bool) {
		switch m := v.(type) {
		case *ssa.MakeMap:
			return c.mapLiteralKeys(m)
		case *ssa.UnOp:
			if gl, ok := m.X.(*ssa.Global); ok && m.Op == token.MUL {
				if sl := c.globalSliceLiteral(gl); len(sl) > 0 {
					ks := append([]string{}, sl...)
					sort.Strings(ks)
					return ks, true
				}
				var ks []string
				for _, mu := range c.globalMapUpdates(gl) {
					k, isK := mu.Key.(*ssa.Const)
					if !isK {
						return nil, false
					}
					ks = append(ks, unquote(c.Path(k, nil)))
				}
				sort.Strings(ks)
				return ks, len(ks) > 0
			}
		case *ssa.Slice:
			if al, ok := m.X.(*ssa.Alloc); ok {
				ks := constStringsOfAlloc(c, al)
				return ks, len(ks) > 0
			}
		}
		return nil, false
	}
	eqGroups := map[ssa.Value]*constSetTest{} // equality chains / switches, grouped by the tested value
	var order []ssa.Value
	for _, b := range g.Blocks {
		for _, in := range b.Instrs {
			switch x := in.(type) {
			case *ssa.Lookup:
				if !isX(c.Path(x.Index, env)) {
					continue
				}
				ks, lit := literalOf(x.X)
				if !lit {
					continue
				}
				t := constSetTest{set: ks, pos: x.Pos(), blk: b}
				if x.CommaOk {
					if okv := extractOf2(x, 1); okv != nil {
						t.member = boolEdgesT(okv, true)
					}
				} else if mt, isM := x.X.Type().Underlying().(*types.Map); isM {
					if bt, isB := mt.Elem().Underlying().(*types.Basic); isB && bt.Kind() == types.Bool {
						t.member = boolEdgesT(x, true)
					}
				}
				out = append(out, t)
			case *ssa.Call:
				// a module predicate handed the value alone (`isAllowed(name) bool`): a test against a constant set when the
				// predicate itself is one — it answers true exactly on the member edges of its own test of its parameter
				if cal := x.Call.StaticCallee(); cal != nil && len(x.Call.Args) == 1 && inModule(cal) && cal.Blocks != nil && boolResult(cal) && cal != g && isX(c.Path(x.Call.Args[0], env)) && c.cstDepth < 2 {
					c.cstDepth++
					inner := c.constSetTests(cal, nil, func(p string) bool { return p == "$0" })
					c.cstDepth--
					if len(inner) == 1 {
						cut := map[edge]bool{}
						for _, e := range inner[0].member {
							cut[e] = true
						}
						// true only across a member edge; false nowhere behind one
						exact := true
						for b2 := range reach(cal.Blocks[0], cut) {
							if r, isR := b2.Instrs[len(b2.Instrs)-1].(*ssa.Return); isR && c.Path(r.Results[0], nil) != "false" {
								exact = false
							}
						}
						for _, e := range inner[0].member {
							for b2 := range reach(e.to, nil) {
								if r, isR := b2.Instrs[len(b2.Instrs)-1].(*ssa.Return); isR && c.Path(r.Results[0], nil) != "true" {
									exact = false
								}
							}
						}
						if exact {
							out = append(out, constSetTest{set: inner[0].set, member: boolEdgesT(x, true), pos: x.Pos(), blk: b})
							continue
						}
					}
				}
				if cal := x.Call.StaticCallee(); cal != nil && len(x.Call.Args) == 2 {
					mList, mWanted := memberArgs(x)
					if !isX(c.Path(mWanted, env)) {
						continue
					}
					if isM, _ := c.isMembershipFn(cal); isM {
						if ks, lit := literalOf(mList); lit {
							out = append(out, constSetTest{set: ks, member: boolEdgesT(x, true), pos: x.Pos(), blk: b})
						}
					}
				}
			case *ssa.BinOp:
				if x.Op != token.EQL && x.Op != token.NEQ {
					continue
				}
				v, k := x.X, x.Y
				if _, isK := v.(*ssa.Const); isK {
					v, k = k, v
				}
				kc, isK := k.(*ssa.Const)
				if !isK || kc.Value == nil || kc.Value.Kind() != constant.String || !isX(c.Path(v, env)) {
					continue
				}
				t := eqGroups[v]
				if t == nil {
					t = &constSetTest{pos: x.Pos(), blk: b}
					eqGroups[v] = t
					order = append(order, v)
				}
				t.set = append(t.set, constant.StringVal(kc.Value))
				t.member = append(t.member, boolEdgesT(x, x.Op == token.EQL)...)
			}
		}
	}
	for _, v := range order {
		t := eqGroups[v]
		sort.Strings(t.set)
		out = append(out, *t)
	}
	return out
}

// builtObj is a struct value built during a call of f: a local allocation, or the result of a module constructor
// helper each of whose returns is an allocation it made itself (`return &T{...}` moved into a function).
type builtObj struct {
	v     ssa.Value // *ssa.Alloc or *ssa.Call; both are instructions of f
	call  *ssa.Call
	inner []*ssa.Alloc
	env   Env
}

func (o *builtObj) instr() ssa.Instruction { return o.v.(ssa.Instruction) }

// builtObjs lists the values of type *named built in f.
func (c *Ctx) builtObjs(f *ssa.Function, named *types.Named) []*builtObj {
	var out []*builtObj
	for _, a := range allocsOf(f, named) {
		out = append(out, &builtObj{v: a})
	}
	forEachInstr(f, func(in ssa.Instruction) {
		cl, ok := in.(*ssa.Call)
		if !ok {
			return
		}
		g := cl.Call.StaticCallee()
		if g == nil || !inModule(g) || g.Blocks == nil || g.Signature.Results().Len() != 1 {
			return
		}
		pt, isP := g.Signature.Results().At(0).Type().(*types.Pointer)
		if !isP || !types.Identical(pt.Elem(), named) {
			return
		}
		var inner []*ssa.Alloc
		for _, r := range returnsOf(g) {
			a, isA := r.Results[0].(*ssa.Alloc)
			if !isA || a.Parent() != g {
				return
			}
			inner = append(inner, a)
		}
		if len(inner) == 0 {
			return
		}
		c.Analysed(g)
		out = append(out, &builtObj{v: cl, call: cl, inner: inner, env: c.calleeEnv(&cl.Call, g, nil)})
	})
	return out
}

// storesIntoObj: field stores into a built object — the literal / assignments in f, and for a helper-built object
// the helper's own stores (taking effect at the call, values rendered in the caller's frame).
func (c *Ctx) storesIntoObj(o *builtObj) []fieldStore {
	var out []fieldStore
	if a, ok := o.v.(*ssa.Alloc); ok {
		ex := storesInto(a)
		ex = append(ex, wholeCopies(a, ex)...)
		// stores made by an unexported helper that is handed the object (a tail of the function moved into a helper):
		// they take effect at the call, values rendered in the caller's frame
		for _, h := range c.objHelperCalls(o) {
			p := h.g.Params[h.k]
			if p.Referrers() == nil {
				continue
			}
			for _, r := range *p.Referrers() {
				fa, isFA := r.(*ssa.FieldAddr)
				if !isFA {
					continue
				}
				for _, rr := range *fa.Referrers() {
					if st, isS := rr.(*ssa.Store); isS && st.Addr == ssa.Value(fa) {
						ex = append(ex, fieldStore{Field: fieldName(p.Type(), fa.Field), Val: st.Val, Instr: st, At: h.call, Env: h.env})
					}
				}
			}
		}
		return ex
	}
	for _, a := range o.inner {
		for _, fs := range storesInto(a) {
			fs.At, fs.Env = o.call, o.env
			out = append(out, fs)
		}
	}
	for _, r := range *o.v.Referrers() {
		fa, ok := r.(*ssa.FieldAddr)
		if !ok {
			continue
		}
		for _, rr := range *fa.Referrers() {
			if st, ok := rr.(*ssa.Store); ok && st.Addr == ssa.Value(fa) {
				out = append(out, fieldStore{Field: fieldName(o.v.Type(), fa.Field), Val: st.Val, Instr: st, At: st})
			}
		}
	}
	return out
}

// cellValue: v is a load of a local cell; returns the value last stored into the cell before the load in the same
// block (v itself if there is none).
func cellValue(v ssa.Value) ssa.Value {
	ld, ok := v.(*ssa.UnOp)
	if !ok || ld.Op != token.MUL || ld.Block() == nil {
		return v
	}
	al, ok := ld.X.(*ssa.Alloc)
	if !ok {
		return v
	}
	var last ssa.Value
	for _, in := range ld.Block().Instrs {
		if in == ssa.Instruction(ld) {
			break
		}
		if st, isS := in.(*ssa.Store); isS && st.Addr == ssa.Value(al) {
			last = st.Val
		}
	}
	if last != nil {
		return last
	}
	return v
}

// schemaRef: the decoded request of a per-type parse function — what a decoding helper hands back for the request
// parameter, or a struct of the request type that json.Unmarshal fills in place from it.
type schemaRef struct {
	SC   string        // path of the decoded request
	call *ssa.Call     // the call of the decoding helper (nil when decoded in place)
	dec  *ssa.Function // the function that holds the json.Unmarshal: the helper, or the parse function itself
	typ  types.Type
}

func (c *Ctx) requestSchema(f *ssa.Function, typeSub string) *schemaRef {
	for _, cl := range findCalls(f, func(cl *ssa.Call) bool {
		a := declArgs(cl)
		return len(a) == 1 && c.Path(a[0], nil) == "$1" && strings.Contains(typeShort(cl.Type()), typeSub)
	}) {
		var t types.Type
		if tup, ok := cl.Type().(*types.Tuple); ok && tup.Len() > 0 {
			t = derefT(tup.At(0).Type())
		}
		sc := c.Path(cl, nil) + "#0"
		// a decoding helper that hands on what an inner (shared, generic) decoder handed back: the request is named
		// after the inner call, in the helper's frame and here alike
		if dec := cl.Call.StaticCallee(); dec != nil && inModule(dec) && dec.Blocks != nil {
			if srs := successReturns(dec); len(srs) == 1 {
				if ex, isEx := returnedValue(srs[0], 0).(*ssa.Extract); isEx {
					if _, isCall := ex.Tuple.(*ssa.Call); isCall {
						if c.inlineFns == nil {
							c.inlineFns = map[*ssa.Function]bool{}
						}
						c.inlineFns[dec] = true
						if ev := extractOf(cl, 0); ev != nil {
							sc = c.Path(ev, nil)
						}
					}
				}
			}
		}
		return &schemaRef{SC: sc, call: cl, dec: cl.Call.StaticCallee(), typ: t}
	}
	for _, cl := range findCalls(f, func(cl *ssa.Call) bool {
		g := cl.Call.StaticCallee()
		return g != nil && g.String() == "encoding/json.Unmarshal" && len(cl.Call.Args) == 2 && c.Path(cl.Call.Args[0], nil) == "$1"
	}) {
		tgt := cl.Call.Args[1]
		if mi, ok := tgt.(*ssa.MakeInterface); ok {
			tgt = mi.X
		}
		if al, ok := tgt.(*ssa.Alloc); ok && strings.Contains(typeShort(al.Type()), typeSub) {
			return &schemaRef{SC: c.Path(al, nil), dec: f, typ: derefT(al.Type())}
		}
	}
	// the request struct made here and filled by an unexported helper that is handed the bytes and the struct (an
	// out-parameter) and hands them to json.Unmarshal
	jsonU := c.ExtFn("encoding/json", "Unmarshal")
	for _, cl := range findCalls(f, func(cl *ssa.Call) bool {
		g := cl.Call.StaticCallee()
		a := declArgs(cl)
		return g != nil && inModule(g) && g.Blocks != nil && g.Object() != nil && !g.Object().Exported() && len(a) == 2 && c.Path(a[0], nil) == "$1"
	}) {
		al, ok := declArgs(cl)[1].(*ssa.Alloc)
		if !ok || !strings.Contains(typeShort(al.Type()), typeSub) {
			continue
		}
		g := cl.Call.StaticCallee()
		genv := c.calleeEnv(&cl.Call, g, nil)
		fills := false
		for _, u := range callsTo(g, jsonU) {
			tgt := u.Call.Args[1]
			if mi, isMI := tgt.(*ssa.MakeInterface); isMI {
				tgt = mi.X
			}
			if c.Path(u.Call.Args[0], genv) == "$1" && c.Path(tgt, genv) == c.Path(al, nil) {
				fills = true
			}
		}
		if fills {
			return &schemaRef{SC: c.Path(al, nil), dec: f, typ: derefT(al.Type())}
		}
	}
	return nil
}

// memberArgs: for a two-argument call of a membership function (list, wanted in either order) — which argument is the
// list that is searched and which the value looked for.
func memberArgs(cl *ssa.Call) (list, wanted ssa.Value) {
	a := cl.Call.Args
	if len(a) != 2 {
		return nil, nil
	}
	if _, isSl := a[0].Type().Underlying().(*types.Slice); isSl {
		return a[0], a[1]
	}
	if _, isSl := a[1].Type().Underlying().(*types.Slice); isSl {
		return a[1], a[0]
	}
	return a[0], a[1]
}

// objHelper is a call that hands a built object to an unexported helper of the package.
type objHelper struct {
	call *ssa.Call
	g    *ssa.Function
	k    int // the parameter that receives the object
	env  Env
}

func (c *Ctx) objHelperCalls(o *builtObj) []objHelper {
	var out []objHelper
	if o.v.Referrers() == nil {
		return nil
	}
	f := o.v.(ssa.Instruction).Parent()
	for _, r := range *o.v.Referrers() {
		cl, ok := r.(*ssa.Call)
		if !ok {
			continue
		}
		g := cl.Call.StaticCallee()
		if g == nil || !inModule(g) || g.Blocks == nil || pkgPathOf(g) != pkgPathOf(f) || g.Object() == nil || g.Object().Exported() {
			continue
		}
		for i, a := range cl.Call.Args {
			if a == o.v && i < len(g.Params) {
				out = append(out, objHelper{cl, g, i, c.calleeEnv(&cl.Call, g, nil)})
			}
		}
	}
	return out
}

// containsFuncLike: a module function written like slices.ContainsFunc — func(items []T, pred func(T) bool) bool with
// one loop over items that calls pred on the element, answers true exactly where pred did and false after the loop.
func containsFuncLike(g *ssa.Function) bool {
	if g == nil || !inModule(g) || g.Blocks == nil || len(g.Params) != 2 || !boolResult(g) {
		return false
	}
	if _, ok := g.Params[0].Type().Underlying().(*types.Slice); !ok {
		return false
	}
	sig, ok := g.Params[1].Type().Underlying().(*types.Signature)
	if !ok || sig.Params().Len() != 1 || sig.Results().Len() != 1 || !isBoolType(sig.Results().At(0).Type()) {
		return false
	}
	loops := naturalLoops(g)
	if len(loops) != 1 {
		return false
	}
	var pc *ssa.Call
	n := 0
	forEachInstr(g, func(in ssa.Instruction) {
		if cl, isC := in.(*ssa.Call); isC {
			if _, isB := cl.Call.Value.(*ssa.Builtin); isB {
				return
			}
			n++
			if cl.Call.Value == ssa.Value(g.Params[1]) && loops[0].blocks[cl.Block()] && len(cl.Call.Args) == 1 {
				// the element of items at the loop's own index
				switch a := cl.Call.Args[0].(type) {
				case *ssa.UnOp:
					if ia, isIA := a.X.(*ssa.IndexAddr); isIA && ia.X == ssa.Value(g.Params[0]) {
						pc = cl
					}
				case *ssa.Index:
					if a.X == ssa.Value(g.Params[0]) {
						pc = cl
					}
				}
			}
		}
	})
	if pc == nil || n != 1 {
		return false
	}
	trueTo := map[*ssa.BasicBlock]bool{}
	for _, e := range boolEdgesT(pc, true) {
		trueTo[e.to] = true
	}
	for _, r := range returnsOf(g) {
		k, isK := r.Results[0].(*ssa.Const)
		if !isK || k.Value == nil {
			return false
		}
		if constant.BoolVal(k.Value) {
			dom := false
			for b := range trueTo {
				dom = dom || b.Dominates(r.Block())
			}
			if !dom {
				return false
			}
		} else if loops[0].blocks[r.Block()] {
			return false
		}
	}
	return true
}
